-- Root of the `NibabelModel` library: everything that `lake build` must check.
import NibabelModel.Basic.PySlice
