import NibabelModel.Model.C07
import Driver.Util
/-! Line-protocol driver for C07.

  `C07 run  <cls> <owned 0|1> <off,dt,slope,inter> <alias> <aff> <xflip 0|1> <src> <exts> <mat> <resolve> <table> <ops>`
  `C07 runq …same…`   (saves by file NAME: the I/O calls are not observable, so `n=… […]` is not printed)
  `C07 runn …same…`   (saves by file NAME through instrumented openers: `saveByName`, I/O calls printed, faults allowed)
  `C07 matload <flip 0|1> <mat> <M>`   (`Spm99AnalyzeImage.from_file_map` on a `.mat` file; matrices `-` = absent)

  * slope/inter: `n` (NaN) or the raw bits as a natural number; alias: `-`|`c`|`s`
  * aff: `-` (affine None) or 16 integers `,`-separated (row major); src: `a` (array) | `m<file>` (proxy with
    memory map on the file with that identity) | `r<file>` (proxy, no memory map) | `v<file>:<chain>` (an array held
    by the image whose owners are `chain`, letters M memmap / m mmap / v memoryview / n ndarray / o other)
  `C07 wdata <8 flags 0|1>`   (one iteration of the slice loop of `_write_data`: `1` if it stores into its input)
  `C07 mapsfile <chain>`   (`volumeutils.maps_file` on an object with that chain of owners → `1` | `0`)
  * exts: `-` or `content:pad,content:pad,…`; mat: `-` or `n,n,…` (write sizes)
  * resolve: `<compat>,<smallest>`, each a dtype code or `x` (ValueError)
  * table: `-` or `code:wok:slope:inter:nWrites:wBytes;…` (writer externals per out dtype code; wok `0` =
    make_array_writer raises WriterError, `1` = fine, `2` = `hdr.set_slope_inter` raises HeaderDataError)
  * ops: `;`-separated — `S:<dt>:<fault>:<fm>` (dt `-`|`c<code>`|`ac`|`as`|`x`; fault `-`|`k<n>`|`b<n>`;
    fm `-`|id), optionally `:<identity of the destination image file>`; `D:<code>`, `A:<c|s>`; add the
    prefix `O` to `S` (`OS:…`) to run the ORIGINAL save; `E:<aff|=>:<rest|=>:<pending|->`: an in-place edit of
    the affine (`=`: unchanged) and/or of the header bytes (`rest` = id of the non-consumable header bytes
    right after the edit, `pending` = id `update_header()` would turn them into, `-` if it would not).

  Output: one block per op joined by ` | `:
    `<ok|ERR:…> n=<io calls> [<io log>] <state> out=<id|->[ M=<16 ints>/<16 ints>]`  (saves)   /   `<ok|ERR:…> <state>`
  state = `off,dt,slope,inter,alias,fm,hdrobj,h<first-seen id of the header fields>,a<first-seen id of the
  affine>,x<default_x_flip>,d<first-seen id of the data>`; `M=` are the variables M / mat of the `.mat` file. -/
namespace Nb.Drv.C07
open Nb.C07

def parseCls? : String → Option Cls
  | "analyze" => some .analyze | "spm99" => some .spm99 | "spm2" => some .spm2
  | "n1pair" => some .n1pair | "n1single" => some .n1single
  | "n2pair" => some .n2pair | "n2single" => some .n2single
  | "mgh" => some .mgh | "cifti2" => some .cifti2
  | _ => none

def parseScl? (s : String) : Option Scl :=
  if s = "n" then some none else s.toNat?.map some

def parseAliasOpt? : String → Option (Option Alias)
  | "-" => some none | "c" => some (some .compat) | "s" => some (some .smallest)
  | _ => none

def parseBool? : String → Option Bool
  | "0" => some false | "1" => some true | _ => none

def parseHdr? (s : String) : Option Hdr :=
  match s.splitOn "," with
  | [o, d, sl, i] =>
      match o.toNat?, d.toNat?, parseScl? sl, parseScl? i with
      | some o, some d, some sl, some i => some ⟨o, d, sl, i⟩
      | _, _, _, _ => none
  | _ => none

def parseExts? (s : String) : Option (List (Nat × Nat)) :=
  if s = "-" then some [] else
    (s.splitOn ",").mapM fun e =>
      match e.splitOn ":" with
      | [a, b] => match a.toNat?, b.toNat? with
          | some a, some b => some (a, b)
          | _, _ => none
      | _ => none

def parseCodeOpt? (s : String) : Option (Option Nat) :=
  if s = "x" then some none else s.toNat?.map some

def parseResolve? (s : String) : Option (Alias → Option Nat) :=
  match s.splitOn "," with
  | [c, m] => match parseCodeOpt? c, parseCodeOpt? m with
      | some c, some m => some (fun a => match a with | .compat => c | .smallest => m)
      | _, _ => none
  | _ => none

/-- writer outcome token: (wok, slopeRaises) -/
def parseWok? : String → Option (Bool × Bool)
  | "0" => some (false, false) | "1" => some (true, false) | "2" => some (true, true) | _ => none

def parseTable? (s : String) : Option (List (Nat × WEntry × Bool)) :=
  if s = "-" then some [] else
    (s.splitOn ";").mapM fun e =>
      match e.splitOn ":" with
      | [c, ok, sl, i, nw, wb] =>
          match c.toNat?, parseWok? ok, parseScl? sl, parseScl? i, nw.toNat?, wb.toNat? with
          | some c, some ok, some sl, some i, some nw, some wb => some (c, ⟨ok.1, sl, i, nw, wb⟩, ok.2)
          | _, _, _, _, _, _ => none
      | _ => none

def parseDt? (s : String) : Option DtReq :=
  if s = "-" then some .none
  else if s = "x" then some .bad
  else if s = "ac" then some (.alias .compat)
  else if s = "as" then some (.alias .smallest)
  else if s.startsWith "c" then (s.drop 1).toString.toNat?.map DtReq.code
  else none

def parseFault? (s : String) : Option Fault :=
  if s = "-" then some .none
  else if s.startsWith "k" then (s.drop 1).toString.toNat?.map Fault.call
  else if s.startsWith "b" then (s.drop 1).toString.toNat?.map Fault.bytes
  else none

def parseInt? (s : String) : Option Int :=
  if s.startsWith "-" then (s.drop 1).toString.toNat?.map (fun n => - (Int.ofNat n)) else s.toNat?.map Int.ofNat

def parseM4? (s : String) : Option M4 :=
  match (s.splitOn ",").mapM parseInt? with
  | some [a, b, c, d, e, f, g, h, i, j, k, l, m, n, o, p] =>
      some ⟨⟨a, b, c, d⟩, ⟨e, f, g, h⟩, ⟨i, j, k, l⟩, ⟨m, n, o, p⟩⟩
  | _ => none

def parseAff? (s : String) : Option (Option M4) :=
  if s = "-" then some none else (parseM4? s).map some

def parseOwner? : String → Option Owner
  | "M" => some .memmap | "m" => some .mmap | "v" => some .memoryview | "n" => some .ndarray | "o" => some .other
  | _ => none

/-- chain of owners: `-` (empty) or letters `,`-separated -/
def parseChain? (s : String) : Option (List Owner) :=
  if s = "-" then some [] else (s.splitOn ",").mapM parseOwner?

def parseSrc? (s : String) : Option Src :=
  if s = "a" then some .array
  else if s.startsWith "v" then
    match (s.drop 1).toString.splitOn ":" with
    | [f, ch] => match f.toNat?, parseChain? ch with
        | some f, some ch => some (Src.view f ch)
        | _, _ => none
    | _ => none
  else if s.startsWith "m" then (s.drop 1).toString.toNat?.map (fun f => Src.proxy f true)
  else if s.startsWith "r" then (s.drop 1).toString.toNat?.map (fun f => Src.proxy f false)
  else none

def showM4 (m : M4) : String := ",".intercalate (m.toList.map toString)

def parseFm? (s : String) : Option (Option Nat) :=
  if s = "-" then some none else s.toNat?.map some

inductive DOp where
  | save (orig : Bool) (req : SaveReq) (dest : Nat)
  | setDtype (c : Nat)
  | setAlias (a : Alias)
  | edit (aff : Option (Option M4)) (rest : Option Nat) (pending : Option Nat)

def parseKeep? {α} (f : String → Option α) (s : String) : Option (Option α) :=
  if s = "=" then some none else (f s).map some

def parseOp? (s : String) : Option DOp :=
  match s.splitOn ":" with
  | [k, dt, f, fm] =>
      if k = "E" then
        match parseKeep? parseAff? dt, parseKeep? String.toNat? f, parseFm? fm with
        | some a, some r, some p => some (.edit a r p)
        | _, _, _ => none
      else if k = "S" ∨ k = "OS" then
        match parseDt? dt, parseFault? f, parseFm? fm with
        | some dt, some f, some fm => some (.save (k = "OS") ⟨dt, fm, f⟩ 0)
        | _, _, _ => none
      else none
  | [k, dt, f, fm, dest] =>
      if k = "S" ∨ k = "OS" then
        match parseDt? dt, parseFault? f, parseFm? fm, dest.toNat? with
        | some dt, some f, some fm, some dest => some (.save (k = "OS") ⟨dt, fm, f⟩ dest)
        | _, _, _, _ => none
      else none
  | ["D", c] => c.toNat?.map DOp.setDtype
  | ["A", "c"] => some (.setAlias .compat)
  | ["A", "s"] => some (.setAlias .smallest)
  | _ => none

def showErr : Option Err → String
  | none => "ok"
  | some .os => "ERR:OSError" | some .writer => "ERR:WriterError"
  | some .headerData => "ERR:HeaderDataError" | some .value => "ERR:ValueError"
  | some .type => "ERR:TypeError" | some .assertion => "ERR:AssertionError"

def showScl : Scl → String
  | none => "n" | some b => toString b

def showAlias : Option Alias → String
  | none => "-" | some .compat => "c" | some .smallest => "s"

def showFile : File → String
  | .header => "h" | .image => "i" | .mat => "m"

def showCall (c : IoCall) : String :=
  showFile c.file ++ (match c.kind with
    | .write n => "w" ++ toString n | .seek t => "s" ++ toString t | .tell => "t" | .close => "c")

/-- first-seen index of `x` in `seen` (appending it when new) -/
def firstSeen {α} [DecidableEq α] (seen : List α) (x : α) : List α × Nat :=
  match seen.idxOf? x with
  | some i => (seen, i)
  | none => (seen ++ [x], seen.length)

structure St where
  img   : Img
  quiet : Bool
  byName : Bool
  affs  : List (Option M4)
  datas : List Nat
  hdrs  : List (Hdr × Nat)
  outs  : List (List Chunk)
  acc   : List String

def showState (st : St) (img : Img) : St × String :=
  let (hs, hid) := firstSeen st.hdrs (img.core.hdr, img.core.rest)
  let (as, aid) := firstSeen st.affs img.core.affine
  let (ds, did) := firstSeen st.datas img.core.data
  let h := img.core.hdr
  let x := if img.core.xflip then 1 else 0
  ({ st with hdrs := hs, affs := as, datas := ds },
   s!"{h.offset},{h.dtype},{showScl h.slope},{showScl h.inter},{showAlias img.core.alias},{img.fileMap},{img.core.hdrObj},h{hid},a{aid},x{x},d{did}")

def showMat (out : List Chunk) : String :=
  match out.filterMap (fun c => match c with | .mat M m => some (M, m) | _ => none) with
  | [] => ""
  | (M, m) :: _ => s!" M={showM4 M}/{showM4 m}"

def runOp (cls : Cls) (env : Env) (st : St) : DOp → St
  | .save orig req dest =>
      let env := { env with destImage := dest }
      let o := if orig then saveOrig cls env req st.img
               else if st.byName then saveByName cls env req st.img else save cls env req st.img
      let (st1, s) := showState st o.img
      let (outs, oid) := match o.err with
        | none => let (os, i) := firstSeen st1.outs o.out; (os, toString i)
        | some _ => (st1.outs, "-")
      let io := if st.quiet then "" else s!" n={o.calls} [{",".intercalate (o.log.map showCall)}]"
      let mat := match o.err with | none => showMat o.out | some _ => ""
      let line := s!"{showErr o.err}{io} {s} out={oid}{mat}"
      { st1 with img := o.img, outs := outs, acc := st1.acc ++ [line] }
  | .setDtype c =>
      let r := step cls st.img (.setDtype c)
      let (st1, s) := showState st r.2
      { st1 with img := r.2, acc := st1.acc ++ [s!"{showErr r.1} {s}"] }
  | .setAlias a =>
      let r := step cls st.img (.setAlias a)
      let (st1, s) := showState st r.2
      { st1 with img := r.2, acc := st1.acc ++ [s!"{showErr r.1} {s}"] }
  | .edit aff rest pending =>
      let k := st.img.core
      let img := { st.img with core := { k with affine := aff.getD k.affine, rest := rest.getD k.rest,
                                                  pending := pending } }
      let (st1, s) := showState st img
      { st1 with img := img, acc := st1.acc ++ [s!"ok {s}"] }

def handleRun (quiet byName : Bool) : List String → String
  | [cls, owned, hdr, alias, aff, xflip, src, exts, mat, resolve, table, ops] =>
      match parseCls? cls, parseBool? owned, parseHdr? hdr, parseAliasOpt? alias, parseExts? exts,
            parseNatList? mat, parseResolve? resolve, parseTable? table, (ops.splitOn ";").mapM parseOp? with
      | some cls, some owned, some hdr, some alias, some exts, some mat, some resolve, some table, some ops =>
          match parseAff? aff, parseBool? xflip, parseSrc? src with
          | some aff, some xflip, some src =>
              let writer : Nat → WEntry := fun c =>
                match table.lookup c with
                | some e => e.1
                | none => ⟨false, none, none, 0, 0⟩
              let bad : Nat → Bool := fun c =>
                match table.lookup c with
                | some e => e.2
                | none => false
              let env : Env := { owned := owned, exts := exts, mat := mat, resolve := resolve, writer := writer,
                                 slopeRaises := bad }
              let img : Img := { core := { hdr := hdr, alias := alias, data := 1, affine := aff, xflip := xflip,
                                           src := src, hdrObj := 0 }, fileMap := 0 }
              let (st0, s0) := showState { img := img, quiet := quiet, byName := byName, affs := [], datas := [], hdrs := [],
                                           outs := [], acc := [] } img
              let st := ops.foldl (runOp cls env) { st0 with acc := [s0] }
              " | ".intercalate st.acc
          | _, _, _ => "bad-op"
      | _, _, _, _, _, _, _, _, _ => "bad-op"
  | _ => "bad-op"

def handle : List String → String
  | "run" :: rest => handleRun false false rest
  | "runq" :: rest => handleRun true true rest
  | "runn" :: rest => handleRun false true rest
  | ["gzhdr", kind, level, mtime, clock, path] =>
      -- header of the gzip member written by nibabel's sink (`nib`, mtime argument given) or by plain
      -- `gzip.GzipFile(path, 'wb', level)` (`plain`; mtime ignored); path = bytes `,`-separated
      match level.toNat?, mtime.toNat?, clock.toNat?, parseNatList? path with
      | some level, some mtime, some clock, some path =>
          if kind = "nib" then ",".intercalate ((gzHeader (nibSink path level mtime) clock).map toString)
          else if kind = "plain" then ",".intercalate ((gzHeader (plainSink path level) clock).map toString)
          else "bad-op"
      | _, _, _, _ => "bad-op"
  | ["wdata", a, b, c, d, e, f, g, h] =>
      -- one iteration of the slice loop of `_write_data` with these branches taken: does it store into its input?
      match parseBool? a, parseBool? b, parseBool? c, parseBool? d, parseBool? e, parseBool? f, parseBool? g, parseBool? h with
      | some a, some b, some c, some d, some e, some f, some g, some h =>
          if sliceLoopStoresIntoInput ⟨a, b, c, d, e, f, g, h⟩ then "1" else "0"
      | _, _, _, _, _, _, _, _ => "bad-op"
  | ["mapsfile", chain] =>
      -- `maps_file(arr)` on the chain of owners of `arr`
      match parseChain? chain with
      | some ch => if mapsFile ch then "1" else "0"
      | none => "bad-op"
  | ["matload", flip, mat, M] =>
      match parseBool? flip, parseAff? mat, parseAff? M with
      | some flip, some mat, some M =>
          match loadMat flip mat M with
          | some a => showM4 a
          | none => "ERR:ValueError"
      | _, _, _ => "bad-op"
  | _ => "bad-op"

end Nb.Drv.C07

def main : IO Unit := Nb.Drv.runDriver "C07" Nb.Drv.C07.handle
