import NibabelModel.Model.C07
import Driver.Util
/-! Line-protocol driver for C07: `C07 <op> <args...>` -> one observable line. -/
namespace Nb.Drv.C07

def handle : List String → String
  | _ => "bad-op"

end Nb.Drv.C07

def main : IO Unit := Nb.Drv.runDriver "C07" Nb.Drv.C07.handle
