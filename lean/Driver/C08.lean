import NibabelModel.Model.C08
import Driver.Util
/-! Line-protocol driver for C08: `C08 <op> <args...>` -> one observable line. -/
namespace Nb.Drv.C08

def handle : List String → String
  | _ => "bad-op"

end Nb.Drv.C08

def main : IO Unit := Nb.Drv.runDriver "C08" Nb.Drv.C08.handle
