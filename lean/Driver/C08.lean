import NibabelModel.Model.C08
import NibabelModel.Model.C08_Any
import Driver.Util
/-! Line-protocol driver for C08: `C08 <op> <args...>` -> `<outcome> <plain length>`.

    outcome: `X` the model reader raises, `E` it returns exactly the written data, `D` it returns
    something else (possible only for the pre-fix TRK reader / header count 0).

    ops
    * `vol <hdrSize> <sniffLen> <exts 0|1> <fixedOff _|n> <footerSize> <member single|hdr|img|cifti>
           <extender0> <payload lens a,b|-> <padLen> <dataLen> <footerLen> <mmap 0|1> <comp 0|1>
           <tail _|a> <k> <m> <strict 0|1>`   (`tail a`: partial read `dataobj[..., -1]` = data bytes from `a`;
      `s:<isz>:<shape>:<idx>`: partial read `dataobj[idx]`, idx items `i<k>` / `s<a>,<b>,<c>` (`_` = None) joined by `;`)
    * `trk <nsc> <npr> <npts a,b|-> <count _|n> <orig 0|1> <k> <m> <strict>`
    * `tck <hex header lines a,b|-> <npts a,b|-> <k> <m> <strict>`
    * `tckb <buffer bytes> <hex header lines> <npts> <k> <m> <strict>`  the chunked loop of `_read` with that buffer size
    * `tckg <buffer bytes> <hex header lines> <npts> <k> <m> <sched c,c,..|->`  `_read` over a SHORT-READING file object:
      the i-th `readinto` of the data loop delivers at most `c` bytes (`f`: in full, `r`: raises) — `tckReadBG`/`schedRd`
    * `trkg <nsc> <npr> <npts> <k> <m> <T>`  TRK reader over a file object that raises on every request reaching
      beyond byte `T` (`trkReadGenG`; `T ≥ m`: never before the end of the available bytes)
    * `hdrtab <hdrSize> <sniffLen> <exts> <fixedOff _|n> <footer> <len> <strict>`  header phase of `nib.load` and of the
      class loader on a header file of `len` synthetic bytes: `<X|K> <X|K> <hdrRefuses 0|1>`
    * `tckbuf <n> <c>`  `tckBufferSize`
    (`hdr`/`img` members: `<padLen>` = data offset inside the image file)
    * `xml <plainLen> <rootEnd> <k> <m> <strict>`
    `k` = bytes on disk (0 ⇒ `load` refuses), `m`/`strict` = what the opened file delivers. -/
namespace Nb.Drv.C08
open Nb Nb.C08

def parseBool? (s : String) : Option Bool :=
  if s = "0" then some false else if s = "1" then some true else none

def parseOptNat? (s : String) : Option (Option Nat) :=
  if s = "_" then some none else s.toNat?.map some

def hexVal? (c : Char) : Option Nat :=
  if '0' ≤ c ∧ c ≤ '9' then some (c.toNat - 48)
  else if 'a' ≤ c ∧ c ≤ 'f' then some (c.toNat - 87) else none

def parseHex? : List Char → Option Bytes
  | [] => some []
  | [_] => none
  | a :: b :: r => do
    let x ← hexVal? a
    let y ← hexVal? b
    let t ← parseHex? r
    pure ((16 * x + y) :: t)

def parseHexList? (s : String) : Option (List Bytes) :=
  if s = "-" then some [] else (s.splitOn ",").mapM (fun t => parseHex? t.toList)

def parseItem? (s : String) : Option C06.IdxItem :=
  if s = "n" then some .newaxis
  else if s = "e" then some .ellipsis
  else if s.startsWith "i" then (s.drop 1).toString.toInt?.map C06.IdxItem.int
  else if s.startsWith "s" then
    match ((s.drop 1).toString.splitOn ",").mapM parseOptInt? with
    | some [a, b, c] => some (.slice ⟨a, b, c⟩)
    | _ => none
  else none

/-- what is read: `_` everything, `<a>` the data bytes from `a` on, `s:<isz>:<shape>:<idx>` the partial
    read `dataobj[idx]` -/
inductive What where
  | all
  | tail (a : Nat)
  | slice (isz : Nat) (shape : List Nat) (idx : List C06.IdxItem)

def parseWhat? (s : String) : Option What :=
  if s = "_" then some .all
  else match s.splitOn ":" with
    | ["s", isz, shape, idx] =>
      match isz.toNat?, parseNatList? shape, (idx.splitOn ";").mapM parseItem? with
      | some isz, some shape, some idx => some (.slice isz shape idx)
      | _, _, _ => none
    | [a] => a.toNat?.map What.tail
    | _ => none

/-- `c,c,…`: `f` = in full, `r` = raise, a number = at most that many bytes; `-` = empty -/
def parseSched? (s : String) : Option (List (Option Nat)) :=
  if s = "-" then some []
  else (s.splitOn ",").mapM (fun t =>
    if t = "r" then some none
    else if t = "f" then some (some 1000000000)
    else t.toNat?.map some)

/-- deterministic synthetic content -/
def synth (seed n : Nat) : Bytes := (List.range n).map (fun i => (i * 7 + seed * 13 + 3) % 251)

/-- finite float32 triple: exponent bytes kept away from 255 -/
def synthTriple (seed : Nat) : Bytes :=
  (List.range 3).flatMap (fun c => [(seed * 5 + c) % 256, (seed * 11 + c * 3) % 256, (seed + c) % 128, 64 + (seed + c) % 3])

def outcome {α : Type} [DecidableEq α] (r : Except Err α) (want : α) : String :=
  match r with
  | .error _ => "X"
  | .ok v => if v = want then "E" else "D"

def handle : List String → String
  | ["vol", hs, sl, ex, fo, ft, member, e0, pl, padn, dn, fn, mm, cp, tl, k, m, st] =>
      match hs.toNat?, sl.toNat?, parseBool? ex, parseOptNat? fo, ft.toNat?, e0.toNat?, parseNatList? pl,
            padn.toNat?, dn.toNat?, fn.toNat?, parseBool? mm, parseBool? cp, parseWhat? tl, k.toNat?, m.toNat?,
            parseBool? st with
      | some hs, some sl, some ex, some fo, some ft, some e0, some pl, some padn, some dn, some fn, some mm,
        some cp, some tl, some k, some m, some st =>
          if hs < 16 then "bad-op" else
          let fmt : VolFmt := ⟨hs, sl, ex, fo, ft⟩
          let img : Img := { fill := synth 1 (hs - 16), extender := [e0, 0, 0, 0],
                             exts := pl.zipIdx.map (fun (n, i) => (6, synth (i + 2) n)),
                             pad := List.replicate padn 0, data := synth 5 dn, footer := synth 9 fn }
          let um := effMmap mm cp
          -- the bytes a read of the COMPLETE file delivers (`dataFile`: the file holding the data)
          let want (dataFile : Bytes) (off : Nat) : Bytes := match tl with
            | .all => img.data
            | .tail a => img.data.drop a
            | .slice isz shape idx =>
              match C06.calcSlicedefs (C06.thresholdHeuristic skipThresh) idx shape isz off .F with
              | .ok d => match natSegs d.segments with
                | some segs => sliceBytes dataFile segs
                | none => []
              | .error _ => []
          if member = "single" then
            let file := writeSingle fmt img
            let s : Src := ⟨file.take m, st⟩
            let r := match tl with
              | .all => readSingle fmt um s
              | .tail a => readTailSingle fmt s a
              | .slice isz shape idx => readSliceSingle fmt s idx shape isz
            outcome (load k r) (want file (singleOff fmt img)) ++ " " ++ toString file.length
          else if member = "cifti" then
            -- CIFTI-2: NIfTI-2 single file + XML (first extension) through the expat contract
            let file := writeSingle fmt img
            let s : Src := ⟨file.take m, st⟩
            let xmlLen := match pl with | n :: _ => n | [] => 0
            outcome (load k (ciftiRead fmt um xmlLen s)) img.data ++ " " ++ toString file.length
          else if member = "hdr" then
            let file := writeHdrFileAt fmt img
            let hs : Src := ⟨file.take m, st⟩
            let is := Src.plain (writeImgFileAt img)
            let r := match tl with
              | .all => readPair fmt um hs is
              | .tail a => readTailPair fmt hs is a
              | .slice isz shape idx => readSlicePair fmt hs is idx shape isz
            outcome (load k r) (want (writeImgFileAt img) padn) ++ " " ++ toString file.length
          else if member = "img" then
            let file := writeImgFileAt img
            let hs := Src.plain (writeHdrFileAt fmt img)
            let is : Src := ⟨file.take m, st⟩
            let r := match tl with
              | .all => readPair fmt um hs is
              | .tail a => readTailPair fmt hs is a
              | .slice isz shape idx => readSlicePair fmt hs is idx shape isz
            outcome (load k r) (want file padn) ++ " " ++ toString file.length
          else "bad-op"
      | _, _, _, _, _, _, _, _, _, _, _, _, _, _, _, _ => "bad-op"
  | ["trk", nsc, npr, npts, cnt, orig, _k, m, st] =>
      match nsc.toNat?, npr.toNat?, parseNatList? npts, parseOptNat? cnt, parseBool? orig, m.toNat?, parseBool? st with
      | some nsc, some npr, some npts, some cnt, some orig, some m, some st =>
          let recs : List TrkRec := npts.zipIdx.map (fun (n, i) =>
            { npts := n, pts := synth (i + 1) (n * (3 + nsc) * 4), props := synth (i + 40) (npr * 4) })
          let t : Trk := { nsc := nsc, npr := npr, fillA := synth 2 36, fillB := synth 3 200,
                           fillC := synth 4 748, recs := recs }
          let file := trkHeader t (cnt.getD recs.length) ++ trkBody recs
          outcome (trkReadGen (!orig) ⟨file.take m, st⟩) (trkData t) ++ " " ++ toString file.length
      | _, _, _, _, _, _, _ => "bad-op"
  | ["tck", lines, npts, _k, m, st] =>
      match parseHexList? lines, parseNatList? npts, m.toNat?, parseBool? st with
      | some lines, some npts, some m, some st =>
          let streams : List (List Bytes) := npts.zipIdx.map (fun (n, i) =>
            (List.range n).map (fun j => synthTriple (i * 17 + j)))
          let t : Tck := { lines := lines, streams := streams }
          let file := tckWrite t
          outcome (tckRead ⟨file.take m, st⟩) (streams.filter (· ≠ [])) ++ " " ++ toString file.length
      | _, _, _, _ => "bad-op"
  | ["tckb", bsz, lines, npts, _k, m, st] =>
      match bsz.toNat?, parseHexList? lines, parseNatList? npts, m.toNat?, parseBool? st with
      | some bsz, some lines, some npts, some m, some st =>
          if bsz = 0 ∨ bsz % 12 ≠ 0 then "bad-op" else
          let streams : List (List Bytes) := npts.zipIdx.map (fun (n, i) =>
            (List.range n).map (fun j => synthTriple (i * 17 + j)))
          let t : Tck := { lines := lines, streams := streams }
          let file := tckWrite t
          outcome (tckReadB bsz ⟨file.take m, st⟩) (streams.filter (· ≠ [])) ++ " " ++ toString file.length
      | _, _, _, _, _ => "bad-op"
  | ["tckg", bsz, lines, npts, _k, m, sched] =>
      match bsz.toNat?, parseHexList? lines, parseNatList? npts, m.toNat?, parseSched? sched with
      | some bsz, some lines, some npts, some m, some sched =>
          if bsz = 0 ∨ bsz % 12 ≠ 0 then "bad-op" else
          let streams : List (List Bytes) := npts.zipIdx.map (fun (n, i) =>
            (List.range n).map (fun j => synthTriple (i * 17 + j)))
          let t : Tck := { lines := lines, streams := streams }
          let file := tckWrite t
          let bytes := file.take m
          let rd := schedRd bytes (tckHeader t).length bsz sched
          outcome (tckReadBG bsz bytes rd none) (streams.filter (· ≠ [])) ++ " " ++ toString file.length
      | _, _, _, _, _ => "bad-op"
  | ["trkg", nsc, npr, npts, _k, m, thr] =>
      match nsc.toNat?, npr.toNat?, parseNatList? npts, m.toNat?, thr.toNat? with
      | some nsc, some npr, some npts, some m, some thr =>
          let recs : List TrkRec := npts.zipIdx.map (fun (n, i) =>
            { npts := n, pts := synth (i + 1) (n * (3 + nsc) * 4), props := synth (i + 40) (npr * 4) })
          let t : Trk := { nsc := nsc, npr := npr, fillA := synth 2 36, fillB := synth 3 200,
                           fillC := synth 4 748, recs := recs }
          let file := trkWrite t
          let bytes := file.take m
          let rdf : Nat → Nat → Except Err Bytes := fun pos n =>
            if thr < pos + n then .error .trunc else .ok ((bytes.drop pos).take n)
          outcome (trkReadGenG true bytes rdf) (trkData t) ++ " " ++ toString file.length
      | _, _, _, _, _ => "bad-op"
  | ["hdrtab", hs, sl, ex, fo, ft, len, st] =>
      match hs.toNat?, sl.toNat?, parseBool? ex, parseOptNat? fo, ft.toNat?, len.toNat?, parseBool? st with
      | some hs, some sl, some ex, some fo, some ft, some len, some st =>
          let fmt : VolFmt := ⟨hs, sl, ex, fo, ft⟩
          let s : Src := ⟨synth 11 len, st⟩
          let cls {α : Type} (r : Except Err α) : String := match r with | .ok _ => "K" | .error _ => "X"
          cls (readHeader fmt false s) ++ " " ++ cls (readHeader fmt.noSniff false s) ++ " " ++
            (if hdrRefuses fmt len then "1" else "0")
      | _, _, _, _, _, _, _ => "bad-op"
  | ["tckbuf", n, c] =>
      match n.toNat?, c.toNat? with
      | some n, some c => if c = 0 then "bad-op" else toString (tckBufferSize n c)
      | _, _ => "bad-op"
  | ["xml", plen, rootEnd, k, m, st] =>
      match plen.toNat?, rootEnd.toNat?, k.toNat?, m.toNat?, parseBool? st with
      | some plen, some rootEnd, some k, some m, some st =>
          let file := synth 7 plen
          let s : Src := ⟨file.take m, st⟩
          -- the block loop of `ParseFile` (2048-byte blocks, closing final call) around the most permissive
          -- expat the contract allows must agree with the one-line contract model `xmlRead`
          let agree := match xmlRead rootEnd s, xmlParseFile (lazyExpat rootEnd) 2048 s with
            | .error _, .error _ => true
            | .ok _, .ok _ => true
            | _, _ => false
          if !agree then "bad-model" else
          outcome (load k (xmlRead rootEnd s)) (file.take rootEnd) ++ " " ++ toString file.length
      | _, _, _, _, _ => "bad-op"
  | _ => "bad-op"

end Nb.Drv.C08

def main : IO Unit := Nb.Drv.runDriver "C08" Nb.Drv.C08.handle
