import NibabelModel.Basic.PyVal
/-! Parsing / printing helpers for the line-protocol driver (core Lean only). -/
namespace Nb.Drv

def parseInt? (s : String) : Option Int := s.toInt?

def parseOptInt? (s : String) : Option (Option Int) :=
  if s = "_" then some none else (s.toInt?).map some

def parseNat? (s : String) : Option Nat := s.toNat?

/-- "a,b,c" or "-" (empty) -/
def parseNatList? (s : String) : Option (List Nat) :=
  if s = "-" then some [] else (s.splitOn ",").mapM (·.toNat?)

def parseIntList? (s : String) : Option (List Int) :=
  if s = "-" then some [] else (s.splitOn ",").mapM (·.toInt?)

def showList {α} [ToString α] (l : List α) : String :=
  "[" ++ ",".intercalate (l.map toString) ++ "]"

def tokens (line : String) : List String :=
  (line.splitOn " ").filter (· ≠ "")

end Nb.Drv

namespace Nb.Drv
/-- read protocol lines from stdin, print one observable line per input line -/
partial def loop (handle : List String → String) (h out : IO.FS.Stream) : IO Unit := do
  let line ← h.getLine
  if line.isEmpty then return ()
  out.putStrLn (handle (tokens ((line.trimAsciiEnd).toString)))
  loop handle h out

def runDriver (pid : String) (handle : List String → String) : IO Unit := do
  let out ← IO.getStdout
  loop (fun toks => match toks with
    | p :: rest => if p = pid then handle rest else "bad-op"
    | [] => "bad-op") (← IO.getStdin) out
end Nb.Drv

namespace Nb.Drv
open Nb.Py

/-- canonical text of a Python value of the translated fragment (must match `harness/py2lean.show_v`) -/
partial def showV : V → String
  | .none => "N"
  | .bool b => if b then "b1" else "b0"
  | .int i => "i" ++ toString i
  | .frac n d => "f" ++ toString n ++ "/" ++ toString d
  | .str s => "q" ++ s
  | .slice a b c => "s(" ++ showV a ++ "," ++ showV b ++ "," ++ showV c ++ ")"
  | .tup2 a b => "(" ++ showV a ++ ";" ++ showV b ++ ")"
  | .tup3 a b c => "(" ++ showV a ++ ";" ++ showV b ++ ";" ++ showV c ++ ")"
  | .dict es => "{" ++ showV es ++ "}"
  | .ellipsis => "E"
  | .nil => "()"
  | .cons a b => "(" ++ ";".intercalate ((a :: (b.toList?.getD [])).map showV) ++ ")"

def showErr : Err → String
  | .typeError => "ERR:TypeError"
  | .valueError => "ERR:ValueError"
  | .zeroDivision => "ERR:ZeroDivisionError"
  | .indexError => "ERR:IndexError"
  | .unsupported => "ERR:unsupported"

def showM : M V → String
  | .ok v => showV v
  | .error e => showErr e

/-- argument tokens: `N`, `b0`/`b1`, `i<int>`, `q<text>`, `s<a>,<b>,<c>` with `_` for None -/
def parseV? (s : String) : Option V :=
  if s = "N" then some .none
  else if s = "E" then some .ellipsis
  else if s = "b0" then some (.bool false)
  else if s = "b1" then some (.bool true)
  else if s.startsWith "i" then (s.drop 1).toString.toInt?.map V.int
  else if s.startsWith "q" then some (.str (s.drop 1).toString)
  else if s.startsWith "s" then
    match ((s.drop 1).toString.splitOn ",").mapM parseOptInt? with
    | some [a, b, c] => some (.slice (V.ofOptInt a) (V.ofOptInt b) (V.ofOptInt c))
    | _ => none
  else none

/-- a flat list argument `L<tok>;<tok>;…` (`L` alone = empty list) -/
def parseVL? (s : String) : Option V :=
  if s = "L" then some .nil
  else if s.startsWith "L" then (((s.drop 1).toString.splitOn ";").mapM parseV?).map V.ofList
  else parseV? s

end Nb.Drv
