/-! Parsing / printing helpers for the line-protocol driver (core Lean only). -/
namespace Nb.Drv

def parseInt? (s : String) : Option Int := s.toInt?

def parseOptInt? (s : String) : Option (Option Int) :=
  if s = "_" then some none else (s.toInt?).map some

def parseNat? (s : String) : Option Nat := s.toNat?

/-- "a,b,c" or "-" (empty) -/
def parseNatList? (s : String) : Option (List Nat) :=
  if s = "-" then some [] else (s.splitOn ",").mapM (·.toNat?)

def parseIntList? (s : String) : Option (List Int) :=
  if s = "-" then some [] else (s.splitOn ",").mapM (·.toInt?)

def showList {α} [ToString α] (l : List α) : String :=
  "[" ++ ",".intercalate (l.map toString) ++ "]"

def tokens (line : String) : List String :=
  (line.splitOn " ").filter (· ≠ "")

end Nb.Drv

namespace Nb.Drv
/-- read protocol lines from stdin, print one observable line per input line -/
partial def loop (handle : List String → String) (h out : IO.FS.Stream) : IO Unit := do
  let line ← h.getLine
  if line.isEmpty then return ()
  out.putStrLn (handle (tokens ((line.trimAsciiEnd).toString)))
  loop handle h out

def runDriver (pid : String) (handle : List String → String) : IO Unit := do
  let out ← IO.getStdout
  loop (fun toks => match toks with
    | p :: rest => if p = pid then handle rest else "bad-op"
    | [] => "bad-op") (← IO.getStdin) out
end Nb.Drv
