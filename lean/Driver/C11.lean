import NibabelModel.Model.C11
import Driver.Util
/-! Line-protocol driver for C11: `C11 <op> <args...>` -> one observable line. -/
namespace Nb.Drv.C11

def handle : List String → String
  | _ => "bad-op"

end Nb.Drv.C11

def main : IO Unit := Nb.Drv.runDriver "C11" Nb.Drv.C11.handle
