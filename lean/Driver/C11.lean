import NibabelModel.Model.C11
import NibabelModel.Model.C11_State
import Driver.Util
/-! Line-protocol driver for C11: `C11 <op> <args...>` -> one observable line.

  img  <1|2> <s|p> <L|B> <userOff> <datahex> <k> <code:hex>*k   save + load of an image
  parse <L|B> <size> <hex>                                        Nifti1Extensions.from_fileobj
  ser  <L|B> <k> <code:hex>*k                                     Nifti1Extensions.write_to / get_sizeondisk
  size <n>                                                        get_sizeondisk for n content bytes
  voff <1|2> <s|p> <userOff> <k> <len>*k                          Nifti1Header.write_to on content LENGTHS only
  f32 <n>                                                         int(np.float32(n))
  f32n <s>                                                        int(np.nextafter(np.float32(s), inf)), s a float32 ≥ 2^24
  xst <L|B machine> <k> <tok>*k                                   history over extension objects and headers (see `parseOp?`)
  (hex: two lower-case digits per byte, "-" for the empty string) -/
namespace Nb.Drv.C11
open Nb Nb.C11

def hexVal? (c : Char) : Option Nat :=
  if '0' ≤ c ∧ c ≤ '9' then some (c.toNat - '0'.toNat)
  else if 'a' ≤ c ∧ c ≤ 'f' then some (c.toNat - 'a'.toNat + 10)
  else none

def parseHexChars : List Char → Option (List Nat)
  | [] => some []
  | a :: b :: rest => do
      let x ← hexVal? a
      let y ← hexVal? b
      let r ← parseHexChars rest
      pure ((16 * x + y) :: r)
  | _ => none

def parseHex? (s : String) : Option (List Nat) :=
  if s = "-" then some [] else if s.isEmpty then none else parseHexChars s.toList

def hexDigit (n : Nat) : Char :=
  if n < 10 then Char.ofNat ('0'.toNat + n) else Char.ofNat ('a'.toNat + (n - 10))

def showHex (l : List Nat) : String :=
  if l.isEmpty then "-" else String.ofList (l.flatMap (fun b => [hexDigit (b / 16 % 16), hexDigit (b % 16)]))

def parseEndian? (s : String) : Option Endian :=
  if s = "L" then some .le else if s = "B" then some .be else none

def parseExt? (s : String) : Option Ext :=
  match s.splitOn ":" with
  | [c, h] => do
      let code ← c.toInt?
      let b ← parseHex? h
      pure ⟨code, b⟩
  | _ => none

def parseExtList? (k : String) (toks : List String) : Option (List Ext) := do
  let n ← k.toNat?
  if toks.length ≠ n then none else toks.mapM parseExt?

def showExts (l : List Ext) : String :=
  "[" ++ ",".intercalate (l.map (fun x => toString x.code ++ ":" ++ showHex x.content)) ++ "]"

def showErr : Err → String
  | .headerData => "ERR:HeaderDataError"
  | .overflow => "ERR:OverflowError"
  | .value => "ERR:ValueError"
  | .short => "ERR:short"
  | .unmodelled => "ERR:unmodelled"
  | .fuel => "ERR:fuel"

def showLoaded : Except Err Loaded → String
  | .ok l => "exts=" ++ showExts l.exts ++ " off=" ++ toString l.offset ++ " data=" ++ showHex l.data
  | .error er => showErr er

/-! ### `xst`: histories over extension objects / headers (Model/C11_State) -/

abbrev DObj := List Nat

/-- the codecs of the harness' extension classes: 0 identity, 1 byte reversal (an inverse pair), 2 a normalising
    pair that is NOT inverse (`unmangle` drops spaces, `mangle` appends a newline) -/
def codec? (k : Nat) : Option (Codec DObj) :=
  if k = 0 then some ⟨id, id⟩
  else if k = 1 then some ⟨List.reverse, List.reverse⟩
  else if k = 2 then some ⟨fun o => o ++ [10], fun b => b.filter (· != 32)⟩
  else none

def class? (name : String) : Option (String × Fmt × Bool) :=
  match Nb.Gen.C11.State.headerClasses.find? (·.1 == name) with
  | some (n, f, single) => if f = 1 then some (n, nifti1, single) else if f = 2 then some (n, nifti2, single) else none
  | none => none

inductive DOp where
  | op (o : XOp DObj)
  | newHdr (cls : String) (fmt : Fmt) (single : Bool) (e : Endian)

def parseOp? (tok : String) : Option DOp :=
  match tok.splitOn "," with
  | ["nh", cls, en] => do
      let (n, f, sg) ← class? cls
      let e ← parseEndian? en
      pure (.newHdr n f sg e)
  | ["nr", h, pos, k, code, hx] => do
      pure (.op (.newRaw (← h.toNat?) (← pos.toNat?) (← codec? (← k.toNat?)) (← code.toInt?) (← parseHex? hx)))
  | ["no", h, pos, k, code, hx] => do
      pure (.op (.newObj (← h.toNat?) (← pos.toNat?) (← codec? (← k.toNat?)) (← code.toInt?) (← parseHex? hx)))
  | ["go", h, i] => do pure (.op (.getObj (← h.toNat?) (← i.toNat?)))
  | ["ed", h, i, hx] => do
      let b ← parseHex? hx
      pure (.op (.edit (← h.toNat?) (← i.toNat?) (fun _ => b)))
  | ["ea", h, i, hx] => do
      let b ← parseHex? hx
      pure (.op (.edit (← h.toNat?) (← i.toNat?) (fun o => o ++ b)))
  | ["ct", h, i] => do pure (.op (.content (← h.toNat?) (← i.toNat?)))
  | ["sz", h, i] => do pure (.op (.size (← h.toNat?) (← i.toNat?)))
  | ["tt", h] => do pure (.op (.total (← h.toNat?)))
  | ["dl", h, i] => do pure (.op (.del (← h.toNat?) (← i.toNat?)))
  | ["sh", h, i, h2, pos] => do pure (.op (.share (← h.toNat?) (← i.toNat?) (← h2.toNat?) (← pos.toNat?)))
  | ["cp", h] => do pure (.op (.copy (← h.toNat?)))
  | ["bs", h, t] => do
      let tgt ← if t = "N" then some none else (parseEndian? t).map some
      pure (.op (.byteswap (← h.toNat?) tgt))
  | ["fh", h, cls] => do
      let (n, f, sg) ← class? cls
      pure (.op (.fromHeader (← h.toNat?) n f sg))
  | ["im", h, cls] => do
      let (n, f, sg) ← class? cls
      pure (.op (.mkImg (← h.toNat?) n f sg))
  | ["so", h, off] => do pure (.op (.setOff (← h.toNat?) (← off.toNat?)))
  | ["wh", h] => do pure (.op (.saveHdr (← h.toNat?)))
  | ["wi", h, hx] => do pure (.op (.saveImg (← h.toNat?) (← parseHex? hx)))
  | _ => none

def showObs : XObs DObj → Option String
  | .done => some "ok"
  | .bad => none
  | .obj o => some ("o=" ++ showHex o)
  | .bytes b => some ("b=" ++ showHex b)
  | .int n => some ("n=" ++ toString n)
  | .err e => some (showErr e)
  | .hdrSaved off after => some ("H off=" ++ toString off ++ " hdr=" ++ showHex after)
  | .imgSaved (.single f l) => some ("W off=" ++ toString f.voxOffset ++ " hdr=" ++ showHex f.after ++ " img=- R " ++ showLoaded l)
  | .imgSaved (.pair p l) => some ("W off=" ++ toString p.hdr.voxOffset ++ " hdr=" ++ showHex p.hdr.after ++ " img=" ++
      showHex p.img ++ " R " ++ showLoaded l)

def runOps (machine : Endian) : World DObj → List DOp → Option (List String)
  | _, [] => some []
  | w, .newHdr cls fmt single e :: ops => do
      let rest ← runOps machine { w with hdrs := w.hdrs ++ [⟨cls, fmt, single, e, 0, [], false⟩] } ops
      pure ("ok" :: rest)
  | w, .op o :: ops => do
      let r := w.step machine o
      let s ← showObs r.2
      let rest ← runOps machine r.1 ops
      pure (s :: rest)

def handleXst (machine k : String) (toks : List String) : String :=
  match parseEndian? machine, k.toNat?, toks.mapM parseOp? with
  | some m, some k, some ops =>
      if ops.length ≠ k then "bad-op"
      else match runOps m ⟨[], []⟩ ops with
        | some outs => " | ".intercalate outs
        | none => "bad-op"
  | _, _, _ => "bad-op"

def handle : List String → String
  | "xst" :: machine :: k :: toks => handleXst machine k toks
  | "img" :: fmt :: kind :: en :: off :: dat :: k :: exts =>
      match (if fmt = "1" then some nifti1 else if fmt = "2" then some nifti2 else none),
            (if kind = "s" then some true else if kind = "p" then some false else none),
            parseEndian? en, off.toNat?, parseHex? dat, parseExtList? k exts with
      | some fmt, some single, some e, some off, some dat, some exts =>
          if dat.isEmpty then "bad-op"
          else if single then
            match writeSingle fmt e exts off dat with
            | .error er => showErr er
            | .ok f => "W off=" ++ toString f.voxOffset ++ " hdr=" ++ showHex f.after ++ " img=- R " ++
                showLoaded (readSingle fmt e f dat.length)
          else
            match writePair fmt e exts off dat with
            | .error er => showErr er
            | .ok p => "W off=" ++ toString p.hdr.voxOffset ++ " hdr=" ++ showHex p.hdr.after ++ " img=" ++
                showHex p.img ++ " R " ++ showLoaded (readPair fmt e p dat.length)
      | _, _, _, _, _, _ => "bad-op"
  | ["parse", en, size, raw] =>
      match parseEndian? en, size.toInt?, parseHex? raw with
      | some e, some size, some raw =>
          match parseExts e raw size with
          | .ok l => "ok " ++ showExts l
          | .error er => showErr er
      | _, _, _ => "bad-op"
  | "ser" :: en :: k :: exts =>
      match parseEndian? en, parseExtList? k exts with
      | some e, some exts =>
          match serializeExts e exts with
          | .ok b => "ok " ++ toString (totalSize exts) ++ " " ++ showHex b
          | .error er => showErr er
      | _, _ => "bad-op"
  | "voff" :: fmt :: kind :: off :: k :: lens =>
      match (if fmt = "1" then some nifti1 else if fmt = "2" then some nifti2 else none),
            (if kind = "s" then some true else if kind = "p" then some false else none),
            off.toNat?, k.toNat?, lens.mapM String.toNat? with
      | some fmt, some single, some off, some k, some lens =>
          if lens.length ≠ k then "bad-op"
          else match headerWriteSizes single fmt lens off with
            | .ok (stored, pos) => "ok " ++ toString stored ++ " " ++ toString pos
            | .error er => showErr er
      | _, _, _, _, _ => "bad-op"
  | ["f32", n] =>
      match n.toNat? with
      | some n => toString (f32round n)
      | none => "bad-op"
  | ["f32n", n] =>
      match n.toNat? with
      | some n => if f32round n = n ∧ 16777216 ≤ n then toString (f32next n) else "bad-op"
      | none => "bad-op"
  | ["size", n] =>
      match n.toNat? with
      | some n => toString (sizeOnDisk n)
      | none => "bad-op"
  | _ => "bad-op"

end Nb.Drv.C11

def main : IO Unit := Nb.Drv.runDriver "C11" Nb.Drv.C11.handle
