import NibabelModel.Model.C11
import Driver.Util
/-! Line-protocol driver for C11: `C11 <op> <args...>` -> one observable line.

  img  <1|2> <s|p> <L|B> <userOff> <datahex> <k> <code:hex>*k   save + load of an image
  parse <L|B> <size> <hex>                                        Nifti1Extensions.from_fileobj
  ser  <L|B> <k> <code:hex>*k                                     Nifti1Extensions.write_to / get_sizeondisk
  size <n>                                                        get_sizeondisk for n content bytes
  voff <1|2> <s|p> <userOff> <k> <len>*k                          Nifti1Header.write_to on content LENGTHS only
  f32 <n>                                                         int(np.float32(n))
  f32n <s>                                                        int(np.nextafter(np.float32(s), inf)), s a float32 ≥ 2^24
  (hex: two lower-case digits per byte, "-" for the empty string) -/
namespace Nb.Drv.C11
open Nb Nb.C11

def hexVal? (c : Char) : Option Nat :=
  if '0' ≤ c ∧ c ≤ '9' then some (c.toNat - '0'.toNat)
  else if 'a' ≤ c ∧ c ≤ 'f' then some (c.toNat - 'a'.toNat + 10)
  else none

def parseHexChars : List Char → Option (List Nat)
  | [] => some []
  | a :: b :: rest => do
      let x ← hexVal? a
      let y ← hexVal? b
      let r ← parseHexChars rest
      pure ((16 * x + y) :: r)
  | _ => none

def parseHex? (s : String) : Option (List Nat) :=
  if s = "-" then some [] else if s.isEmpty then none else parseHexChars s.toList

def hexDigit (n : Nat) : Char :=
  if n < 10 then Char.ofNat ('0'.toNat + n) else Char.ofNat ('a'.toNat + (n - 10))

def showHex (l : List Nat) : String :=
  if l.isEmpty then "-" else String.ofList (l.flatMap (fun b => [hexDigit (b / 16 % 16), hexDigit (b % 16)]))

def parseEndian? (s : String) : Option Endian :=
  if s = "L" then some .le else if s = "B" then some .be else none

def parseExt? (s : String) : Option Ext :=
  match s.splitOn ":" with
  | [c, h] => do
      let code ← c.toInt?
      let b ← parseHex? h
      pure ⟨code, b⟩
  | _ => none

def parseExtList? (k : String) (toks : List String) : Option (List Ext) := do
  let n ← k.toNat?
  if toks.length ≠ n then none else toks.mapM parseExt?

def showExts (l : List Ext) : String :=
  "[" ++ ",".intercalate (l.map (fun x => toString x.code ++ ":" ++ showHex x.content)) ++ "]"

def showErr : Err → String
  | .headerData => "ERR:HeaderDataError"
  | .overflow => "ERR:OverflowError"
  | .value => "ERR:ValueError"
  | .short => "ERR:short"
  | .unmodelled => "ERR:unmodelled"
  | .fuel => "ERR:fuel"

def showLoaded : Except Err Loaded → String
  | .ok l => "exts=" ++ showExts l.exts ++ " off=" ++ toString l.offset ++ " data=" ++ showHex l.data
  | .error er => showErr er

def handle : List String → String
  | "img" :: fmt :: kind :: en :: off :: dat :: k :: exts =>
      match (if fmt = "1" then some nifti1 else if fmt = "2" then some nifti2 else none),
            (if kind = "s" then some true else if kind = "p" then some false else none),
            parseEndian? en, off.toNat?, parseHex? dat, parseExtList? k exts with
      | some fmt, some single, some e, some off, some dat, some exts =>
          if dat.isEmpty then "bad-op"
          else if single then
            match writeSingle fmt e exts off dat with
            | .error er => showErr er
            | .ok f => "W off=" ++ toString f.voxOffset ++ " hdr=" ++ showHex f.after ++ " img=- R " ++
                showLoaded (readSingle fmt e f dat.length)
          else
            match writePair fmt e exts off dat with
            | .error er => showErr er
            | .ok p => "W off=" ++ toString p.hdr.voxOffset ++ " hdr=" ++ showHex p.hdr.after ++ " img=" ++
                showHex p.img ++ " R " ++ showLoaded (readPair fmt e p dat.length)
      | _, _, _, _, _, _ => "bad-op"
  | ["parse", en, size, raw] =>
      match parseEndian? en, size.toInt?, parseHex? raw with
      | some e, some size, some raw =>
          match parseExts e raw size with
          | .ok l => "ok " ++ showExts l
          | .error er => showErr er
      | _, _, _ => "bad-op"
  | "ser" :: en :: k :: exts =>
      match parseEndian? en, parseExtList? k exts with
      | some e, some exts =>
          match serializeExts e exts with
          | .ok b => "ok " ++ toString (totalSize exts) ++ " " ++ showHex b
          | .error er => showErr er
      | _, _ => "bad-op"
  | "voff" :: fmt :: kind :: off :: k :: lens =>
      match (if fmt = "1" then some nifti1 else if fmt = "2" then some nifti2 else none),
            (if kind = "s" then some true else if kind = "p" then some false else none),
            off.toNat?, k.toNat?, lens.mapM String.toNat? with
      | some fmt, some single, some off, some k, some lens =>
          if lens.length ≠ k then "bad-op"
          else match headerWriteSizes single fmt lens off with
            | .ok (stored, pos) => "ok " ++ toString stored ++ " " ++ toString pos
            | .error er => showErr er
      | _, _, _, _, _ => "bad-op"
  | ["f32", n] =>
      match n.toNat? with
      | some n => toString (f32round n)
      | none => "bad-op"
  | ["f32n", n] =>
      match n.toNat? with
      | some n => if f32round n = n ∧ 16777216 ≤ n then toString (f32next n) else "bad-op"
      | none => "bad-op"
  | ["size", n] =>
      match n.toNat? with
      | some n => toString (sizeOnDisk n)
      | none => "bad-op"
  | _ => "bad-op"

end Nb.Drv.C11

def main : IO Unit := Nb.Drv.runDriver "C11" Nb.Drv.C11.handle
