import NibabelModel.Model.C16
import NibabelModel.Model.C16_Ext
import NibabelModel.Model.C16_Save
import Driver.Util
/-! Line-protocol driver for C16: `C16 <op> <args...>` -> one observable line.

  Encodings (no spaces inside a token):
  * triple `a:b:c` (float32 bit patterns, decimal); streamline = triples joined by `,` (`e` = no
    points); list of streamlines joined by `;` (`-` = none)
  * name = latin-1 codes joined by `_` (`e` = empty); words joined by `.` (`z` = none)
  * item = `<pts>/<dpp>/<dps>`; dpp = `-` or `<name>=<row>|<row>…` joined by `+`; dps = `-` or
    `<name>=<words>` joined by `+`; items joined by `;` (`-` = none)
  * rationals `p/q` or `p`
  * consumer history: string over `n` (next) and `c` (close)
  * raw bytes: lower-case hex, two digits per byte (`-` = none)
  * affine history: `-` or steps joined by `;`, a step is `w` (to_world) or `a<aff12>` (apply_affine)
-/
namespace Nb.Drv.C16
open Nb Nb.C16

def parseTriple? (s : String) : Option Triple :=
  match (s.splitOn ":").mapM (·.toNat?) with
  | some [a, b, c] => some (a, b, c)
  | _ => none

def parseSl? (s : String) : Option (List Triple) :=
  if s = "e" then some [] else (s.splitOn ",").mapM parseTriple?

def parseSls? (s : String) : Option (List (List Triple)) :=
  if s = "-" then some [] else (s.splitOn ";").mapM parseSl?

def parseName? (s : String) : Option Name :=
  if s = "e" then some [] else (s.splitOn "_").mapM (·.toNat?)

def parseWords? (s : String) : Option (List Nat) :=
  if s = "z" then some [] else (s.splitOn ".").mapM (·.toNat?)

def parseDpp? (s : String) : Option (List (Name × List (List Nat))) :=
  if s = "-" then some [] else (s.splitOn "+").mapM (fun e =>
    match e.splitOn "=" with
    | [n, rows] => do
        let n ← parseName? n
        let rows ← (rows.splitOn "|").mapM parseWords?
        pure (n, rows)
    | _ => none)

def parseDps? (s : String) : Option (List (Name × List Nat)) :=
  if s = "-" then some [] else (s.splitOn "+").mapM (fun e =>
    match e.splitOn "=" with
    | [n, ws] => do
        let n ← parseName? n
        let ws ← parseWords? ws
        pure (n, ws)
    | _ => none)

def parseItem? (s : String) : Option Item :=
  match s.splitOn "/" with
  | [p, a, b] => do
      let p ← parseSl? p
      let a ← parseDpp? a
      let b ← parseDps? b
      pure ⟨p, a, b⟩
  | _ => none

def parseItems? (s : String) : Option (List Item) :=
  if s = "-" then some [] else (s.splitOn ";").mapM parseItem?

def parseRat? (s : String) : Option Rat :=
  match s.splitOn "/" with
  | [p] => p.toInt?.map (fun (i : Int) => (i : Rat))
  | [p, q] => do
      let p ← p.toInt?
      let q ← q.toNat?
      if q = 0 then none else pure (mkRat p q)
  | _ => none

def parseRats? (s : String) : Option (List Rat) := (s.splitOn ",").mapM parseRat?

def parseAff? (s : String) : Option Aff :=
  match parseRats? s with
  | some [a, b, c, d, e, f, g, h, i, x, y, z] => some ⟨a, b, c, d, e, f, g, h, i, x, y, z⟩
  | _ => none

def parseActs? (s : String) : Option (List Act) :=
  s.toList.mapM (fun c => if c = 'n' then some Act.next else if c = 'c' then some Act.close else none)

def showRat (r : Rat) : String :=
  if r.den = 1 then toString r.num else toString r.num ++ "/" ++ toString r.den

def showAff (A : Aff) : String :=
  ",".intercalate ([A.a00, A.a01, A.a02, A.a10, A.a11, A.a12, A.a20, A.a21, A.a22, A.t0, A.t1, A.t2].map showRat)

def showTriple (t : Triple) : String := s!"{t.1}:{t.2.1}:{t.2.2}"

def showSl (s : List Triple) : String := if s.isEmpty then "e" else ",".intercalate (s.map showTriple)

def showSls (l : List (List Triple)) : String := if l.isEmpty then "-" else ";".intercalate (l.map showSl)

def showName (n : Name) : String := if n.isEmpty then "e" else "_".intercalate (n.map toString)

def showWords (w : List Nat) : String := if w.isEmpty then "z" else ".".intercalate (w.map toString)

def showItem (it : Item) : String :=
  showSl it.pts ++ "/" ++
  (if it.dpp.isEmpty then "-" else "+".intercalate (it.dpp.map (fun d =>
    showName d.1 ++ "=" ++ "|".intercalate (d.2.map showWords)))) ++ "/" ++
  (if it.dps.isEmpty then "-" else "+".intercalate (it.dps.map (fun d => showName d.1 ++ "=" ++ showWords d.2)))

def showItems (l : List Item) : String := if l.isEmpty then "-" else ";".intercalate (l.map showItem)

/-- the eager tractogram item by item (`tractogram[i]`) -/
def tractoItems (t : Tracto) : List Item :=
  (List.range t.streamlines.length).map (fun i =>
    ⟨t.streamlines.getD i [], t.dpp.map (fun d => (d.1, d.2.getD i [])), t.dps.map (fun d => (d.1, d.2.getD i []))⟩)

def showRec (r : TrkRec) : String :=
  (if r.rows.isEmpty then "e" else "|".intercalate (r.rows.map showWords)) ++ "/" ++ showWords r.props

def showFields (fs : List (List Nat)) : String := ",".intercalate (fs.map (fun f => showName (s20 f)))

/-- run a consumer history against a reader run; one token per action -/
def showHistory {α} (showItem : α → String) (run : GenRun α) (start : Nat) (acts : List Act) : String :=
  let rec go (g : Gen α) : List Act → List String
    | [] => []
    | a :: as =>
        let g' := g.step a
        let tok := match a with
          | .close => s!"c@{g'.pos}"
          | .next =>
              match g.st, g'.st with
              | .finished, _ => s!"n:stop@{g'.pos}"      -- exhausted generator: StopIteration
              | _, .suspended k => match run.items[k]? with
                  | some it => s!"n:{showItem it.1}@{g'.pos}"
                  | none => "n:?"
              | _, _ => match run.err with
                  | some e => s!"n:{e.name}@{g'.pos}"
                  | none => s!"n:stop@{g'.pos}"
        tok :: go g' as
  " ".intercalate (go (Gen.init run true start) acts)

def hexVal (c : Char) : Option Nat :=
  if '0' ≤ c ∧ c ≤ '9' then some (c.toNat - 48) else if 'a' ≤ c ∧ c ≤ 'f' then some (c.toNat - 87) else none

def parseHex? (s : String) : Option (List Nat) :=
  let rec go : List Char → Option (List Nat)
    | [] => some []
    | [_] => none
    | a :: b :: r => do
        let x ← hexVal a
        let y ← hexVal b
        let t ← go r
        pure ((16 * x + y) :: t)
  if s = "-" then some [] else go s.toList

def parseAffOps? (s : String) : Option (List AffOp) :=
  if s = "-" then some [] else (s.splitOn ";").mapM (fun t =>
    if t = "w" then some AffOp.world
    else if t.startsWith "a" then (parseAff? (String.ofList (t.toList.drop 1))).map AffOp.apply
    else none)

def showLazyT (lazy : Bool) (t : LazyT) : String :=
  "P=" ++ (if lazy then showAff t.pending else "-") ++ ";R=" ++ (match t.toRas with | some r => showAff r | none => "none")

/-- states after every step of a history (stops at the first error) -/
def lazySteps (lazy : Bool) : LazyT → List AffOp → List String × Option LazyT
  | t, [] => ([], some t)
  | t, .apply A :: ops =>
      let t' := t.applyAffine A
      let r := lazySteps lazy t' ops
      (showLazyT lazy t' :: r.1, r.2)
  | t, .world :: ops =>
      match t.toWorld with
      | .error e => ([e.name], none)
      | .ok t' =>
          let r := lazySteps lazy t' ops
          (showLazyT lazy t' :: r.1, r.2)

def showOptSl (o : Option (List Triple)) : String := match o with | some l => showSl l | none => "inexact"

def mapMOpt {α β} (f : α → Option β) (l : List α) : Option (List β) := l.mapM f

/-- ten S20 name-table slots: names joined by `,` (at most ten of at most 20 bytes; missing slots / bytes are zero) -/
def parseFields? (s : String) : Option (List (List Nat)) :=
  match (if s = "-" then some [] else (s.splitOn ",").mapM parseName?) with
  | some fs =>
      if fs.length > 10 ∨ fs.any (fun f => f.length > 20) then none
      else some (fs.map (fun f => f ++ List.replicate (20 - f.length) 0) ++ List.replicate (10 - fs.length) (List.replicate 20 0))
  | none => none

/-- view history: `-` or steps joined by `;`; a step is `c` (copy) or an index list (words) -/
def parseSteps? (s : String) : Option (List ViewStep) :=
  if s = "-" then some [] else (s.splitOn ";").mapM (fun t =>
    if t = "c" then some ViewStep.copy else (parseWords? t).map ViewStep.index)

/-- executable `stepsOk` -/
def stepsInRange : Nat → List ViewStep → Bool
  | _, [] => true
  | n, .index idxs :: r => idxs.all (· < n) && stepsInRange idxs.length r
  | n, .copy :: r => stepsInRange n r

/-- whole TRK save (under the supplied header fields `sup`) + eager / lazy load, as one observable line -/
def trkRun (sup : TrkCounts) (order : String) (v0 v1 v2 : Rat) (d0 d1 d2 : Int) (a : Aff) (items : List Item) : String :=
  (match ioOrientSP a with
   | none => "bad-op"
   | some ao =>
       let g : TrkGeom := ⟨(v0, v1, v2), (d0, d1, d2), order.toList, a⟩
       match trackvisToRas g ao with
       | .error e => e.name
       | .ok t =>
           let tinv := t.inv
           match items.mapM (fun it => (it.pts.mapM (applyAffBits tinv)).map (fun p => { it with pts := p })) with
           | none => "inexact"
           | some tvItems =>
               match trkSaveItemsH sup tvItems with
               | .error e => e.name
               | .ok (h, words) =>
                   let hdr := s!"n={h.nStreams} ns={h.ns} np={h.np} sf={showFields h.scalarFields} pf={showFields h.propFields} data={showWords words}"
                   match trkLoadItems h words with
                   | .error e => hdr ++ " load=" ++ e.name
                   | .ok loaded =>
                       -- lazy item iteration: `LazyTractogram.data` with the pending affine;
                       -- eager: the `ArraySequence` path (`trkEager`), compared with the lazy dict view
                       let eagerT : Option Tracto × Option Tracto × Bool := match nameSlices h.ns h.scalarFields scalarsName,
                                           nameSlices h.np h.propFields propertiesName with
                         | .ok dppS, .ok dpsS =>
                             let recs : List TrkRec := (trkRead h.ns h.np h.nStreams 0 words).items.map (fun x => x.1)
                             (trkEager t dppS dpsS recs, trkLazy t dppS dpsS recs, recs.isEmpty)
                         | _, _ => (none, none, true)
                       match lazyItems t loaded, lazyStreamlines t loaded, eagerT with
                       | some ras, some sls, (some eg, lz, noRecs) =>
                           let eagerItems := tractoItems eg
                           let flag := if noRecs || lz == some eg then "" else " lazyT=differs"
                           if ras.map (fun (it : Item) => it.pts) = sls then
                             hdr ++ " load=" ++ showItems eagerItems ++ " lazy=" ++ showItems ras ++ flag
                           else hdr ++ " load=" ++ showItems eagerItems ++ " lazy=differs"
                       | _, _, _ => hdr ++ " load=inexact")

def handle : List String → String
  | ["off", l] =>
      match l.toNat? with
      | some l => let n := tckHdrOffset l; s!"{n} {tckDataStart l n}"
      | none => "bad-op"
  | ["buf", r] =>
      match r.toNat? with
      | some r => toString (tckBufferBytes r)
      | none => "bad-op"
  | ["tckw", l, sls] =>
      match l.toNat?, parseSls? sls with
      | some l, some sls =>
          let n := tckHdrOffset l
          s!"{n} {tckDataStart l n} {showSl (tckData sls)}"
      | _, _ => "bad-op"
  | ["tckf", out, req, sls] =>
      match parseWords? out, req.toNat?, parseSls? sls with
      | some out, some req, some sls =>
          let c := tckBufferBytes req / 12
          let bytes := tckWriteFile out sls
          match tckAnnounced out.length bytes with
          | none => "ann=none bytes=" ++ showWords bytes
          | some ann =>
              let run := tckReadFile c ann bytes
              s!"ann={ann} bytes={showWords bytes} items={showSls (run.items.map (·.1))} end=" ++
                (match run.err with | none => "ok" | some e => e.name)
      | _, _, _ => "bad-op"
  | ["tckr", off, req, ragged, start, acts, data] =>
      match off.toNat?, req.toNat?, ragged.toNat?, start.toNat?, parseActs? acts, parseSl? data with
      | some off, some req, some ragged, some start, some acts, some data =>
          let c := tckBufferBytes req / 12
          if c = 0 ∨ ragged ≥ 12 then "bad-op"
          else showHistory showSl (tckRead c ragged off data) start acts
      | _, _, _, _, _, _ => "bad-op"
  | ["nameenc", k, name] =>
      match k.toNat?, parseName? name with
      | some k, some name =>
          match encodeName k name with
          | .error e => e.name
          | .ok enc =>
              "enc=" ++ showWords enc ++ " dec=" ++
                (match decodeName (s20 enc) with
                 | .ok (n, v) => showName n ++ "/" ++ toString v
                 | .error e => e.name)
      | _, _ => "bad-op"
  | ["namedec", enc] =>
      match parseWords? enc with
      | some enc =>
          (match decodeName enc with
           | .ok (n, v) => showName n ++ "/" ++ toString v
           | .error e => e.name)
      | none => "bad-op"
  | ["slices", nb, fields] =>
      match nb.toNat?, (if fields = "-" then some [] else (fields.splitOn ",").mapM parseName?) with
      | some nb, some fields =>
          (match nameSlices nb fields scalarsName with
           | .ok sl => if sl.isEmpty then "-" else ",".intercalate (sl.map (fun s => s!"{showName s.1}={min s.2.1 nb}:{min s.2.2 nb}"))
           | .error e => e.name)
      | _, _ => "bad-op"
  | ["aff", order, vs, dims, a] =>
      match parseRats? vs, parseIntList? dims, parseAff? a with
      | some [v0, v1, v2], some [d0, d1, d2], some a =>
          (match ioOrientSP a with
           | none => "bad-op"
           | some ao =>
               let g : TrkGeom := ⟨(v0, v1, v2), (d0, d1, d2), order.toList, a⟩
               match trackvisToRas g ao with
               | .error e => e.name
               | .ok t => showAff t ++ " " ++ showAff t.inv)
      | _, _, _ => "bad-op"
  | ["trk", order, vs, dims, a, items] =>
      match parseRats? vs, parseIntList? dims, parseAff? a, parseItems? items with
      | some [v0, v1, v2], some [d0, d1, d2], some a, some items =>
          trkRun ⟨0, 0, 0, zeroFields, zeroFields⟩ order v0 v1 v2 d0 d1 d2 a items
      | _, _, _, _ => "bad-op"
  | ["trkh", order, vs, dims, a, sf, pf, ns0, np0, n0, items] =>
      match parseRats? vs, parseIntList? dims, parseAff? a, parseItems? items, parseFields? sf, parseFields? pf,
            ns0.toNat?, np0.toNat?, n0.toNat? with
      | some [v0, v1, v2], some [d0, d1, d2], some a, some items, some sf, some pf, some ns0, some np0, some n0 =>
          trkRun ⟨n0, ns0, np0, sf, pf⟩ order v0 v1 v2 d0 d1 d2 a items
      | _, _, _, _, _, _, _, _, _ => "bad-op"
  | ["tview", items, steps] =>
      -- what `save` iterates over (`iter(t.to_world(lazy=True))`) for a fresh tractogram after a history of indexing steps
      match parseItems? items, parseSteps? steps with
      | some items, some steps =>
          if !stepsInRange items.length steps || steps.any (fun st => st == ViewStep.copy) then "bad-op"
          else
            let pn := match items with | [] => [] | it :: _ => it.dpp.map (·.1)
            let sn := match items with | [] => [] | it :: _ => it.dps.map (·.1)
            let t := steps.foldl (fun (t : TractoView) st => match st with | .index idxs => t.index idxs | .copy => t)
                       (TractoView.ofItems pn sn items)
            showItems t.savedItems
      | _, _ => "bad-op"
  | ["view", l, sls, steps] =>
      match l.toNat?, parseSls? sls, parseSteps? steps with
      | some l, some sls, some steps =>
          if !stepsInRange sls.length steps then "bad-op"
          else
            let v := (SeqView.ofLists sls).run steps
            let n := tckHdrOffset l
            s!"{n} {tckDataStart l n} {showSl (tckData (savedStreamlines v))}"
      | _, _, _ => "bad-op"
  | ["trkr", ns, np, announced, junk, start, acts, words] =>
      match ns.toNat?, np.toNat?, announced.toNat?, junk.toNat?, start.toNat?, parseActs? acts, parseWords? words with
      | some ns, some np, some announced, some junk, some start, some acts, some words =>
          showHistory showRec (trkRead ns np announced (junk + trkHeaderSize) words) start acts
      | _, _, _, _, _, _, _ => "bad-op"
  | ["trkb", hex] =>
      match parseHex? hex with
      | some bytes =>
          (match trkReadBytes bytes with
           | .error e => e.name
           | .ok (e, h, run) =>
               if h.ns ≥ 32768 ∨ h.np ≥ 32768 ∨ h.n ≥ 2147483648 ∨ (bytes.length - 1000) % 4 ≠ 0 then "bad-op"
               else
                 s!"e={e.name} ns={h.ns} np={h.np} n={h.n} ver={h.version} sf={showFields h.scalarNames} pf={showFields h.propNames} " ++
                 s!"reenc={trkHdrBytes e h == trkHdrBuf bytes} items=" ++
                 (if run.items.isEmpty then "-" else ";".intercalate (run.items.map (fun x => showRec x.1))) ++
                 " end=" ++ (match run.err with | none => "ok" | some er => er.name))
      | none => "bad-op"
  | ["hdrp", hex] =>
      match parseHex? hex with
      | some bytes => (match tckHeaderOffset bytes with | .ok n => toString n | .error e => e.name)
      | none => "bad-op"
  | ["lzaff", mode, r, ops, order, vs, dims, a, sl] =>
      match (if r = "none" then some none else (parseAff? r).map some), parseAffOps? ops, parseRats? vs, parseIntList? dims,
            parseAff? a, parseSl? sl with
      | some r, some ops, some [v0, v1, v2], some [d0, d1, d2], some a, some raw =>
          if mode ≠ "l" ∧ mode ≠ "e" then "bad-op" else
          (match ioOrientSP a with
           | none => "bad-op"
           | some ao =>
               let g : TrkGeom := ⟨(v0, v1, v2), (d0, d1, d2), order.toList, a⟩
               match trackvisToRas g ao with
               | .error e => e.name
               | .ok T =>
                   let st := lazySteps (mode = "l") (LazyT.ofTractogram r) ops
                   match st.2 with
                   | none => " ".intercalate st.1
                   | some t =>
                       let pts := raw.mapM (applyAffBits t.pending)
                       let resave (T : Aff) : String :=
                         match trkSavePipeline t T with
                         | .error e => e.name
                         | .ok s => showOptSl ((raw.mapM (applyAffBits s.pending)).bind (fun w => w.mapM (applyAffBits T)))
                       " ".intercalate (st.1 ++ ["pts=" ++ showOptSl pts, "trk=" ++ resave T, "tck=" ++ resave Aff.one]))
      | _, _, _, _, _, _ => "bad-op"
  | _ => "bad-op"

end Nb.Drv.C16

def main : IO Unit := Nb.Drv.runDriver "C16" Nb.Drv.C16.handle
