import NibabelModel.Model.C16
import Driver.Util
/-! Line-protocol driver for C16: `C16 <op> <args...>` -> one observable line. -/
namespace Nb.Drv.C16

def handle : List String → String
  | _ => "bad-op"

end Nb.Drv.C16

def main : IO Unit := Nb.Drv.runDriver "C16" Nb.Drv.C16.handle
