import NibabelModel.Model.C17
import NibabelModel.Model.C17_Hist
import NibabelModel.Model.C17_Gen
import NibabelModel.Generated.C17Funcs
import NibabelModel.Generated.C17Codes
import Driver.Util
/-! Line-protocol driver for C17: `C17 <op> <args...>` -> one observable line.

    ops
      hist  <op>*            container history; op ∈ a<id>:<arg> | a<id>:d | p<int> | r<arg> | g<arg> | A_ | A<arg> | T<e,e,..> | T-
                             arg = <nat> (integer intent code) | s:<text> (string alias); e = arg | _ (None)
      orig  <ids> <intents> <it>   ORIGINAL remove-by-intent loop on the list of (id,intent)
      space                  all code points < 0x3100 for which the model's `isPySpace` holds
      block <enc> <endian> <datatype> <dims> <ord> <text|_> <table>*     read_data_block
      wblock <itemsize> <machine big 0|1> <memory big 0|1> <col 0|1> <dims> <hex memory bytes>
                             bytes `_data_tag_element` hands to zlib/base64 (hex)
      wevents <image tokens>   handler calls the serialisation of the image produces (writer model `imgEvents`)
      parse <event|table>*   the parser event machine
      gen <numDA|get|rm> <arg|_> <id:intent,…|->   the container methods TRANSLATED from the working tree
                             (Generated/C17Funcs) on a list of (id,intent) objects: ids of the result / new darrays
      whist <hop|table>*     object history of ONE image (Model/C17_Hist `runLit`): the handler calls of every serialisation,
                             joined by " | ".  hop = X | Y~base | V~text | G~k:v | Gd~k | Gn~k:v… | L~key~label~r~g~b~a |
                             Ls~j~key~label~r~g~b~a | Ld~j | Ln | N~id~dt~shape~bits | E~pos~bits |
                             O~id~nd~intent~dt~ord~enc~endian~dims~fname~off~ds~xs~mtext~k:v… | A~id | P~int | R~code |
                             F~pos~(intent|datatype|ord|enc|endian)~c | F~pos~dims~list | F~pos~ext~fname~off |
                             F~pos~mset~k:v | F~pos~mdel~k | F~pos~mnew~k:v… | F~pos~cs~ds~xs~mtext | F~pos~data~nd
                             table = Q~enc~datatype~ord~memdt~shape~bits~text (answer of the external <Data> encoder)
    text  = code points in hex joined by '.', '-' = empty
    event = S~tag~k=text~k=text… | C~text | E~tag
    table = Z~hexbytes~hexbytes (zlib.decompress answer) | F~text~bits (ASCII float token → float32 bit pattern)
            | G~text~bits (token → float64 bit pattern; MatrixData) -/
namespace Nb.Drv.C17
open Nb Nb.C17

def K : Codes := Nb.C17.Gen.codes

def hexVal (c : Char) : Option Nat :=
  if '0' ≤ c ∧ c ≤ '9' then some (c.toNat - 48)
  else if 'a' ≤ c ∧ c ≤ 'f' then some (c.toNat - 87)
  else none

def parseHex? (s : String) : Option Nat :=
  if s.isEmpty then none else s.toList.foldlM (fun acc c => (hexVal c).map (acc * 16 + ·)) 0

def parseText? (s : String) : Option Text :=
  if s = "-" then some []
  else (s.splitOn ".").mapM (fun h => (parseHex? h).map Char.ofNat)

def hexDigit (n : Nat) : Char := if n < 10 then Char.ofNat (48 + n) else Char.ofNat (87 + n)

def toHex (n : Nat) : String :=
  let rec go (fuel n : Nat) (acc : List Char) : List Char :=
    match fuel with
    | 0 => acc
    | f + 1 => if n < 16 then hexDigit n :: acc else go f (n / 16) (hexDigit (n % 16) :: acc)
  String.ofList (go 16 n [])

def showText (t : Text) : String :=
  if t.isEmpty then "-" else ".".intercalate (t.map (fun c => toHex c.toNat))

def parseBytes? (s : String) : Option (List Nat) :=
  if s = "-" then some []
  else
    let rec go : List Char → Option (List Nat)
      | [] => some []
      | a :: b :: rest => do
        let x ← hexVal a
        let y ← hexVal b
        let r ← go rest
        pure ((x * 16 + y) :: r)
      | _ => none
    go s.toList

/-! container -/

def showIds (l : List DA) : String := showList (l.map (·.id))

def showAgg : Agg → String
  | .stack l => "S" ++ showList l
  | .single i => "O" ++ toString i
  | .tuple l => "T" ++ showList l

/-- an intent argument token: `<nat>` (integer code) | `s:<text>` (string alias) -/
def parseIntentArg? (s : String) : Option IntentArg :=
  if s.startsWith "s:" then (parseText? (s.drop 2).toString).map IntentArg.name
  else s.toNat?.map IntentArg.code

/-- element of an `agg_data` tuple: `_` = None -/
def parseOptIntentArg? (s : String) : Option (Option IntentArg) :=
  if s = "_" then some none else (parseIntentArg? s).map some

/-- one history op: new list and the observable result -/
def histOp (l : List DA) (tok : String) : Option (List DA × String) :=
  let body := (tok.drop 1).toString
  if tok.startsWith "a" then
    -- a<id>:<arg> | a<id>:d (constructor default intent)
    match body.splitOn ":" with
    | i :: rest =>
      let argS := ":".intercalate rest
      match i.toNat?, (if argS = "d" then some none else (parseIntentArg? argS).map some) with
      | some i, some arg =>
        match newArray K i arg with
        | some d => some (addArray l d, "-")
        | none => some (l, "ERR:KeyError")
      | _, _ => none
    | _ => none
  else if tok.startsWith "p" then
    match body.toInt? with
    | some i => match removeAt l i with
      | .ok l' => some (l', "-")
      | .error _ => some (l, "ERR:IndexError")
    | none => none
  else if tok.startsWith "r" then
    (parseIntentArg? body).map (fun a => match removeByIntentArg K l a with
      | .ok l' => (l', "-")
      | .error _ => (l, "ERR:KeyError"))
  else if tok.startsWith "g" then
    (parseIntentArg? body).map (fun a => match getArraysFromIntentArg K l a with
      | .ok r => (l, "g" ++ showIds r)
      | .error _ => (l, "ERR:KeyError"))
  else if tok.startsWith "A" then
    (parseOptIntentArg? body).map (fun a => match aggData K l a with
      | .ok r => (l, showAgg r)
      | .error _ => (l, "ERR:KeyError"))
  else if tok.startsWith "T" then
    (if body = "-" then some [] else (body.splitOn ",").mapM parseOptIntentArg?).map (fun as =>
      match aggDataTuple K l as with
      | .ok rs => (l, "T(" ++ "+".intercalate (rs.map showAgg) ++ ")")
      | .error _ => (l, "ERR:KeyError"))
  else none

def runHist : List DA → List String → Option (List String)
  | _, [] => some []
  | l, t :: ts => do
    let (l', r) ← histOp l t
    let rest ← runHist l' ts
    pure ((showIds l' ++ "/" ++ r) :: rest)

/-! tables for the external functions -/

structure Tables where
  z : List (List Nat × List Nat) := []
  f : List (Text × Nat) := []
  g : List (Text × Nat) := []

def twos (w : Nat) (v : Int) : Option Nat :=
  let m : Int := (256 : Int) ^ w
  if v < 0 then (if -v ≤ m / 2 then some (v + m).toNat else none)
  else if v < m / 2 then some v.toNat else none

def mkExt (T : Tables) : Ext where
  b64dec := b64decode
  inflate := fun b => (T.z.find? (·.1 == b)).map (·.2)
  parseNum := fun kind w t =>
    if kind == 'u' then
      match (String.ofList t).toNat? with
      | some v => if v < 256 ^ w then some v else none
      | none => none
    else if kind == 'i' then (String.ofList t).toInt?.bind (twos w)
    else if w == 8 then (T.g.find? (·.1 == t)).map (·.2)
    else (T.f.find? (·.1 == t)).map (·.2)

def parseTable? (T : Tables) (tok : String) : Option Tables :=
  match tok.splitOn "~" with
  | ["Z", a, b] => do
    let a ← parseBytes? a
    let b ← parseBytes? b
    pure { T with z := T.z ++ [(a, b)] }
  | ["F", t, bits] => do
    let t ← parseText? t
    let b ← bits.toNat?
    pure { T with f := T.f ++ [(t, b)] }
  | ["G", t, bits] => do
    let t ← parseText? t
    let b ← bits.toNat?
    pure { T with g := T.g ++ [(t, b)] }
  | _ => none

def parseTables? : Tables → List String → Option Tables
  | T, [] => some T
  | T, t :: ts => (parseTable? T t).bind (parseTables? · ts)

def showArr (a : Arr) : String := showList a.shape ++ ":" ++ showList a.elems

/-! events -/

def parseAttr? (s : String) : Option (String × Text) :=
  match s.splitOn "=" with
  | [k, v] => (parseText? v).map (fun t => (k, t))
  | _ => none

def parseEvent? (tok : String) : Option Event :=
  match tok.splitOn "~" with
  | "S" :: tag :: attrs => (attrs.mapM parseAttr?).map (Event.start tag)
  | ["C", t] => (parseText? t).map Event.chars
  | ["E", tag] => some (Event.stop tag)
  | _ => none

def splitEvents : List String → Tables → List Event → Option (Tables × List Event)
  | [], T, acc => some (T, acc.reverse)
  | t :: ts, T, acc =>
    if t.startsWith "Z~" ∨ t.startsWith "F~" ∨ t.startsWith "G~" then (parseTable? T t).bind (fun T' => splitEvents ts T' acc)
    else (parseEvent? t).bind (fun e => splitEvents ts T (e :: acc))

def showOT (o : Option Text) : String := match o with
  | none => "_"
  | some t => showText t

def showMD (m : MD) : String :=
  "{" ++ ",".intercalate (m.map (fun p => showText p.1 ++ ":" ++ showText p.2)) ++ "}"

def showLabel : Option Label → String
  | none => "N"
  | some l => ":".intercalate [toString l.key, showOT l.label, showOT l.red, showOT l.green, showOT l.blue, showOT l.alpha]

/-- float64 bit patterns of np.identity(4) -/
def identityRows : List (List Nat) :=
  (List.range 4).map (fun i => (List.range 4).map (fun j => if i = j then 4607182418800017408 else 0))

/-- shape after np.loadtxt's squeeze, then the values -/
def showXform (x : Option (List (List Nat))) : String :=
  let rows := x.getD identityRows
  let r := rows.length
  let c := (rows.head?.map List.length).getD 0
  let shape := if r == 0 then [0] else [r, c].filter (· != 1)
  showList shape ++ ":" ++ showList rows.flatten

def showDA (d : DArr) : String :=
  "DA(" ++ ",".intercalate [toString d.intent, toString d.datatype, toString d.indOrd, toString d.encoding,
    toString d.endian, showList d.dims, showText d.extFname, toString d.extOffset,
    (match d.dmeta with | none => "_" | some m => showMD m),
    toString d.coordsys.dataspace, toString d.coordsys.xformspace] ++ " " ++ showXform d.coordsys.xform ++ " " ++
    (match d.data with | none => "_" | some a => showArr a) ++ ")"

def showImg (i : Img) : String :=
  "ok " ++ showText i.version ++ " M" ++ showMD i.gmeta ++ " L[" ++ ",".intercalate (i.labels.map showLabel) ++ "]" ++
    String.join (i.darrays.map (fun d => " " ++ showDA d))

/-! writer events -/

def showEvent : Event → String
  | .start tag attrs => "~".intercalate (["S", tag] ++ attrs.map (fun p => p.1 ++ "=" ++ showText p.2))
  | .chars t => "C~" ++ showText t
  | .stop tag => "E~" ++ tag

def parsePair? (s : String) : Option (Text × Text) :=
  match s.splitOn ":" with
  | [k, v] => do
    let k ← parseText? k
    let v ← parseText? v
    pure (k, v)
  | _ => none

def parseOT? (s : String) : Option (Option Text) := if s = "_" then some none else (parseText? s).map some

/-- tokens of an image description: V~version | M~k:v~… | L~key~label~r~g~b~a |
    D~intent~dt~ord~enc~endian~dims~fname~offset~ds~xs~matrixtext~datatext~k:v~… -/
def parseWImg? : List String → WImg → Option WImg
  | [], w => some w
  | t :: ts, w =>
    match t.splitOn "~" with
    | ["V", v] => (parseText? v).bind (fun v => parseWImg? ts { w with version := v })
    | "M" :: kvs => (kvs.mapM parsePair?).bind (fun m => parseWImg? ts { w with gmeta := m })
    | ["L", key, lab, r, g, b, a] => do
      let key ← key.toNat?
      let lab ← parseText? lab
      let r ← parseOT? r
      let g ← parseOT? g
      let b ← parseOT? b
      let a ← parseOT? a
      parseWImg? ts { w with labels := w.labels ++ [{ key := key, label := lab, red := r, green := g, blue := b, alpha := a }] }
    | "D" :: it :: dt :: ord :: enc :: en :: dims :: fname :: off :: ds :: xs :: mtext :: dtext :: kvs => do
      let it ← it.toNat?
      let dt ← dt.toNat?
      let ord ← ord.toNat?
      let enc ← enc.toNat?
      let en ← en.toNat?
      let dims ← parseNatList? dims
      let fname ← parseText? fname
      let off ← off.toNat?
      let ds ← ds.toNat?
      let xs ← xs.toNat?
      let mtext ← parseText? mtext
      let dtext ← parseText? dtext
      let m ← kvs.mapM parsePair?
      let cs : WCoord := { dataspace := ds, xformspace := xs, matrixText := mtext }
      let da : WDArr := { intent := it, datatype := dt, indOrd := ord, encoding := enc, «endian» := en, dims := dims,
                          extFname := fname, extOffset := off, dmeta := m, coordsys := cs, dataText := dtext }
      parseWImg? ts { w with darrays := w.darrays ++ [da] }
    | _ => none

/-! object histories -/

structure QEntry where
  enc : Nat
  dt : Nat
  ord : Nat
  arr : NdArr
  text : Text

/-- text no XML document can contain: marks a `<Data>` text the harness did not supply -/
def missingText : Text := [Char.ofNat 0]

def dataEncOf (q : List QEntry) : DataEnc := fun enc dt ord a =>
  match q.find? (fun e => e.enc == enc && e.dt == dt && e.ord == ord && e.arr == a) with
  | some e => e.text
  | none => missingText

def parseWLabel? (key lab r g b a : String) : Option WLabel := do
  let key ← key.toNat?
  let lab ← parseText? lab
  let r ← parseOT? r
  let g ← parseOT? g
  let b ← parseOT? b
  let a ← parseOT? a
  pure { key := key, label := lab, red := r, green := g, blue := b, alpha := a }

def parseHOp? (tok : String) : Option Op :=
  match tok.splitOn "~" with
  | ["X"] => some .ser
  | ["Y", b] => b.toNat?.map Op.reload
  | ["V", v] => (parseText? v).map Op.version
  | ["G", kv] => (parsePair? kv).map (fun p => Op.gmetaSet p.1 p.2)
  | ["Gd", k] => (parseText? k).map Op.gmetaDel
  | "Gn" :: kvs => (kvs.mapM parsePair?).map Op.gmetaNew
  | ["L", key, lab, r, g, b, a] => (parseWLabel? key lab r g b a).map Op.labelAdd
  | ["Ls", j, key, lab, r, g, b, a] => do
    let j ← j.toNat?
    let l ← parseWLabel? key lab r g b a
    pure (Op.labelSet j l)
  | ["Ld", j] => j.toNat?.map Op.labelDel
  | ["Ln"] => some .labelsNew
  | ["N", id, dt, shape, bits] => do
    let id ← id.toNat?
    let dt ← dt.toNat?
    let shape ← parseNatList? shape
    let bits ← parseNatList? bits
    pure (Op.newNd id ⟨dt, shape, bits⟩)
  | ["E", pos, bits] => do
    let pos ← pos.toNat?
    let bits ← parseNatList? bits
    pure (Op.editNd pos bits)
  | "O" :: id :: nd :: it :: dt :: ord :: enc :: en :: dims :: fname :: off :: ds :: xs :: mtext :: kvs => do
    let id ← id.toNat?
    let nd ← nd.toNat?
    let it ← it.toNat?
    let dt ← dt.toNat?
    let ord ← ord.toNat?
    let enc ← enc.toNat?
    let en ← en.toNat?
    let dims ← parseNatList? dims
    let fname ← parseText? fname
    let off ← off.toNat?
    let ds ← ds.toNat?
    let xs ← xs.toNat?
    let mtext ← parseText? mtext
    let m ← kvs.mapM parsePair?
    pure (Op.newDA id { data := nd, intent := it, datatype := dt, indOrd := ord, encoding := enc, dims := dims,
                        extFname := fname, extOffset := off, dmeta := m,
                        coordsys := { dataspace := ds, xformspace := xs, matrixText := mtext } } en)
  | ["A", id] => id.toNat?.map Op.add
  | ["P", i] => i.toInt?.map Op.pop
  | ["R", c] => c.toNat?.map Op.removeIntent
  | "F" :: pos :: field :: args => do
    let pos ← pos.toNat?
    match field, args with
    | "intent", [c] => c.toNat?.map (fun c => Op.setDA pos (.intent c))
    | "datatype", [c] => c.toNat?.map (fun c => Op.setDA pos (.datatype c))
    | "ord", [c] => c.toNat?.map (fun c => Op.setDA pos (.indOrd c))
    | "enc", [c] => c.toNat?.map (fun c => Op.setDA pos (.encoding c))
    | "endian", [c] => c.toNat?.map (fun c => Op.setEndian pos c)
    | "dims", [l] => (parseNatList? l).map (fun l => Op.setDA pos (.dims l))
    | "ext", [f, off] => do
      let f ← parseText? f
      let off ← off.toNat?
      pure (Op.setDA pos (.ext f off))
    | "mset", [kv] => (parsePair? kv).map (fun p => Op.setDA pos (.metaSet p.1 p.2))
    | "mdel", [k] => (parseText? k).map (fun k => Op.setDA pos (.metaDel k))
    | "mnew", kvs => (kvs.mapM parsePair?).map (fun m => Op.setDA pos (.metaNew m))
    | "cs", [ds, xs, mtext] => do
      let ds ← ds.toNat?
      let xs ← xs.toNat?
      let mtext ← parseText? mtext
      pure (Op.setDA pos (.coord { dataspace := ds, xformspace := xs, matrixText := mtext }))
    | "data", [nd] => nd.toNat?.map (fun nd => Op.setDA pos (.data nd))
    | _, _ => none
  | _ => none

def parseQ? (tok : String) : Option QEntry :=
  match tok.splitOn "~" with
  | ["Q", enc, dt, ord, mdt, shape, bits, text] => do
    let enc ← enc.toNat?
    let dt ← dt.toNat?
    let ord ← ord.toNat?
    let mdt ← mdt.toNat?
    let shape ← parseNatList? shape
    let bits ← parseNatList? bits
    let text ← parseText? text
    pure ⟨enc, dt, ord, ⟨mdt, shape, bits⟩, text⟩
  | _ => none

def splitHist : List String → List QEntry → List Op → Option (List QEntry × List Op)
  | [], q, acc => some (q.reverse, acc.reverse)
  | t :: ts, q, acc =>
    if t.startsWith "Q~" then (parseQ? t).bind (fun e => splitHist ts (e :: q) acc)
    else (parseHOp? t).bind (fun o => splitHist ts q (o :: acc))

def eventHasMissing : Event → Bool
  | .chars t => t == missingText
  | _ => false

/-! translated container methods -/

def parseDAs? (s : String) : Option (List DA) :=
  if s = "-" then some []
  else (s.splitOn ",").mapM (fun t => match t.splitOn ":" with
    | [i, it] => do
      let i ← i.toNat?
      let it ← it.toNat?
      pure (⟨i, it⟩ : DA)
    | _ => none)

def showGen (r : Nb.Py.M Nb.Py.V) : String :=
  match r with
  | .ok v => match Nb.C17.GenF.idsOf? v with
    | some ids => showList ids
    | none => match v with
      | .int n => toString n
      | _ => "bad-op"
  | .error .indexError => "ERR:KeyError"
  | .error _ => "ERR"

def handle : List String → String
  | ["gen", fn, arg, das] =>
    match parseDAs? das, (if arg = "_" then some none else (parseIntentArg? arg).map some) with
    | some l, some a =>
      let L := Nb.C17.GenF.encL l
      let ic := Nb.C17.GenF.icOf K
      match fn, a with
      | "numDA", none => showGen (Nb.Gen.C17F.numDA L)
      | "get", some a => showGen (Nb.Gen.C17F.get_arrays_from_intent ic L (Nb.C17.GenF.encArg a))
      | "rm", some a => showGen (Nb.Gen.C17F.remove_gifti_data_array_by_intent ic L (Nb.C17.GenF.encArg a))
      | _, _ => "bad-op"
    | _, _ => "bad-op"
  | "whist" :: toks =>
    match splitHist toks [] [] with
    | some (q, ops) =>
      let native := if Nb.C17.Gen.nativeBig then K.endBig else K.endLittle
      match runLit Nb.C17.Gen.names native (dataEncOf q) (orderOf K) {} ops with
      | some outs =>
        if outs.any (·.any eventHasMissing) then "bad-op"
        else if outs.isEmpty then "-"
        else " | ".intercalate (outs.map (fun es => " ".intercalate (es.map showEvent)))
      | none => "bad-op"
    | none => "bad-op"
  | "hist" :: ops =>
    match runHist [] ops with
    | some outs => if outs.isEmpty then "-" else " ".intercalate outs
    | none => "bad-op"
  | ["orig", ids, intents, it] =>
    match parseNatList? ids, parseNatList? intents, it.toNat? with
    | some ids, some ints, some it =>
      if ids.length ≠ ints.length then "bad-op"
      else
        let l := (ids.zip ints).map (fun p => (⟨p.1, p.2⟩ : DA))
        showIds (removeByIntentOrig l it) ++ " " ++
          (if ids.Nodup then showIds (skipAfterRemoval (fun d => d.intent == it) l) else "dup") ++ " " ++
          showIds (removeByIntent l it)
    | _, _, _ => "bad-op"
  | ["space"] => showList ((List.range 0x3100).filter (fun n => isPySpace (Char.ofNat n)))
  | "block" :: enc :: endian :: dt :: dims :: ord :: text :: tables =>
    match enc.toNat?, endian.toNat?, dt.toNat?, parseNatList? dims, ord.toNat?,
          (if text = "_" then some none else (parseText? text).map some), parseTables? {} tables with
    | some enc, some endian, some dt, some dims, some ord, some data, some T =>
      match readDataBlock K (mkExt T) ⟨enc, endian, dt, dims, ord⟩ data with
      | .ok a => "ok " ++ showArr a
      | .error _ => "ERR"
    | _, _, _, _, _, _, _ => "bad-op"
  | ["wblock", w, big, memBig, col, dims, mem] =>
    match w.toNat?, big.toNat?, memBig.toNat?, col.toNat?, parseNatList? dims, parseBytes? mem with
    | some w, some big, some memBig, some col, some dims, some mem =>
      if mem.length ≠ w * prod dims then "bad-op"
      else
        match writerBytes (big == 1) w (col == 1) dims (memBig == 1) mem with
        | .ok bs =>
          if bs.isEmpty then "-" else String.join (bs.map (fun b => String.ofList [hexDigit (b / 16), hexDigit (b % 16)]))
        | .error _ => "ERR"
    | _, _, _, _, _, _ => "bad-op"
  | "wevents" :: toks =>
    match parseWImg? toks { version := [], gmeta := [], labels := [], darrays := [] } with
    | some w => " ".intercalate ((imgEvents Nb.C17.Gen.names w).map showEvent)
    | none => "bad-op"
  | "parse" :: toks =>
    match splitEvents toks {} [] with
    | some (T, es) =>
      match run K (mkExt T) es with
      | .ok (some img) => showImg img
      | .ok none => "none"
      | .error _ => "ERR"
    | none => "bad-op"
  | _ => "bad-op"

end Nb.Drv.C17

def main : IO Unit := Nb.Drv.runDriver "C17" Nb.Drv.C17.handle
