import NibabelModel.Model.C17
import Driver.Util
/-! Line-protocol driver for C17: `C17 <op> <args...>` -> one observable line. -/
namespace Nb.Drv.C17

def handle : List String → String
  | _ => "bad-op"

end Nb.Drv.C17

def main : IO Unit := Nb.Drv.runDriver "C17" Nb.Drv.C17.handle
