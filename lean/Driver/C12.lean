import NibabelModel.Model.C12
import NibabelModel.Generated.C12FileTypes
import NibabelModel.Generated.C12Funcs
import Driver.Util
/-! Line-protocol driver for C12: `C12 <op> <args...>` -> one observable line.
    Strings travel percent-encoded (UTF-8 bytes; safe = alnum and `_.-~/`) with a leading `=`. -/
namespace Nb.Drv.C12
open Nb Nb.C12 Nb.C12.Gen

def hexVal? (c : Char) : Option Nat :=
  if '0' ≤ c ∧ c ≤ '9' then some (c.toNat - 48)
  else if 'A' ≤ c ∧ c ≤ 'F' then some (c.toNat - 55)
  else if 'a' ≤ c ∧ c ≤ 'f' then some (c.toNat - 87)
  else none

def decGo : List Char → Option Str
  | [] => some []
  | '%' :: a :: b :: r => do
      let x ← hexVal? a
      let y ← hexVal? b
      let t ← decGo r
      pure ((16 * x + y) :: t)
  | '%' :: _ => none
  | c :: r => do
      let t ← decGo r
      if c.toNat < 128 then pure (c.toNat :: t) else none

/-- `=<percent-encoded>` -> byte codes -/
def dec? (s : String) : Option Str :=
  match s.toList with
  | '=' :: r => decGo r
  | _ => none

def hexDigitL (n : Nat) : Char := if n < 10 then Char.ofNat (48 + n) else Char.ofNat (87 + n)

def hexDigit (n : Nat) : Char := if n < 10 then Char.ofNat (48 + n) else Char.ofNat (55 + n)

def safeByte (b : Nat) : Bool :=
  (48 ≤ b && b ≤ 57) || (65 ≤ b && b ≤ 90) || (97 ≤ b && b ≤ 122) ||
  b == 95 || b == 46 || b == 45 || b == 126 || b == 47

def enc (s : Str) : String :=
  String.ofList (s.flatMap fun b => if safeByte b then [Char.ofNat b] else ['%', hexDigit (b / 16), hexDigit (b % 16)])

def encO : Option Str → String
  | some s => enc s
  | none => "!none"

def asc (s : String) : Str := s.toList.map Char.toNat

def rowByName? (s : String) : Option ClassRow := findRow classTable (asc s)

def parseBool? (s : String) : Option Bool := if s = "1" then some true else if s = "0" then some false else none

def showMap (m : FileMap) : String := "|".intercalate (m.map fun (k, v) => enc k ++ "=" ++ enc v)

def showFM : Except Err FileMap → String
  | .ok m => "ok " ++ showMap m
  | .error _ => "ERR"

/-- lexicographic order on byte strings (Python `sorted` on ASCII / UTF-8 names) -/
def strLe : Str → Str → Bool
  | [], _ => true
  | _ :: _, [] => false
  | a :: x, b :: y => if a < b then true else if b < a then false else strLe x y

/-- strip the fake root the harness put in front of the relative name -/
def stripRoot (root s : Str) : Str := if root.isPrefixOf s then s.drop root.length else s

/-- `W1:K1,K2;W2:K3` — for each possibly-written class the classes whose header sniff accepts its header -/
def parseSniffTable (s : String) : List (Str × List Str) :=
  (s.splitOn ";").filterMap fun ent =>
    match ent.splitOn ":" with
    | [w, ks] => some (asc w, (ks.splitOn ",").filter (· ≠ "") |>.map asc)
    | _ => none

/-- what `nib.load(f)` followed by reading the data gives when exactly `files` exist: the class name,
    `NOFILE` (the name itself, or a member the class needs, does not exist), `ERR` (ImageFileError) -/
def loadObs (table : List ClassRow) (files : List Str) (accept : Str → Bool) (hdrKey : Str)
    (optional : List Str) (f : Str) : String :=
  if !files.contains f then "NOFILE"
  else
    match table.find? (fun r => extOK r f && (!r.sniffs ||
        (match sniffFile hdrKey r f with
         | .ok s => files.contains s && accept r.name
         | .error _ => false))) with
    | none => "ERR"
    | some r =>
      match filespecToFileMap r f with
      | some (.ok m) => if m.all (fun kv => optional.contains kv.1 || files.contains kv.2) then enc r.name else "NOFILE"
      | _ => "bad-op"

def n1i := asc "Nifti1Image"
def n1p := asc "Nifti1Pair"
def n2i := asc "Nifti2Image"
def n2p := asc "Nifti2Pair"

/-- the environment of the history model, from the regenerated tables -/
def histEnv (sniffs : String) : Env :=
  { table := classTable, baseKeys := baseOpenerKeys, imgKeys := openerKeys, icase := compressExtIcase,
    saveSfx := saveSuffixes, toPair := [(n1i, n1p), (n2i, n2p)], toSingle := [(n1p, n1i), (n2p, n2i)],
    imgHdr := [asc ".img", asc ".hdr"], nii := [asc ".nii"], headerKey := asc "header",
    optional := [asc "mat"], sniffTab := parseSniffTable sniffs }

/-- `O:=name` | `I:=name` | `S:Cls:=name` | `L:=name` | `R:=a:=b` -/
def parseOp? (t : String) : Option Op :=
  match t.splitOn ":" with
  | ["O", n] => (dec? n).map (Op.opener false)
  | ["I", n] => (dec? n).map (Op.opener true)
  | ["S", c, n] => if c.isEmpty then none else (dec? n).map (Op.save (asc c))
  | ["L", n] => (dec? n).map Op.load
  | ["R", a, b] => do
      let a ← dec? a
      let b ← dec? b
      pure (Op.rename a b)
  | _ => none

def showObs (root : Str) : Obs → String
  | .codec c => "c" ++ toString c
  | .saved w files =>
      let fl := files.mergeSort (fun a b => strLe a.1 b.1)
      "W=" ++ enc w ++ "," ++ "|".intercalate (fl.map fun f => enc (stripRoot root f.1) ++ ":" ++ toString f.2)
  | .saveErr => "ERR"
  | .loaded (.cls n) => enc n
  | .loaded .nofile => "NOFILE"
  | .loaded .err => "ERR"
  | .loaded .mismatch => "MISMATCH"
  | .loaded .unmodelled => "bad-op"
  | .moved true => "mv1"
  | .moved false => "mv0"
  | .bad => "bad-op"

def hexByte (b : Nat) : String := String.ofList [hexDigitL (b / 16), hexDigitL (b % 16)]
def showHex (b : Bytes) : String := if b.isEmpty then "-" else String.join (b.map hexByte)

def unhex : List Char → Option Bytes
  | [] => some []
  | a :: b :: r => do
      let x ← hexVal? a
      let y ← hexVal? b
      let t ← unhex r
      pure ((16 * x + y) :: t)
  | _ => none

/-- `w<hex>` (`w-` = empty write) | `s<offset>` -/
def parseWOp? (t : String) : Option WOp :=
  match t.toList with
  | 'w' :: r => if r = ['-'] then some (.write []) else (unhex r).map WOp.write
  | 's' :: r => (String.ofList r).toNat?.map WOp.seekTo
  | _ => none

/-! ### stage T: values of the translated fragment on the wire (`gen` / `pyop` streams)
    `N` | `b0` `b1` | `i<int>` | `u<cp>,<cp>,…` (a string as decimal code points; `u` = empty) |
    `P<a>&<b>` (a pair) | `L<v>;<v>;…` (a tuple/list; `L` = empty) -/
section StageT
open Nb.Py

def parseU? (r : List Char) : Option String :=
  if r.isEmpty then some ""
  else (((String.ofList r).splitOn ",").mapM (fun (t : String) => t.toNat?)).map fun l => String.ofList (l.map Char.ofNat)

def parseAtom? (s : String) : Option V :=
  match s.toList with
  | ['N'] => some .none
  | ['b', '0'] => some (.bool false)
  | ['b', '1'] => some (.bool true)
  | 'i' :: r => (String.ofList r).toInt?.map V.int
  | 'u' :: r => (parseU? r).map V.str
  | _ => none

def parseItem? (s : String) : Option V :=
  match s.toList with
  | 'P' :: r =>
      match (String.ofList r).splitOn "&" with
      | [a, b] => do pure (V.tup2 (← parseAtom? a) (← parseAtom? b))
      | _ => none
  | _ => parseAtom? s

def parseVal? (s : String) : Option V :=
  match s.toList with
  | 'L' :: r => if r.isEmpty then some .nil else (((String.ofList r).splitOn ";").mapM parseItem?).map V.ofList
  | _ => parseItem? s

def showU (s : String) : String := "u" ++ ",".intercalate (s.toList.map fun c => toString c.toNat)

partial def showVal : V → String
  | .none => "N"
  | .bool b => if b then "b1" else "b0"
  | .int i => "i" ++ toString i
  | .str s => showU s
  | .tup2 a b => "(" ++ showVal a ++ ";" ++ showVal b ++ ")"
  | .tup3 a b c => "(" ++ showVal a ++ ";" ++ showVal b ++ ";" ++ showVal c ++ ")"
  | .dict es => "{" ++ showVal es ++ "}"
  | .nil => "()"
  | .cons a b => "(" ++ ";".intercalate ((a :: (b.toList?.getD [])).map showVal) ++ ")"
  | _ => "bad-value"

def showRes : M V → String
  | .ok v => showVal v
  | .error e => showErr e

def showResB : M Bool → String
  | .ok b => if b then "b1" else "b0"
  | .error e => showErr e

open Nb.Gen.C12F in
def handleT : List String → String
  | ["gen", fn, a, b] =>
      match parseVal? a, parseVal? b with
      | some a, some b =>
          if fn = "_endswith" then showRes (py_endswith a b)
          else if fn = "_iendswith" then showRes (py_iendswith a b)
          else "bad-op"
      | _, _ => "bad-op"
  | ["gen", "splitext_addext", a, b, c] =>
      match parseVal? a, parseVal? b, parseVal? c with
      | some a, some b, some c => showRes (splitext_addext a b c)
      | _, _, _ => "bad-op"
  | ["gen", "parse_filename", a, b, c, d] =>
      match parseVal? a, parseVal? b, parseVal? c, parseVal? d with
      | some a, some b, some c, some d => showRes (parse_filename a b c d)
      | _, _, _, _ => "bad-op"
  | ["gen", "types_filenames", a, b, c, d, e] =>
      match parseVal? a, parseVal? b, parseVal? c, parseVal? d, parseVal? e with
      | some a, some b, some c, some d, some e => showRes (types_filenames a b c d e)
      | _, _, _, _, _ => "bad-op"
  | ["pyop", op, a] =>
      match parseVal? a with
      | some a =>
          if op = "lower" then showRes (V.strLower a)
          else if op = "upper" then showRes (V.strUpper a)
          else if op = "len" then showRes (V.lenS a)
          else if op = "splitext" then showRes (V.osPathSplitext a)
          else if op = "isstr" then (if V.isStr a then "b1" else "b0")
          else if op = "truthy" then showResB (V.truthy a)
          else "bad-op"
      | none => "bad-op"
  | ["pyop", op, a, b] =>
      match parseVal? a, parseVal? b with
      | some a, some b =>
          if op = "endswith" then showRes (V.strEndswith a b)
          else if op = "rfind" then showRes (V.strRfind a b)
          else if op = "strip" then showRes (V.strStrip a b)
          else if op = "removesuffix" then showRes (V.strRemovesuffix a b)
          else if op = "add" then showRes (V.addS a b)
          else if op = "slicefrom" then showRes (V.sliceFrom a b)
          else if op = "sliceto" then showRes (V.sliceTo a b)
          else if op = "callstr1" then showRes (V.callStr1 a b)
          else if op = "eq" then (if V.pyEq a b then "b1" else "b0")
          else "bad-op"
      | _, _ => "bad-op"
  | _ => "bad-op"

end StageT

def handle : List String → String
  | "gen" :: rest => handleT ("gen" :: rest)
  | "pyop" :: rest => handleT ("pyop" :: rest)
  | "wprog" :: kind :: ops =>
      match ops.mapM parseWOp? with
      | some p =>
          let flags := s!"|m{if mono 0 p then 1 else 0}|c{if complete p then 1 else 0}"
          if kind = "ra" then showHex (raRun p) ++ flags
          else if kind = "seq" then (match seqRun p with | some b => showHex b | none => "ERR") ++ flags
          else "bad-op"
      | none => "bad-op"
  | "hist" :: root :: sniffs :: steps =>
      match dec? root, steps.mapM parseOp? with
      | some root, some ops =>
          if ops.isEmpty then "bad-op"
          else ";".intercalate ((runHist (histEnv sniffs) [] ops).2.map (showObs root))
      | _, _ => "bad-op"
  | ["fm", cls, name] =>
      match rowByName? cls, dec? name with
      | some r, some n =>
          match filespecToFileMap r n with
          | some res => showFM res
          | none => "bad-op"
      | _, _ => "bad-op"
  | ["tf", cls, name, enforce, mc] =>
      match rowByName? cls, dec? name, parseBool? enforce, parseBool? mc with
      | some r, some n, some e, some m => showFM (typesFilenames n r.filesTypes r.suffixes e m)
      | _, _, _, _ => "bad-op"
  | ["tforig", cls, name] =>
      match rowByName? cls, dec? name with
      | some r, some n => showFM (typesFilenamesOrig n r.filesTypes r.suffixes)
      | _, _ => "bad-op"
  | ["parse", cls, name, mc] =>
      match rowByName? cls, dec? name, parseBool? mc with
      | some r, some n, some m =>
          let p := parseFilename n r.filesTypes r.suffixes m
          s!"{enc p.root}|{enc p.ext}|{encO p.ignored}|{encO p.guessed}"
      | _, _, _ => "bad-op"
  | ["sae", cls, name, mc] =>
      match (if cls = "*" then some saeDefault else (rowByName? cls).map (·.suffixes)), dec? name, parseBool? mc with
      | some sfx, some n, some m =>
          let (a, b, c) := splitextAddext n sfx m
          s!"{enc a}|{enc b}|{enc c}"
      | _, _, _ => "bad-op"
  | ["codec", name] =>
      match dec? name with
      | some n => toString (openerCodec openerKeys compressExtIcase n)
      | none => "bad-op"
  | ["ext", name] =>
      match dec? name with
      | some n => ",".intercalate ((classTable.filter (extOK · n)).map (enc ·.name))
      | none => "bad-op"
  | ["save", cls, root, name, sniffs] =>
      match rowByName? cls, dec? root, dec? name with
      | some k, some root, some n =>
          let st := parseSniffTable sniffs
          match saveClass classTable saveSuffixes [(n1i, n1p), (n2i, n2p)] [(n1p, n1i), (n2p, n2i)]
                  [asc ".img", asc ".hdr"] [asc ".nii"] k n with
          | .error _ => "ERR"
          | .ok wname =>
            match findRow classTable wname with
            | none => "bad-op"
            | some w =>
              match filespecToFileMap w n with
              | some (.ok m) =>
                  let files := (m.map (·.2)).mergeSort strLe
                  let fs := "|".intercalate (files.map fun f =>
                    enc (stripRoot root f) ++ ":" ++ toString (openerCodec openerKeys compressExtIcase f))
                  let sn := (st.lookup wname).getD []
                  let all := m.map (·.2)
                  let ld := fun (f : Str) => loadObs classTable all (fun c => sn.contains c) (asc "header") [asc "mat"] f
                  let loads := ",".intercalate (files.map ld)
                  let ser := if !w.serial then "none" else
                    match toBytes ⟨fun _ b => b, fun _ b => b⟩ openerKeys compressExtIcase w [1] with
                    | .ok _ => "ok"
                    | .error _ => "ERR"
                  s!"ok cls={enc wname} files={fs} load={ld n} loads={loads} ser={ser}"
              | _ => "bad-op"
      | _, _, _ => "bad-op"
  | _ => "bad-op"

end Nb.Drv.C12

def main : IO Unit := Nb.Drv.runDriver "C12" Nb.Drv.C12.handle
