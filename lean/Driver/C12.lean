import NibabelModel.Model.C12
import Driver.Util
/-! Line-protocol driver for C12: `C12 <op> <args...>` -> one observable line. -/
namespace Nb.Drv.C12

def handle : List String → String
  | _ => "bad-op"

end Nb.Drv.C12

def main : IO Unit := Nb.Drv.runDriver "C12" Nb.Drv.C12.handle
