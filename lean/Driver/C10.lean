import NibabelModel.Model.C10
import NibabelModel.Model.C10_Mem
import NibabelModel.Generated.C10Layouts
import NibabelModel.Generated.C10Codes
import NibabelModel.Generated.C10Own
import Driver.Util
/-! Line-protocol driver for C10: `C10 <op> <args...>` -> one observable line.

    hdr   <cls> <native> <e|?> <to|_> <hex>   WrapStruct from bytes (byte order spelled with any endian_codes alias,
                                         or guessed), as_byteswapped() and as_byteswapped(<to>)
    chk   <cls> <e> <hex>                check_fix, check_fix again, check_only
    dt    <table> <code>                 data type code table row + reverse lookup
    codec <e> <w> <v>                    byte codec
    fdec  <f32|f64|i64> <pattern>        float classes used by the checks
    fromhdr <src> <dst> <e> <hex>        Dst.from_header(src, check=False): provenance of EVERY field; datatype / bitpix /
                                         dim / pixdim (same float width) / magic READ BACK from the converted record,
                                         whose setter values come from `fromHeaderG?` (HeaderDataError = none)
    world <cls> <e> <hex> <script>       objects and buffers: script = comma list of c<i> (copy), y<i> (as_byteswapped),
                                         s<i>:<field>:<p0>/<p1>/.. (obj_i[field] = items); bytes of every object at the end
    fhpix <f32|f64> <ndim> <p0,..,p7>    pixdim of from_header(src) for another class of the same float width
    mem   <cls> <native> <script>        memory cells, caller-side containers and headers (Model/C10_Mem): script = comma list of
                                         A<w>:<hex> (new container, w = writable 0/1), V<b>:<ro> (view of container b),
                                         P<b>:<off>:<hex> (write through b), C<b>:<e|?> (Klass(b, e)), F<b>:<off>:<e|?>
                                         (from_fileobj at off), B<h> (h.binaryblock as a new container), S<h>:<field>:<p0>/..,
                                         K<h> (copy), H<h> (same-class from_header), Y<h>:<to|_> (as_byteswapped), X<h>
                                         (check_fix); output: per step the objects created or changed, with their bytes
    pfix  <cls> <e> <glob> <l1,l2,..> <hex>   the PUBLIC hdr.check_fix(error_level=l_i) called in sequence on one object
                                         (l_i = integer or N = None -> imageglobals.error_level = <glob>): per call
                                         raised index / logged reports / bytes; then check_only, Klass(bytes, check=True)
                                         and diagnose_binaryblock on the original bytes
-/
namespace Nb.Drv.C10
open Nb Nb.C10

def hexVal (c : Char) : Option Nat :=
  if '0' ≤ c ∧ c ≤ '9' then some (c.toNat - '0'.toNat)
  else if 'a' ≤ c ∧ c ≤ 'f' then some (c.toNat - 'a'.toNat + 10)
  else none

def parseHexChars : List Char → Option (List Byte)
  | [] => some []
  | a :: b :: r =>
      match hexVal a, hexVal b, parseHexChars r with
      | some x, some y, some t => some (UInt8.ofNat (16 * x + y) :: t)
      | _, _, _ => none
  | _ => none

def parseHex? (s : String) : Option (List Byte) :=
  if s = "-" then some [] else parseHexChars s.toList

def hexChar (n : Nat) : Char := if n < 10 then Char.ofNat (48 + n) else Char.ofNat (87 + n)

def toHex (bs : List Byte) : String :=
  if bs.isEmpty then "-" else
  String.ofList (bs.foldr (fun b acc => hexChar (b.toNat / 16) :: hexChar (b.toNat % 16) :: acc) [])

def parseEndian? (s : String) : Option Endian :=
  if s = "<" then some .le else if s = ">" then some .be else none

def showEndian : Endian → String
  | .le => "<"
  | .be => ">"

def showField (f : Field) (v : List Nat) : String :=
  match f.kind with
  | .int => ",".intercalate (v.map (fun x => toString (toInt f.iw x)))
  | .bytes => toHex (v.map UInt8.ofNat)
  | _ => ",".intercalate (v.map toString)

def showVals (L : Layout) (vals : List (List Nat)) : String :=
  ";".intercalate (List.zipWith showField L.fields vals)

def showMsg : Msg → String
  | .none => "-" | .sizeof => "sizeof" | .dtUnrec => "dt-unrec" | .dtUnsup => "dt-unsup"
  | .bpNoDt => "bp-nodt" | .bpMismatch => "bp-mismatch" | .pdZero => "pd-zero" | .pdNeg => "pd-neg"
  | .pdZeroNeg => "pd-zero+neg" | .qfac => "qfac" | .magic => "magic" | .offLow => "off-low"
  | .off16 => "off-16" | .qform => "qform" | .sform => "sform" | .eolZero => "eol-zero"
  | .eolBad => "eol-bad" | .origin => "origin" | .version => "version"

def showReports (fix : Bool) (rs : List Report) : String :=
  "[" ++ ",".intercalate (rs.map (fun r =>
    toString r.level ++ ":" ++ showMsg r.msg ++ ":" ++ (if fix && r.fixMsg then "1" else "0"))) ++ "]"

def b01 (b : Bool) : String := if b then "1" else "0"

def isMgh (c : ClsSpec) : Bool := c.guess == .bigEndian

/-- bytes as the constructor sees them (MGH pads / truncates; others need the exact size) -/
def ctorBytes (c : ClsSpec) (L : Layout) (bs : List Byte) : Option (List Byte) :=
  if isMgh c then
    (match Gen.layoutOf? "mghHeader" with
     | some H => if bs.length ≥ H.size then some (mghPad L.size bs) else (if bs.length = L.size then some bs else none)
     | none => none)
  else if bs.length = L.size then some bs else none

def ctorVals (c : ClsSpec) (L : Layout) (e : Endian) (bs : List Byte) : List (List Nat) :=
  let v := parse L e bs
  if isMgh c then mghNormalise L v else v

/-- endianness argument as spelled by the caller: `?` = None (guess), else through `endian_codes` -/
inductive EArg where
  | guess
  | code (e : Endian)
  | keyError

def parseEArg (s : String) : EArg :=
  if s = "?" then .guess else
  match endianOf? Gen.endianAliases s with
  | some e => .code e
  | none => .keyError

def showTo (c : ClsSpec) (L : Layout) (h : Hdr) (to : String) : String :=
  if to = "_" then "" else
  match endianOf? Gen.endianAliases to with
  | none => " to=ERR:KeyError"
  | some t =>
    if isMgh c && t != .be then " to=ERR:ValueError" else
    let r := asByteswappedTo L h (some t)
    " to=" ++ showEndian r.e ++ ":" ++ toHex (binaryblock L r) ++ ":" ++ b01 (r.vals == h.vals) ++
      b01 (hdrEq L h r) ++ b01 (hdrEq L r h)

def handleHdr (c : ClsSpec) (L : Layout) (native : Endian) (ea : EArg) (to : String) (bs0 : List Byte) : String :=
  match ctorBytes c L bs0 with
  | none => "ERR:WrapStructError"
  | some bs =>
    let e? : Except String Endian := match ea with
      | .code e => .ok e
      | .keyError => .error "ERR:KeyError"
      | .guess => match guessEndian L c.guess native bs with
          | some e => .ok e
          | none => .error "bad-op"
    match e? with
    | .error msg => msg
    | .ok e =>
      let h : Hdr := ⟨e, ctorVals c L e bs⟩
      let bb := binaryblock L h
      let cp := copy L h
      let base := "e=" ++ showEndian h.e ++ " bb=" ++ toHex bb ++ " vals=" ++ showVals L h.vals ++
        " copy=" ++ b01 (hdrEq L h cp && binaryblock L cp == bb)
      if c.swappable then
        let s := asByteswapped L h
        base ++ " sw=" ++ showEndian s.e ++ ":" ++ toHex (binaryblock L s) ++
          " swvals=" ++ b01 (s.vals == h.vals) ++ " eq=" ++ b01 (hdrEq L h s) ++ b01 (hdrEq L s h) ++
          " back=" ++ b01 (binaryblock L (asByteswapped L s) == bb) ++ showTo c L h to
      else base ++ " sw=NA" ++ showTo c L h to

def handleChk (c : ClsSpec) (L : Layout) (e : Endian) (bs0 : List Byte) : String :=
  match ctorBytes c L bs0 with
  | none => "ERR:WrapStructError"
  | some bs =>
    let bs := serialize L e (ctorVals c L e bs)
    if raisesBytes c L e bs then "ERR:OverflowError" else
    let ro := checkOnlyBytes c L e bs
    let (bb1, r1) := checkFixBytes c L e bs
    let (bb2, r2) := checkFixBytes c L e bb1
    "r1=" ++ showReports true r1 ++ " bb1=" ++ toHex bb1 ++ " r2=" ++ showReports true r2 ++
      " same=" ++ b01 (bb2 == bb1) ++ " ro=" ++ showReports false ro

def parseLevels? (s : String) : Option (List (Option Int)) :=
  (s.splitOn ",").mapM (fun t => if t = "N" then some none else t.toInt?.map some)

def showStep (bb1 : List Byte) (r : PubResult) : String :=
  (match r.raised with
   | some i => "R" ++ toString i
   | none => "ok") ++ "/" ++ showReports true r.logged ++ "/" ++ b01 (r.bytes == bb1)

def handlePfix (c : ClsSpec) (L : Layout) (e : Endian) (glob : Int) (lvls : List (Option Int)) (bs0 : List Byte) : String :=
  match ctorBytes c L bs0 with
  | none => "ERR:WrapStructError"
  | some bs =>
    let bs := serialize L e (ctorVals c L e bs)
    if raisesBytes c L e bs then "ERR:OverflowError" else
    let hist := runHistory c L e bs (lvls.map (fun l => effLevel l glob))
    let bb1 := (hist.headD default).bytes
    let last := (hist.getLastD default).bytes
    "bb1=" ++ toHex bb1 ++ " steps=" ++ ";".intercalate (hist.map (showStep bb1)) ++
      " ro=" ++ showReports false (checkOnlyBytes c L e last) ++
      " ctor=" ++ (match ctorChecked c L e bs glob with
                   | .error i => "ERR:" ++ toString i
                   | .ok bb => "ok:" ++ b01 (bb == bb1)) ++
      " diag=[" ++ ",".intercalate ((diagnose c L e bs).map (fun r => showMsg r.msg)) ++ "]"

inductive WOp where
  | copy (i : Nat)
  | swap (i : Nat)
  | set (i : Nat) (name : String) (v : List Nat)

def parseWOp? (t : String) : Option WOp :=
  match t.toList with
  | 'c' :: r => (String.ofList r).toNat?.map .copy
  | 'y' :: r => (String.ofList r).toNat?.map .swap
  | 's' :: r =>
      match (String.ofList r).splitOn ":" with
      | [i, name, v] =>
          match i.toNat?, (v.splitOn "/").mapM (·.toNat?) with
          | some i, some v => some (.set i name v)
          | _, _ => none
      | _ => none
  | _ => none

/-- `as_byteswapped()` yields a new object on a new buffer, like `copy()` -/
def worldSwap (L : Layout) (w : World) (i : Nat) : World :=
  let h := asByteswapped L (w.hdr i)
  ⟨w.bufs ++ [h.vals], w.objs ++ [⟨h.e, w.bufs.length⟩]⟩

def runWorld (L : Layout) (w : World) : List WOp → Option World
  | [] => some w
  | .copy i :: r => if i < w.objs.length then runWorld L (w.copyObj L i).1 r else none
  | .swap i :: r => if i < w.objs.length then runWorld L (worldSwap L w i) r else none
  | .set i n v :: r =>
      match L.find? n with
      | some f => if i < w.objs.length ∧ v.length = f.n ∧ v.all (fun x => decide (x < 256 ^ f.iw))
                  then runWorld L (w.setObj L i n v) r else none
      | none => none

def handleWorld (c : ClsSpec) (L : Layout) (e : Endian) (bs0 : List Byte) (script : String) : String :=
  match ctorBytes c L bs0, (script.splitOn ",").mapM parseWOp? with
  | some bs, some ops =>
      let w0 : World := ⟨[ctorVals c L e bs], [⟨e, 0⟩]⟩
      match runWorld L w0 ops with
      | none => "bad-op"
      | some w => ";".intercalate ((List.range w.objs.length).map (fun k =>
          showEndian (w.hdr k).e ++ ":" ++ toHex (binaryblock L (w.hdr k))))
  | none, _ => "ERR:WrapStructError"
  | _, none => "bad-op"

/-! ### mem: histories over memory cells, caller-side containers and headers -/

/-- the class instance of `Model/C10_Mem.Klass` for a generated class -/
def klassOf (c : ClsSpec) (L : Layout) (native : Endian) : Klass where
  L := L
  norm := fun e bs => (ctorBytes c L bs).map (fun bs => serialize L e (ctorVals c L e bs))
  guess := fun bs => if isMgh c then some .be else (ctorBytes c L bs).bind (guessEndian L c.guess native)
  fix := fun e bs => (checkFixBytes c L e bs).1

/-- `none` = ill-formed token; endianness arguments are spelled like in the API -/
def parseMemE? (c : ClsSpec) (s : String) : Option (Option Endian) :=
  if isMgh c then (if s = "?" ∨ endianOf? Gen.endianAliases s = some .be then some (some .be) else none)
  else if s = "?" then some none
  else (endianOf? Gen.endianAliases s).map some

def parseMOp? (c : ClsSpec) (t : String) : Option MOp :=
  match t.toList with
  | 'A' :: r =>
      match (String.ofList r).splitOn ":" with
      | [w, hex] => match parseHex? hex with
          | some bs => if w = "1" then some (.alloc true bs) else if w = "0" then some (.alloc false bs) else none
          | none => none
      | _ => none
  | 'V' :: r =>
      match (String.ofList r).splitOn ":" with
      | [b, ro] => match b.toNat? with
          | some b => if ro = "1" then some (.view b true) else if ro = "0" then some (.view b false) else none
          | none => none
      | _ => none
  | 'P' :: r =>
      match (String.ofList r).splitOn ":" with
      | [b, off, hex] => match b.toNat?, off.toNat?, parseHex? hex with
          | some b, some off, some bs => some (.poke b off bs)
          | _, _, _ => none
      | _ => none
  | 'C' :: r =>
      match (String.ofList r).splitOn ":" with
      | [b, e] => match b.toNat?, parseMemE? c e with
          | some b, some e => some (.ctor b e)
          | _, _ => none
      | _ => none
  | 'F' :: r =>
      match (String.ofList r).splitOn ":" with
      | [b, off, e] => match b.toNat?, off.toNat?, parseMemE? c e with
          | some b, some off, some e => if isMgh c then none else some (.fromFile b off e)
          | _, _, _ => none
      | _ => none
  | 'B' :: r => (String.ofList r).toNat?.map .snap
  | 'K' :: r => (String.ofList r).toNat?.map .copy
  | 'H' :: r => (String.ofList r).toNat?.map .copy
  | 'X' :: r => (String.ofList r).toNat?.map .fix
  | 'Y' :: r =>
      match (String.ofList r).splitOn ":" with
      | [h, to] => match h.toNat? with
          | some h =>
              if to = "_" then (if isMgh c then none else some (.swapTo h none))
              else match endianOf? Gen.endianAliases to with
                | some t => if isMgh c && t != .be then none else some (.swapTo h (some t))
                | none => none
          | none => none
      | _ => none
  | 'S' :: r =>
      match (String.ofList r).splitOn ":" with
      | [i, name, v] =>
          match i.toNat?, (v.splitOn "/").mapM (·.toNat?) with
          | some i, some v => some (.setf i name v)
          | _, _ => none
      | _ => none
  | _ => none

/-- every object with its observable: containers `b<i>` = bytes, headers `h<i>` = byte order and bytes -/
def memSnapshot (m : Mem) : List (String × String) :=
  (List.range m.bufs.length).map (fun i => ("b" ++ toString i, toHex (m.bufBytes i))) ++
  (List.range m.hdrs.length).map (fun i => ("h" ++ toString i, showEndian (m.hdrE i) ++ ":" ++ toHex (m.hdrBytes i)))

def memDelta (old new : List (String × String)) : String :=
  let ch := new.filter (fun x => !(old.contains x))
  if ch.isEmpty then "-" else ";".intercalate (ch.map (fun x => x.1 ++ "=" ++ x.2))

def memOpOk (K : Klass) : MOp → Bool
  | .setf _ n v =>
      match K.L.find? n with
      | some f => v.length == f.n && v.all (fun x => decide (x < 256 ^ f.iw))
      | none => false
  | _ => true

def runMem (c : ClsSpec) (K : Klass) : Mem → List MOp → List String → String
  | _, [], acc => "|".intercalate acc.reverse
  | m, op :: ops, acc =>
      if !memOpOk K op then "bad-op" else
      let over := match op with
        | .fix h => raisesBytes c K.L (m.hdrE h) (m.hdrBytes h)
        | _ => false
      if over then "ERR:OverflowError" else
      -- the step function of the ownership skeleton extracted from the source (= `Mem.step` when it passes
      -- `OwnSkel.ok`: `gen_ownership_skeleton_ok`)
      match Mem.stepBy K Gen.ownSkel m op with
      | none => "|".intercalate (("ERR" :: acc).reverse)
      | some m1 => runMem c K m1 ops (memDelta (memSnapshot m) (memSnapshot m1) :: acc)

def handleMem (c : ClsSpec) (L : Layout) (native : Endian) (script : String) : String :=
  match (script.splitOn ",").mapM (parseMOp? c) with
  | none => "bad-op"
  | some ops => runMem c (klassOf c L native) Mem.empty ops []

def handle : List String → String
  | ["mem", cls, native, script] =>
      match Gen.classOf? cls, parseEndian? native with
      | some c, some native =>
          if native != Gen.nativeCode then "bad-op" else
          match Gen.layoutOf? c.layout with
          | some L => handleMem c L native script
          | none => "bad-op"
      | _, _ => "bad-op"
  | ["world", cls, e, hex, script] =>
      match Gen.classOf? cls, parseHex? hex with
      | some c, some bs =>
          match Gen.layoutOf? c.layout, parseEArg e with
          | some L, .code e => handleWorld c L e bs script
          | some _, .keyError => "ERR:KeyError"
          | _, _ => "bad-op"
      | _, _ => "bad-op"
  | ["pfix", cls, e, glob, lvls, hex] =>
      match Gen.classOf? cls, parseHex? hex, glob.toInt?, parseLevels? lvls with
      | some c, some bs, some glob, some lvls =>
          if lvls.isEmpty then "bad-op" else
          match Gen.layoutOf? c.layout, parseEArg e with
          | some L, .code e => handlePfix c L e glob lvls bs
          | some _, .keyError => "ERR:KeyError"
          | _, _ => "bad-op"
      | _, _, _, _ => "bad-op"
  | ["hdr", cls, native, e, to, hex] =>
      match Gen.classOf? cls, parseEndian? native, parseHex? hex with
      | some c, some native, some bs =>
          if native != Gen.nativeCode then "bad-op" else    -- the alias table is this machine's
          match Gen.layoutOf? c.layout with
          | none => "bad-op"
          | some L => handleHdr c L native (parseEArg e) to bs
      | _, _, _ => "bad-op"
  | ["chk", cls, e, hex] =>
      match Gen.classOf? cls, parseHex? hex with
      | some c, some bs =>
          match Gen.layoutOf? c.layout, parseEArg e with
          | some L, .code e => handleChk c L e bs
          | some _, .keyError => "ERR:KeyError"
          | _, _ => "bad-op"
      | _, _ => "bad-op"
  | ["dt", table, code] =>
      match Gen.dtTables.find? (·.1 == table), code.toInt? with
      | some (_, t), some code =>
          match dtFind t code with
          | none => "none"
          | some r => toString r.kind ++ " " ++ toString r.isz ++ " " ++ toString r.swKind ++ " " ++
              toString r.swIsz ++ " " ++ b01 r.swOpposite ++ " " ++
              (if r.isz = 0 then "void" else match dtCodeOf t r.kind r.isz with
                | some k => toString k
                | none => "none")
      | _, _ => "bad-op"
  | ["codec", e, w, v] =>
      match parseEndian? e, w.toNat?, v.toNat? with
      | some e, some w, some v =>
          let bs := enc e w v
          toHex bs ++ " " ++ toString (dec e bs) ++ " " ++ toString (dec e.swap bs) ++ " " ++
            toString (toInt w (dec e bs)) ++ " " ++ toString (ofInt w (toInt w (dec e bs)))
      | _, _, _ => "bad-op"
  | ["fromhdr", scls, dcls, e, hex] =>
      match Gen.classOf? scls, Gen.classOf? dcls, parseEArg e, parseHex? hex with
      | some cs, some cd, .code e, some bs =>
          match Gen.layoutOf? cs.layout, Gen.layoutOf? cd.layout with
          | some Ls, some Ld =>
            if bs.length ≠ Ls.size ∨ cs.name = cd.name then "bad-op" else
            let vals := parse Ls e bs
            let dim := getInts Ls vals "dim"
            let pix := getRaw Ls vals "pixdim"
            let nifti := !cd.singleMagic.isEmpty
            -- the copy loop with the identity as cast: exact for same-named fields of the same item type
            let dflt := Ld.fields.map (fun f => List.replicate f.n 0)
            let copied := copyFs (fun _ _ v => v) Ld Ls.fields vals dflt
            match fromHeaderG? cs cd Ls Ld vals copied with
            | none => "ERR:HeaderDataError"
            | some g =>
              let R := fromHeaderVals (fun _ _ v => v) Ls Ld nifti vals dflt g
              let k := (getInts Ld R "datatype").getD 0 0
              let bp := (getInts Ld R "bitpix").getD 0 0
              let magic := if nifti then toHex ((stripNul (getRaw Ld R "magic")).map UInt8.ofNat) else "-"
              let prov := Ld.fields.map (fun fd => match provOf Ls nifti fd with
                | .copied => 'c' | .default => 'd' | .overwritten => 'o')
              let pixv := if fieldW Ls "pixdim" = fieldW Ld "pixdim" then showList (getRaw Ld R "pixdim") else "-"
              "dt=" ++ toString k ++ "/" ++ toString bp ++ " dim=" ++ showList (getInts Ld R "dim") ++
                " pix=" ++ String.ofList (pixTags cs.pixFmt dim pix) ++ " pixv=" ++ pixv ++ " magic=" ++ magic ++
                " prov=" ++ String.ofList prov
          | _, _ => "bad-op"
      | _, _, _, _ => "bad-op"
  | ["fhpix", fmt, nd, pix] =>
      match nd.toNat?, parseNatList? pix with
      | some nd, some pix =>
          if pix.length ≠ 8 ∨ nd > 7 then "bad-op"
          else if fmt = "f32" then showList (fromHeaderPix fmt32 nd pix)
          else if fmt = "f64" then showList (fromHeaderPix fmt64 nd pix)
          else "bad-op"
      | _, _ => "bad-op"
  | ["fdec", fmt, p] =>
      match p.toNat? with
      | none => "bad-op"
      | some p =>
        let flags (F : FloatFmt) := b01 (F.isNaN p) ++ b01 (F.isZero p) ++ b01 (F.isNeg p) ++ b01 (F.le0 p) ++
          " " ++ toString (F.abs p) ++ " " ++ b01 (p == F.one) ++ b01 (p == F.negOne)
        let off (v : OffVal) := b01 v.isZero ++ b01 (v.ltInt 352) ++ b01 (v.ltInt 544) ++ b01 v.mod16Zero ++
          b01 (v == .ninf)
        if fmt = "f32" then flags fmt32 ++ " " ++ off (fmt32.decode p)
        else if fmt = "f64" then flags fmt64 ++ " " ++ off (fmt64.decode p)
        else if fmt = "i64" then off (VoxKind.i64.decode p)
        else "bad-op"
  | _ => "bad-op"

end Nb.Drv.C10

def main : IO Unit := Nb.Drv.runDriver "C10" Nb.Drv.C10.handle
