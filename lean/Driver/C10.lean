import NibabelModel.Model.C10
import Driver.Util
/-! Line-protocol driver for C10: `C10 <op> <args...>` -> one observable line. -/
namespace Nb.Drv.C10

def handle : List String → String
  | _ => "bad-op"

end Nb.Drv.C10

def main : IO Unit := Nb.Drv.runDriver "C10" Nb.Drv.C10.handle
