import NibabelModel.Model.C19
import Driver.Util
/-! Line-protocol driver for C19: `C19 <op> <args...>` -> one observable line.

  geom  <readMeta 0|1> <stamp hex> <nv> <nf> <coords u32,..|-> <faces int,..|-> <vol>
        vol = `-` | `head;valid;filename;volume;voxelsize;xras;yras;zras;cras`
              (head: ints `,`-separated; valid/filename: hex; volume: ints `,`-separated (rendered by the model's
               `intRepr`, read back through `intsParse`); the five float vectors: hex tokens `,`-separated)
  morph <shape n,..|-> <vals u32,..|-> <fnum>
  annot <origIds 0|1> <fill 0|1> <has5 0|1> <labels int,..|-> <rows r:g:b:t:a;..|-> <names hex;..|->
  annot2 <fill 0|1> <has5 0|1> <labels> <rows> <names> <rgb r:g:b;..|-> <fill2 0|1>
        history: write_annot; read_annot; ctab[:, :3] = rgb; write_annot(fill_ctab=fill2); read_annot
  mgh   <shape> <dtype> <data u32,..|-> <affDelta u32,u32,u32> <ras hex (48 bytes)> <setZ `_`|u32,..|-> <ftrSets i:v;..|->
  mghload <file hex>                   MGHHeader.from_fileobj + data_from_fileobj on arbitrary file bytes
  mghresave <file hex> <setZ `_`|u32,..|-> <ftrSets i:v;..|->
        history: load(file); [header.set_zooms]; header[footer field] = v ...; save(other); load(other)
  zoom  <shape> <zs u32,..|->          bare MGHHeader: set_data_shape(shape); set_zooms(zs)
  hex tokens: `-` = empty byte string inside `;`/space separated fields, `_` inside `,` lists. -/
namespace Nb.Drv.C19
open Nb Nb.C19

def hexVal (c : Char) : Option Nat :=
  if '0' ≤ c ∧ c ≤ '9' then some (c.toNat - 48)
  else if 'a' ≤ c ∧ c ≤ 'f' then some (c.toNat - 87) else none

def parseHexGo : List Char → Option Bytes
  | [] => some []
  | a :: b :: r => do
    let x ← hexVal a
    let y ← hexVal b
    let t ← parseHexGo r
    pure ((16 * x + y) :: t)
  | _ => none

def parseHex? (s : String) : Option Bytes :=
  if s = "-" ∨ s = "_" then some [] else parseHexGo s.toList

def hexDigit (n : Nat) : Char := if n < 10 then Char.ofNat (48 + n) else Char.ofNat (87 + n)

def hexOf (bs : Bytes) : String :=
  if bs.isEmpty then "-" else String.ofList (bs.flatMap fun b => [hexDigit (b / 16), hexDigit (b % 16)])

def parseHexList? (sep : String) (s : String) : Option (List Bytes) :=
  if s = "-" then some [] else (s.splitOn sep).mapM parseHex?

def showHexList (l : List Bytes) : String :=
  "[" ++ ",".intercalate (l.map hexOf) ++ "]"

def errStr : Err → String
  | .short => "ERR:short"
  | .value => "ERR:ValueError"
  | .index => "ERR:IndexError"
  | .overflow => "ERR:OverflowError"
  | .os => "ERR:OSError"
  | .exc => "ERR:Exception"
  | .hdrData => "ERR:HeaderDataError"
  | .mgh => "ERR:MGHError"
  | .key => "ERR:KeyError"
  | .type => "ERR:TypeError"
  | .unmodelled => "ERR:unmodelled"

def parseBool? (s : String) : Option Bool :=
  if s = "0" then some false else if s = "1" then some true else none

def parseVol? (s : String) : Option (Option VolInfo) :=
  if s = "-" then some none else
  match s.splitOn ";" with
  | [h, v, f, vol, vox, x, y, z, c] => do
    let h ← parseIntList? h
    let v ← parseHex? v
    let f ← parseHex? f
    let vol ← (parseIntList? vol).map (·.map intRepr)
    let vox ← parseHexList? "," vox
    let x ← parseHexList? "," x
    let y ← parseHexList? "," y
    let z ← parseHexList? "," z
    let c ← parseHexList? "," c
    pure (some ⟨h, v, f, vol, vox, x, y, z, c⟩)
  | _ => none

def asciiOk (vi : VolInfo) : Bool :=
  (vi.valid ++ vi.filename ++ (vi.volume ++ vi.voxelsize ++ vi.xras ++ vi.yras ++ vi.zras ++ vi.cras).flatten).all (· < 128)

def showVol : Option VolInfo → String
  | none => "-"
  | some v => "head=" ++ showList v.head ++ ";valid=" ++ hexOf v.valid ++ ";filename=" ++ hexOf v.filename ++
      ";volume=" ++ (match intsParse v.volume with
                     | .ok ints => showList ints
                     | .error _ => "T" ++ showHexList v.volume) ++ ";voxelsize=" ++ showHexList v.voxelsize ++
      ";xras=" ++ showHexList v.xras ++ ";yras=" ++ showHexList v.yras ++ ";zras=" ++ showHexList v.zras ++
      ";cras=" ++ showHexList v.cras

def parseRow? (s : String) : Option Row :=
  match (s.splitOn ":").mapM (·.toInt?) with
  | some [r, g, b, t, a] => some ⟨r, g, b, t, a⟩
  | _ => none

def parseRows? (s : String) : Option (List Row) :=
  if s = "-" then some [] else (s.splitOn ";").mapM parseRow?

def parseRgb? (s : String) : Option (List (Int × Int × Int)) :=
  if s = "-" then some [] else
    (s.splitOn ";").mapM fun p =>
      match (p.splitOn ":").mapM (·.toInt?) with
      | some [r, g, b] => some (r, g, b)
      | _ => none

def showRow (c : Row) : String := showList [c.r, c.g, c.b, c.t, c.a]

def parseSets? (s : String) : Option (List (Nat × Nat)) :=
  if s = "-" then some [] else
    (s.splitOn ";").mapM fun p =>
      match (p.splitOn ":").mapM (·.toNat?) with
      | some [i, v] => if i < 5 then some (i, v) else none
      | _ => none

def parseOptNatList? (s : String) : Option (Option (List Nat)) :=
  if s = "_" then some none else (parseNatList? s).map some

def allBytes (bs : Bytes) : Bool := bs.all (· < 256)
def allU32 (l : List Nat) : Bool := l.all (· < 4294967296)

def showFull (l : MghFull) (data : List Nat) : String :=
  "dims=" ++ showList l.h.dims.toList ++ " shape=" ++ showList (getDataShape l.h.dims) ++ " code=" ++ toString l.h.code ++
    " dof=" ++ toString l.dof ++ " good=" ++ toString l.good ++ " zooms=" ++ showList (getZooms l.h) ++
    " ras=" ++ hexOf l.ras ++ " ftr=" ++ showList l.h.ftr ++ " data=" ++ showList data

def handle : List String → String
  | ["geom", rmeta, stamp, nv, nf, coords, faces, vol] =>
      match parseBool? rmeta, parseHex? stamp, nv.toNat?, nf.toNat?, parseNatList? coords, parseIntList? faces,
            parseVol? vol with
      | some rmeta, some stamp, some nv, some nf, some coords, some faces, some vol =>
          if !(allU32 coords) || coords.length ≠ 3 * nv || faces.length ≠ 3 * nf
             || !((vol.map asciiOk).getD true) then "bad-op" else
          match writeGeometry stamp nv nf coords faces vol with
          | .error e => errStr e
          | .ok file =>
            match readGeometry rmeta file with
            | .error e => "ok " ++ hexOf file ++ " R" ++ errStr e
            | .ok g => "ok " ++ hexOf file ++ " stamp=" ++ hexOf g.stamp ++ " nv=" ++ toString g.nv ++
                " nf=" ++ toString g.nf ++ " coords=" ++ showList g.coords ++ " faces=" ++ showList g.faces ++
                " vol=" ++ showVol g.vol
      | _, _, _, _, _, _, _ => "bad-op"
  | ["morph", shape, vals, fnum] =>
      match parseNatList? shape, parseNatList? vals, fnum.toInt? with
      | some shape, some vals, some fnum =>
          if !(allU32 vals) || vals.length ≠ prod shape then "bad-op" else
          match writeMorph shape vals fnum with
          | .error e => errStr e
          | .ok file =>
            match readMorph file with
            | .error e => "ok " ++ hexOf file ++ " R" ++ errStr e
            | .ok v => "ok " ++ hexOf file ++ " " ++ showList v
      | _, _, _ => "bad-op"
  | ["annot", orig, fill, has5, labels, rows, names] =>
      match parseBool? orig, parseBool? fill, parseBool? has5, parseIntList? labels, parseRows? rows,
            parseHexList? ";" names with
      | some orig, some fill, some has5, some labels, some rows, some names =>
          match writeAnnot labels rows has5 names fill with
          | .error e => errStr e
          | .ok file =>
            match readAnnot orig file with
            | .error e => "ok " ++ hexOf file ++ " R" ++ errStr e
            | .ok a => "ok " ++ hexOf file ++ " labels=" ++ showList a.labels ++ " ctab=[" ++
                ",".intercalate (a.ctab.map showRow) ++ "] names=" ++ showHexList a.names
      | _, _, _, _, _, _ => "bad-op"
  | ["annot2", fill, has5, labels, rows, names, rgb, fill2] =>
      match parseBool? fill, parseBool? has5, parseIntList? labels, parseRows? rows, parseHexList? ";" names,
            parseRgb? rgb, parseBool? fill2 with
      | some fill, some has5, some labels, some rows, some names, some rgb, some fill2 =>
          match annotChain labels rows has5 names fill rgb fill2 with
          | .error e => errStr e
          | .ok (a1, f2, a2) => "ok " ++ hexOf f2 ++ " l1=" ++ showList a1.labels ++ " labels=" ++ showList a2.labels ++
              " ctab=[" ++ ",".intercalate (a2.ctab.map showRow) ++ "] names=" ++ showHexList a2.names
      | _, _, _, _, _, _, _ => "bad-op"
  | ["mgh", shape, dt, data, aff, ras, setz, sets] =>
      match parseNatList? shape, parseNatList? data, parseNatList? aff, parseHex? ras, parseOptNatList? setz,
            parseSets? sets with
      | some shape, some data, some aff, some ras, some setz, some sets =>
          if aff.length ≠ 3 || !(allU32 aff) || !(allU32 data) || !((setz.map allU32).getD true)
             || data.length ≠ prod shape || ras.length ≠ 48 then "bad-op" else
          match mghSaveLoad shape dt data aff ras setz sets with
          | .error e => errStr e
          | .ok o => "ok hz=" ++ showList o.hz ++ " file=" ++ hexOf o.file ++ " shape=" ++ showList o.shape ++
              " code=" ++ toString o.code ++ " zooms=" ++ showList o.zooms ++ " ftr=" ++ showList o.ftr ++
              " data=" ++ showList o.data ++ " ras=" ++ hexOf o.ras
      | _, _, _, _, _, _ => "bad-op"
  | ["mghload", file] =>
      match parseHex? file with
      | some file =>
          match readMgh file with
          | .error e => errStr e
          | .ok (h, ras, data) => "ok dims=" ++ showList h.dims.toList ++ " shape=" ++ showList (getDataShape h.dims) ++
              " code=" ++ toString h.code ++ " zooms=" ++ showList (getZooms h) ++ " ras=" ++ hexOf ras ++
              " ftr=" ++ showList h.ftr ++ " data=" ++ showList data
      | none => "bad-op"
  | ["mghresave", file, setz, sets] =>
      match parseHex? file, parseOptNatList? setz, parseSets? sets with
      | some file, some setz, some sets =>
          if !((setz.map allU32).getD true) || !(allU32 (sets.map (·.2))) then "bad-op" else
          match mghResave file setz sets with
          | .error e => errStr e
          | .ok (l1, d1, f2, l2, d2) => "ok l1={" ++ showFull l1 d1 ++ "} file=" ++ hexOf f2 ++ " l2={" ++ showFull l2 d2 ++ "}"
      | _, _, _ => "bad-op"
  | ["zoom", shape, zs] =>
      match parseNatList? shape, parseNatList? zs with
      | some shape, some zs =>
          if !(allU32 zs) then "bad-op" else
          match setDataShape shape with
          | .error e => errStr e
          | .ok d =>
            let h0 : MghHdr := ⟨d, 3, [1065353216, 1065353216, 1065353216], [0, 0, 0, 0, 0]⟩
            match setZooms h0 zs with
            | .error e => "ok dims=" ++ showList d.toList ++ " shape=" ++ showList (getDataShape d) ++ " nd=" ++
                toString (ndims d) ++ " " ++ errStr e
            | .ok h => "ok dims=" ++ showList d.toList ++ " shape=" ++ showList (getDataShape d) ++ " nd=" ++
                toString (ndims d) ++ " zooms=" ++ showList (getZooms h)
      | _, _ => "bad-op"
  | _ => "bad-op"

end Nb.Drv.C19

def main : IO Unit := Nb.Drv.runDriver "C19" Nb.Drv.C19.handle
