import NibabelModel.Model.C19
import Driver.Util
/-! Line-protocol driver for C19: `C19 <op> <args...>` -> one observable line. -/
namespace Nb.Drv.C19

def handle : List String → String
  | _ => "bad-op"

end Nb.Drv.C19

def main : IO Unit := Nb.Drv.runDriver "C19" Nb.Drv.C19.handle
