import NibabelModel.Basic.PySlice
def main : IO Unit := IO.println "nbdriver"
