import NibabelModel.Model.C09
import Driver.Util
/-! Line-protocol driver for C09.

  `C09 hist <orig 0|1> <init> <ops>`
    init : 6 comma separated on-disk dtypes (`u8 i16 i32 f32 f64`) or `-` (file absent), in the order
           a.nii a.nii.gz b.nii a.img a.mgh a.mgz; file i starts with data id i, affine id i, tag 0, unscaled
    ops  : comma separated  L<path 0-5><mmap 0|1>[@spelling] | F | U | E<k> | A<k> | H<k> | D<dt> | S<path>[@spelling] | B
  output: one token per op, then `live=…` and `fs=…` (nothing after the first `BAD`, also not after `live=BAD`).
-/
namespace Nb.Drv.C09
open Nb.C09

def parseDT? (s : String) : Option DT :=
  if s = "u8" then some .u8 else if s = "i16" then some .i16 else if s = "i32" then some .i32
  else if s = "f32" then some .f32 else if s = "f64" then some .f64 else none

def showDT : DT → String
  | .u8 => "u8" | .i16 => "i16" | .i32 => "i32" | .f32 => "f32" | .f64 => "f64"

def pathOf? (n : Nat) : Option Path := Path.all[n]?

def pathIdx : Path → Nat
  | .aNii => 0 | .aNiiGz => 1 | .bNii => 2 | .aImg => 3 | .aMgh => 4 | .aMgz => 5

def parsePath? (s : String) : Option Path := s.toNat?.bind pathOf?

def showCls : Cls → String
  | .nifti1 => "N1" | .pair => "NP" | .mgh => "MG"

/-- `L01@3` / `S0@4`: the `@k` suffix selects one of several SPELLINGS of the same file (absolute, relative,
    `./`, `sub/../`, symbolic link, hard link, header name of a pair); all spellings denote one abstract path -/
def stripSpelling (s : String) : String :=
  match s.splitOn "@" with
  | [a] => a
  | [a, k] => if k.toNat?.isSome then a else "?"
  | _ => "?"

def parseOp? (s0 : String) : Option Op :=
  let s := stripSpelling s0
  if s = "F" then some .fdata
  else if s = "U" then some .uncache
  else if s = "B" then some .toBytes
  else if s.startsWith "L" ∧ s.length = 3 then
    match parsePath? ((s.drop 1).take 1).toString, ((s.drop 2).toString) with
    | some p, "0" => some (.load p false)
    | some p, "1" => some (.load p true)
    | _, _ => none
  else if s.startsWith "S" then (parsePath? (s.drop 1).toString).map Op.save
  else if s.startsWith "E" then ((s.drop 1).toString.toNat?).map Op.edit
  else if s.startsWith "A" then ((s.drop 1).toString.toNat?).map Op.setAff
  else if s.startsWith "H" then ((s.drop 1).toString.toNat?).map Op.hdrEdit
  else if s.startsWith "D" then (parseDT? (s.drop 1).toString).map Op.setDt
  else none

def opLetter : Op → String
  | .load _ _ => "L" | .fdata => "F" | .uncache => "U" | .edit _ => "E" | .setAff _ => "A" | .hdrEdit _ => "H"
  | .setDt _ => "D" | .save _ => "S" | .toBytes => "B"

def showContent (c : Content) : String :=
  toString c.data ++ "/" ++ toString c.aff ++ "/" ++ showDT c.dt ++ (if c.scaled then "s" else "") ++ "/" ++
    toString c.tag

def showOut (op : Op) (im? : Option Img) : Out → String
  | .noImg => "-"
  | .loadOk => "L:ok"
  | .loadErr => "L:ERR"
  | .fdata d => "F:" ++ toString d
  | .unit => "ok"
  | .dtOk => "D:ok"
  | .dtErr => "D:ERR"
  | .saved c => (match op with
      | .save q => "S:" ++ showContent c ++ "/" ++ showCls q.cls
      | _ => "bad-op")
  | .bytes c => "B:" ++ showContent c ++ "/" ++ (match im? with | some im => showCls im.cls | none => "?")
  | .bytesErr => "B:ERR"
  | .bad => opLetter op ++ ":BAD"

def initFS (dts : List (Option DT)) : FS := fun p =>
  match dts[pathIdx p]? with
  | some (some dt) => some (.intact { data := pathIdx p, aff := pathIdx p, dt := dt, scaled := false, tag := 0 })
  | _ => none

def showFile (p : Path) : Option File → String
  | none => "-"
  | some .truncated => "T"
  | some (.intact c) => showContent c ++ "/" ++ showCls p.cls

def showLive (s : St) : String :=
  match s.img, probe s with
  | none, _ => "live=none"
  | some _, none => "live=BAD"
  | some _, some none => "live=none"
  | some im, some (some (d, d2)) =>
      "live=" ++ showCls im.cls ++ "/" ++ showDT im.dt ++ "/" ++ toString im.tag ++ "/" ++ toString im.aff ++ "/h" ++ toString im.hdrAff ++ "/" ++
        (match im.fname with | some p => toString (pathIdx p) | none => "-") ++ "/" ++ toString d ++ "/" ++ toString d2

/-- run, printing tokens; mirrors `Nb.C09.run` (stops at the first bad) -/
def runShow (orig : Bool) : St → List Op → List String
  | s, [] =>
      let l := showLive s
      if l = "live=BAD" then [l]
      else [l, "fs=" ++ ";".intercalate (Path.all.map (fun p => showFile p (s.fs p)))]
  | s, op :: rest =>
    match step orig s op with
    | (.bad, _) => [showOut op s.img .bad]
    | (o, s') => showOut op s.img o :: runShow orig s' rest

def parseInit? (s : String) : Option (List (Option DT)) :=
  let parts := s.splitOn ","
  if parts.length ≠ 6 then none
  else parts.mapM (fun t => if t = "-" then some none else (parseDT? t).map some)

def mghInitOk (dts : List (Option DT)) : Bool :=
  (dts.drop 4).all (fun d => d != some DT.f64)

def handle : List String → String
  | ["hist", orig, init, ops] =>
      match (if orig = "0" then some false else if orig = "1" then some true else none),
            parseInit? init, (if ops = "-" then some [] else (ops.splitOn ",").mapM parseOp?) with
      | some o, some dts, some ops =>
          if mghInitOk dts then " ".intercalate (runShow o { fs := initFS dts, img := none } ops) else "bad-op"
      | _, _, _ => "bad-op"
  | _ => "bad-op"

end Nb.Drv.C09

def main : IO Unit := Nb.Drv.runDriver "C09" Nb.Drv.C09.handle
