import NibabelModel.Model.C09
import Driver.Util
/-! Line-protocol driver for C09: `C09 <op> <args...>` -> one observable line. -/
namespace Nb.Drv.C09

def handle : List String → String
  | _ => "bad-op"

end Nb.Drv.C09

def main : IO Unit := Nb.Drv.runDriver "C09" Nb.Drv.C09.handle
