import NibabelModel.Model.C09
import Driver.Util
/-! Line-protocol driver for C09.

  `C09 hist <guard 0 current (maps_file, owner chain) | 1 none (pinned) | 2 instance check only | 3 ndarray-base
            chain (ae98171b)> <init> <ops>`
    init : 11 comma separated initial files `[>]<dt>[s]` (`>` big-endian header, dt ∈ `u8 i16 i32 f32 f64`, `s` written
           from float data with scale factors) or `-` (file absent), in the order
           a.nii a.nii.gz b.nii a.img a.mgh a.mgz s.img n.nii c.img.gz a.nii.bz2 b.nii.zst;
           file i starts with data id i, affine id i, tag 0; s.img is an SPM2 Analyze pair, n.nii a NIfTI-2 file
    ops  : comma separated  L<path 0-9a><mmap 0|1|2|3|4>[@spelling] | F | F4 | U | E<k> | A<k> | H<k> | D<dt> |
           S<path>[@spelling] | B | W<k 0-13>  (re-wrap: 0 asarray, 1 asanyarray, 2 proxy, 3 [::1], 4 .T.T,
           5 .view(ndarray), 6 asfortranarray, 7 asanyarray[..., :], 8 np.array copy, 9 get_fdata(), 10 as_strided,
           11 asarray(memoryview), 12 sliding_window_view, 13 np.frombuffer(mmap.mmap(file)))
  output: one token per op, then `live=…` and `fs=…` (nothing after the first `BAD`, also not after `live=BAD`).
-/
namespace Nb.Drv.C09
open Nb.C09

def parseDT? (s : String) : Option DT :=
  if s = "u8" then some .u8 else if s = "i16" then some .i16 else if s = "i32" then some .i32
  else if s = "f32" then some .f32 else if s = "f64" then some .f64 else none

def showDT : DT → String
  | .u8 => "u8" | .i16 => "i16" | .i32 => "i32" | .f32 => "f32" | .f64 => "f64"

def pathOf? (n : Nat) : Option Path := Path.all[n]?

def hexDigit? (s : String) : Option Nat :=
  if s = "a" then some 10 else if s.length = 1 then s.toNat? else none

def parsePath? (s : String) : Option Path := (hexDigit? s).bind pathOf?

def showPathIdx (p : Path) : String :=
  let n := pathIdx p
  if n = 10 then "a" else toString n

def showCls : Cls → String
  | .nifti1 => "N1" | .pair => "NP" | .mgh => "MG" | .spm2 => "S2" | .nifti2 => "N2" | .pair2 => "P2"

/-- `L01@3` / `S0@4`: the `@k` suffix selects one of several SPELLINGS of the same file (absolute, relative,
    `./`, `sub/../`, symbolic link, hard link, header name of a pair) or ENTRY POINTS of the save (`img.to_filename`,
    `img.to_file_map()`); all denote one abstract path / the same abstract save -/
def stripSpelling (s : String) : String :=
  match s.splitOn "@" with
  | [a] => a
  | [a, k] => if k.toNat?.isSome then a else "?"
  | _ => "?"

def parseOp? (s0 : String) : Option Op :=
  let s := stripSpelling s0
  if s = "F" then some (.fdata false)
  else if s = "F4" then some (.fdata true)
  else if s = "U" then some .uncache
  else if s = "B" then some .toBytes
  else if s.startsWith "L" ∧ s.length = 3 then
    match parsePath? ((s.drop 1).take 1).toString, ((s.drop 2).toString) with
    | some p, "0" => some (.load p false)
    | some p, "1" => some (.load p true)      -- mmap=True
    | some p, "2" => some (.load p true)      -- mmap='r'
    | some p, "3" => some (.load p true)      -- mmap=True, keep_file_open=True
    | some p, "4" => some (.load p false)     -- mmap=False, keep_file_open=True
    | _, _ => none
  else if s.startsWith "W" then
    match (s.drop 1).toString with
    | "0" | "3" | "4" | "5" | "6" => some (.wrap .plainView)
    | "1" | "7" => some (.wrap .mapInst)
    | "2" => some (.wrap .proxy)
    | "8" => some (.wrap .copy)
    | "9" => some (.wrap .fdata)
    | "10" | "11" | "12" => some (.wrap .hiddenView)
    | "13" => some (.wrap .rawMap)
    | _ => none
  else if s.startsWith "S" ∧ s.length = 2 then (parsePath? (s.drop 1).toString).map Op.save
  else if s.startsWith "E" then ((s.drop 1).toString.toNat?).map Op.edit
  else if s.startsWith "A" then ((s.drop 1).toString.toNat?).map Op.setAff
  else if s.startsWith "H" then ((s.drop 1).toString.toNat?).map Op.hdrEdit
  else if s.startsWith "D" then (parseDT? (s.drop 1).toString).map Op.setDt
  else none

def opLetter : Op → String
  | .load _ _ => "L" | .fdata _ => "F" | .uncache => "U" | .edit _ => "E" | .setAff _ => "A" | .hdrEdit _ => "H"
  | .setDt _ => "D" | .save _ => "S" | .toBytes => "B" | .wrap _ => "W"

def showAff (a : Nat) : String := if a = baseAff then "X" else toString a

def showXF (c : Cls) (x : XF) : String :=
  if c.isNifti then "s" ++ toString x.sc ++ "." ++ showAff x.sa ++ "q" ++ toString x.qc ++ "." ++ showAff x.qa
  else "-"

def showDTfull (dt : DT) (be scaled : Bool) : String :=
  (if be then ">" else "") ++ showDT dt ++ (if scaled then "s" else "")

def showContent (c : Content) : String :=
  toString c.data ++ "/" ++ showAff c.aff ++ "/" ++ showDTfull c.dt c.be c.scaled ++ "/" ++
    toString c.tag ++ "/" ++ showCls c.cls ++ "/" ++ showXF c.cls c.xf

def showOut (op : Op) : Out → String
  | .noImg => "-"
  | .loadOk => "L:ok"
  | .loadErr => "L:ERR"
  | .fdata d => "F:" ++ toString d
  | .unit => "ok"
  | .dtOk => "D:ok"
  | .dtErr => "D:ERR"
  | .saved c => (match op with
      | .save _ => "S:" ++ showContent c
      | _ => "bad-op")
  | .bytes c => "B:" ++ showContent c
  | .bytesErr => "B:ERR"
  | .bad => opLetter op ++ ":BAD"

/-- one initial file: (dtype, big-endian, scaled) -/
abbrev Init := DT × Bool × Bool

def initFS (dts : List (Option Init)) : FS := fun p =>
  match dts[pathIdx p]? with
  | some (some (dt, be, sc)) => some (.intact (initContent p dt be sc))
  | _ => none

def showFile : Option File → String
  | none => "-"
  | some .truncated => "T"
  | some (.intact c) => showContent c

def showLive (s : St) : String :=
  match s.img, probe s with
  | none, _ => "live=none"
  | some _, none => "live=BAD"
  | some _, some none => "live=none"
  | some im, some (some (d, d2)) =>
      "live=" ++ showCls im.cls ++ "/" ++ showDTfull im.dt im.be false ++ "/" ++ toString im.tag ++ "/" ++
        showAff im.aff ++ "/h" ++ (if im.cls = .spm2 then "X" else showAff im.hdrAff) ++ "/" ++ showXF im.cls im.xf ++ "/" ++
        (match im.fname with | some p => showPathIdx p | none => "-") ++ "/" ++ toString d ++ "/" ++ toString d2

/-- run, printing tokens; mirrors `Nb.C09.run` (stops at the first bad) -/
def runShow (orig : Guard) : St → List Op → List String
  | s, [] =>
      let l := showLive s
      if l = "live=BAD" then [l]
      else [l, "fs=" ++ ";".intercalate (Path.all.map (fun p => showFile (s.fs p)))]
  | s, op :: rest =>
    match step orig s op with
    | (.bad, _) => [showOut op .bad]
    | (o, s') => showOut op o :: runShow orig s' rest

def parseInit1? (t : String) : Option (Option Init) :=
  if t = "-" then some none
  else
    let be := t.startsWith ">"
    let t1 := if be then (t.drop 1).toString else t
    let sc := t1.endsWith "s"
    let t2 := if sc then (t1.dropEnd 1).toString else t1
    (parseDT? t2).map (fun dt => some (dt, be, sc))

def parseInit? (s : String) : Option (List (Option Init)) :=
  let parts := s.splitOn ","
  if parts.length ≠ Path.all.length then none
  else parts.mapM parseInit1?

/-- MGH files are float32/int32/int16/uint8, always big-endian, never scaled: no flags accepted -/
def mghInitOk (dts : List (Option Init)) : Bool :=
  ((dts.drop 4).take 2).all (fun d => match d with
    | none => true
    | some (dt, be, sc) => dt != DT.f64 && !be && !sc)

def handle : List String → String
  | ["hist", orig, init, ops] =>
      match (if orig = "0" then some Guard.owners else if orig = "1" then some Guard.none
             else if orig = "2" then some Guard.inst else if orig = "3" then some Guard.baseNd else none),
            parseInit? init, (if ops = "-" then some [] else (ops.splitOn ",").mapM parseOp?) with
      | some o, some dts, some ops =>
          if mghInitOk dts then " ".intercalate (runShow o { fs := initFS dts, img := none } ops) else "bad-op"
      | _, _, _ => "bad-op"
  | _ => "bad-op"

end Nb.Drv.C09

def main : IO Unit := Nb.Drv.runDriver "C09" Nb.Drv.C09.handle
