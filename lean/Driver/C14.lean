import NibabelModel.Model.C14
import Driver.Util
/-! Line-protocol driver for C14: `C14 <op> <args...>` -> one observable line. -/
namespace Nb.Drv.C14

def handle : List String → String
  | _ => "bad-op"

end Nb.Drv.C14

def main : IO Unit := Nb.Drv.runDriver "C14" Nb.Drv.C14.handle
