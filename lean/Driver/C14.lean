import NibabelModel.Model.C14
import Driver.Util
/-! Line-protocol driver for C14: `C14 <op> <args...>` -> one observable line.

  `run <scn> <mmap> <order> <isz> <off> <flen> <shape> <progs> <sched>`
      scn   = fh (proxy over an open handle, `c` reads go through its copy()) | keep (path, keep_file_open=True)
      progs = threads separated by `|`; reads of a thread separated by `/`; a read is `<p|c>[L]=<W|idx>`
              (`W` = np.asarray(proxy), idx in the C06 syntax, `L` = caller holds `proxy._lock` around the read)
      sched = comma separated thread ids (`-` = empty)
      output: `<event trace> | <per-thread results>`
  `raw <flen> <nh> <progs> <sched>`: explicit action programs (threads `|`, actions `,`):
      a<l> r<l> s<o> e t R<n> p<k> o S g ; file byte i = (7*i+3) % 251 ; output: event trace
-/
namespace Nb.Drv.C14
open Nb Nb.C14

def hashBytes (l : List Nat) : Nat := l.foldl (fun h b => (h * 257 + b + 1) % 1000000007) 7

def showOpt : Option Nat → String
  | none => "-"
  | some h => toString h

def showEv : Ev → String
  | .acq l => "a" ++ toString l
  | .rel l => "r" ++ toString l
  | .blocked l => "b" ++ toString l
  | .relErr l => "x" ++ toString l
  | .seek h o => "s" ++ toString h ++ "@" ++ toString o
  | .seekEnd h => "e" ++ toString h
  | .tell h p => "t" ++ toString h ++ "=" ++ toString p
  | .read h n d => "R" ++ toString h ++ ":" ++ toString n ++ ":" ++ toString d.length ++ ":" ++ toString (hashBytes d)
  | .get v => "g" ++ showOpt v
  | .opn h => "o" ++ toString h
  | .setSlot h => "S" ++ toString h
  | .idle => "i"

def showTrace (tr : List (Tid × Ev)) : String :=
  " ".intercalate (tr.map (fun x => toString x.1 ++ "." ++ showEv x.2))

def showRes : Res → String
  | .ok sh el => "ok" ++ showList sh ++ "#" ++ toString el.length ++ ":" ++ toString (hashBytes el)
  | .err => "ERR"

def parseItem? (s : String) : Option C06.IdxItem :=
  if s = "n" then some .newaxis
  else if s = "e" then some .ellipsis
  else if s.startsWith "i" then (s.drop 1).toString.toInt?.map C06.IdxItem.int
  else if s.startsWith "s" then
    match ((s.drop 1).toString.splitOn ",").mapM parseOptInt? with
    | some [a, b, c] => some (.slice ⟨a, b, c⟩)
    | _ => none
  else none

/-- index tuple in the C06 syntax: items separated by `;`, `-` = the empty tuple -/
def parseIdx? (s : String) : Option (List C06.IdxItem) :=
  if s = "-" then some [] else (s.splitOn ";").mapM parseItem?

def parseSched? (s : String) : Option (List Nat) := parseNatList? s

def parseReq? (hasFh : Bool) (s : String) : Option Req :=
  match s.splitOn "=" with
  | [who, idx] =>
      let lockOuter : Option (Nat × Bool) :=
        if who = "p" then some (0, false) else if who = "pL" then some (0, true)
        else if who = "c" ∧ hasFh then some (copyLock hasFh 0 1, false)
        else if who = "cL" ∧ hasFh then some (copyLock hasFh 0 1, true)
        else none
      match lockOuter with
      | none => none
      | some (l, o) =>
          if idx = "W" then some ⟨l, o, none⟩
          else (parseIdx? idx).map (fun i => ⟨l, o, some i⟩)
  | _ => none

def parseThread? (hasFh : Bool) (s : String) : Option (List Req) :=
  if s = "-" then some [] else (s.splitOn "/").mapM (parseReq? hasFh)

def parseAction? (s : String) : Option Action :=
  let arg := (s.drop 1).toString
  if s = "e" then some .seekEnd else if s = "t" then some .tell
  else if s = "o" then some .opn else if s = "S" then some .setSlot else if s = "g" then some .getSlot
  else if s.startsWith "a" then arg.toNat?.map Action.acquire
  else if s.startsWith "r" then arg.toNat?.map Action.release
  else if s.startsWith "s" then arg.toNat?.map Action.seek
  else if s.startsWith "R" then arg.toNat?.map Action.read
  else if s.startsWith "p" then arg.toNat?.map Action.probe
  else none

def parseRawThread? (s : String) : Option (List Action) :=
  if s = "-" then some [] else (s.splitOn ",").mapM parseAction?

/-- can thread `t` make progress (scheduler's view: alive and not waiting for a lock held by another) -/
def enabled (s : State) (t : Tid) : Bool :=
  match (s.threads t).prog with
  | [] => false
  | .acquire l :: _ => (match s.owner l with | none => true | some u => u == t)
  | _ => true

/-- the harness' default policy after the explicit schedule: keep running the last thread while it is
    enabled, else the lowest enabled thread id; stop when no thread is enabled -/
def complete (file : List Byte) (n : Nat) : Nat → State → Option Tid → List Tid
  | 0, _, _ => []
  | fuel + 1, s, last =>
      let en := (List.range n).filter (enabled s)
      let pick : Option Tid := match last with
        | some l => if en.contains l then some l else en.head?
        | none => en.head?
      match pick with
      | none => []
      | some t => t :: complete file n fuel (step file s t).1 (some t)

def fullSched (file : List Byte) (n : Nat) (progs : Tid → List Action) (s0 : State) (sched : List Tid) : List Tid :=
  let fuel := ((List.range n).map (fun t => (progs t).length)).foldl (· + ·) 0 + 1
  sched ++ complete file n fuel (runS file s0 sched) sched.getLast?

def handle : List String → String
  | ["run", scn, mm, ord, isz, off, flen, shape, progs, sched] =>
      match (if scn = "fh" then some false else if scn = "keep" then some true else none),
            (if mm = "1" then some true else if mm = "0" then some false else none),
            (if ord = "C" then some C06.Order.C else if ord = "F" then some C06.Order.F else none),
            isz.toNat?, off.toNat?, flen.toNat?, parseNatList? shape, parseSched? sched with
      | some persist, some mmap, some o, some isz, some off, some flen, some shape, some sched =>
          match (progs.splitOn "|").mapM (parseThread? (!persist)) with
          | none => "bad-op"
          | some reqs =>
              let c : Cfg := ⟨persist, mmap, o, isz, off, flen, shape⟩
              let plans := reqs.map (fun th => th.map (plan c))
              let prog : Tid → List Action := fun t => ((plans.getD t []).map (·.prog)).flatten
              let file := mkFile c
              let s0 := State.init prog (if persist then 0 else 1)
              let sched := fullSched file plans.length prog s0 sched
              let tr := trace file s0 sched
              let sEnd := runS file s0 sched
              let res := (List.range plans.length).map (fun t =>
                if (sEnd.threads t).prog.isEmpty then
                  "/".intercalate ((results (plans.getD t []) (readsOf t tr)).map showRes)
                else "INCOMPLETE")
              showTrace tr ++ " | " ++ ";".intercalate res
      | _, _, _, _, _, _, _, _ => "bad-op"
  | ["raw", flen, nh, progs, sched] =>
      match flen.toNat?, nh.toNat?, (progs.splitOn "|").mapM parseRawThread?, parseSched? sched with
      | some flen, some nh, some ps, some sched =>
          let file := (List.range flen).map (fun i => (7 * i + 3) % 251)
          let prog : Tid → List Action := fun t => ps.getD t []
          let s0 := State.init prog nh
          showTrace (trace file s0 (fullSched file ps.length prog s0 sched))
      | _, _, _, _ => "bad-op"
  | _ => "bad-op"

end Nb.Drv.C14

def main : IO Unit := Nb.Drv.runDriver "C14" Nb.Drv.C14.handle
