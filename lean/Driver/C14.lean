import NibabelModel.Model.C14
import Driver.Util
/-! Line-protocol driver for C14: `C14 <op> <args...>` -> one observable line.

  `run <scn> <mmap> <order> <isz> <off> <flen> <shape> <topo> <progs> <sched>`
      scn   = fh (proxy over an open BytesIO handle) | fhmin (handle object without fileno/readinto) |
              fhos (real OS file object passed as the handle: np.memmap succeeds) |
              keep (path, keep_file_open=True) | keepgz (.gz path, keep_file_open=True)
      topo  = `-` or comma separated derivations of further proxies from existing ones: `c<src>` = copy(),
              `u<src>` = copy.copy()/unpickle (__setstate__), `r<src>:<d0>x<d1>..` = reshape(); proxy 0 = original
      progs = threads separated by `|`; reads of a thread separated by `/`; a read is `p<k>[L]=<W|idx>`
              (`W` = np.asarray(proxy k), idx in the C06 syntax, `L` = caller holds `proxy._lock` around the read)
      sched = comma separated thread ids (`-` = empty)
      output: `<event trace> | <per-thread results>`
  `raw <flen> <nh> <progs> <sched>`: explicit action programs (threads `|`, actions `,`):
      a<l> r<l> s<o> e t R<n> p<k> o S g ; file byte i = (7*i+3) % 251 ; output: event trace
-/
namespace Nb.Drv.C14
open Nb Nb.C14

def hashBytes (l : List Nat) : Nat := l.foldl (fun h b => (h * 257 + b + 1) % 1000000007) 7

def showOpt : Option Nat → String
  | none => "-"
  | some h => toString h

def showEv : Ev → String
  | .acq l => "a" ++ toString l
  | .rel l => "r" ++ toString l
  | .blocked l => "b" ++ toString l
  | .relErr l => "x" ++ toString l
  | .seek h o => "s" ++ toString h ++ "@" ++ toString o
  | .seekEnd h => "e" ++ toString h
  | .tell h p => "t" ++ toString h ++ "=" ++ toString p
  | .read h n d => "R" ++ toString h ++ ":" ++ toString n ++ ":" ++ toString d.length ++ ":" ++ toString (hashBytes d)
  | .get v => "g" ++ showOpt v
  | .opn h => "o" ++ toString h
  | .setSlot h => "S" ++ toString h
  | .idle => "i"

def showTrace (tr : List (Tid × Ev)) : String :=
  " ".intercalate (tr.map (fun x => toString x.1 ++ "." ++ showEv x.2))

def showRes : Res → String
  | .ok sh el => "ok" ++ showList sh ++ "#" ++ toString el.length ++ ":" ++ toString (hashBytes el)
  | .err => "ERR"

def parseItem? (s : String) : Option C06.IdxItem :=
  if s = "n" then some .newaxis
  else if s = "e" then some .ellipsis
  else if s.startsWith "i" then (s.drop 1).toString.toInt?.map C06.IdxItem.int
  else if s.startsWith "s" then
    match ((s.drop 1).toString.splitOn ",").mapM parseOptInt? with
    | some [a, b, c] => some (.slice ⟨a, b, c⟩)
    | _ => none
  else none

/-- index tuple in the C06 syntax: items separated by `;`, `-` = the empty tuple -/
def parseIdx? (s : String) : Option (List C06.IdxItem) :=
  if s = "-" then some [] else (s.splitOn ";").mapM parseItem?

def parseSched? (s : String) : Option (List Nat) := parseNatList? s

/-- proxy table of a run: lock and shape of every proxy (index 0 = the original) -/
structure PTab where
  locks  : List Nat
  shapes : List (List Nat)

/-- one derivation step `c<src>` (copy), `u<src>` (copy.copy / unpickle), `r<src>:<d0>x<d1>…` (reshape) -/
def parsePOp? (s : String) : Option (POp × Option (List Nat)) :=
  let arg := (s.drop 1).toString
  if s.startsWith "c" then arg.toNat?.map (fun k => (POp.copy k, none))
  else if s.startsWith "u" then arg.toNat?.map (fun k => (POp.setstate k, none))
  else if s.startsWith "r" then
    match arg.splitOn ":" with
    | [k, shp] =>
        match k.toNat?, (shp.splitOn "x").mapM String.toNat? with
        | some k, some shp => some (POp.reshape k, some shp)
        | _, _ => none
    | _ => none
  else none

/-- build the proxy table; ill-formed histories (source does not exist, reshape changes the size) → none -/
def buildTab (hasFh : Bool) (shape : List Nat) (topo : String) : Option PTab :=
  if topo = "-" then some ⟨proxyLocks hasFh [], [shape]⟩ else
  match (topo.splitOn ",").mapM parsePOp? with
  | none => none
  | some steps =>
      let ops := steps.map (·.1)
      if !validOps 1 ops then none else
      let shapes? := steps.foldl (fun (acc : Option (List (List Nat))) st =>
        match acc with
        | none => none
        | some shs =>
            let src := shs.getD st.1.src []
            match st.2 with
            | none => some (shs ++ [src])
            | some shp => if shp.foldl (· * ·) 1 = src.foldl (· * ·) 1 then some (shs ++ [shp]) else none)
        (some [shape])
      shapes?.map (fun shs => ⟨proxyLocks hasFh ops, shs⟩)

/-- a read `p<k>[L]=<W|idx>` through proxy `k`; returns the request and the shape of that proxy -/
def parseReq? (tab : PTab) (s : String) : Option (Req × List Nat) :=
  match s.splitOn "=" with
  | [who, idx] =>
      if !who.startsWith "p" then none else
      let outer := who.endsWith "L"
      let num := String.ofList ((who.toList.drop 1).filter (· != 'L'))
      match num.toNat? with
      | none => none
      | some k =>
          if who ≠ "p" ++ num ++ (if outer then "L" else "") then none else
          if k < tab.locks.length then
            let l := tab.locks.getD k 0
            let shp := tab.shapes.getD k []
            if idx = "W" then some (⟨l, outer, none⟩, shp)
            else (parseIdx? idx).map (fun i => (⟨l, outer, some i⟩, shp))
          else none
  | _ => none

def parseThread? (tab : PTab) (s : String) : Option (List (Req × List Nat)) :=
  if s = "-" then some [] else (s.splitOn "/").mapM (parseReq? tab)

def parseAction? (s : String) : Option Action :=
  let arg := (s.drop 1).toString
  if s = "e" then some .seekEnd else if s = "t" then some .tell
  else if s = "o" then some .opn else if s = "S" then some .setSlot else if s = "g" then some .getSlot
  else if s.startsWith "a" then arg.toNat?.map Action.acquire
  else if s.startsWith "r" then arg.toNat?.map Action.release
  else if s.startsWith "s" then arg.toNat?.map Action.seek
  else if s.startsWith "R" then arg.toNat?.map Action.read
  else if s.startsWith "p" then arg.toNat?.map Action.probe
  else none

def parseRawThread? (s : String) : Option (List Action) :=
  if s = "-" then some [] else (s.splitOn ",").mapM parseAction?

/-- can thread `t` make progress (scheduler's view: alive and not waiting for a lock held by another) -/
def enabled (s : State) (t : Tid) : Bool :=
  match (s.threads t).prog with
  | [] => false
  | .acquire l :: _ => (match s.owner l with | none => true | some u => u == t)
  | _ => true

/-- the harness' default policy after the explicit schedule: keep running the last thread while it is
    enabled, else the lowest enabled thread id; stop when no thread is enabled -/
def complete (file : List Byte) (n : Nat) : Nat → State → Option Tid → List Tid
  | 0, _, _ => []
  | fuel + 1, s, last =>
      let en := (List.range n).filter (enabled s)
      let pick : Option Tid := match last with
        | some l => if en.contains l then some l else en.head?
        | none => en.head?
      match pick with
      | none => []
      | some t => t :: complete file n fuel (step file s t).1 (some t)

def fullSched (file : List Byte) (n : Nat) (progs : Tid → List Action) (s0 : State) (sched : List Tid) : List Tid :=
  let fuel := ((List.range n).map (fun t => (progs t).length)).foldl (· + ·) 0 + 1
  sched ++ complete file n fuel (runS file s0 sched) sched.getLast?

def handle : List String → String
  | ["run", scn, mm, ord, isz, off, flen, shape, topo, progs, sched] =>
      -- scenario → (persistent opener, np.memmap succeeds on the handle, compressed-file object)
      let scn? : Option (Bool × Bool × Bool) :=
        if scn = "fh" ∨ scn = "fhmin" then some (false, false, false)
        else if scn = "fhos" then some (false, true, false)
        else if scn = "keep" then some (true, true, false)
        else if scn = "keepgz" then some (true, false, true)
        else none
      match scn?,
            (if mm = "1" then some true else if mm = "0" then some false else none),
            (if ord = "C" then some C06.Order.C else if ord = "F" then some C06.Order.F else none),
            isz.toNat?, off.toNat?, flen.toNat?, parseNatList? shape, parseSched? sched with
      | some (persist, mappable, compressed), some mmap, some o, some isz, some off, some flen, some shape, some sched =>
          if persist ∧ topo ≠ "-" then "bad-op" else
          match buildTab (!persist) shape topo with
          | none => "bad-op"
          | some tab =>
          match (progs.splitOn "|").mapM (parseThread? tab) with
          | none => "bad-op"
          | some reqs =>
              let c : Cfg := { persist := persist, mmap := mmap, order := o, isz := isz, off := off, flen := flen,
                               shape := shape, mappable := mappable, compressed := compressed }
              let plans := reqs.map (fun th => th.map (fun rq => plan { c with shape := rq.2 } rq.1))
              let prog : Tid → List Action := fun t => ((plans.getD t []).map (·.prog)).flatten
              let file := mkFile c
              let s0 := State.init prog (if persist then 0 else 1)
              let sched := fullSched file plans.length prog s0 sched
              let tr := trace file s0 sched
              let sEnd := runS file s0 sched
              let res := (List.range plans.length).map (fun t =>
                if (sEnd.threads t).prog.isEmpty then
                  "/".intercalate ((results (plans.getD t []) (readsOf t tr)).map showRes)
                else "INCOMPLETE")
              showTrace tr ++ " | " ++ ";".intercalate res
      | _, _, _, _, _, _, _, _ => "bad-op"
  | ["raw", flen, nh, progs, sched] =>
      match flen.toNat?, nh.toNat?, (progs.splitOn "|").mapM parseRawThread?, parseSched? sched with
      | some flen, some nh, some ps, some sched =>
          let file := (List.range flen).map (fun i => (7 * i + 3) % 251)
          let prog : Tid → List Action := fun t => ps.getD t []
          let s0 := State.init prog nh
          showTrace (trace file s0 (fullSched file ps.length prog s0 sched))
      | _, _, _, _ => "bad-op"
  | _ => "bad-op"

end Nb.Drv.C14

def main : IO Unit := Nb.Drv.runDriver "C14" Nb.Drv.C14.handle
