import NibabelModel.Model.C14
import Driver.Util
/-! Line-protocol driver for C14: `C14 <op> <args...>` -> one observable line.

  `run <scn> <mmap> <order> <isz> <off> <flen> <shape> <topo> <progs> <sched>`
      scn   = fh (proxy over an open BytesIO handle) | fhmin (handle object without fileno/readinto) |
              fhos (real OS file object passed as the handle: np.memmap succeeds) |
              fhop (an `Opener` object wrapping a BytesIO passed as the handle) |
              keep (path, keep_file_open=True) | keepgz (.gz path, keep_file_open=True) |
              name (path, keep_file_open=False: one handle per read) |
              namegz (.gz path, keep_file_open=False: indexed_gzip persists the opener all the same)
      topo  = `-` or the comma separated history of the family: `c<src>` = copy(), `u<src>` = copy.copy()/unpickle
              (__setstate__), `r<src>:<d0>x<d1>..` = reshape(), `n` = a further construction on the same
              file_like, `x<p>` = a completed single-threaded read through proxy p; proxy 0 = original
  `topo <scn> <topo>`: lock / handle / kind topology of the family after the history: per proxy the lock
      (first-seen numbering), the OS-level handle its reads go through (first-seen numbering of sharing
      classes) and where the handle comes from (h = caller's object, p = persistent opener, r = per read)
      progs = threads separated by `|`; reads of a thread separated by `/`; a read is `p<k>[L]=<W|idx>`
              (`W` = np.asarray(proxy k), idx in the C06 syntax, `L` = caller holds `proxy._lock` around the read)
      sched = comma separated thread ids (`-` = empty)
      output: `<event trace> | <per-thread results>`
  `raw <flen> <nh> <progs> <sched>`: explicit action programs (threads `|`, actions `,`):
      a<l> r<l> s<o> e t R<n> p<k>[:<q>] o S[<q>] g[<q>] ; file byte i = (7*i+3) % 251 ; output: event trace
-/
namespace Nb.Drv.C14
open Nb Nb.C14

def hashBytes (l : List Nat) : Nat := l.foldl (fun h b => (h * 257 + b + 1) % 1000000007) 7

def showOpt : Option Nat → String
  | none => "-"
  | some h => toString h

def showEv : Ev → String
  | .acq l => "a" ++ toString l
  | .rel l => "r" ++ toString l
  | .blocked l => "b" ++ toString l
  | .relErr l => "x" ++ toString l
  | .seek h o => "s" ++ toString h ++ "@" ++ toString o
  | .seekEnd h => "e" ++ toString h
  | .tell h p => "t" ++ toString h ++ "=" ++ toString p
  | .read h n d => "R" ++ toString h ++ ":" ++ toString n ++ ":" ++ toString d.length ++ ":" ++ toString (hashBytes d)
  | .get v => "g" ++ showOpt v
  | .opn h => "o" ++ toString h
  | .setSlot h => "S" ++ toString h
  | .idle => "i"

def showTrace (tr : List (Tid × Ev)) : String :=
  " ".intercalate (tr.map (fun x => toString x.1 ++ "." ++ showEv x.2))

def showRes : Res → String
  | .ok sh el => "ok" ++ showList sh ++ "#" ++ toString el.length ++ ":" ++ toString (hashBytes el)
  | .err => "ERR"

def parseItem? (s : String) : Option C06.IdxItem :=
  if s = "n" then some .newaxis
  else if s = "e" then some .ellipsis
  else if s.startsWith "i" then (s.drop 1).toString.toInt?.map C06.IdxItem.int
  else if s.startsWith "s" then
    match ((s.drop 1).toString.splitOn ",").mapM parseOptInt? with
    | some [a, b, c] => some (.slice ⟨a, b, c⟩)
    | _ => none
  else none

/-- index tuple in the C06 syntax: items separated by `;`, `-` = the empty tuple -/
def parseIdx? (s : String) : Option (List C06.IdxItem) :=
  if s = "-" then some [] else (s.splitOn ";").mapM parseItem?

def parseSched? (s : String) : Option (List Nat) := parseNatList? s

/-- proxy table of a run: the family (locks, handle kinds, openers) and the shape of every proxy -/
structure PTab where
  fam    : Fam
  shapes : List (List Nat)

/-- one history step: `c<src>` (copy), `u<src>` (copy.copy / unpickle), `r<src>:<d0>x<d1>…` (reshape),
    `n` (further construction), `x<p>` (a completed read through proxy p) -/
def parseHOp? (s : String) : Option (HOp × Option (List Nat)) :=
  let arg := (s.drop 1).toString
  if s = "n" then some (HOp.ctor, none)
  else if s.startsWith "c" then arg.toNat?.map (fun k => (HOp.derive (POp.copy k), none))
  else if s.startsWith "u" then arg.toNat?.map (fun k => (HOp.derive (POp.setstate k), none))
  else if s.startsWith "x" then arg.toNat?.map (fun k => (HOp.use k, none))
  else if s.startsWith "r" then
    match arg.splitOn ":" with
    | [k, shp] =>
        match k.toNat?, (shp.splitOn "x").mapM String.toNat? with
        | some k, some shp => some (HOp.derive (POp.reshape k), some shp)
        | _, _ => none
    | _ => none
  else none

/-- build the proxy table; ill-formed histories (source does not exist, reshape changes the size — unless
    `checkSize = false`: the `topo` operation does not know the shapes) → none -/
def buildTab (kind : HKind) (igz : Bool) (shape : List Nat) (topo : String) (checkSize : Bool := true) :
    Option PTab :=
  if topo = "-" then some ⟨Fam.root kind, [shape]⟩ else
  match (topo.splitOn ",").mapM parseHOp? with
  | none => none
  | some steps =>
      let ops := steps.map (·.1)
      if !validHist igz (Fam.root kind) ops then none else
      let shapes? := steps.foldl (fun (acc : Option (List (List Nat))) st =>
        match acc with
        | none => none
        | some shs =>
            match st.1 with
            | .use _ => some shs
            | .ctor => some (shs ++ [shape])
            | .derive op =>
                let src := shs.getD op.src []
                match st.2 with
                | none => some (shs ++ [src])
                | some shp =>
                    if !checkSize || shp.foldl (· * ·) 1 = src.foldl (· * ·) 1 then some (shs ++ [shp]) else none)
        (some [shape])
      shapes?.map (fun shs => ⟨(Fam.root kind).run igz ops, shs⟩)

/-- first-seen numbering of a list of values -/
def firstSeen {α : Type} [BEq α] (l : List α) : List Nat :=
  (l.foldl (fun (acc : List α × List Nat) x =>
    match acc.1.findIdx? (· == x) with
    | some k => (acc.1, acc.2 ++ [k])
    | none => (acc.1 ++ [x], acc.2 ++ [acc.1.length])) ([], [])).2

def showKind : HKind → String
  | .handle => "h" | .persist => "p" | .perRead => "r"

/-- scenario → (root kind, np.memmap succeeds on the handle, compressed-file object, indexed gzip name) -/
def scenario? (scn : String) : Option (HKind × Bool × Bool × Bool) :=
  if scn = "fh" ∨ scn = "fhmin" ∨ scn = "fhop" then some (.handle, false, false, false)
  else if scn = "fhos" then some (.handle, true, false, false)
  else if scn = "keep" then some (.persist, true, false, false)
  else if scn = "keepgz" ∨ scn = "namegz" then some (.persist, false, true, true)
  else if scn = "name" then some (.perRead, true, false, false)
  else none

/-- a read `p<k>[L]=<W|idx>` through proxy `k`; returns the request and the shape of that proxy -/
def parseReq? (tab : PTab) (s : String) : Option (Req × List Nat × Nat) :=
  match s.splitOn "=" with
  | [who, idx] =>
      if !who.startsWith "p" then none else
      let outer := who.endsWith "L"
      let num := String.ofList ((who.toList.drop 1).filter (· != 'L'))
      match num.toNat? with
      | none => none
      | some k =>
          if who ≠ "p" ++ num ++ (if outer then "L" else "") then none else
          if k < tab.fam.n then
            let l := tab.fam.lock k
            let shp := tab.shapes.getD k []
            if idx = "W" then some (⟨l, outer, none⟩, shp, k)
            else (parseIdx? idx).map (fun i => (⟨l, outer, some i⟩, shp, k))
          else none
  | _ => none

def parseThread? (tab : PTab) (s : String) : Option (List (Req × List Nat × Nat)) :=
  if s = "-" then some [] else (s.splitOn "/").mapM (parseReq? tab)

def parseAction? (s : String) : Option Action :=
  let arg := (s.drop 1).toString
  if s = "e" then some .seekEnd else if s = "t" then some .tell
  else if s = "o" then some .opn
  else if s.startsWith "S" then (if arg = "" then some (.setSlot 0) else arg.toNat?.map Action.setSlot)
  else if s.startsWith "g" then (if arg = "" then some (.getSlot 0) else arg.toNat?.map Action.getSlot)
  else if s.startsWith "a" then arg.toNat?.map Action.acquire
  else if s.startsWith "r" then arg.toNat?.map Action.release
  else if s.startsWith "s" then arg.toNat?.map Action.seek
  else if s.startsWith "R" then arg.toNat?.map Action.read
  else if s.startsWith "p" then
    match arg.splitOn ":" with
    | [k] => k.toNat?.map (Action.probe 0)
    | [k, q] => (match k.toNat?, q.toNat? with | some k, some q => some (Action.probe q k) | _, _ => none)
    | _ => none
  else none

def parseRawThread? (s : String) : Option (List Action) :=
  if s = "-" then some [] else (s.splitOn ",").mapM parseAction?

/-- can thread `t` make progress (scheduler's view: alive and not waiting for a lock held by another) -/
def enabled (s : State) (t : Tid) : Bool :=
  match (s.threads t).prog with
  | [] => false
  | .acquire l :: _ => (match s.owner l with | none => true | some u => u == t)
  | _ => true

/-- the harness' default policy after the explicit schedule: keep running the last thread while it is
    enabled, else the lowest enabled thread id; stop when no thread is enabled -/
def complete (file : List Byte) (n : Nat) : Nat → State → Option Tid → List Tid
  | 0, _, _ => []
  | fuel + 1, s, last =>
      let en := (List.range n).filter (enabled s)
      let pick : Option Tid := match last with
        | some l => if en.contains l then some l else en.head?
        | none => en.head?
      match pick with
      | none => []
      | some t => t :: complete file n fuel (step file s t).1 (some t)

def fullSched (file : List Byte) (n : Nat) (progs : Tid → List Action) (s0 : State) (sched : List Tid) : List Tid :=
  let fuel := ((List.range n).map (fun t => (progs t).length)).foldl (· + ·) 0 + 1
  sched ++ complete file n fuel (runS file s0 sched) sched.getLast?

def handle : List String → String
  | ["run", scn, mm, ord, isz, off, flen, shape, topo, progs, sched] =>
      match scenario? scn,
            (if mm = "1" then some true else if mm = "0" then some false else none),
            (if ord = "C" then some C06.Order.C else if ord = "F" then some C06.Order.F else none),
            isz.toNat?, off.toNat?, flen.toNat?, parseNatList? shape, parseSched? sched with
      | some (kind, mappable, compressed, igz), some mmap, some o, some isz, some off, some flen, some shape, some sched =>
          match buildTab kind igz shape topo with
          | none => "bad-op"
          | some tab =>
          match (progs.splitOn "|").mapM (parseThread? tab) with
          | none => "bad-op"
          | some reqs =>
              let c : Cfg := { persist := false, mmap := mmap, order := o, isz := isz, off := off, flen := flen,
                               shape := shape, mappable := mappable, compressed := compressed }
              let plans := reqs.map (fun th => th.map (fun rq =>
                let k := tab.fam.kind rq.2.2
                plan { c with shape := rq.2.1, persist := k == .persist, perRead := k == .perRead,
                              slotIx := rq.2.2 } rq.1))
              let prog : Tid → List Action := fun t => ((plans.getD t []).map (·.prog)).flatten
              let file := mkFile c
              let s0 := State.initS prog tab.fam.nopen tab.fam.opener
              let sched := fullSched file plans.length prog s0 sched
              let tr := trace file s0 sched
              let sEnd := runS file s0 sched
              let res := (List.range plans.length).map (fun t =>
                if (sEnd.threads t).prog.isEmpty then
                  "/".intercalate ((results (plans.getD t []) (readsOf t tr)).map showRes)
                else "INCOMPLETE")
              showTrace tr ++ " | " ++ ";".intercalate res
      | _, _, _, _, _, _, _, _ => "bad-op"
  | ["topo", scn, topo] =>
      match scenario? scn with
      | none => "bad-op"
      | some (kind, _, _, igz) =>
          match buildTab kind igz [1] topo false with
          | none => "bad-op"
          | some tab =>
              let f := tab.fam
              let ix := List.range f.n
              "L" ++ ",".intercalate ((firstSeen (ix.map f.lock)).map toString) ++
              " H" ++ ",".intercalate ((firstSeen (ix.map f.handleOf)).map toString) ++
              " K" ++ "".intercalate (ix.map (fun i => showKind (f.kind i)))
  | ["raw", flen, nh, progs, sched] =>
      match flen.toNat?, nh.toNat?, (progs.splitOn "|").mapM parseRawThread?, parseSched? sched with
      | some flen, some nh, some ps, some sched =>
          let file := (List.range flen).map (fun i => (7 * i + 3) % 251)
          let prog : Tid → List Action := fun t => ps.getD t []
          let s0 := State.init prog nh
          showTrace (trace file s0 (fullSched file ps.length prog s0 sched))
      | _, _, _, _ => "bad-op"
  | _ => "bad-op"

end Nb.Drv.C14

def main : IO Unit := Nb.Drv.runDriver "C14" Nb.Drv.C14.handle
