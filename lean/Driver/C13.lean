import NibabelModel.Model.C13
import Driver.Util
/-! Line-protocol driver for C13: `C13 <op> <args...>` -> one observable line. -/
namespace Nb.Drv.C13

def handle : List String → String
  | _ => "bad-op"

end Nb.Drv.C13

def main : IO Unit := Nb.Drv.runDriver "C13" Nb.Drv.C13.handle
