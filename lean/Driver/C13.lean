import NibabelModel.Model.C13
import NibabelModel.Model.C13_Py
import Driver.Util
/-! Line-protocol driver for C13.

`C13 run <A|P|C>[:<mmap T|F|c|r><file p|z|h><byte order n|s>] <dt> <slope|_> <inter|_> <raw csv|-> <op;op;...|->`
(I/O suffix: the proxy's `mmap` argument, file kind path / compressed path / handle, native / swapped storage;
default `Thn`)  → per-step observables joined by `|`,
then ` F1` (the model's file never changes).  The driver runs the OBJECT-LEVEL model (`rstep` over a heap
of header objects) from the constructor the code uses, with the three defensive copies the code makes
(`Copies.code`): `A` = `Nifti1Image(arr, None, hdr)`, `P` = `from_file_map` (the caller's header is
`img._load_cache['header']`), `C` = `ArrayProxy(file, hdr)` + `Nifti1Image(proxy, None, hdr)` with the
caller keeping `hdr`.

ops: `g<f|u|x><4|8|i>` get_fdata(fill|unchanged|bad caching, f4|f8|int16) · `d<f|u|x>` get_data ·
`a` asarray(dataobj) · `s<a>,<b>,<c>` dataobj[a:b:c] (`_` = None) · `u` uncache · `e<k>` edit array k ·
`el` edit last returned · `m` in_memory · `h<i|o>:s<slope>,<inter>` / `h<i|o>:n<k>` / `h<i|o>:t<dt>`
header edits on img.header / the constructor's header.

`C13 gen <same arguments as run>` → the same observables computed by the METHODS TRANSLATED FROM THE CURRENT SOURCE
(`gtrace`, Model/C13_Py.lean: Generated/C13Funcs.lean run on the attribute dict of the abstract image state with the
primitives `prims`); `gen-failed` when the translated code leaves the modelled domain.

`C13 genst <kind> <dt> <slope|_> <inter|_> <raw> <extra heap: dt:csv:w|r/...|-> <fcache id|_> <dcache id|_> <ops>` →
the same from an INJECTED abstract state: extra arrays appended to the heap (after the own array of an array image),
`_fdata_cache` / `_data_cache` pointing at any of them (reachable or not). -/
namespace Nb.Drv.C13
open Nb Nb.C13

def parseDT? (s : String) : Option DT :=
  if s = "i2" then some .i2 else if s = "f4" then some .f4 else if s = "f8" then some .f8 else none

def showDT : DT → String
  | .i2 => "i2" | .f4 => "f4" | .f8 => "f8"

def parseCaching? (c : Char) : Option Caching :=
  if c = 'f' then some .fill else if c = 'u' then some .unchanged else if c = 'x' then some .other else none

def parseHEdit? (s : String) : Option HEdit :=
  if s.startsWith "s" then
    match ((s.drop 1).toString.splitOn ",").mapM (·.toInt?) with
    | some [a, b] => some (.scale a b)
    | _ => none
  else if s.startsWith "n" then (s.drop 1).toString.toNat?.map HEdit.shape
  else if s.startsWith "t" then (parseDT? (s.drop 1).toString).map HEdit.dtype
  else none

def parseOp? (s : String) : Option Op :=
  match s.toList with
  | ['a'] => some .asarray
  | ['u'] => some .uncache
  | ['m'] => some .inMemory
  | ['e', 'l'] => some .editLast
  | ['g', c, d] =>
      match parseCaching? c, (if d = '4' then some DT.f4 else if d = '8' then some DT.f8
                              else if d = 'i' then some DT.i2 else none) with
      | some c, some d => some (.getFdata c d)
      | _, _ => none
  | ['d', c] => (parseCaching? c).map Op.getData
  | 'e' :: rest => (String.ofList rest).toNat?.map Op.edit
  | 's' :: rest =>
      match ((String.ofList rest).splitOn ",").mapM parseOptInt? with
      | some [a, b, c] => some (.slice ⟨a, b, c⟩)
      | _ => none
  | 'h' :: t :: ':' :: rest =>
      match (if t = 'i' then some HTarget.img else if t = 'o' then some HTarget.orig else none),
            parseHEdit? (String.ofList rest) with
      | some t, some e => some (.hdr t e)
      | _, _ => none
  | _ => none

def parseOps? (s : String) : Option (List Op) :=
  if s = "-" then some [] else (s.splitOn ";").mapM parseOp?

def showInts (l : List Int) : String := ",".intercalate (l.map toString)

def showHdr (h : Hdr) : String :=
  (match h.scale with
   | some (s, i) => toString s ++ "," ++ toString i
   | none => "_,_") ++ "," ++ toString h.n ++ "," ++ showDT h.dt

def showB (b : Bool) : String := if b then "T" else "F"

def showOut (o : Out) : String :=
  (match o.res with
   | .arr id a => toString id ++ ":" ++ showDT a.dt ++ ":" ++ showInts a.vals ++ ":" ++ (if a.ro then "r" else "w")
   | .unit => "-"
   | .valueError => "ERR:ValueError"
   | .noArr => "noarr"
   | .hdrs a b => "H(" ++ showHdr a ++ ")(" ++ showHdr b ++ ")"
   | .notApplicable => "na") ++ ":" ++ showB o.inMem

def parseScale? (a b : String) : Option (Option (Int × Int)) :=
  if a = "_" ∧ b = "_" then some none
  else match a.toInt?, b.toInt? with
    | some x, some y => some (some (x, y))
    | _, _ => none

def parseIO? (s : String) : Option IOp :=
  match s.toList with
  | [m, f, b] =>
      match (if m = 'T' then some MMap.on else if m = 'F' then some MMap.off else if m = 'c' then some MMap.c
             else if m = 'r' then some MMap.r else none),
            (if f = 'p' then some FileKind.path else if f = 'z' then some FileKind.pathGz
             else if f = 'h' then some FileKind.handle else none),
            (if b = 'n' then some false else if b = 's' then some true else none) with
      | some m, some f, some b => some ⟨m, f, b⟩
      | _, _, _ => none
  | _ => none

/-- `K` or `K:<io>` -/
def parseKind? (s : String) : Option (String × IOp) :=
  match s.splitOn ":" with
  | [k] => some (k, {})
  | [k, io] => if k = "A" then none else (parseIO? io).map (fun x => (k, x))
  | _ => none

def parseArr? (s : String) : Option Arr :=
  match s.splitOn ":" with
  | [dt, vals, w] =>
      match parseDT? dt, parseIntList? vals, (if w = "w" then some false else if w = "r" then some true else none) with
      | some dt, some vals, some ro => some ⟨dt, vals, ro⟩
      | _, _, _ => none
  | _ => none

def parseHeap? (s : String) : Option (List Arr) :=
  if s = "-" then some [] else (s.splitOn "/").mapM parseArr?

def parseOptNat? (s : String) : Option (Option Nat) :=
  if s = "_" then some none else s.toNat?.map some

/-- the flat initial state of the constructor the code uses (`code_constructors_flat`) -/
def flatInit? (kind : String) (dt : DT) (sc : Option (Int × Int)) (raw : List Int) (io : IOp) : Option State :=
  let h : Hdr := ⟨sc, raw.length, dt⟩
  if kind = "A" then some (initArray ⟨dt, raw, false⟩ h)
  else if kind = "P" ∨ kind = "C" then some (initProxy raw h io)
  else none

def showGen (t : Spec) (ops : List Op) : String :=
  if ops.any (fun o => match o, t.img with | .slice _, .array _ => true | _, _ => false) then "bad-op"
  else
    match gtrace t (ops.map GOp.ofOp) with
    | some outs => "|".intercalate (outs.map showOut) ++ " F1"
    | none => "gen-failed"

def showPPar (p : PPar) : String :=
  "n=" ++ toString p.n ++ " dt=" ++ showDT p.dt ++ " off=" ++ toString p.off ++ " slope=" ++ toString p.slope ++
    " inter=" ++ toString p.inter

/-- `C13 genspec H <slope|_> <inter|_> <n> <dt> <off>` / `T <n> <dt> <rest csv|->` / `S <0|1> <n>`: the `spec`
    handling of `ArrayProxy.__init__` TRANSLATED from the current source, on a header object / a tuple
    `((n,1,1), dtype) + rest` / `()` or `((n,1,1),)` -/
def showSpec (sp : ProxySpec) : String :=
  match gProxySpec sp with
  | some (.ok p) => showPPar p
  | some (.error e) => showErr e
  | none => "gen-failed"

def handle : List String → String
  | ["genspec", "H", sl, it, n, dt, off] =>
      match parseOptInt? sl, parseOptInt? it, n.toNat?, parseDT? dt, off.toInt? with
      | some sl, some it, some n, some dt, some off => showSpec (.header sl it n dt off)
      | _, _, _, _, _ => "bad-op"
  | ["genspec", "T", n, dt, rest] =>
      match n.toNat?, parseDT? dt, parseIntList? rest with
      | some n, some dt, some rest => showSpec (.tuple n dt rest)
      | _, _, _ => "bad-op"
  | ["genspec", "S", w, n] =>
      match (if w = "0" then some false else if w = "1" then some true else none), n.toNat? with
      | some w, some n => showSpec (.short w n)
      | _, _ => "bad-op"
  | ["gen", kindio, dt, slope, inter, raw, ops] =>
      match parseKind? kindio, parseDT? dt, parseScale? slope inter, parseIntList? raw, parseOps? ops with
      | some (kind, io), some dt, some sc, some raw, some ops =>
          match flatInit? kind dt sc raw io with
          | some s0 => showGen (abs s0) ops
          | none => "bad-op"
      | _, _, _, _, _ => "bad-op"
  | ["genst", kindio, dt, slope, inter, raw, heap, fc, dc, ops] =>
      match parseKind? kindio, parseDT? dt, parseScale? slope inter, parseIntList? raw, parseOps? ops,
            parseHeap? heap, parseOptNat? fc, parseOptNat? dc with
      | some (kind, io), some dt, some sc, some raw, some ops, some extra, some fc, some dc =>
          match flatInit? kind dt sc raw io with
          | some s0 =>
              let s1 : State := { s0 with heap := s0.heap ++ extra, fcache := fc, dcache := dc }
              let ok (o : Option Nat) : Bool := match o with | none => true | some i => i < s1.heap.length
              if ok fc && ok dc then showGen (abs s1) ops else "bad-op"
          | none => "bad-op"
      | _, _, _, _, _, _, _, _ => "bad-op"
  | ["run", kindio, dt, slope, inter, raw, ops] =>
      match parseKind? kindio, parseDT? dt, parseScale? slope inter, parseIntList? raw, parseOps? ops with
      | some (kind, io), some dt, some sc, some raw, some ops =>
          let h : Hdr := ⟨sc, raw.length, dt⟩
          let s0? : Option RState :=
            if kind = "A" then some (rinitArray .code ⟨dt, raw, false⟩ h)
            else if kind = "P" then some (rinitFileMap .code raw h io)
            else if kind = "C" then some (rinitCtor .code raw h io)
            else none
          match s0? with
          | some s0 =>
              -- `dataobj[slice]` on an array image is outside the model: refuse loudly
              if (rtrace s0 ops).any (fun o => o.res == .notApplicable) then "bad-op"
              else "|".intercalate ((rtrace s0 ops).map showOut) ++ " F1"
          | none => "bad-op"
      | _, _, _, _, _ => "bad-op"
  | _ => "bad-op"

end Nb.Drv.C13

def main : IO Unit := Nb.Drv.runDriver "C13" Nb.Drv.C13.handle
