import NibabelModel.Model.C03
import NibabelModel.Model.C03_Hist
import Driver.Util
/-! Line-protocol driver for C03: `C03 <op> <args...>` -> one observable line. -/
namespace Nb.Drv.C03
open Nb Nb.C06 Nb.C03

def parseItem? (s : String) : Option IdxItem :=
  if s = "n" then some .newaxis
  else if s = "e" then some .ellipsis
  else if s.startsWith "i" then (s.drop 1).toString.toInt?.map IdxItem.int
  else if s.startsWith "s" then
    match ((s.drop 1).toString.splitOn ",").mapM parseOptInt? with
    | some [a, b, c] => some (.slice ⟨a, b, c⟩)
    | _ => none
  else none

def parseIdx? (s : String) : Option (List IdxItem) :=
  if s = "-" then some [] else (s.splitOn ";").mapM parseItem?

def parseOrder? (s : String) : Option Order :=
  if s = "C" then some .C else if s = "F" then some .F else none

def showOpt (l : List (Option Nat)) : String :=
  "[" ++ ",".intercalate (l.map (fun o => match o with | some v => toString v | none => "?")) ++ "]"

def showRes {α} [ToString α] : Except Err (List Nat × List α) → String
  | .ok (sh, d) => "ok " ++ showList sh ++ " " ++ showList d
  | .error _ => "ERR"

def parseHdrOp? (s : String) : Option HdrOp :=
  match s.splitOn ":" with
  | ["shape", v] => (parseNatList? v).map HdrOp.setShape
  | ["isz", v] => v.toNat?.map HdrOp.setIsz
  | ["off", v] => v.toNat?.map HdrOp.setOff
  | ["si", a, b] => match parseOptInt? a, parseOptInt? b with
      | some a, some b => some (HdrOp.setSlopeInter a b)
      | _, _ => none
  | _ => none

def parseCellOp? (s : String) : Option (Nat × HdrOp) :=
  match s.splitOn ":" with
  | c :: rest => match c.toNat?, parseHdrOp? (":".intercalate rest) with
      | some c, some op => some (c, op)
      | _, _ => none
  | [] => none

def showParams (p : Params Int) : String :=
  showList p.shape ++ " " ++ toString p.isz ++ " " ++ toString p.off ++ " " ++ toString p.slope ++ " " ++
    toString p.inter

def handleBase : List String → String
  -- generic ArrayProxy: raw element numbers of proxy[idx]
  | ["px", ord, thr, isz, off, shape, idx] =>
      match parseOrder? ord, thr.toNat?, isz.toNat?, off.toNat?, parseNatList? shape, parseIdx? idx with
      | some o, some thr, some isz, some off, some shape, some idx =>
          let p : Params Unit := ⟨shape, isz, off, o, (), ()⟩
          showRes (getUnscaled (thresholdHeuristic thr) p idx)
      | _, _, _, _, _, _ => "bad-op"
  -- reshaped proxy: proxy.reshape(newshape)[idx]; second order token = order of the NEW proxy (equal to the
  -- first for the repaired code; different = the pinned `reshapeOrig`)
  | ["rs", ord, dflt, thr, isz, off, shape, newshape, idx] =>
      match parseOrder? ord, parseOrder? dflt, thr.toNat?, isz.toNat?, off.toNat?, parseNatList? shape,
            parseIntList? newshape, parseIdx? idx with
      | some o, some dflt, some thr, some isz, some off, some shape, some ns, some idx =>
          let p : Params Unit := ⟨shape, isz, off, o, (), ()⟩
          match (if dflt = o then reshape p ns else reshapeOrig dflt p ns) with
          | .ok p' => showRes (getUnscaled (thresholdHeuristic thr) p' idx)
          | .error _ => "ERR"
      | _, _, _, _, _, _, _, _ => "bad-op"
  -- ECAT frames (cur = repaired code, orig = pinned code)
  | ["ecat", which, shape3, t, idx] =>
      match parseNatList? shape3, t.toNat?, parseIdx? idx with
      | some shape3, some t, some idx =>
          let r := if which = "orig" then some (ecatGetitemOrig shape3 t idx)
                   else if which = "cur" then some (ecatGetitem shape3 t idx) else none
          match r with
          | some (.ok (sh, d)) => "ok " ++ showList sh ++ " " ++ showOpt d
          | some (.error _) => "ERR"
          | none => "bad-op"
      | _, _, _ => "bad-op"
  -- ECAT through the matrix list: ids = id column of the mlist in FILE order; elements numbered by file row,
  -- third list = sub-header (row) whose scale factor the element carries
  | ["ecatr", shape3, ids, idx] =>
      match parseNatList? shape3, parseIntList? ids, parseIdx? idx with
      | some shape3, some ids, some idx =>
          let order := frameOrder ids
          match ecatGetitemRows (fun i => order.getD i 0) shape3 order.length idx with
          | .ok (sh, d) =>
              "ok " ++ showList sh ++ " " ++ showOpt d ++ " " ++ showOpt (d.map (fun o => o.map (· / shape3.prod)))
          | .error _ => "ERR"
      | _, _, _ => "bad-op"
  | ["ecatrarr", shape3, ids] =>
      match parseNatList? shape3, parseIntList? ids with
      | some shape3, some ids =>
          let order := frameOrder ids
          let r := ecatArrayRows (fun i => order.getD i 0) shape3 order.length
          "ok " ++ showList r.1 ++ " " ++ showList r.2 ++ " " ++ showList (r.2.map (· / shape3.prod))
      | _, _ => "bad-op"
  | ["ecatarr", shape3, t] =>
      match parseNatList? shape3, t.toNat? with
      | some shape3, some t => let r := ecatArray shape3 t; "ok " ++ showList r.1 ++ " " ++ showList r.2
      | _, _ => "bad-op"
  -- PAR/REC: REC element numbers + slope/intercept slots
  | ["par", thr, isz, shape, s, indices, idx] =>
      match thr.toNat?, isz.toNat?, parseNatList? shape, s.toNat?, parseNatList? indices, parseIdx? idx with
      | some thr, some isz, some shape, some s, some indices, some idx =>
          match parrecUnscaled (thresholdHeuristic thr) shape isz s indices idx,
                parrecScaleSlots shape s idx with
          | .ok (sh, d), .ok (_, sl) => "ok " ++ showList sh ++ " " ++ showList d ++ " " ++ showList sl
          | _, _ => "ERR"
      | _, _, _, _, _, _ => "bad-op"
  -- AFNI: element numbers + factor slots; zero mask of BRICK_FLOAT_FACS ("z"/"n" per sub-brick, "-" = absent)
  | ["afni", thr, isz, shape, facs, idx] =>
      match thr.toNat?, isz.toNat?, parseNatList? shape, parseIdx? idx with
      | some thr, some isz, some shape, some idx =>
          let fl : Option (List Bool) := if facs = "-" then none else some (facs.toList.map (· == 'z'))
          let nvol := shape.getLast?.getD 0
          -- factors abstractly: slot number `t+1` for a kept factor, 0 for "one"
          let sc := afniScaling (fun (v : Nat × Bool) => v.2) ((0 : Nat), false) nvol
                      (fl.map (fun l => l.zipIdx.map (fun (z, t) => (t + 1, z))))
          let p : Params Unit := ⟨shape, isz, 0, .F, (), ()⟩
          match getUnscaled (thresholdHeuristic thr) p idx, afniScaleSlotsB shape idx with
          | .ok (sh, d), .ok (_, sl) =>
              let used : List Nat := match sc with
                | none => []
                | some v => sl.map (fun t => (v.getD t (0, false)).1)
              "ok " ++ showList sh ++ " " ++ showList d ++ " " ++ showList used
          | _, _ => "ERR"
      | _, _, _, _ => "bad-op"
  -- MINC: C-order element numbers + image-min/max slots
  | ["minc", nscales, shape, idx] =>
      match nscales.toNat?, parseNatList? shape, parseIdx? idx with
      | some ns, some shape, some idx =>
          if ns = 0 then
            match npIndex idx shape .C with
            | .ok (sh, d) => "ok " ++ showList sh ++ " " ++ showList d ++ " " ++ showList (d.map (fun _ => 0))
            | .error _ => "ERR"
          else
            match npIndex idx shape .C, mincScaleSlots ns shape idx with
            | .ok (sh, d), .ok (_, sl) => "ok " ++ showList sh ++ " " ++ showList d ++ " " ++ showList sl
            | _, _ => "ERR"
      | _, _, _ => "bad-op"
  -- frozen parameters: header ops after construction
  | "frz" :: ord :: shape :: isz :: off :: sl :: it :: ops =>
      match parseOrder? ord, parseNatList? shape, isz.toNat?, off.toNat?, parseOptInt? sl, parseOptInt? it,
            ops.mapM parseHdrOp? with
      | some o, some shape, some isz, some off, some sl, some it, some ops =>
          let h : Hdr := ⟨shape, isz, off, sl, it⟩
          let w := (World.mk h (proxyOfHdr o h)).run ops
          showParams w.proxy ++ " | " ++ showParams (proxyOfHdr o w.hdr)
      | _, _, _, _, _, _, _ => "bad-op"
  -- frozen READ: two equal header objects (cells 0, 1), the proxy built from cell 0; ops `cell:op…` are applied to
  -- the header OBJECTS after construction; printed: what `proxy[idx]` reads afterwards (element numbers)
  | "frzr" :: ord :: thr :: isz :: off :: shape :: idx :: ops =>
      match parseOrder? ord, thr.toNat?, isz.toNat?, off.toNat?, parseNatList? shape, parseIdx? idx,
            ops.mapM parseCellOp? with
      | some o, some thr, some isz, some off, some shape, some idx, some ops =>
          let hdr : Hdr := ⟨shape, isz, off, none, none⟩
          let w := (newProxy o [hdr, hdr] 0).run ops
          showRes (w.read (fun (x : Int) _ _ => x) id (thresholdHeuristic thr) idx)
      | _, _, _, _, _, _, _ => "bad-op"
  | _ => "bad-op"

/-- split a token list at the separator token `@` -/
def splitSteps : List String → List (List String)
  | [] => [[]]
  | t :: rest =>
      match splitSteps rest with
      | [] => [[t]]
      | g :: gs => if t = "@" then [] :: g :: gs else (t :: g) :: gs

/-- one step of a history: `a` = np.asarray(proxy), `g <idx>` = proxy[idx], `m <k>` = in-place edit of the array
    the k-th read returned (the driver's results are printed lines; an edit appends a mark) -/
def parseStep? : List String → Option (HStep String String)
  | ["a"] => some .arr
  | ["g", idx] => some (.get idx)
  | ["m", k] => k.toNat?.map (fun k => .edit k (· ++ "*"))
  | _ => none

/-- history on ONE proxy: `hist <op and arguments of the proxy, without the index> @ step @ step …`.
    Printed: what every read returned, in order, then per read `k` (object still holds what was returned), `c`
    (changed behind the caller's back) or `-` (the caller edited it). -/
def handle : List String → String
  | "hist" :: rest =>
      match splitSteps rest with
      | pre :: steps =>
          if pre = [] ∨ pre.head? = some "hist" then "bad-op" else
          match steps.mapM parseStep? with
          | none => "bad-op"
          | some ss =>
              let arr := if pre.head? = some "ecatr" then handleBase ("ecatrarr" :: pre.drop 1)
                         else handleBase (pre ++ ["-"])
              let p : ProxyFns String String := ⟨fun idx => handleBase (pre ++ [idx]), arr⟩
              let st := runHist p ss
              if st.snaps.any (· = "bad-op") then "bad-op" else
              let flags := (List.range st.snaps.length).map (fun i =>
                if ss.any (HStep.isMutOf i) then "-"
                else if (st.refs[i]?.bind (fun c => st.cells[c]?)) = st.snaps[i]? then "k" else "c")
              "hist " ++ " | ".intercalate st.snaps ++ " || " ++ "".intercalate flags
      | [] => "bad-op"
  | toks => handleBase toks

end Nb.Drv.C03

def main : IO Unit := Nb.Drv.runDriver "C03" Nb.Drv.C03.handle
