import NibabelModel.Model.C03
import Driver.Util
/-! Line-protocol driver for C03: `C03 <op> <args...>` -> one observable line. -/
namespace Nb.Drv.C03

def handle : List String → String
  | _ => "bad-op"

end Nb.Drv.C03

def main : IO Unit := Nb.Drv.runDriver "C03" Nb.Drv.C03.handle
