import NibabelModel.Model.C20
import NibabelModel.Generated.C20Funcs
import NibabelModel.Model.C20_PyHdr
import Driver.Util
/-! Line-protocol driver for C20: `C20 <op> <args...>` -> one observable line.

  `C20 load <strict 0|1> <permit 0|1> <dv|fp> <cfg> <records>`      current logic
  `C20 loadorig <strict 0|1> <permit 0|1> <dv|fp> <cfg> <records>`  pinned (pre-fix) strict order
  `C20 read <strict 0|1> <permit 0|1> <dv|fp> <cfg> <records> <x,y> <slicers>`   sliced reads `dataobj[slicer]`
       slicers = `|`-separated; a slicer = `;`-separated items `e` (Ellipsis) | `i<int>` | `s<a>,<b>,<c>` (`_` = None)
       output  = `ok r=<res>|<res>|…`, <res> = `[slab ids]` or `ERR:<class>`
  `C20 spec <cfg> <records>`   spec predicate `complete` (records of complete label sets in key order) + H0∧H1
  `C20 volnos <slices>`    `vol_numbers`
  `C20 gen vol_numbers <slices>`   the function TRANSLATED from the working tree (Generated/C20Funcs.lean)

  `load`, `loadorig` and `read` run the call-site model `loadSites` (index list recomputed by the proxy, by
  get_data_scaling on both header objects and by get_volume_labels; header copy); `pslope`/`pinter` are
  the proxy's own scaling arrays.
  `C20 isfull <smax> <slices>`   `vol_is_full`
  `C20 chain <ops> <strict 0|1> <permit 0|1> <dv|fp> <cfg> <records>`   load, hand the header on through
       <ops> (letters c = copy(), f = from_header, i = PARRECImage(.., header=h).header), observe through the
       resulting header and a NEW proxy built on it (`loadChain`); same output as `load`
  `C20 genm vol_is_full <smax> <smin> <slices>`   the TRANSLATED `vol_is_full` (Generated/C20Methods.lean)
  `C20 genm <m> <strict 0|1> <cfg> <records>`     the TRANSLATED header method `m` on the header object of
       Model/C20_PyHdr: m ∈ n_slices | n_vols | shape | lax | keys | idx | labels | def:<field, `+` for space>
       (canonical value text of Driver/Util.showV)

  cfg     = `ver,diffusion,maxSlices,maxEchoes,maxDynamics,maxDiffValues,maxGradOrient` (ver ∈ 40,41,42)
  records = `;`-separated, each `slice,echo,dyn,phase,itype,seq,bval,grad,label,ri,rs,ss,payload`
-/
namespace Nb.Drv.C20
open Nb.C20

def parseRec? (s : String) : Option Rec :=
  match parseIntList? s with
  | some [sl, ec, dy, ph, ty, sq, bv, gr, lb, ri, rs, ss, pl] =>
      if pl < 0 then none else some ⟨sl, ec, dy, ph, ty, sq, bv, gr, lb, ri, rs, ss, pl.toNat⟩
  | _ => none

def parseRecs? (s : String) : Option (List Rec) :=
  if s = "-" then none else (s.splitOn ";").mapM parseRec?

def parseCfg? (s : String) : Option Cfg :=
  match parseIntList? s with
  | some [v, d, ms, me, md, mb, mg] =>
      let ver : Option Version := if v = 40 then some .v4 else if v = 41 then some .v41
                                  else if v = 42 then some .v42 else none
      let dif : Option Bool := if d = 0 then some false else if d = 1 then some true else none
      match ver, dif with
      | some ver, some dif => some ⟨ver, dif, ms, me, md, mb, mg⟩
      | _, _ => none
  | _ => none

def parseBool? (s : String) : Option Bool :=
  if s = "0" then some false else if s = "1" then some true else none

def parseScaling? (s : String) : Option Scaling :=
  if s = "dv" then some .dv else if s = "fp" then some .fp else none

def showRat (q : Rat) : String := toString q.num ++ "/" ++ toString q.den

def showRats (l : List Rat) : String := "[" ++ ",".intercalate (l.map showRat) ++ "]"

def showLabels (l : List (String × List Int)) : String :=
  if l.isEmpty then "-" else "|".intercalate (l.map fun kv => kv.1 ++ ":" ++ showList kv.2)

def showErr : Err → String
  | .parrec => "ERR:PARRECError"
  | .value => "ERR:ValueError"
  | .index => "ERR:IndexError"

def parseItem? (s : String) : Option Item :=
  if s = "e" then some .ellipsis
  else if s.startsWith "i" then (s.drop 1).toString.toInt?.map Item.int
  else if s.startsWith "s" then
    match ((s.drop 1).toString.splitOn ",").mapM parseOptInt? with
    | some [a, b, c] => if c = some 0 then none else some (.slice ⟨a, b, c⟩)
    | _ => none
  else none

/-- a slicer: at least one item, at most one Ellipsis -/
def parseSlicer? (s : String) : Option (List Item) :=
  match (s.splitOn ";").mapM parseItem? with
  | some its => if its.isEmpty || (its.filter (· == .ellipsis)).length > 1 then none else some its
  | none => none

def runRead (st pe sc cfg recs xy sls : String) : String :=
  match parseBool? st, parseBool? pe, parseScaling? sc, parseCfg? cfg, parseRecs? recs,
        parseNatList? xy, (sls.splitOn "|").mapM parseSlicer? with
  | some st, some pe, some sc, some cfg, some recs, some [x, y], some sls =>
      if sc = .fp && recs.any (fun r => r.rs == 0 || r.ss == 0) then "bad-op"
      else match loadSites cfg pe st sc false recs with
        | .ok so => "ok r=" ++ "|".intercalate (sls.map fun sl =>
            match readPartial so.out (x, y) sl with
            | .ok l => showList l
            | .error e => showErr e)
        | .error e => showErr e
  | _, _, _, _, _, _, _ => "bad-op"

def showOut (so : SitesOut) : String :=
  let o := so.out
  "ok shape=" ++ showList o.shape ++ " idx=" ++ showList o.idx ++ " data=" ++ showList o.data ++
  " slope=" ++ showRats o.slopes ++ " inter=" ++ showRats o.inters ++
  " pslope=" ++ showRats so.pslopes ++ " pinter=" ++ showRats so.pinters ++ " labels=" ++ showLabels o.labels

def runLoad (orig : Bool) (st pe sc cfg recs : String) : String :=
  match parseBool? st, parseBool? pe, parseScaling? sc, parseCfg? cfg, parseRecs? recs with
  | some st, some pe, some sc, some cfg, some recs =>
      -- fp scaling divides by the scale factors: zero factors are outside the modelled domain
      if sc = .fp && recs.any (fun r => r.rs == 0 || r.ss == 0) then "bad-op"
      else match loadSites cfg pe st sc orig recs with
        | .ok o => showOut o
        | .error e => showErr e
  | _, _, _, _, _ => "bad-op"

def handle : List String → String
  | ["load", st, pe, sc, cfg, recs] => runLoad false st pe sc cfg recs
  | ["loadorig", st, pe, sc, cfg, recs] => runLoad true st pe sc cfg recs
  | ["chain", ops, st, pe, sc, cfg, recs] =>
      let hops : Option (List HOp) := ops.toList.mapM fun ch =>
        if ch = 'c' then some HOp.copy else if ch = 'f' then some HOp.fromHeader
        else if ch = 'i' then some HOp.viaImage else none
      match hops, parseBool? st, parseBool? pe, parseScaling? sc, parseCfg? cfg, parseRecs? recs with
      | some hops, some st, some pe, some sc, some cfg, some recs =>
          if hops.isEmpty || (sc = .fp && recs.any (fun r => r.rs == 0 || r.ss == 0)) then "bad-op"
          else match loadChain cfg pe st sc recs hops with
            | .ok o => showOut o
            | .error e => showErr e
      | _, _, _, _, _, _ => "bad-op"
  | ["read", st, pe, sc, cfg, recs, xy, sls] => runRead st pe sc cfg recs xy sls
  | ["spec", cfg, recs] =>
      match parseCfg? cfg, parseRecs? recs with
      | some cfg, some recs =>
          "complete=" ++ showList (((stableSort (strictLe cfg) recs).filter (complete cfg recs)).map (·.payload)) ++
          " hyps=" ++ (if truncHyps cfg recs then "1" else "0")
      | _, _ => "bad-op"
  | ["volnos", sl] =>
      match parseIntList? sl with
      | some sl => showList (volNumbers sl)
      | none => "bad-op"
  | ["gen", "vol_numbers", sl] =>
      match parseIntList? sl with
      | some sl =>
          match Nb.Gen.C20F.vol_numbers (Nb.Py.V.ofList (sl.map Nb.Py.V.int)) with
          | .ok v =>
              match v.toList? with
              | some vs =>
                  match vs.mapM (fun x => match x with | Nb.Py.V.int i => some i | _ => none) with
                  | some is => showList is
                  | none => "ERR:not-ints"
              | none => "ERR:not-a-list"
          | .error e => "ERR:" ++ reprStr e
      | none => "bad-op"
  | ["genm", "vol_is_full", smax, smin, sl] =>
      match smax.toInt?, smin.toInt?, (if sl = "-" then some [] else parseIntList? sl) with
      | some smax, some smin, some sl =>
          showM (Nb.Gen.C20M.vol_is_full (NV.ofInts sl) (.int smax) (.int smin))
      | _, _, _ => "bad-op"
  | ["genm", m, st, cfg, recs] =>
      match parseBool? st, parseCfg? cfg, parseRecs? recs with
      | some st, some cfg, some recs =>
          let h : PyHdr.H := { cfg := cfg, recs := recs, strict := st }
          if m = "n_slices" then showM h.nSlices
          else if m = "n_vols" then showM h.nVols
          else if m = "shape" then showM h.dataShape
          else if m = "lax" then showM h.laxOrder
          else if m = "keys" then showM h.strictKeys
          else if m = "idx" then showM h.sortedIndices
          else if m = "labels" then showM h.volumeLabels
          else if m.startsWith "def:" then showM (h.getDef (.str ((m.drop 4).toString.replace "+" " ")))
          else "bad-op"
      | _, _, _ => "bad-op"
  | ["isfull", smax, sl] =>
      match smax.toInt?, parseIntList? sl with
      | some smax, some sl =>
          match volIsFull sl smax with
          | .ok f => showList (f.map fun b => if b then 1 else 0)
          | .error e => showErr e
      | _, _ => "bad-op"
  | _ => "bad-op"

end Nb.Drv.C20

def main : IO Unit := Nb.Drv.runDriver "C20" Nb.Drv.C20.handle
