import NibabelModel.Model.C20
import Driver.Util
/-! Line-protocol driver for C20: `C20 <op> <args...>` -> one observable line. -/
namespace Nb.Drv.C20

def handle : List String → String
  | _ => "bad-op"

end Nb.Drv.C20

def main : IO Unit := Nb.Drv.runDriver "C20" Nb.Drv.C20.handle
