import NibabelModel.Model.C18
import NibabelModel.Generated.C18Funcs
import Driver.Util
/-! Line-protocol driver for C18: `C18 <kind> <axis fields...> <op> <args...>` -> one observable line.

  index token : `i<int>` | `s<a>,<b>,<c>` (`_` = None) | `a<int,int,..>` (`a-` empty) | `m<0/1 bits>` (`m-` empty)
  lists       : `1,2,3` or `-`;  dict `k:v,k:v` or `-`;  option `_`;  shape `x.y.z`
  bm elements : `sid/i.j.k/vertex,...` or `-`
-/
namespace Nb.Drv.C18
open Nb Nb.C18

def parseIndex? (s : String) : Option Index :=
  let rest := (s.drop 1).toString
  if s.startsWith "i" then rest.toInt?.map Index.int
  else if s.startsWith "s" then
    match (rest.splitOn ",").mapM parseOptInt? with
    | some [a, b, c] => some (.slice ⟨a, b, c⟩)
    | _ => none
  else if s.startsWith "a" then (parseIntList? rest).map Index.arr
  else if s.startsWith "m" then
    if rest = "-" then some (.mask [])
    else (rest.toList.mapM (fun c => if c = '1' then some true else if c = '0' then some false else none)).map Index.mask
  else none

def parseDict? (s : String) : Option Dict :=
  if s = "-" then some []
  else (s.splitOn ",").mapM (fun kv => match kv.splitOn ":" with
    | [k, v] => match k.toNat?, v.toNat? with
      | some k, some v => some (k, v)
      | _, _ => none
    | _ => none)

def parseOptNat? (s : String) : Option (Option Nat) :=
  if s = "_" then some none else s.toNat?.map some

def parseShape? (s : String) : Option (Option Shape) :=
  if s = "_" then some none
  else match (s.splitOn ".").mapM (·.toNat?) with
    | some [a, b, c] => some (some (a, b, c))
    | _ => none

def parseVox? (s : String) : Option Vox :=
  match (s.splitOn ".").mapM (·.toInt?) with
  | some [a, b, c] => some (a, b, c)
  | _ => none

def parseBMElems? (s : String) : Option (List (Nat × Vox × Int)) :=
  if s = "-" then some []
  else (s.splitOn ",").mapM (fun e => match e.splitOn "/" with
    | [n, v, w] => match n.toNat?, parseVox? v, w.toInt? with
      | some n, some v, some w => some (n, v, w)
      | _, _, _ => none
    | _ => none)

def showErr : Err → String
  | .indexError => "ERR:IndexError"
  | .valueError => "ERR:ValueError"

def joinOr (sep : String) (l : List String) : String := if l.isEmpty then "-" else sep.intercalate l

def showDict (d : Dict) : String :=
  joinOr "," ((d.mergeSort (fun a b => a.1 ≤ b.1)).map (fun p => toString p.1 ++ ":" ++ toString p.2))

def showOptNat : Option Nat → String
  | none => "_"
  | some n => toString n

def showShape : Option Shape → String
  | none => "_"
  | some (a, b, c) => s!"{a}.{b}.{c}"

def showVox (v : Vox) : String := s!"{v.1}.{v.2.1}.{v.2.2}"

def showPair (e : Nat × Nat) : String := s!"{e.1}:{e.2}"
def showTriple (e : Nat × Nat × Nat) : String := s!"{e.1}:{e.2.1}:{e.2.2}"
def showBMElem : BMElem → String
  | .surf n v => s!"S:{n}:{v}"
  | .vox n v => s!"V:{n}:{showVox v}"

def showSeries (a : Series) : String :=
  s!"ax {a.start} {a.step} {a.size} {a.unit} {showList a.elements}"

def showScalar (a : Scalar) : String := s!"ax {a.size} {joinOr ";" (a.elements.map showPair)}"
def showLabel (a : Label) : String := s!"ax {a.size} {joinOr ";" (a.elements.map showTriple)}"
def showVol (nv : Dict) (aff : Option Nat) (shp : Option Shape) : String :=
  s!"nv={showDict nv} aff={showOptNat aff} shp={showShape shp}"
def showParcels (a : Parcels) : String :=
  s!"ax {a.size} {joinOr ";" (a.elements.map showTriple)} {showVol a.nvertices a.affine a.shape}"
def showBM (a : BM) : String :=
  s!"ax {a.size} {joinOr ";" (a.elements.map showBMElem)} {showVol a.nvertices a.affine a.shape}"

def out {α} (f : α → String) : Except Err α → String
  | .ok a => f a
  | .error e => showErr e

def parseSeries? : List String → Option Series
  | [a, b, c, d] => match a.toInt?, b.toInt?, c.toNat?, d.toNat? with
    | some a, some b, some c, some d => if d < 4 then some ⟨a, b, c, d⟩ else none
    | _, _, _, _ => none
  | _ => none

def parseScalar? : List String → Option (Except Err Scalar)
  | [n, m] => match parseNatList? n, parseNatList? m with
    | some n, some m => some (scalarMk n m)
    | _, _ => none
  | _ => none

def parseLabel? : List String → Option (Except Err Label)
  | [n, l, m] => match parseNatList? n, parseNatList? l, parseNatList? m with
    | some n, some l, some m => some (labelMk n l m)
    | _, _, _ => none
  | _ => none

def parseParcels? : List String → Option (Except Err Parcels)
  | [n, v, w, nv, aff, shp] =>
    match parseNatList? n, parseNatList? v, parseNatList? w, parseDict? nv, parseOptNat? aff, parseShape? shp with
    | some n, some v, some w, some nv, some aff, some shp => some (parcelsMk n v w aff shp nv)
    | _, _, _, _, _, _ => none
  | _ => none

def parseBM? : List String → Option (Except Err BM)
  | [es, nv, aff, shp] =>
    match parseBMElems? es, parseDict? nv, parseOptNat? aff, parseShape? shp with
    | some es, some nv, some aff, some shp =>
      some (bmMk (es.map (·.1)) (es.map (·.2.1)) (es.map (·.2.2)) aff shp nv)
    | _, _, _, _ => none
  | _ => none

def showRec (r : BMRec) : String :=
  s!"{r.offset}:{r.count}:{if r.surf then "S" else "V"}:{r.name}:{showOptNat r.nvert}"

def showMap (m : BMMap) : String :=
  joinOr "," (m.recs.map showRec) ++ " vol=" ++
    (match m.volume with
     | none => "_"
     | some (s, a) => showShape s ++ "/" ++ showOptNat a)


/-! ### phase-3 extension: mapping / XML round trips and to_header -/

/-- generic separated list: `-` = empty -/
def parseSep? {α} (sep : String) (f : String → Option α) (s : String) : Option (List α) :=
  if s = "-" then some [] else (s.splitOn sep).mapM f

/-- label entry `key/name/r.g.b.a` -/
def parseLEntry? (s : String) : Option LEntry :=
  match s.splitOn "/" with
  | [k, n, c] =>
    match k.toInt?, n.toNat?, (c.splitOn ".").mapM (·.toNat?) with
    | some k, some n, some [r, g, b, a] => some ⟨k, n, r, g, b, a⟩
    | _, _, _ => none
  | _ => none

/-- tables `t|t|…`, table = `e;e;…` (an empty table is outside the model: not written to XML at all) -/
def parseTables? (s : String) : Option (List LTable) :=
  parseSep? "|" (fun t => match parseSep? ";" parseLEntry? t with
    | some [] => none
    | r => r) s

def showLEntry (e : LEntry) : String := s!"{e.key}/{e.name}/{e.r}.{e.g}.{e.b}.{e.a}"
def showLabelR (a : LabelR) : String :=
  s!"ax {a.name.length} " ++ joinOr ";" ((zip3 a.name a.table a.mta).map (fun e =>
    s!"{e.1}:{e.2.2}:[" ++ ",".intercalate (e.2.1.map showLEntry) ++ "]"))

/-- inner lists use `_` for empty (`-` is the empty OUTER list) -/
def parseVoxList? (s : String) : Option (List Vox) := if s = "_" then some [] else parseSep? ";" parseVox? s
def parseVDict? (s : String) : Option VDict :=
  if s = "_" then some [] else
  parseSep? ";" (fun e => match e.splitOn ":" with
    | [k, v] => match k.toNat?, parseSep? "." (·.toNat?) v with
      | some k, some v => some (k, v)
      | _, _ => none
    | _ => none) s

def showVDict (d : VDict) : String :=
  joinOr ";" (d.map (fun e => s!"{e.1}:" ++ joinOr "." (e.2.map toString)))
def showDictOrdered (d : Dict) : String := joinOr "," (d.map (fun p => s!"{p.1}:{p.2}"))
def showParcelsR (a : ParcelsR) : String :=
  s!"ax {a.name.length} " ++ joinOr "|" ((zip3 a.name a.voxels a.vertices).map (fun e =>
    s!"{e.1}/" ++ joinOr ";" (e.2.1.map showVox) ++ "/" ++ showVDict e.2.2)) ++
  s!" nv={showDictOrdered a.nvertices} aff={showOptNat a.affine} shp={showShape a.shape}"

/-- the axes of the `hdr` stream: series or scalar axes (`__eq__` = structural equality on the modelled fields;
    axes of different classes are never equal) -/
inductive AnyAx
  | ser (s : Series)
  | sc (s : Scalar)
  deriving DecidableEq

def parseAnyAx? (s : String) : Option AnyAx :=
  if s.startsWith "S" then
    match parseSeries? (((s.drop 1).toString).splitOn ".") with
    | some a => some (.ser a)
    | none => none
  else if s.startsWith "C" then
    match ((s.drop 1).toString).splitOn "/" with
    | [n, m] => match parseNatList? n, parseNatList? m with
      | some n, some m => if n.length = m.length then some (.sc ⟨n, m⟩) else none
      | _, _ => none
    | _ => none
  else none

def showAnyAx : AnyAx → String
  | .ser a => s!"S{a.start}.{a.step}.{a.size}.{a.unit}"
  | .sc a => s!"C{joinOr "," (a.name.map toString)}/{joinOr "," (a.mta.map toString)}"

/-! ### wave-3 extension: explicit metadata dicts through the XML text -/

/-- text `core.padL.padR`; normal form: the empty text (core 0) carries its whitespace in `padL` only -/
def parseTxt? (s : String) : Option Txt :=
  match (s.splitOn ".").mapM (·.toNat?) with
  | some [c, l, r] => if c = 0 ∧ r ≠ 0 then none else some ⟨c, l, r⟩
  | _ => none

def parseMD? (s : String) : Option MD :=
  match s.splitOn "=" with
  | [k, v] => match parseTxt? k, parseTxt? v with
    | some k, some v => some (k, v)
    | _, _ => none
  | _ => none

/-- dict `e;e;…` (`_` = empty dict); keys must be distinct (it is a dict) -/
def parseMDict? (s : String) : Option MDict :=
  if s = "_" then some [] else
  match parseSep? ";" parseMD? s with
  | some d => if (d.map (·.1)).eraseDups.length = d.length then some d else none
  | none => none

def showTxt (t : Txt) : String := s!"{t.core}.{t.padL}.{t.padR}"
/-- entries sorted as strings: Python compares dicts without regard to entry order -/
def showMDict (d : MDict) : String :=
  "[" ++ ",".intercalate ((d.map (fun e => showTxt e.1 ++ "=" ++ showTxt e.2)).mergeSort (fun a b => !(decide (b < a)))) ++ "]"
def showScalarM (a : ScalarM) : String :=
  s!"ax {a.name.length} " ++ joinOr ";" ((a.name.zip a.mta).map (fun e => s!"{e.1}:" ++ showMDict e.2))

/-! ### wave-3 extension: the SeriesAxis methods TRANSLATED from the source (`Generated/C18Funcs.lean`) -/

open Nb.Py in
def indexToV : Index → V
  | .int i => .int i
  | .slice s => V.ofPySlice s
  | .arr l => V.ofList (l.map V.int)
  | .mask m => V.ofList (m.map V.bool)

open Nb.Py in
def showPyErr : Nb.Py.Err → String
  | .indexError => "ERR:IndexError"
  | .valueError => "ERR:ValueError"
  | .typeError => "ERR:TypeError"
  | .zeroDivision => "ERR:ZeroDivisionError"
  | .unsupported => "ERR:unsupported"

open Nb.Py in
/-- a translated result: a time point, or an axis given by its four constructor arguments -/
def showGenResult : Nb.Py.M V → String
  | .error e => showPyErr e
  | .ok (.int t) => s!"el {t}"
  | .ok (.cons (.int a) (.cons (.int b) (.cons (.int c) (.cons (.int d) .nil)))) =>
    if c < 0 ∨ d < 0 then "bad-result" else showSeries ⟨a, b, c.toNat, d.toNat⟩
  | .ok _ => "bad-result"

open Nb.Py in
def seriesArgs (a : Series) : V × V × V × V := (.int a.start, .int a.step, .int (a.size : Int), .int (a.unit : Int))

def handleExt : List String → Option String
  | ["gen", "ser", a, b, c, d, "idx", i] =>
    match parseSeries? [a, b, c, d], parseIndex? i with
    | some ax, some idx =>
      let (p, q, r, u) := seriesArgs ax
      some (showGenResult (Nb.Gen.C18F.getitemW p q r u (indexToV idx)))
    | _, _ => some "bad-op"
  | ["gen", "ser", a, b, c, d, "add", a2, b2, c2, d2] =>
    match parseSeries? [a, b, c, d], parseSeries? [a2, b2, c2, d2] with
    | some x, some y =>
      let (p, q, r, u) := seriesArgs x
      let (p2, q2, r2, u2) := seriesArgs y
      some (showGenResult (Nb.Gen.C18F.addW p q r u p2 q2 r2 u2))
    | _, _ => some "bad-op"
  | ["scm", n, m, "xrt"] =>
    match parseNatList? n, parseSep? "|" parseMDict? m with
    | some n, some m => some (out showScalarM (scalarMMk n m >>= scalarMXrt))
    | _, _ => some "bad-op"
  | ["fm", d, "xrt"] =>
    match parseMDict? d with
    | some d => some (showMDict (mdXrt d))
    | none => some "bad-op"
  | ["ser", a, b, c, d, "map"] =>
    match parseSeries? [a, b, c, d] with
    | some ax => some (showSeries (seriesFromMapping (seriesToMapping ax)) ++ s!" exp={(seriesToMapping ax).exponent}")
    | none => some "bad-op"
  | ["sc", n, m, "xrt"] =>
    match parseScalar? [n, m] with
    | some ax => some (out showScalar (ax >>= fun a => scalarFromMapping (scalarToMapping a)))
    | none => some "bad-op"
  | ["lar", n, m, t, "xrt"] =>
    match parseNatList? n, parseNatList? m, parseTables? t with
    | some n, some m, some t => some (out showLabelR (labelRMk n t m >>= labelRXrt))
    | _, _, _ => some "bad-op"
  | ["par", n, v, w, nv, aff, shp, "xrt"] =>
    match parseNatList? n, parseSep? "|" parseVoxList? v, parseSep? "|" parseVDict? w, parseDict? nv,
      parseOptNat? aff, parseShape? shp with
    | some n, some v, some w, some nv, some aff, some shp =>
      some (out showParcelsR (parcelsRMk n v w aff shp nv >>= fun a => parcelsRFromMapping (parcelsRToMapping a)))
    | _, _, _, _, _, _ => some "bad-op"
  | ["hdr", axes] =>
    match parseSep? "|" parseAnyAx? axes with
    | some l =>
      some (joinOr "|" ((toHeader (fun x y => decide (x = y)) l).map (fun m =>
        ",".intercalate (m.1.map toString) ++ "=" ++ showAnyAx m.2)))
    | none => some "bad-op"
  | _ => none

def handleMain : List String → String
  -- ------------------------------------------------------------------ SeriesAxis
  | ["ser", a, b, c, d, "idx", i] =>
    match parseSeries? [a, b, c, d], parseIndex? i with
    | some ax, some idx =>
      out (fun | SeriesItem.elem t => s!"el {t}" | .axis r => showSeries r) (seriesGetitem ax idx)
    | _, _ => "bad-op"
  | ["ser", a, b, c, d, "add", a2, b2, c2, d2] =>
    match parseSeries? [a, b, c, d], parseSeries? [a2, b2, c2, d2] with
    | some x, some y => out showSeries (seriesAdd x y)
    | _, _ => "bad-op"
  -- ------------------------------------------------------------------ ScalarAxis
  | ["sc", n, m, "idx", i] =>
    match parseScalar? [n, m], parseIndex? i with
    | some ax, some (.int k) => out (fun e => "el " ++ showPair e) (ax >>= (scalarGetElement · k))
    | some ax, some idx => out showScalar (ax >>= (scalarGetitem · idx))
    | _, _ => "bad-op"
  | ["sc", n, m, "add", n2, m2] =>
    match parseScalar? [n, m], parseScalar? [n2, m2] with
    | some x, some y => out showScalar (do let x ← x; let y ← y; scalarAdd x y)
    | _, _ => "bad-op"
  -- ------------------------------------------------------------------ LabelAxis
  | ["la", n, l, m, "idx", i] =>
    match parseLabel? [n, l, m], parseIndex? i with
    | some ax, some (.int k) => out (fun e => "el " ++ showTriple e) (ax >>= (labelGetElement · k))
    | some ax, some idx => out showLabel (ax >>= (labelGetitem · idx))
    | _, _ => "bad-op"
  | ["la", n, l, m, "add", n2, l2, m2] =>
    match parseLabel? [n, l, m], parseLabel? [n2, l2, m2] with
    | some x, some y => out showLabel (do let x ← x; let y ← y; labelAdd x y)
    | _, _ => "bad-op"
  -- ------------------------------------------------------------------ ParcelsAxis
  | ["pa", n, v, w, nv, aff, shp, "idx", i] =>
    match parseParcels? [n, v, w, nv, aff, shp], parseIndex? i with
    | some ax, some (.int k) => out (fun e => "el " ++ showTriple e) (ax >>= (parcelsGetElement · k))
    | some ax, some idx => out showParcels (ax >>= (parcelsGetitem · idx))
    | _, _ => "bad-op"
  | ["pa", n, v, w, nv, aff, shp, "name", k] =>
    match parseParcels? [n, v, w, nv, aff, shp], k.toNat? with
    | some ax, some k => out (fun e => "el " ++ showPair e) (ax >>= (parcelsByName · k))
    | _, _ => "bad-op"
  | ["pa", n, v, w, nv, aff, shp, "add", n2, v2, w2, nv2, aff2, shp2] =>
    match parseParcels? [n, v, w, nv, aff, shp], parseParcels? [n2, v2, w2, nv2, aff2, shp2] with
    | some x, some y => out showParcels (do let x ← x; let y ← y; parcelsAdd x y)
    | _, _ => "bad-op"
  -- ------------------------------------------------------------------ BrainModelAxis
  | ["bm", es, nv, aff, shp, "idx", i] =>
    match parseBM? [es, nv, aff, shp], parseIndex? i with
    | some ax, some (.int k) => out (fun e => "el " ++ showBMElem e) (ax >>= (bmGetElement · k))
    | some ax, some idx => out showBM (ax >>= (bmGetitem · idx))
    | _, _ => "bad-op"
  | ["bm", es, nv, aff, shp, "add", es2, nv2, aff2, shp2] =>
    match parseBM? [es, nv, aff, shp], parseBM? [es2, nv2, aff2, shp2] with
    | some x, some y => out showBM (do let x ← x; let y ← y; bmAdd x y)
    | _, _ => "bad-op"
  | ["bm", es, nv, aff, shp, "runs"] =>
    match parseBM? [es, nv, aff, shp] with
    | some ax =>
      out (fun (l : List (Run × Nat)) =>
          joinOr "," (l.map (fun (r, n) => s!"{r.name}:{r.start}:{r.stop}:{n}")))
        (do let a ← ax
            let rs ← runs a.name
            rs.mapM (fun r => do let s ← bmSub a r.start r.stop; pure (r, s.size)))
    | _ => "bad-op"
  | ["bm", es, nv, aff, shp, "rt"] =>
    match parseBM? [es, nv, aff, shp] with
    | some ax =>
      out (fun (p : BMMap × BM) => showBM p.2 ++ " | " ++ showMap p.1)
        (do let a ← ax
            let m ← bmToMapping a
            let r ← bmFromMapping m
            pure (m, r))
    | _ => "bad-op"
  | _ => "bad-op"

def handle (l : List String) : String :=
  match handleExt l with
  | some r => r
  | none => handleMain l

end Nb.Drv.C18

def main : IO Unit := Nb.Drv.runDriver "C18" Nb.Drv.C18.handle
