import NibabelModel.Model.C18
import Driver.Util
/-! Line-protocol driver for C18: `C18 <op> <args...>` -> one observable line. -/
namespace Nb.Drv.C18

def handle : List String → String
  | _ => "bad-op"

end Nb.Drv.C18

def main : IO Unit := Nb.Drv.runDriver "C18" Nb.Drv.C18.handle
