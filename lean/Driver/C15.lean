import NibabelModel.Model.C15
import Driver.Util
/-! Line-protocol driver for C15: `C15 <op> <args...>` -> one observable line. -/
namespace Nb.Drv.C15

def handle : List String → String
  | _ => "bad-op"

end Nb.Drv.C15

def main : IO Unit := Nb.Drv.runDriver "C15" Nb.Drv.C15.handle
