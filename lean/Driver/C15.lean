import NibabelModel.Model.C15
import Driver.Util
/-! Line-protocol driver for C15: `C15 hist <op> <op> ...` -> the observable after every step.
    Op tokens (fields separated by `:`), see harness/props/c15.py `fmt_op`. -/
namespace Nb.Drv.C15
open Nb Nb.C15

def parseRow? (s : String) : Option Row := (s.splitOn ",").mapM (·.toInt?)

/-- `e` = zero-row array; rows separated by `/` -/
def parseElem? (s : String) : Option Elem :=
  if s = "e" then some [] else (s.splitOn "/").mapM parseRow?

/-- `~` = empty list; arrays separated by `+` -/
def parseElems? (s : String) : Option (List Elem) :=
  if s = "~" then some [] else (s.splitOn "+").mapM parseElem?

def parseBits? (s : String) : Option (List Bool) :=
  if s = "-" then some [] else
    s.toList.mapM (fun c => if c = '0' then some false else if c = '1' then some true else none)

/-- index forms: `S!a!b!c` slice (`_` = None), `F!i,j,..` / `F!-` positions, `M!0110` / `M!-` boolean mask -/
def parseIdx? (s : String) : Option TIdx :=
  match s.splitOn "!" with
  | ["S", a, b, c] => do pure (TIdx.slice ⟨← parseOptInt? a, ← parseOptInt? b, ← parseOptInt? c⟩)
  | ["F", l] => do pure (TIdx.fancy (← parseIntList? l))
  | ["M", m] => do pure (TIdx.mask (← parseBits? m))
  | _ => none

def parseOp? (tok : String) : Option Op :=
  match tok.splitOn ":" with
  | ["setv", t, idx, v] => do pure (Op.setIdxSeq (← t.toNat?) (← parseIdx? idx) (← v.toNat?))
  | ["setl", t, idx, els] => do pure (Op.setIdxList (← t.toNat?) (← parseIdx? idx) (← parseElems? els))
  | ["setk", t, idx, k] => do pure (Op.setIdxNum (← t.toNat?) (← parseIdx? idx) (← k.toInt?))
  | ["new", b] => b.toNat?.map Op.new
  | ["app", t, w, dt, el] => do pure (Op.append (← t.toNat?) (← w.toNat?) (← dt.toNat?) (← parseElem? el))
  | ["ext", t, w, dt, els] => do pure (Op.extend (← t.toNat?) (← w.toNat?) (← dt.toNat?) (← parseElems? els))
  | ["extg", t, w, dt, els] => do pure (Op.extendGen (← t.toNat?) (← w.toNat?) (← dt.toNat?) (← parseElems? els))
  | ["exts", t, u, w] => do pure (Op.extendSeq (← t.toNat?) (← u.toNat?) (← w.toNat?))
  | ["view", t, b] => do pure (Op.view (← t.toNat?) (← b.toNat?))
  | ["copy", t] => do pure (Op.copy (← t.toNat?))
  | ["sl", t, a, b, c] => do pure (Op.slice (← t.toNat?) ⟨← parseOptInt? a, ← parseOptInt? b, ← parseOptInt? c⟩)
  | ["idx", t, l] => do pure (Op.fancy (← t.toNat?) (← parseIntList? l))
  | ["mask", t, m] => do pure (Op.mask (← t.toNat?) (← parseBits? m))
  | ["get", t, i] => do pure (Op.getInt (← t.toNat?) (← i.toInt?))
  | ["set", t, i, el] => do pure (Op.setInt (← t.toNat?) (← i.toInt?) (← parseElem? el))
  | ["sets", t, a, b, c, els] => do
      pure (Op.setSlice (← t.toNat?) ⟨← parseOptInt? a, ← parseOptInt? b, ← parseOptInt? c⟩ (← parseElems? els))
  | ["iop", t, code, k] => do pure (Op.iop (← t.toNat?) (← code.toNat?) (← k.toInt?))
  | ["iopf", t, code, k] => do pure (Op.iopF (← t.toNat?) (← code.toNat?) (← k.toInt?))
  | ["op", t, code, k] => do pure (Op.op (← t.toNat?) (← code.toNat?) (← k.toInt?))
  | ["iops", t, v, code] => do pure (Op.iopSeq (← t.toNat?) (← v.toNat?) (← code.toNat?))
  | ["ops", t, v, code] => do pure (Op.opSeq (← t.toNat?) (← v.toNat?) (← code.toNat?))
  | ["un", t, code] => do pure (Op.unary (← t.toNat?) (← code.toNat?))
  | ["cat", ts, w] => do pure (Op.concat (← parseNatList? ts) (← w.toNat?))
  | _ => none

def showElem (e : Elem) : String := showList (e.map showList)

def showSeq (σ : State) (t : Nat) : String :=
  let c := σ.contents t
  showList (c.map showElem) ++ ":" ++
    (if c.isEmpty then "-" else toString (σ.bufAt (σ.seqAt t).buf).dt)

def showAll (σ : State) : String :=
  "|".intercalate ((List.range σ.seqs.length).map (showSeq σ))

def showErr : Err → String
  | .index => "ERR:IndexError"
  | .value => "ERR:ValueError"
  | .stopIter => "ERR:StopIteration"
  | .type => "ERR:TypeError"
  | .bad => "BAD"

def parseKV? (s : String) : Option (Nat × Nat) :=
  match s.splitOn "=" with
  | [k, v] => do pure (← k.toNat?, ← v.toNat?)
  | _ => none

/-- `k=f,k=f` or `-` -/
def parseKVs? (s : String) : Option (List (Nat × Nat)) :=
  if s = "-" then some [] else (s.splitOn ",").mapM parseKV?

def parseFlag? (s : String) : Option Bool :=
  if s = "0" then some false else if s = "1" then some true else none

/-- tractogram operations; every other token is a sequence operation -/
def parseTOp? (tok : String) : Option TOp :=
  match tok.splitOn ":" with
  | ["tnew", s, kvs, fl, w] => do
      let src ← (if s = "_" then some none else s.toNat?.map some)
      pure (TOp.tnew src (← parseKVs? kvs) (← parseFlag? fl) (← w.toNat?))
  | ["tsl", t, a, b, c] => do
      pure (TOp.tget (← t.toNat?) (.slice ⟨← parseOptInt? a, ← parseOptInt? b, ← parseOptInt? c⟩))
  | ["tidx", t, l] => do pure (TOp.tget (← t.toNat?) (.fancy (← parseIntList? l)))
  | ["tmask", t, m] => do pure (TOp.tget (← t.toNat?) (.mask (← parseBits? m)))
  | ["tcopy", t] => do pure (TOp.tcopy (← t.toNat?))
  | ["tadd", t, u, w] => do pure (TOp.tadd (← t.toNat?) (← u.toNat?) (← w.toNat?))
  | ["text", t, u, w] => do pure (TOp.textend (← t.toNat?) (← u.toNat?) (← w.toNat?))
  | ["tset", t, k, s, fl, w] => do
      pure (TOp.tset (← t.toNat?) (← k.toNat?) (← s.toNat?) (← parseFlag? fl) (← w.toNat?))
  | _ => (parseOp? tok).map TOp.seq

def showTract (t : Tract) : String :=
  toString t.sl ++ ";" ++ ",".intercalate (t.dpp.map (fun kv => toString kv.1 ++ "=" ++ toString kv.2)) ++
    ";" ++ toString t.nRows

/-- all live sequences, then (when there are tractograms) which sequences each tractogram holds -/
def showT (τ : TState) : String :=
  showAll τ.st ++ (if τ.tracts.isEmpty then "" else " @ " ++ "/".intercalate (τ.tracts.map showTract))

/-- run the history, one output chunk per step; `none` = ill-formed operation -/
def runShow (τ : TState) : List TOp → Option (List String)
  | [] => some []
  | op :: ops =>
    match tstep τ op with
    | (_, some .bad) => none
    | (τ', some e) => (runShow τ' ops).map (fun r => (showErr e ++ "|" ++ showT τ') :: r)
    | (τ', none) =>
      let status := match op with
        | .seq (.getInt t i) => match getInt τ.st t i with
          | some e => "get=" ++ showElem e
          | none => "BAD"
        | _ => "ok"
      (runShow τ' ops).map (fun r => (status ++ "|" ++ showT τ') :: r)

def handle : List String → String
  | "hist" :: toks =>
      match toks.mapM parseTOp? with
      | some ops => match runShow TState.init ops with
        | some outs => " ; ".intercalate outs
        | none => "bad-op"
      | none => "bad-op"
  | _ => "bad-op"

end Nb.Drv.C15

def main : IO Unit := Nb.Drv.runDriver "C15" Nb.Drv.C15.handle
