import NibabelModel.Model.C01
import Driver.Util
/-! Line-protocol driver for C01: `C01 <op> <args...>` -> one observable line. -/
namespace Nb.Drv.C01

def handle : List String → String
  | _ => "bad-op"

end Nb.Drv.C01

def main : IO Unit := Nb.Drv.runDriver "C01" Nb.Drv.C01.handle
