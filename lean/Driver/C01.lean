import NibabelModel.Model.C01
import NibabelModel.Generated.C01FileTypes
import Driver.Util
/-! Line-protocol driver for C01: `C01 <op> <args...>` -> one observable line.

  rt <class> <endian < | >> <out dtype> <offset | _> <shape> <in: raw | u<w> | i<w>> <vals>
       raw : vals = elements in logical C order, `,`-separated, components `:`-separated (bit
             patterns already in on-disk representation); `-` = no elements
       u/i : vals = signed decimal integers (the model takes the scaling decision and casts)
     -> ok flen=<len of data file> pad0=<1|0> data=<hex of the data region> tail=<bytes after it>
           shape=[..] vals=<loaded elements, logical C order, same syntax>
        | scaling | ERR:<kind>
  sn <base|slope> <in> <out> <size> <range: i:<mn>:<mx> | fz | fn | fo>  -> false | true | ERR:WriterError
  codec <name as ,-separated code points>                           -> raw | gz | bz2 | zst
  rd <class> <endian> <out dtype> <shape> <data file length>   -> ok <shape> | ERR:OSError
  opener <name as ,-separated code points>     -> <codec opened for 'wb'> <codec opened for 'rb'>
  mghshape <shape>            -> <image shape> <header shape | ERR:ValueError> <ok | ERR:HeaderDataError>
-/
namespace Nb.Drv.C01
open Nb Nb.C01

def hexDigit (n : Nat) : Char := "0123456789abcdef".toList.getD n '?'
def hexOf (bs : List Nat) : String :=
  String.ofList (bs.flatMap (fun b => [hexDigit (b / 16 % 16), hexDigit (b % 16)]))

def parseElem? (s : String) : Option Elem := (s.splitOn ":").mapM (·.toNat?)

def parseElems? (s : String) : Option (List Elem) :=
  if s = "-" then some [] else (s.splitOn ",").mapM parseElem?

def showElem (x : Elem) : String := ":".intercalate (x.map toString)
def showElems (l : List Elem) : String := if l.isEmpty then "-" else ",".intercalate (l.map showElem)

def parseEndian? (s : String) : Option Endian :=
  if s = "<" then some .little else if s = ">" then some .big else none

def errName : Err → String
  | .writer => "ERR:WriterError" | .short => "ERR:OSError"
  | .headerData => "ERR:HeaderDataError" | .value => "ERR:ValueError"

def lookupClass (name : String) : Option (String × Nat × Nat × Nat × Bool × Bool) :=
  (Gen.classes.find? (fun c => c.1 = name)).map (·.2)

def codecTable : List (String × Codec) := codecTableOf Gen.compressExtMap

def parseIntDType? (s : String) : Option (Bool × Nat) :=
  match dtypeOfName s with
  | some ⟨.uint, w, 1⟩ => some (false, w)
  | some ⟨.sint, w, 1⟩ => some (true, w)
  | _ => none

/-- the logical array given by its C-order element list (held in an `Array`: O(1) lookups, so that
    arrays of > 10^5 elements stay linear; `xs.toArray.getD j [] = xs.getD j []`, `List.getD_toArray`-style) -/
def arrOfC (shape : List Nat) (xs : Array Elem) : List Nat → Elem :=
  fun i => xs.getD (ravelC shape i) []

def report (file : List Nat) (hlen offset : Nat) (e : Endian) (t : DType) (shape : List Nat) : String :=
  let n := shape.prod * t.itemsize
  match readData file offset e t.cw t.k shape with
  | .error er => errName er
  | .ok (sh, els) =>
      let pad := (file.drop hlen).take (offset - hlen)
      "ok flen=" ++ toString file.length ++ " pad0=" ++ (if pad.all (· == 0) then "1" else "0") ++
      " data=" ++ hexOf ((file.drop offset).take n) ++ " tail=" ++ toString (file.length - offset - n) ++
      -- `loadedAtA sh els.toArray i = loadedAt sh els i` (Lemmas/C01 `loadedAtA_eq`)
      let ea := els.toArray
      " shape=" ++ showList sh ++ " vals=" ++ showElems ((enumC sh).map (loadedAtA sh ea))

def runRt (cls : String) (e : Endian) (t : DType) (offset : Option Nat) (shape : List Nat)
    (xs : List Elem) : String :=
  match lookupClass cls with
  | none => "bad-op"
  | some (layout, hlen, defOff, ftrLen, _, _) =>
    let xa := xs.toArray
    if xs.length ≠ shape.prod then "bad-op"
    else if layout = "mgh" then
      if e ≠ .big ∨ offset.isSome then "bad-op"
      else
        let ishape := mghImageShape shape
        match mghWrite (List.replicate hlen 1) (List.replicate ftrLen 2) t.cw ishape (arrOfC ishape xa) with
        | .error er => errName er
        | .ok file => report file hlen mghDataOffset .big t ishape
    else
      -- offset 0 in a single-file header means "use the default" (nifti1.py get_data_offset users)
      let off := match offset with
        | none => defOff
        | some o => if layout = "single" ∧ o = 0 then defOff else o
      if hlen > off then "ERR:HeaderDataError"
      else
        let file := writeFile (List.replicate hlen 1) off e t.cw shape (arrOfC shape xa)
        report file hlen off e t shape

def handle : List String → String
  | ["rt", cls, e, out, off, shape, inT, vals] =>
      match parseEndian? e, dtypeOfName out, parseOptInt? off, parseNatList? shape with
      | some e, some t, some off, some shape =>
          match off with
          | some (.negSucc _) => "bad-op"
          | _ =>
          let off := off.map Int.toNat
          if inT = "raw" then
            match parseElems? vals with
            | some xs => if xs.all (fun x => x.length == t.k) then runRt cls e t off shape xs else "bad-op"
            | none => "bad-op"
          else
            match parseIntDType? inT, parseIntList? vals, lookupClass cls with
            | some (aS, aw), some vs, some (layout, _, _, _, hasSlope, _) =>
                if !t.isInt then "bad-op" else
                let a : DType := ⟨if aS then .sint else .uint, aw, 1⟩
                -- MGH calls array_to_file directly (no scaling_needed); same in-range domain
                let need := if layout = "mgh" then scalingNeededBase a t vs.length (intRange vs)
                            else if hasSlope then scalingNeededSlope a t vs.length (intRange vs)
                            else scalingNeededBase a t vs.length (intRange vs)
                match need with
                | .error er => errName er
                | .ok true => "scaling"
                | .ok false => runRt cls e t off shape (vs.map (fun v => [toBits t.cw v]))
            | _, _, _ => "bad-op"
      | _, _, _, _ => "bad-op"
  | ["sn", wr, a, o, size, rng] =>
      let r : Option Range :=
        if rng = "fz" then some .floatZero else if rng = "fn" then some .floatNone
        else if rng = "fo" then some .floatOther
        else match rng.splitOn ":" with
          | ["i", mn, mx] => match mn.toInt?, mx.toInt? with
            | some mn, some mx => some (.ints mn mx)
            | _, _ => none
          | _ => none
      match dtypeOfName a, dtypeOfName o, size.toNat?, r with
      | some a, some o, some size, some r =>
          let res := if wr = "base" then some (scalingNeededBase a o size r)
                     else if wr = "slope" then some (scalingNeededSlope a o size r) else none
          match res with
          | some (.ok b) => toString b
          | some (.error er) => errName er
          | none => "bad-op"
      | _, _, _, _ => "bad-op"
  | ["codec", name] =>
      match parseNatList? name with
      | some cps => (codecFor codecTable Gen.compressExtIcase (cps.map Char.ofNat)).name
      | none => "bad-op"
  | ["opener", name] =>
      match parseNatList? name with
      | some cps =>
          let nm := cps.map Char.ofNat
          (openerInit codecTable Gen.compressExtIcase .wb nm).1.name ++ " " ++
            (openerInit codecTable Gen.compressExtIcase .rb nm).1.name
      | none => "bad-op"
  | ["rd", cls, e, out, shape, flen] =>
      match lookupClass cls, parseEndian? e, dtypeOfName out, parseNatList? shape, flen.toNat? with
      | some (_, _, defOff, _, _, _), some e, some t, some shape, some flen =>
          match readData (List.replicate flen 0) defOff e t.cw t.k shape with
          | .ok (sh, _) => "ok " ++ showList sh
          | .error er => errName er
      | _, _, _, _, _ => "bad-op"
  | ["mghshape", shape] =>
      match parseNatList? shape with
      | some shape =>
          let ishape := mghImageShape shape
          match mghHeaderShape ishape with
          | .error er => showList ishape ++ " " ++ errName er ++ " -"
          | .ok hs => showList ishape ++ " " ++ showList hs ++ " " ++
              (match mghWrite [] [] 1 ishape (fun _ => [0]) with
               | .ok _ => "ok" | .error er => errName er)
      | none => "bad-op"
  | _ => "bad-op"

end Nb.Drv.C01

def main : IO Unit := Nb.Drv.runDriver "C01" Nb.Drv.C01.handle
