import NibabelModel.Model.C01
import NibabelModel.Generated.C01FileTypes
import Driver.Util
/-! Line-protocol driver for C01: `C01 <op> <args...>` -> one observable line.

  rt <class> <endian < | >> <out dtype> <offset | _> <shape> <in: raw | u<w> | i<w>> <vals>
       raw : vals = elements in logical C order, `,`-separated, components `:`-separated (bit
             patterns already in on-disk representation); `-` = no elements
       u/i : vals = signed decimal integers (the model takes the scaling decision and casts)
     -> ok flen=<len of data file> pad0=<1|0> data=<hex of the data region> tail=<bytes after it>
           shape=[..] vals=<loaded elements, logical C order, same syntax>
        | scaling | ERR:<kind>
  rtd <class> <endian> <header dtype before the save> <dtype= override> <byte order of the override OBJECT < | >> <offset | _>
      <shape> <in> <vals>     save with `to_file_map(dtype=override)`; -> as rt, plus ` after=<header dtype after><endian>`
  rs <class> <endian> <out dtype> <mapped 0|1> <owner chain, as mf> <offset | _> <shape> <in> <vals>
       save, load, wrap the loaded data (a window onto the file iff <mapped>) in the views that give <owner chain>, save
       over the own file: the data are materialised first iff `maps_file` (model `mapsFile`) says so -> as rt, final file
  rth <class> <native < | >> <donor class> <donor endian> <donor dtype> <donor shape> <set_data_dtype after construction | _>
      <offset | _> <shape> <in> <vals>
       the image is built as `klass(data, affine, donor_image.header)` (header REUSED from an image of class
       <donor class> and shape <donor shape>): from_header, update_header, optional set_data_dtype, save, load
       -> as rt, plus ` hdr=<dim[1..ndim] | MGH dims> glmin=<n>` of the written header
  sn <base|slope> <in> <out> <size> <range: i:<mn>:<mx> | fz | fn | fo>  -> false | true | ERR:WriterError
  codec <name as ,-separated code points>                           -> raw | gz | bz2 | zst
  rd <class> <endian> <out dtype> <shape> <data file length>   -> ok <shape> | ERR:OSError
  opener <name as ,-separated code points>     -> <codec opened for 'wb'> <codec opened for 'rb'>
  hshape <class> <shape>      -> dims=[dim[1..ndim]] glmin=<n> shape=[get_data_shape()] | ERR:HeaderDataError
  mf <chain: one letter per owner (arr, then .obj of a memoryview / .base of anything else, ...):
      M np.memmap | N other ndarray | B mmap.mmap | V memoryview | O other; - = none>
                              -> true | false      (`maps_file`)
  mghshape <shape>            -> <image shape> <header shape | ERR:ValueError> <ok | ERR:HeaderDataError>
-/
namespace Nb.Drv.C01
open Nb Nb.C01

def hexDigit (n : Nat) : Char := "0123456789abcdef".toList.getD n '?'
def hexOf (bs : List Nat) : String :=
  String.ofList (bs.flatMap (fun b => [hexDigit (b / 16 % 16), hexDigit (b % 16)]))

def parseElem? (s : String) : Option Elem := (s.splitOn ":").mapM (·.toNat?)

def parseElems? (s : String) : Option (List Elem) :=
  if s = "-" then some [] else (s.splitOn ",").mapM parseElem?

def showElem (x : Elem) : String := ":".intercalate (x.map toString)
def showElems (l : List Elem) : String := if l.isEmpty then "-" else ",".intercalate (l.map showElem)

def parseEndian? (s : String) : Option Endian :=
  if s = "<" then some .little else if s = ">" then some .big else none

def errName : Err → String
  | .writer => "ERR:WriterError" | .short => "ERR:OSError"
  | .headerData => "ERR:HeaderDataError" | .value => "ERR:ValueError"

def lookupClass (name : String) : Option (String × Nat × Nat × Nat × Bool × Bool) :=
  (Gen.classes.find? (fun c => c.1 = name)).map (·.2)

def ruleOfName (s : String) : Option ShapeRule :=
  if s = "analyze" then some .analyze else if s = "nifti1" then some .nifti1
  else if s = "nifti2" then some .nifti2 else none

/-- (rule, max of `dim`, max of `glmin`) of a class, from the regenerated table -/
def lookupShapeRule (name : String) : Option (ShapeRule × Nat × Nat) :=
  match Gen.shapeRules.find? (fun c => c.1 = name) with
  | some (_, r, dm, gm) => (ruleOfName r).map (fun r => (r, dm, gm))
  | none => none

/-- shape the loaded image has: `get_data_shape` of what `set_data_shape` stored -/
def headerShape (cls : String) (shape : List Nat) : Option (Except Err (List Nat)) :=
  match lookupShapeRule cls with
  | none => none
  | some (r, dm, gm) =>
      some (match setShape r dm gm shape with
        | .error er => .error er
        | .ok f => match getShape r f with
          | .error er => .error er
          | .ok hs => .ok (hs.map Int.toNat))

def codecTable : List (String × Codec) := codecTableOf Gen.compressExtMap

def parseIntDType? (s : String) : Option (Bool × Nat) :=
  match dtypeOfName s with
  | some ⟨.uint, w, 1⟩ => some (false, w)
  | some ⟨.sint, w, 1⟩ => some (true, w)
  | _ => none

/-- the logical array given by its C-order element list (held in an `Array`: O(1) lookups, so that
    arrays of > 10^5 elements stay linear; `xs.toArray.getD j [] = xs.getD j []`, `List.getD_toArray`-style) -/
def arrOfC (shape : List Nat) (xs : Array Elem) : List Nat → Elem :=
  fun i => xs.getD (ravelC shape i) []

def dtypeNames : List String :=
  ["u1", "u2", "u4", "u8", "i1", "i2", "i4", "i8", "f2", "f4", "f8", "f16", "c8", "c16", "c32", "rgb", "rgba"]

def nameOfDType (t : DType) : String :=
  (dtypeNames.find? (fun n => dtypeOfName n == some t)).getD "?"

def endianChar : Endian → String
  | .little => "<" | .big => ">"

def parseSpell? (s : String) : Option OrderSpell :=
  if s = "=" then some .native else if s = "<" then some .little else if s = ">" then some .big else none

/-- `e`, `t`: byte order and dtype the READER takes from the written header -/
def report (file : List Nat) (hlen offset : Nat) (e : Endian) (t : DType) (shape : List Nat) : String :=
  let n := shape.prod * t.itemsize
  match readData file offset e t.cw t.k shape with
  | .error er => errName er
  | .ok (sh, els) =>
      let pad := (file.drop hlen).take (offset - hlen)
      "ok flen=" ++ toString file.length ++ " pad0=" ++ (if pad.all (· == 0) then "1" else "0") ++
      " data=" ++ hexOf ((file.drop offset).take n) ++ " tail=" ++ toString (file.length - offset - n) ++
      -- `loadedAtA sh els.toArray i = loadedAt sh els i` (Lemmas/C01 `loadedAtA_eq`)
      let ea := els.toArray
      " shape=" ++ showList sh ++ " vals=" ++ showElems ((enumC sh).map (loadedAtA sh ea))

/-- `e`, `t`: what the writer is given; `re`, `rt`: what the reader finds in the written header;
    `again`: the loaded image is saved over its own file before the report -/
def runRt (cls : String) (e : Endian) (t : DType) (offset : Option Nat) (shape : List Nat)
    (xs : List Elem) (re : Endian := e) (rt : DType := t) (again : Bool := false)
    (hsOverride : Option (Except Err (List Nat)) := none) (mghDims0 : Option (List Nat) := none)
    (copyFirst : Bool := true) : String :=
  match lookupClass cls with
  | none => "bad-op"
  | some (layout, hlen, defOff, ftrLen, _, _) =>
    let xa := xs.toArray
    if xs.length ≠ shape.prod then "bad-op"
    else if layout = "mgh" then
      if e ≠ .big ∨ offset.isSome then "bad-op"
      else
        let ishape := mghImageShape shape
        if let some d0 := mghDims0 then
          -- header arrives holding `d0` (reused MGH header / fresh): update_header, write, read by the written dims
          match mghWriteOn d0 (List.replicate hlen 1) (List.replicate ftrLen 2) t.cw ishape (arrOfC ishape xa) with
          | .error er => errName er
          | .ok (dims, file) => report file hlen mghDataOffset .big rt (mghGetShape dims)
        else
        let w := if again then mghResave (List.replicate hlen 1) (List.replicate ftrLen 2) t.cw t.k ishape
                                 (arrOfC ishape xa) copyFirst
                 else mghWrite (List.replicate hlen 1) (List.replicate ftrLen 2) t.cw ishape (arrOfC ishape xa)
        match w with
        | .error er => errName er
        | .ok file => report file hlen mghDataOffset .big rt ishape
    else
      -- offset 0 in a single-file header means "use the default" (nifti1.py get_data_offset users)
      let off := match offset with
        | none => defOff
        | some o => if layout = "single" ∧ o = 0 then defOff else o
      match (match hsOverride with | some r => some r | none => headerShape cls shape) with
      | none => "bad-op"
      | some (.error er) => errName er
      | some (.ok hshape) =>
      if hlen > off then "ERR:HeaderDataError"
      else
        if again then
          if hshape ≠ shape then "bad-op" else
          match resave (List.replicate hlen 1) off e t.cw t.k shape (arrOfC shape xa) copyFirst with
          | .error er => errName er
          | .ok file => report file hlen off re rt shape
        else
          let file := writeFile (List.replicate hlen 1) off e t.cw shape (arrOfC shape xa)
          report file hlen off re rt hshape

/-- the save of `vals` (already-cast elements `raw`, or integers the model casts after taking the scaling
    decision) with the writer given `(t, e)` and the reader `(rt, re)` -/
def rtCore (cls : String) (e : Endian) (t : DType) (off : Option Int) (shape : List Nat) (inT vals : String)
    (re : Endian) (rt : DType) (again : Bool)
    (hsOverride : Option (Except Err (List Nat)) := none) (mghDims0 : Option (List Nat) := none)
    (copyFirst : Bool := true) : String :=
  match off with
  | some (.negSucc _) => "bad-op"
  | _ =>
  let off := off.map Int.toNat
  if inT = "raw" then
    match parseElems? vals with
    | some xs => if xs.all (fun x => x.length == t.k) then runRt cls e t off shape xs re rt again hsOverride mghDims0 copyFirst
                 else "bad-op"
    | none => "bad-op"
  else
    match parseIntDType? inT, parseIntList? vals, lookupClass cls with
    | some (aS, aw), some vs, some (layout, _, _, _, hasSlope, _) =>
        if !t.isInt then "bad-op" else
        let a : DType := ⟨if aS then .sint else .uint, aw, 1⟩
        -- MGH calls array_to_file directly (no scaling_needed); same in-range domain
        let need := if layout = "mgh" then scalingNeededBase a t vs.length (intRange vs)
                    else if hasSlope then scalingNeededSlope a t vs.length (intRange vs)
                    else scalingNeededBase a t vs.length (intRange vs)
        match need with
        | .error er => errName er
        | .ok true => "scaling"
        | .ok false => runRt cls e t off shape (vs.map (fun v => [toBits t.cw v])) re rt again hsOverride mghDims0 copyFirst
    | _, _, _ => "bad-op"

/-- `_data_type_codes` of a class (regenerated) -/
def codeTableOf (cls : String) : CodeTable :=
  match Gen.dtypeCodes.find? (fun c => c.1 = cls) with
  | some (_, l) => codeTableOfNames l
  | none => []

/-- header class of an image class (regenerated) -/
def headerClassOf (cls : String) : Option String := (Gen.headerClasses.find? (fun c => c.1 = cls)).map (·.2)

def intsToNats (l : List Int) : List Nat := l.map Int.toNat

/-- `klass(data, affine, donor.header)`; `donor = dklass(zeros(dshape), affine, dklass.header_class(endianness=de))`
    with dtype `dt`; then optional `img.set_data_dtype(setdt)`; save; load -/
def runDonor (cls : String) (native : Endian) (dcls : String) (de : Endian) (dt : DType) (dshape : List Nat)
    (setdt : Option DType) (off : Option Int) (shape : List Nat) (inT vals : String) : String :=
  match lookupClass cls, lookupClass dcls, headerClassOf cls, headerClassOf dcls with
  | some (layout, _, _, _, _, _), some (dlayout, _, _, _, _, _), some hc, some dhc =>
    let same := hc == dhc
    -- the donor's header after ITS constructor: (shape fields | MGH dims), has a glmin field, reported shape
    let donor : Option (Except Err (ShapeFields × List Nat × Bool × List Nat)) :=
      if dlayout = "mgh" then
        some (match mghUpdate mghFreshDims (mghImageShape dshape) with
          | .error er => .error er
          | .ok dims => .ok (⟨[], 0⟩, dims, false, mghGetShape dims))
      else match lookupShapeRule dcls with
        | none => none
        | some (rD, dmD, gmD) =>
          some (match updateHeaderShape rD dmD gmD ⟨[], 0⟩ dshape with
            | .error er => .error er
            | .ok f => match hdrGetShape rD f with
              | .error er => .error er
              | .ok hs => .ok (f, mghFreshDims, gmD != 0, intsToNats hs))
    match donor with
    | none => "bad-op"
    | some (.error er) => errName er
    | some (.ok (df, ddims, dHasGlmin, donorShape)) =>
      if layout = "mgh" then
        -- MGHHeader.from_header: copy of an MGH header, else a fresh one (whose dtype the model does not know)
        let d0 := if same then ddims else mghFreshDims
        match (if same then some (setdt.getD dt) else setdt) with
        | none => "bad-op"
        | some t =>
          let r := rtCore cls .big t off shape inT vals .big t false none (some d0)
          if r.startsWith "ok " then
            match mghWriteOn d0 [] [] t.cw (mghImageShape shape) (fun _ => []) with
            | .ok (dims, _) => r ++ " hdr=" ++ showList dims ++ " glmin=0"
            | .error er => errName er
          else r
      else match lookupShapeRule cls with
        | none => "bad-op"
        | some (r, dm, gm) =>
          match fromHeader same native r dm gm (fun t => (codeOf (codeTableOf cls) t).isSome) dHasGlmin
                  ⟨de, dt, df⟩ donorShape with
          | .error er => errName er
          | .ok h' =>
            match updateHeaderShape r dm gm h'.fields shape with
            | .error er => errName er
            | .ok f =>
              let t := setdt.getD h'.dtype
              let hs := match hdrGetShape r f with
                | .error er => Except.error er
                | .ok hs => .ok (intsToNats hs)
              let res := rtCore cls h'.endian t off shape inT vals h'.endian t false (some hs) none
              if res.startsWith "ok " then res ++ " hdr=" ++ showList f.dims ++ " glmin=" ++ toString f.glmin
              else res
  | _, _, _, _ => "bad-op"

def parseChain? (chain : String) : Option (List BaseNode) :=
  if chain = "-" then some []
  else chain.toList.mapM (fun c =>
    if c = 'M' then some BaseNode.memmap else if c = 'N' then some .ndarray
    else if c = 'B' then some .mmapBuf else if c = 'V' then some .memview
    else if c = 'O' then some .other else none)

def handle : List String → String
  | ["rt", cls, e, out, off, shape, inT, vals] =>
      match parseEndian? e, dtypeOfName out, parseOptInt? off, parseNatList? shape with
      | some e, some t, some off, some shape => rtCore cls e t off shape inT vals e t false
      | _, _, _, _ => "bad-op"
  | ["rth", cls, native, dcls, de, ddt, dshape, setdt, off, shape, inT, vals] =>
      match parseEndian? native, parseEndian? de, dtypeOfName ddt, parseNatList? dshape, parseOptInt? off,
            parseNatList? shape with
      | some native, some de, some dt, some dshape, some off, some shape =>
          if setdt = "_" then runDonor cls native dcls de dt dshape none off shape inT vals
          else match dtypeOfName setdt with
            | some t => runDonor cls native dcls de dt dshape (some t) off shape inT vals
            | none => "bad-op"
      | _, _, _, _, _, _ => "bad-op"
  | ["rs", cls, e, out, mapped, chain, off, shape, inT, vals] =>
      match parseEndian? e, dtypeOfName out, parseOptInt? off, parseNatList? shape, parseChain? chain with
      | some e, some t, some off, some shape, some ch =>
          if mapped ≠ "0" ∧ mapped ≠ "1" then "bad-op"
          else
            -- `resaveVia mapsFile`: copy before the target is truncated iff not mapped or the guard fires
            rtCore cls e t off shape inT vals e t true none none (!(mapped == "1") || mapsFile ch)
      | _, _, _, _, _ => "bad-op"
  | ["rtd", cls, e, hdr0, ovr, order, off, shape, inT, vals] =>
      -- <order>: byte order of the dtype OBJECT handed to `dtype=` (native already resolved by the harness)
      match parseEndian? e, dtypeOfName hdr0, dtypeOfName ovr, parseEndian? order, parseOptInt? off,
            parseNatList? shape, lookupClass cls with
      | some e, some t0, some t, some dord, some off, some shape, some (layout, _, _, _, _, _) =>
          if layout = "mgh" then "bad-op"       -- MGHImage.to_file_map takes no `dtype=`
          else
            let tb := codeTableOf cls
            match codeOf tb t0 with
            | none => "bad-op"
            | some c0 =>
              match saveDT tb .header ⟨e, c0⟩ (some ⟨t, dord⟩) with
              | .error er => errName er
              | .ok (wdt, wh, hafter) =>
                -- the READER sees the written header only: its byte order and the dtype of its code
                match dtypeOfCode tb wh.code, dtypeOfCode tb hafter.code with
                | some rt, some ta =>
                  let r := rtCore cls wdt.order wdt.t off shape inT vals wh.endian rt false
                  if r.startsWith "ok " then
                    r ++ " after=" ++ nameOfDType ta ++ endianChar hafter.endian
                  else r
                | _, _ => "bad-op"
      | _, _, _, _, _, _, _ => "bad-op"
  | ["sn", wr, a, o, size, rng] =>
      let r : Option Range :=
        if rng = "fz" then some .floatZero else if rng = "fn" then some .floatNone
        else if rng = "fo" then some .floatOther
        else match rng.splitOn ":" with
          | ["i", mn, mx] => match mn.toInt?, mx.toInt? with
            | some mn, some mx => some (.ints mn mx)
            | _, _ => none
          | _ => none
      match dtypeOfName a, dtypeOfName o, size.toNat?, r with
      | some a, some o, some size, some r =>
          let res := if wr = "base" then some (scalingNeededBase a o size r)
                     else if wr = "slope" then some (scalingNeededSlope a o size r) else none
          match res with
          | some (.ok b) => toString b
          | some (.error er) => errName er
          | none => "bad-op"
      | _, _, _, _ => "bad-op"
  | ["codec", name] =>
      match parseNatList? name with
      | some cps => (codecFor codecTable Gen.compressExtIcase (cps.map Char.ofNat)).name
      | none => "bad-op"
  | ["opener", name] =>
      match parseNatList? name with
      | some cps =>
          let nm := cps.map Char.ofNat
          (openerInit codecTable Gen.compressExtIcase .wb nm).1.name ++ " " ++
            (openerInit codecTable Gen.compressExtIcase .rb nm).1.name
      | none => "bad-op"
  | ["rd", cls, e, out, shape, flen] =>
      match lookupClass cls, parseEndian? e, dtypeOfName out, parseNatList? shape, flen.toNat? with
      | some (_, _, defOff, _, _, _), some e, some t, some shape, some flen =>
          match readData (List.replicate flen 0) defOff e t.cw t.k shape with
          | .ok (sh, _) => "ok " ++ showList sh
          | .error er => errName er
      | _, _, _, _, _ => "bad-op"
  | ["hshape", cls, shape] =>
      match parseNatList? shape, lookupShapeRule cls with
      | some shape, some (r, dm, gm) =>
          match setShape r dm gm shape with
          | .error er => errName er
          | .ok f =>
              "dims=" ++ showList f.dims ++ " glmin=" ++ toString f.glmin ++ " shape=" ++
                (match getShape r f with
                 | .ok hs => showList hs
                 | .error er => errName er)
      | _, _ => "bad-op"
  | ["mf", chain] =>
      match parseChain? chain with
      | some ns => toString (mapsFile ns)
      | none => "bad-op"
  | ["mghshape", shape] =>
      match parseNatList? shape with
      | some shape =>
          let ishape := mghImageShape shape
          match mghHeaderShape ishape with
          | .error er => showList ishape ++ " " ++ errName er ++ " -"
          | .ok hs => showList ishape ++ " " ++ showList hs ++ " " ++
              (match mghWrite [] [] 1 ishape (fun _ => [0]) with
               | .ok _ => "ok" | .error er => errName er)
      | none => "bad-op"
  | _ => "bad-op"

end Nb.Drv.C01

def main : IO Unit := Nb.Drv.runDriver "C01" Nb.Drv.C01.handle
