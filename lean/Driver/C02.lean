import NibabelModel.Model.C02
import Driver.Util
/-! Line-protocol driver for C02: `C02 <op> <args...>` -> one observable line. -/
namespace Nb.Drv.C02

def handle : List String → String
  | _ => "bad-op"

end Nb.Drv.C02

def main : IO Unit := Nb.Drv.runDriver "C02" Nb.Drv.C02.handle
