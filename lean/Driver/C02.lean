import NibabelModel.Model.C02
import NibabelModel.Model.C02_Route
import Driver.Util
/-! Line-protocol driver for C02: `C02 <op> <args...>` -> one observable line.

  save <cls> <in> <out> <vals>                    cls ∈ nifti|spm|analyze|mgh ; in = f11|f24|f53|i<min>:<max> ;
                                                  out = <omin>:<omax> ; vals = comma list of p/q | p | nan | inf | -inf
        -> `ok <s> <b> [raw,...]` | `ERR:<kind>`
  a2f <in> <out> <s> <b> <mn|_> <mx|_> <n2z> <vals>   array_to_file with free stored (s, b)
        -> `ok [raw,...]` | `ERR:<kind>`
  var <cls> <in> <out> <vals>                     writer decisions only -> `ok <s=1?> <b=0?> <sign s>` | `ERR:<kind>`
  tfm <cls> <in> <hd> <sl> <it> <args> <vals>    img.to_file_map(dtype=arg) history on one image (Analyze family):
                                                  hd = header dtype f11|f24|f53|<omin>:<omax> ; sl, it = preset header
                                                  slope / inter (`_` = NaN) ; args = `;`-list of `_` | dtype
        -> `<result of the LAST save> H <dtype> <slope> <inter>` (header afterwards) | `unmodelled`
  tfmd ...                                        same, decision-level result (as `var`)
  fr <in> <vals>                                  finite_range -> `<mn> <mx> <has_nan>` | `none <has_nan>`
  shr <p> <out>                                   shared_range -> `<mn> <mx>`
  fe <p> <v>                                      floor_exact / ceil_exact -> `<floor> <ceil>`
  rd <K> <slopeF> <interF> <gl>                   header reader get_slope_inter of class K ∈ nifti|spm99|spm2|analyze on raw
                                                  field values (p/q | nan | inf | -inf), gl = glmax:glmin:calmax:calmin | _
        -> `<slope|N> <inter|N>` | `ERR:<kind>`
  rt|rtd <K> <dk> <route> <slopeF> <interF> <gl> <post> <pre> <src> <in> <hd> <arg> <data>
        construction route (same|fromimage|hdrraw) from a donor of class dk with raw fields, optional direct assignment
        `post` to slot 2 of the final image header, pre-save history `pre` (`;`-list of fd.<f16|f32|f64>.<1|0> | ed.<op> |
        unc | eo.<op>, op ∈ zero|clip0|neg), src = arr (data = values of dtype `in`) | disk (data = raw integers of type
        `in` in a dk file with those fields, loaded), then ONE to_file_map(dtype=arg) on header dtype hd
        -> `ok <s> <b> [raw] D <f1> <f2> H <dtype> <f1> <f2>` (s, b as the READER of K gets them from the disk fields D;
           H = image header afterwards) | `ERR:<kind> H …` | `ERR:HeaderDataError@load` | `unmodelled`
-/
namespace Nb.Drv.C02
open Nb Nb.C02

def parseRat? (s : String) : Option Rat :=
  match s.splitOn "/" with
  | [a] => a.toInt?.map fun n => (n : Rat)
  | [a, b] => match a.toInt?, b.toNat? with
              | some n, some d => if d = 0 then none else some (mkRat n d)
              | _, _ => none
  | _ => none

def parseOptRat? (s : String) : Option (Option Rat) :=
  if s = "_" then some none else (parseRat? s).map some

def parseVal? (s : String) : Option Val :=
  if s = "nan" then some .nan
  else if s = "inf" then some .pinf
  else if s = "-inf" then some .ninf
  else (parseRat? s).map Val.fin

def parseVals? (s : String) : Option (List Val) :=
  if s = "-" then some [] else (s.splitOn ",").mapM parseVal?

def parseRange? (s : String) : Option (Int × Int) :=
  match s.splitOn ":" with
  | [a, b] => match a.toInt?, b.toInt? with
              | some x, some y => some (x, y)
              | _, _ => none
  | _ => none

def parseIn? (s : String) : Option InT :=
  if s = "f11" then some (.flt 11)
  else if s = "f24" then some (.flt 24)
  else if s = "f53" then some (.flt 53)
  else if s.startsWith "i" then (parseRange? (s.drop 1).toString).map fun (a, b) => .int a b
  else none

def parseOut? (s : String) : Option OutT := (parseRange? s).map fun (a, b) => ⟨a, b⟩

def parseCls? (s : String) : Option Cls :=
  if s = "nifti" then some .nifti else if s = "spm" then some .spm
  else if s = "analyze" then some .analyze else if s = "mgh" then some .mgh else none

def showRat (r : Rat) : String :=
  if r.den = 1 then toString r.num else toString r.num ++ "/" ++ toString r.den

def parseDT? (s : String) : Option DT :=
  if s = "f11" then some (.flt 11)
  else if s = "f24" then some (.flt 24)
  else if s = "f53" then some (.flt 53)
  else (parseOut? s).map DT.int

def parseArg? (s : String) : Option (Option DT) :=
  if s = "_" then some none else (parseDT? s).map some

def showDT : DT → String
  | .flt p => "f" ++ toString p
  | .int o => toString o.omin ++ ":" ++ toString o.omax

def showErr : Err → String
  | .writer => "ERR:WriterError"
  | .headerData => "ERR:HeaderDataError"
  | .headerType => "ERR:HeaderTypeError"
  | .value => "ERR:ValueError"
  | .castNaN => "ERR:CastNaN"

def parseFld? (s : String) : Option Fld :=
  if s = "nan" then some .nan
  else if s = "inf" then some .pinf
  else if s = "-inf" then some .ninf
  else (parseRat? s).map Fld.fin

def showFld : Fld → String
  | .fin r => showRat r
  | .nan => "nan"
  | .pinf => "inf"
  | .ninf => "-inf"

/-- decision-level rendering of a field the writer computed -/
def showFldKind : Fld → String
  | .fin r => if r = 0 then "0" else "v"
  | f => showFld f

def parseHK? (s : String) : Option HK :=
  if s = "nifti" then some .nifti else if s = "spm99" then some .spm99
  else if s = "spm2" then some .spm2 else if s = "analyze" then some .analyze else none

def parseRoute? (s : String) : Option Route :=
  if s = "same" then some .same else if s = "fromimage" then some .fromImage
  else if s = "hdrraw" then some .hdrRaw else none

def parseGl? (s : String) : Option GlCal :=
  if s = "_" then some .zero else
  match s.splitOn ":" with
  | [a, b, c, d] => match a.toInt?, b.toInt?, parseRat? c, parseRat? d with
                    | some a, some b, some c, some d => some ⟨a, b, c, d⟩
                    | _, _, _, _ => none
  | _ => none

def parseFT? (s : String) : Option FT :=
  if s = "f16" then some .f16 else if s = "f32" then some .f32 else if s = "f64" then some .f64 else none

def parseEdit? (s : String) : Option EditOp :=
  if s = "zero" then some .zero else if s = "clip0" then some .clip0 else if s = "neg" then some .neg else none

def parseHOp? (s : String) : Option HOp :=
  match s.splitOn "." with
  | ["fd", t, f] => match parseFT? t, (if f = "1" then some true else if f = "0" then some false else none) with
                    | some t, some f => some (.fd t f)
                    | _, _ => none
  | ["ed", e] => (parseEdit? e).map HOp.edit
  | ["eo", e] => (parseEdit? e).map HOp.editObj
  | ["unc"] => some .uncache
  | _ => none

def parsePre? (s : String) : Option (List HOp) :=
  if s = "_" then some [] else (s.splitOn ";").mapM parseHOp?

def parsePost? (s : String) : Option (Option Fld) :=
  if s = "_" then some none else (parseFld? s).map some

def arrFTOf : InT → Option FT
  | .flt 11 => some .f16
  | .flt 24 => some .f32
  | .flt 53 => some .f64
  | _ => none

def showSOpt (x : Option Rat) : String := match x with | none => "N" | some r => showRat r

def handleRt (dec : Bool) (k dk : HK) (route : Route) (F : Flds) (g : GlCal) (post : Option Fld) (pre : List HOp)
    (disk : Bool) (i : InT) (hd : DT) (arg : Option DT) (data : List Val) : String :=
  -- where the data come from
  let src : Except Err (InT × List Val × Bool) :=
    if disk then
      match i with
      | .int lo hi => (loadData dk F g lo hi (data.filterMap fun v => match v with | .fin r => some r.floor | _ => none)).map
                        fun (i', vs) => (i', vs, true)
      | _ => .error .value
    else .ok (i, data, false)
  match src with
  | .error _ => "ERR:HeaderDataError@load"
  | .ok (i', vals, isProxy) =>
    let f0 := routeFlds route dk k F
    let f1 : Flds := match post with | none => f0 | some x => { f0 with inter := x }
    let st := runH isProxy (if isProxy then none else arrFTOf i') (fun _ xs => xs) (ImgSt.init vals) pre
    match toFileMapF k id 24 i' hd f1 arg st.written with
    | none => "unmodelled"
    | some (res, dsk, aft) =>
      let tail := " H " ++ showDT hd ++ " " ++ showFld aft.slope ++ " " ++ showFld aft.inter
      match res with
      | .error e => showErr e ++ tail
      | .ok (_, _, raw) =>
        let caps := k.cls.caps
        let d1 := if dec && caps.hasSlope then showFldKind dsk.slope else showFld dsk.slope
        let d2 := if dec && caps.hasInter then showFldKind dsk.inter else showFld dsk.inter
        match proxySI k dsk (if k = dk then g else .zero) with
        | .error _ => "ERR:HeaderDataError@reload" ++ tail
        | .ok (s, b) =>
          (if dec then "ok " ++ (if s = 1 then "1" else "0") ++ " " ++ (if b = 0 then "1" else "0") ++ " " ++
                       (if 0 < s then "+" else "-")
           else "ok " ++ showRat s ++ " " ++ showRat b ++ " " ++ showList raw)
          ++ " D " ++ d1 ++ " " ++ d2 ++ tail

def handle : List String → String
  | ["rd", k, sF, iF, gl] =>
      match parseHK? k, parseFld? sF, parseFld? iF, parseGl? gl with
      | some k, some sF, some iF, some g =>
          match readSI k ⟨sF, iF⟩ g with
          | .ok (s, b) => showSOpt s ++ " " ++ showSOpt b
          | .error e => showErr e
      | _, _, _, _ => "bad-op"
  | [op, k, dk, route, sF, iF, gl, post, pre, src, i, hd, arg, vals] =>
      if op ≠ "rt" ∧ op ≠ "rtd" then "bad-op" else
      if src ≠ "arr" ∧ src ≠ "disk" then "bad-op" else
      match parseHK? k, parseHK? dk, parseRoute? route, parseFld? sF, parseFld? iF, parseGl? gl, parsePost? post,
            parsePre? pre, parseIn? i, parseDT? hd, parseArg? arg, parseVals? vals with
      | some k, some dk, some route, some sF, some iF, some g, some post, some pre, some i, some hd, some arg, some vs =>
          handleRt (op = "rtd") k dk route ⟨sF, iF⟩ g post pre (src = "disk") i hd arg vs
      | _, _, _, _, _, _, _, _, _, _, _, _ => "bad-op"
  | ["save", cls, i, o, vals] =>
      match parseCls? cls, parseIn? i, parseOut? o, parseVals? vals with
      | some c, some i, some o, some vs =>
          match save c id 24 i o vs with
          | .ok (s, b, raw) => "ok " ++ showRat s ++ " " ++ showRat b ++ " " ++ showList raw
          | .error e => showErr e
      | _, _, _, _ => "bad-op"
  | ["var", cls, i, o, vals] =>
      -- decision-level observable (robust to float32 rounding): slope == 1 ?, inter == 0 ?, sign of the slope
      match parseCls? cls, parseIn? i, parseOut? o, parseVals? vals with
      | some c, some i, some o, some vs =>
          match save c id 24 i o vs with
          | .ok (s, b, _) => "ok " ++ (if s = 1 then "1" else "0") ++ " " ++ (if b = 0 then "1" else "0") ++ " " ++
                              (if 0 < s then "+" else "-")
          | .error e => showErr e
      | _, _, _, _ => "bad-op"
  | [op, cls, i, hd, sl, it, args, vals] =>
      if op ≠ "tfm" ∧ op ≠ "tfmd" then "bad-op" else
      match parseCls? cls, parseIn? i, parseDT? hd, parseOptRat? sl, parseOptRat? it,
            (args.splitOn ";").mapM parseArg?, parseVals? vals with
      | some c, some i, some hd, some sl, some it, some args, some vs =>
          if c == .mgh || args.isEmpty then "bad-op" else
          let (rs, h) := saveSeq c id 24 i vs ⟨hd, sl, it⟩ args
          let showOpt (x : Option Rat) : String := match x with | none => "_" | some r => showRat r
          let tail := " H " ++ showDT h.dtype ++ " " ++ showOpt h.slope ++ " " ++ showOpt h.inter
          match rs.getLast? with
          | none => "bad-op"
          | some none => "unmodelled"
          | some (some (.error e)) => showErr e ++ tail
          | some (some (.ok (s, b, raw))) =>
              if op = "tfm" then "ok " ++ showRat s ++ " " ++ showRat b ++ " " ++ showList raw ++ tail
              else "ok " ++ (if s = 1 then "1" else "0") ++ " " ++ (if b = 0 then "1" else "0") ++ " " ++
                   (if 0 < s then "+" else "-") ++ tail
      | _, _, _, _, _, _, _ => "bad-op"
  | ["a2f", i, o, s, b, mn, mx, n2z, vals] =>
      match parseIn? i, parseOut? o, parseRat? s, parseRat? b, parseOptRat? mn, parseOptRat? mx,
            (if n2z = "1" then some true else if n2z = "0" then some false else none), parseVals? vals with
      | some i, some o, some s, some b, some mn, some mx, some n2z, some vs =>
          match arrayToFile i o s b mn mx n2z vs with
          | .ok raw => "ok " ++ showList raw
          | .error e => showErr e
      | _, _, _, _, _, _, _, _ => "bad-op"
  | ["fr", i, vals] =>
      match parseIn? i, parseVals? vals with
      | some _, some vs =>
          let (fr, hn) := finiteRange vs
          (match fr with
           | none => "none"
           | some (a, b) => showRat a ++ " " ++ showRat b) ++ (if hn then " 1" else " 0")
      | _, _ => "bad-op"
  | ["shr", p, o] =>
      match p.toNat?, parseOut? o with
      | some p, some o => let (a, b) := sharedRange p o; toString a ++ " " ++ toString b
      | _, _ => "bad-op"
  | ["fe", p, v] =>
      match p.toNat?, v.toInt? with
      | some p, some v => toString (floorExact p v) ++ " " ++ toString (ceilExact p v)
      | _, _ => "bad-op"
  | _ => "bad-op"

end Nb.Drv.C02

def main : IO Unit := Nb.Drv.runDriver "C02" Nb.Drv.C02.handle
