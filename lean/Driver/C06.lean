import NibabelModel.Model.C06
import NibabelModel.Lemmas.C06_NpSpec
import NibabelModel.Model.C06Py
import NibabelModel.Model.C06_IO
import NibabelModel.Generated.C06Funcs
import Driver.Util
namespace Nb.Drv.C06
open Nb.Py
open Nb Nb.C06

def parseItem? (s : String) : Option IdxItem :=
  if s = "n" then some .newaxis
  else if s = "e" then some .ellipsis
  else if s.startsWith "i" then (s.drop 1).toString.toInt?.map IdxItem.int
  else if s.startsWith "s" then
    match ((s.drop 1).toString.splitOn ",").mapM parseOptInt? with
    | some [a, b, c] => some (.slice ⟨a, b, c⟩)
    | _ => none
  else none

def parseIdx? (s : String) : Option (List IdxItem) :=
  if s = "-" then some [] else (s.splitOn ";").mapM parseItem?

def parseHeur? (s : String) : Option Heuristic :=
  if s = "full" then some (fun a _ _ => match a with | .int _ => .full | .slice _ => .full)
  else if s = "contig" then some (fun a _ _ => match a with | .int _ => .skip | .slice _ => .contiguous)
  else if s = "skip" then some (fun _ _ _ => .skip)
  else if s.startsWith "thr:" then (s.drop 4).toString.toNat?.map thresholdHeuristic
  else if s = "dflt" then   -- the shipped default: threshold_heuristic with the SKIP_THRESH of the working tree
    match Gen.C06F.SKIP_THRESH with
    | .int k => some (thresholdHeuristic k.toNat)
    | _ => none
  else none

def showSegs (l : List Segment) : String :=
  "[" ++ ",".intercalate (l.map (fun s => toString s.offset ++ ":" ++ toString s.length)) ++ "]"


/-! ### `hist`: histories of reads on the byte-level model (Model/C06_IO) -/

/-- the harness's `make_store`: `off` header bytes, the elements `base … base+n-1` little-endian in `isz` bytes,
    trailing bytes, cut / padded to `flen` -/
def mkStore (shape : List Nat) (isz off flen base : Nat) : List Nat :=
  let head := (List.range off).map (fun i => (37 * i + 11) % 251)
  let body := (List.range shape.prod).flatMap
    (fun q => (List.range isz).map (fun i => ((q + base) / 256 ^ i) % 256))
  let buf := head ++ body
  (buf ++ (List.range (flen - buf.length)).map (fun i => (91 * i + 7) % 253)).take flen

def leValue (bs : List Nat) : Nat := bs.foldr (fun b acc => b + 256 * acc) 0

structure HFile where
  o : Order
  isz : Nat
  off : Nat
  shape : List Nat

def parseOrder? (s : String) : Option Order :=
  if s = "C" then some .C else if s = "F" then some .F else none

def parseHFiles : Nat → List String → Option (List (HFile × FileObj) × List String)
  | 0, rest => some ([], rest)
  | k + 1, ord :: isz :: off :: flen :: base :: shape :: rest =>
      match parseOrder? ord, isz.toNat?, off.toNat?, flen.toNat?, base.toNat?, parseNatList? shape,
            parseHFiles k rest with
      | some o, some isz, some off, some flen, some base, some shape, some (fs, rest') =>
          some ((⟨o, isz, off, shape⟩, ⟨mkStore shape isz off flen base, 0⟩) :: fs, rest')
      | _, _, _, _, _, _, _ => none
  | _, _ => none

def parseHSteps (files : List HFile) : List String → Option (List Req)
  | [] => some []
  | j :: heur :: idx :: rest =>
      match j.toNat?, parseHeur? heur, parseIdx? idx, parseHSteps files rest with
      | some j, some h, some idx, some rs =>
          match files[j]? with
          | some F => some (⟨j, h, idx, F.shape, F.isz, F.off, F.o⟩ :: rs)
          | none => none
      | _, _, _, _ => none
  | _ => none

def showRead : ReadResult → String
  | .ok (sh, data) => "ok " ++ showList sh ++ " " ++ showList (data.map leValue)
  | .error _ => "ERR"

def handle : List String → String
  | ["fs", ord, isz, off, flen, heur, shape, idx] =>
      match (if ord = "C" then some Order.C else if ord = "F" then some Order.F else none),
            isz.toNat?, off.toNat?, flen.toNat?, parseHeur? heur, parseNatList? shape, parseIdx? idx with
      | some o, some isz, some off, some flen, some h, some shape, some idx =>
          match calcSlicedefs h idx shape isz off o, fileslice h idx shape isz off flen o with
          | .ok d, .ok (sh, data) => "ok " ++ showList sh ++ " " ++ showList data ++ " " ++ showSegs d.segments
          | .ok d, .error _ => "ERR " ++ showSegs d.segments
          | .error _, _ => "ERR"
      | _, _, _, _, _, _, _ => "bad-op"
  | ["np", ord, shape, idx] =>
      match (if ord = "C" then some Order.C else if ord = "F" then some Order.F else none),
            parseNatList? shape, parseIdx? idx with
      | some o, some shape, some idx =>
          match npIndex idx shape o with
          | .ok (sh, data) => "ok " ++ showList sh ++ " " ++ showList data
          | .error _ => "ERR"
      | _, _, _ => "bad-op"
  | ["nps", ord, shape, idx] =>
      -- the INDEPENDENT NumPy specification (Lemmas/C06_NpSpec), compared with real NumPy
      match (if ord = "C" then some Order.C else if ord = "F" then some Order.F else none),
            parseNatList? shape, parseIdx? idx with
      | some o, some shape, some idx =>
          match npSpecIndex idx shape o with
          | .ok (sh, data) => "ok " ++ showList sh ++ " " ++ showList data
          | .error _ => "ERR"
      | _, _, _ => "bad-op"
  | ["ps", shape, idx] =>
      match parseNatList? shape, parseIdx? idx with
      | some shape, some idx =>
          match predictShape idx shape with
          | .ok sh => "ok " ++ showList sh
          | .error _ => "ERR"
      | _, _ => "bad-op"
  | ["spec", n, a, b, c] =>
      match n.toNat?, parseOptInt? a, parseOptInt? b, parseOptInt? c with
      | some n, some a, some b, some c =>
          let s : PySlice := ⟨a, b, c⟩
          let (x, y, z) := s.indices n
          showList (s.sel n) ++ " " ++ toString x ++ " " ++ toString y ++ " " ++ toString z
      | _, _, _, _ => "bad-op"
  | ["fill", n, a, b, c] =>
      match n.toNat?, parseOptInt? a, parseOptInt? b, parseOptInt? c with
      | some n, some a, some b, some c =>
          let s : PySlice := ⟨a, b, c⟩
          let f := fillSlicer s n
          showList (f.toPy.sel n) ++ " " ++ toString (slice2len s n) ++ " " ++
            showList ((positiveSlice f).toPy.sel n)
      | _, _, _, _ => "bad-op"
  -- the functions TRANSLATED FROM THE SOURCE (Generated/C06Funcs), run on the same arguments as the
  -- real Python functions (validates translator + Basic/PyVal semantics on every run)
  | ["gen", "fill_slicer", a, b] =>
      match parseV? a, parseV? b with
      | some a, some b => showM (Gen.C06F.fill_slicer a b)
      | _, _ => "bad-op"
  | ["gen", "full_slicer_len", a] =>
      match parseV? a with
      | some a => showM (Gen.C06F.full_slicer_len a)
      | _ => "bad-op"
  | ["gen", "slice2len", a, b] =>
      match parseV? a, parseV? b with
      | some a, some b => showM (Gen.C06F.slice2len a b)
      | _, _ => "bad-op"
  | ["gen", "positive_slice", a] =>
      match parseV? a with
      | some a => showM (Gen.C06F.positive_slice a)
      | _ => "bad-op"
  | ["gen", "threshold_heuristic", a, b, c, d] =>
      match parseV? a, parseV? b, parseV? c, parseV? d with
      | some a, some b, some c, some d => showM (Gen.C06F.threshold_heuristic a b c d)
      | _, _, _, _ => "bad-op"
  | ["gen", "optimize_slicer", a, b, c, d, e, heur] =>
      match parseV? a, parseV? b, parseV? c, parseV? d, parseV? e with
      | some a, some b, some c, some d, some e =>
          if heur = "src" then
            showM (Gen.C06F.optimize_slicer a b c d e
              (fun x y z => Gen.C06F.threshold_heuristic x y z Gen.C06F.SKIP_THRESH))
          else match parseHeur? heur with
            | some h => showM (Gen.C06F.optimize_slicer a b c d e (liftH h))
            | none => "bad-op"
      | _, _, _, _, _ => "bad-op"
  | ["gen", "optimize_read_slicers", a, b, c, heur] =>
      match parseVL? a, parseVL? b, parseV? c with
      | some a, some b, some c =>
          if heur = "src" then
            showM (Gen.C06F.optimize_read_slicers a b c
              (fun x y z => Gen.C06F.threshold_heuristic x y z Gen.C06F.SKIP_THRESH))
          else match parseHeur? heur with
            | some h => showM (Gen.C06F.optimize_read_slicers a b c (liftH h))
            | none => "bad-op"
      | _, _, _ => "bad-op"
  -- the operators of Basic/PyVal (the semantics of the translated Python fragment) against CPython itself
  | ["pyop", op, a] =>
      match parseVL? a with
      | some a =>
          if op = "neg" then showM (V.neg a) else if op = "abs" then showM (V.abs a)
          else if op = "int" then showM (V.toInt a) else if op = "len" then showM (V.len a)
          else if op = "reversed" then showM (V.reversed a) else if op = "enumerate" then showM (V.enumerate a)
          else if op = "truthy" then (match V.truthy a with | .ok b => showV (.bool b) | .error e => showErr e)
          else if op = "list" then showM (V.asList a)
          else "bad-op"
      | none => "bad-op"
  | ["pyop", op, a, b] =>
      match parseVL? a, parseVL? b with
      | some a, some b =>
          if op = "add" then showM (V.add a b) else if op = "sub" then showM (V.sub a b)
          else if op = "mul" then showM (V.mul a b) else if op = "floordiv" then showM (V.floordiv a b)
          else if op = "mod" then showM (V.mod a b)
          else if op = "ceildiv" then showM (do V.toInt (← V.npCeil (← V.truediv a b)))
          else if op = "truncdiv" then showM (do V.toInt (← V.truediv a b))
          else if op = "divisible" then showM (do let q ← V.truediv a b; pure (.bool (V.pyEq (← V.toInt q) q)))
          else if op = "lt" then showM (V.lt a b) else if op = "le" then showM (V.le a b)
          else if op = "eq" then showV (.bool (V.pyEq a b))
          else if op = "min" then showM (V.min2 a b) else if op = "max" then showM (V.max2 a b)
          else if op = "getitem" then showM (V.getItem a b) else if op = "dropfrom" then showM (V.dropFrom a b)
          else if op = "append" then showM (V.append a b) else if op = "extend" then showM (V.extend a b)
          else if op = "contains" then (match V.contains a b with | .ok r => showV (.bool r) | .error e => showErr e)
          else if op = "indices" then showM (V.sliceIndices a b)
          else "bad-op"
      | _, _ => "bad-op"
  | ["pyop", op, a, b, c] =>
      match parseVL? a, parseVL? b, parseVL? c with
      | some a, some b, some c =>
          if op = "setitem" then showM (V.setItem a b c) else if op = "range" then showM (V.pyRange a b c)
          else "bad-op"
      | _, _, _ => "bad-op"
  | ["strin", a, b] => showV (.bool (V.strIn (if a = "-" then "" else a) (if b = "-" then "" else b)))
  | ["gen", "is_fancy", a] =>
      match parseVL? a with
      | some a => showM (Gen.C06F.is_fancy a)
      | _ => "bad-op"
  | ["gen", "canonical_slicers", a, b, c] =>
      match parseVL? a, parseVL? b, parseV? c with
      | some a, some b, some c => showM (Gen.C06F.canonical_slicers a b c)
      | _, _, _ => "bad-op"
  | ["gen", "predict_shape", a, b] =>
      match parseVL? a, parseVL? b with
      | some a, some b => showM (Gen.C06F.predict_shape a b)
      | _, _ => "bad-op"
  | ["gen", "calc_slicedefs", a, b, c, d, e, heur] =>
      match parseVL? a, parseVL? b, parseV? c, parseV? d, parseV? e with
      | some a, some b, some c, some d, some e =>
          if heur = "src" then
            showM (Gen.C06F.calc_slicedefs a b c d e
              (fun x y z => Gen.C06F.threshold_heuristic x y z Gen.C06F.SKIP_THRESH))
          else match parseHeur? heur with
            | some h => showM (Gen.C06F.calc_slicedefs a b c d e (liftH h))
            | none => "bad-op"
      | _, _, _, _, _ => "bad-op"
  | ["gen", "slicers2segments", a, b, c, d] =>
      match parseVL? a, parseVL? b, parseV? c, parseV? d with
      | some a, some b, some c, some d => showM (Gen.C06F.slicers2segments a b c d)
      | _, _, _, _ => "bad-op"
  | "hist" :: nf :: rest =>
      match nf.toNat? with
      | some nf =>
          match parseHFiles nf rest with
          | some (fs, rest') =>
              match parseHSteps (fs.map (·.1)) rest' with
              | some reqs =>
                  if reqs.isEmpty then "bad-op"
                  else " | ".intercalate ((runHistory (fs.map (·.2)) reqs).map showRead)
              | none => "bad-op"
          | none => "bad-op"
      | none => "bad-op"
  | _ => "bad-op"

end Nb.Drv.C06

def main : IO Unit := Nb.Drv.runDriver "C06" Nb.Drv.C06.handle
