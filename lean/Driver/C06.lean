import NibabelModel.Model.C06
import NibabelModel.Lemmas.C06_NpSpec
import NibabelModel.Model.C06Py
import NibabelModel.Generated.C06Funcs
import Driver.Util
namespace Nb.Drv.C06
open Nb Nb.C06

def parseItem? (s : String) : Option IdxItem :=
  if s = "n" then some .newaxis
  else if s = "e" then some .ellipsis
  else if s.startsWith "i" then (s.drop 1).toString.toInt?.map IdxItem.int
  else if s.startsWith "s" then
    match ((s.drop 1).toString.splitOn ",").mapM parseOptInt? with
    | some [a, b, c] => some (.slice ⟨a, b, c⟩)
    | _ => none
  else none

def parseIdx? (s : String) : Option (List IdxItem) :=
  if s = "-" then some [] else (s.splitOn ";").mapM parseItem?

def parseHeur? (s : String) : Option Heuristic :=
  if s = "full" then some (fun a _ _ => match a with | .int _ => .full | .slice _ => .full)
  else if s = "contig" then some (fun a _ _ => match a with | .int _ => .skip | .slice _ => .contiguous)
  else if s = "skip" then some (fun _ _ _ => .skip)
  else if s.startsWith "thr:" then (s.drop 4).toString.toNat?.map thresholdHeuristic
  else none

def showSegs (l : List Segment) : String :=
  "[" ++ ",".intercalate (l.map (fun s => toString s.offset ++ ":" ++ toString s.length)) ++ "]"

def handle : List String → String
  | ["fs", ord, isz, off, flen, heur, shape, idx] =>
      match (if ord = "C" then some Order.C else if ord = "F" then some Order.F else none),
            isz.toNat?, off.toNat?, flen.toNat?, parseHeur? heur, parseNatList? shape, parseIdx? idx with
      | some o, some isz, some off, some flen, some h, some shape, some idx =>
          match calcSlicedefs h idx shape isz off o, fileslice h idx shape isz off flen o with
          | .ok d, .ok (sh, data) => "ok " ++ showList sh ++ " " ++ showList data ++ " " ++ showSegs d.segments
          | .ok d, .error _ => "ERR " ++ showSegs d.segments
          | .error _, _ => "ERR"
      | _, _, _, _, _, _, _ => "bad-op"
  | ["np", ord, shape, idx] =>
      match (if ord = "C" then some Order.C else if ord = "F" then some Order.F else none),
            parseNatList? shape, parseIdx? idx with
      | some o, some shape, some idx =>
          match npIndex idx shape o with
          | .ok (sh, data) => "ok " ++ showList sh ++ " " ++ showList data
          | .error _ => "ERR"
      | _, _, _ => "bad-op"
  | ["nps", ord, shape, idx] =>
      -- the INDEPENDENT NumPy specification (Lemmas/C06_NpSpec), compared with real NumPy
      match (if ord = "C" then some Order.C else if ord = "F" then some Order.F else none),
            parseNatList? shape, parseIdx? idx with
      | some o, some shape, some idx =>
          match npSpecIndex idx shape o with
          | .ok (sh, data) => "ok " ++ showList sh ++ " " ++ showList data
          | .error _ => "ERR"
      | _, _, _ => "bad-op"
  | ["ps", shape, idx] =>
      match parseNatList? shape, parseIdx? idx with
      | some shape, some idx =>
          match predictShape idx shape with
          | .ok sh => "ok " ++ showList sh
          | .error _ => "ERR"
      | _, _ => "bad-op"
  | ["spec", n, a, b, c] =>
      match n.toNat?, parseOptInt? a, parseOptInt? b, parseOptInt? c with
      | some n, some a, some b, some c =>
          let s : PySlice := ⟨a, b, c⟩
          let (x, y, z) := s.indices n
          showList (s.sel n) ++ " " ++ toString x ++ " " ++ toString y ++ " " ++ toString z
      | _, _, _, _ => "bad-op"
  | ["fill", n, a, b, c] =>
      match n.toNat?, parseOptInt? a, parseOptInt? b, parseOptInt? c with
      | some n, some a, some b, some c =>
          let s : PySlice := ⟨a, b, c⟩
          let f := fillSlicer s n
          showList (f.toPy.sel n) ++ " " ++ toString (slice2len s n) ++ " " ++
            showList ((positiveSlice f).toPy.sel n)
      | _, _, _, _ => "bad-op"
  -- the functions TRANSLATED FROM THE SOURCE (Generated/C06Funcs), run on the same arguments as the
  -- real Python functions (validates translator + Basic/PyVal semantics on every run)
  | ["gen", "fill_slicer", a, b] =>
      match parseV? a, parseV? b with
      | some a, some b => showM (Gen.C06F.fill_slicer a b)
      | _, _ => "bad-op"
  | ["gen", "full_slicer_len", a] =>
      match parseV? a with
      | some a => showM (Gen.C06F.full_slicer_len a)
      | _ => "bad-op"
  | ["gen", "slice2len", a, b] =>
      match parseV? a, parseV? b with
      | some a, some b => showM (Gen.C06F.slice2len a b)
      | _, _ => "bad-op"
  | ["gen", "positive_slice", a] =>
      match parseV? a with
      | some a => showM (Gen.C06F.positive_slice a)
      | _ => "bad-op"
  | ["gen", "threshold_heuristic", a, b, c, d] =>
      match parseV? a, parseV? b, parseV? c, parseV? d with
      | some a, some b, some c, some d => showM (Gen.C06F.threshold_heuristic a b c d)
      | _, _, _, _ => "bad-op"
  | ["gen", "optimize_slicer", a, b, c, d, e, heur] =>
      match parseV? a, parseV? b, parseV? c, parseV? d, parseV? e with
      | some a, some b, some c, some d, some e =>
          if heur = "src" then
            showM (Gen.C06F.optimize_slicer a b c d e
              (fun x y z => Gen.C06F.threshold_heuristic x y z Gen.C06F.SKIP_THRESH))
          else match parseHeur? heur with
            | some h => showM (Gen.C06F.optimize_slicer a b c d e (liftH h))
            | none => "bad-op"
      | _, _, _, _, _ => "bad-op"
  | ["gen", "optimize_read_slicers", a, b, c, heur] =>
      match parseVL? a, parseVL? b, parseV? c with
      | some a, some b, some c =>
          if heur = "src" then
            showM (Gen.C06F.optimize_read_slicers a b c
              (fun x y z => Gen.C06F.threshold_heuristic x y z Gen.C06F.SKIP_THRESH))
          else match parseHeur? heur with
            | some h => showM (Gen.C06F.optimize_read_slicers a b c (liftH h))
            | none => "bad-op"
      | _, _, _ => "bad-op"
  | ["gen", "is_fancy", a] =>
      match parseVL? a with
      | some a => showM (Gen.C06F.is_fancy a)
      | _ => "bad-op"
  | ["gen", "canonical_slicers", a, b, c] =>
      match parseVL? a, parseVL? b, parseV? c with
      | some a, some b, some c => showM (Gen.C06F.canonical_slicers a b c)
      | _, _, _ => "bad-op"
  | ["gen", "predict_shape", a, b] =>
      match parseVL? a, parseVL? b with
      | some a, some b => showM (Gen.C06F.predict_shape a b)
      | _, _ => "bad-op"
  | ["gen", "calc_slicedefs", a, b, c, d, e, heur] =>
      match parseVL? a, parseVL? b, parseV? c, parseV? d, parseV? e with
      | some a, some b, some c, some d, some e =>
          if heur = "src" then
            showM (Gen.C06F.calc_slicedefs a b c d e
              (fun x y z => Gen.C06F.threshold_heuristic x y z Gen.C06F.SKIP_THRESH))
          else match parseHeur? heur with
            | some h => showM (Gen.C06F.calc_slicedefs a b c d e (liftH h))
            | none => "bad-op"
      | _, _, _, _, _ => "bad-op"
  | ["gen", "slicers2segments", a, b, c, d] =>
      match parseVL? a, parseVL? b, parseV? c, parseV? d with
      | some a, some b, some c, some d => showM (Gen.C06F.slicers2segments a b c d)
      | _, _, _, _ => "bad-op"
  | _ => "bad-op"

end Nb.Drv.C06

def main : IO Unit := Nb.Drv.runDriver "C06" Nb.Drv.C06.handle
