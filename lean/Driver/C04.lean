import NibabelModel.Model.C04
import Driver.Util
/-! Line-protocol driver for C04: `C04 <op> <args...>` -> one observable line. -/
namespace Nb.Drv.C04

def handle : List String → String
  | _ => "bad-op"

end Nb.Drv.C04

def main : IO Unit := Nb.Drv.runDriver "C04" Nb.Drv.C04.handle
