import NibabelModel.Model.C04
import NibabelModel.Generated.C04
import Driver.Util
/-! Line-protocol driver for C04: `C04 <op> <args...>` -> one observable line.

  ops
    rt  <cls> <shape> <A> <hdr> <matmode> <flips>   save/load round trip of class <cls>
          <hdr>   = `-` | <spec> | <srccls>@<spec>   (header of class <srccls> handed to the constructor)
          <flips> = three of T/F: header.default_x_flip at construction, at save, on the loading class
    hq  <cls> <A> <code>                        header.set_qform(A, code); get_qform(coded=True)
    hs  <cls> <A> <code>                        header.set_sform(A, code); get_sform(coded=True)
    fp  <cls> <b,c,d>                           header.get_qform_quaternion(): ERR / w0 / wpos
    r32 <x>                                     float32 rounding of a rational (spec validation)
    q2m <w,x,y,z>                               quat2mat
    m2q <m9>                                    kMatrix + mat2quat (exact eigenvector), then quat2mat
    szaff <shape> <zooms> <flip>                shape_zoom_affine
  rationals are `p/q` or `p`; an affine is 12 comma-separated rationals, row-major 3x4.
-/
namespace Nb.Drv.C04
open Nb Nb.C04

def parseRat? (s : String) : Option Rat :=
  match s.splitOn "/" with
  | [p] => p.toInt?.map (fun i => (i : Rat))
  | [p, q] => match p.toInt?, q.toNat? with
    | some p, some q => if q = 0 then none else some ((p : Rat) / (q : Rat))
    | _, _ => none
  | _ => none

def parseRats? (s : String) : Option (List Rat) :=
  if s = "-" then some [] else (s.splitOn ",").mapM parseRat?

def parseAff? (s : String) : Option (Aff Rat) :=
  match parseRats? s with
  | some [a, b, c, d, e, f, g, h, i, j, k, l] => some ⟨⟨a, b, c, e, f, g, i, j, k⟩, ⟨d, h, l⟩⟩
  | _ => none

def parseV3? (s : String) : Option (V3 Rat) :=
  match parseRats? s with
  | some [a, b, c] => some ⟨a, b, c⟩
  | _ => none

def showAff (a : Aff Rat) : String :=
  ",".intercalate ([a.m.a00, a.m.a01, a.m.a02, a.t.x, a.m.a10, a.m.a11, a.m.a12, a.t.y,
                    a.m.a20, a.m.a21, a.m.a22, a.t.z].map toString)

def showM33 (m : M33 Rat) : String :=
  ",".intercalate ([m.a00, m.a01, m.a02, m.a10, m.a11, m.a12, m.a20, m.a21, m.a22].map toString)

def showV3 (v : V3 Rat) : String := ",".intercalate ([v.x, v.y, v.z].map toString)

def showCoded : Option (Aff Rat) × Nat → String
  | (none, c) => toString c ++ ":None"
  | (some a, c) => toString c ++ ":" ++ showAff a

def showErr : Err → String
  | .header => "ERR:HeaderDataError"
  | .value => "ERR:ValueError"

def mkExt (rnd : Rat → Rat) : Ext :=
  { rnd := rnd, sqrt := sqrtQ, polar := id, topEig := topEigQ, allclose := allcloseQ Gen.rtol Gen.atol }

def fmtN1 : NFmt := ⟨Gen.n1QuatThr, Gen.floatEps, Gen.xformCodes⟩
def fmtN2 : NFmt := ⟨Gen.n2QuatThr, Gen.floatEps, Gen.xformCodes⟩

/-- `self._field_recoders['sform_code'][code]` (nifti1.py set_sform / set_qform): an integer must be a
    code of the regenerated table, a string one of its aliases; anything else is a `KeyError` -/
def resolveCode? (tok : String) : Option Nat :=
  match tok.toNat? with
  | some n => if Gen.xformCodes.contains n then some n else none
  | none => (Gen.xformTable.find? (fun e => e.2.contains tok)).map (·.1)

/-- code token `<code-or-alias>` or `<code-or-alias>!<raw>` (the field overwritten afterwards with the
    raw integer, `hdr['sform_code'] = raw`).  `none` = malformed, `some none` = KeyError. -/
def parseCodeTok? (s : String) : Option (Option (Nat × Option Nat)) :=
  match s.splitOn "!" with
  | [c] => some ((resolveCode? c).map (fun n => (n, none)))
  | [c, r] => match r.toNat? with
    | none => none
    | some r => some ((resolveCode? c).map (fun n => (n, some r)))
  | _ => none

/-- `<codetok>:<A|->`; `some none` = KeyError from the code lookup -/
def parseCodedAff? (s : String) : Option (Option ((Nat × Option Nat) × Option (Aff Rat))) :=
  match s.splitOn ":" with
  | [c, a] => match parseCodeTok? c with
    | none => none
    | some none => some none
    | some (some c) => if a = "-" then some (some (c, none)) else (parseAff? a).map (fun a => some (c, some a))
  | _ => none

/-- NIfTI header spec: `-` or `q=<code>:<A|->;s=<code>:<A|->` (set_qform then set_sform on a fresh header) -/
inductive HdrSpec where
  | noHeader
  | keyError
  | hdr (h : NHdr)

def parseNHdr? (E : Ext) (shape : List Nat) (s : String) : Option HdrSpec :=
  if s = "-" then some .noHeader else
  match s.splitOn ";" with
  | [q, sf] =>
    if q.startsWith "q=" && sf.startsWith "s=" then
      match parseCodedAff? (q.drop 2).toString, parseCodedAff? (sf.drop 2).toString with
      | some (some ((qc, qraw), qa)), some (some ((sc, sraw), sa)) =>
        let h := ((defaultNHdr shape).setQform E qa qc).setSform E sa sc
        some (.hdr { h with qformCode := qraw.getD h.qformCode, sformCode := sraw.getD h.sformCode })
      | some _, some _ => some .keyError
      | _, _ => none
    else none
  | _ => none

/-- Analyze/SPM header spec: `-` or `z=<z1,z2,z3>;o=<o1,o2,o3>` -/
def parseAHdr? (shape : List Nat) (s : String) : Option (Option AHdr) :=
  if s = "-" then some none else
  match s.splitOn ";" with
  | [z, o] =>
    if z.startsWith "z=" && o.startsWith "o=" then
      match parseV3? (z.drop 2).toString, parseIntList? (o.drop 2).toString with
      | some z, some [a, b, c] =>
        -- `set_zooms` on an `ndim`-dimensional header sets `pixdim[1:ndim+1]` only
        let nd := shape.length
        some (some ⟨shape, ⟨if 0 < nd then z.x else 1, if 1 < nd then z.y else 1, if 2 < nd then z.z else 1⟩,
                    ⟨a, b, c⟩⟩)
      | _, _ => none
    else none
  | _ => none

def parseMode? (s : String) : Option MatMode :=
  if s = "both" then some .both else if s = "monly" then some .mOnly else if s = "none" then some .none
  else if s = "matonly" then some .matOnly else if s = "mat3d" then some .mat3d
  else none

def parseFlips? (s : String) : Option Flips :=
  let b? (c : Char) : Option Bool := if c = 'T' then some true else if c = 'F' then some false else none
  match s.toList with
  | [a, b, c] => match b? a, b? b, b? c with
    | some a, some b, some c => some ⟨a, b, c⟩
    | _, _, _ => none
  | _ => none

/-- a header of any of the seven classes, as built by the harness on that class
    (MGH header spec: `a=<A>`, the header of `MGHImage(data, A)`) -/
inductive AnyHdr where
  | n (h : NHdr)
  | a (k : AKind) (h : AHdr)
  | m (h : MHdr)
  | keyError

def parseMHdr? (E : Ext) (dims : V3 Rat) (s : String) : Option (Option MHdr) :=
  if s = "-" then some none else
  if s.startsWith "a=" then
    (parseAff? (s.drop 2).toString).map (fun a => some ((defaultMHdr dims).updateHeader E a))
  else none

def parseAnyHdr? (cls : String) (shape : List Nat) (spec : String) : Option AnyHdr :=
  if spec = "-" then none else
  let nif (E : Ext) : Option AnyHdr :=
    match parseNHdr? E shape spec with
    | some (.hdr h) => some (.n h)
    | some .keyError => some .keyError
    | _ => none
  let ana (k : AKind) : Option AnyHdr :=
    match parseAHdr? shape spec with
    | some (some h) => some (.a k h)
    | _ => none
  if cls = "N1" || cls = "N1P" then nif (mkExt roundF32)
  else if cls = "N2" then nif (mkExt id)
  else if cls = "AN" then ana .analyze
  else if cls = "S99" || cls = "S2" then ana .spm
  else if cls = "MGH" then
    if shape.length < 3 then none else
    match parseMHdr? (mkExt roundF32) (natsToV3 shape 1) spec with
    | some (some h) => some (.m h)
    | _ => none
  else none

/-- split `<srccls>@<spec>`; a spec without `@` is a header of the image's own class -/
def splitSrc (cls hs : String) : String × String :=
  match hs.splitOn "@" with
  | [x, spec] => (x, spec)
  | _ => (cls, hs)

def rtNifti (cls : String) (E : Ext) (f : NFmt) (shape : List Nat) (a : Aff Rat) (hs : String) : String :=
  let (src, spec) := splitSrc cls hs
  let own := (src = cls)
  let conv : Option (Option HdrSpec) :=
    if spec = "-" then (if own then some (some .noHeader) else none)
    else match parseAnyHdr? src shape spec with
      | none => none
      | some .keyError => some (some .keyError)
      | some (.n h) => some (some (.hdr (if own then h else h.convertN E.rnd)))
      | some (.a _ h) => some (some (.hdr (NHdr.ofZooms E.rnd shape h.pixdim)))
      | some (.m h) => some (some (.hdr (NHdr.ofZooms E.rnd shape h.f.delta)))
  match conv with
  | none | some none => "bad-op"
  | some (some .keyError) => "ERR:KeyError"
  | some (some spec) =>
    let hdr : Option NHdr := match spec with | .hdr h => some h | _ => none
    match niftiRoundtrip E f shape a hdr with
    | .error e => showErr e
    | .ok o => "aff=" ++ showAff o.affine ++ " s=" ++ showCoded o.sform ++ " q=" ++ showCoded o.qform

def rtAnalyze (cls : String) (E : Ext) (k : AKind) (fl : Flips) (shape : List Nat) (a : Aff Rat) (hs : String)
    (mode : MatMode) : String :=
  let (src, spec) := splitSrc cls hs
  let own := (src = cls)
  let z0 : V3 Int := ⟨0, 0, 0⟩
  let conv : Option (Except Unit (Option AHdr)) :=
    if spec = "-" then (if own then some (.ok none) else none)
    else match parseAnyHdr? src shape spec with
      | none => none
      | some .keyError => some (.error ())
      | some (.n h) => some (.ok (some (AHdr.ofZooms E.rnd shape h.pixdim z0)))
      | some (.a kx h) =>
          some (.ok (some (if own then h else AHdr.ofZooms E.rnd shape h.pixdim (if kx = .spm && k = .spm then h.origin else z0))))
      | some (.m h) => some (.ok (some (AHdr.ofZooms E.rnd shape h.f.delta z0)))
  match conv with
  | none => "bad-op"
  | some (.error _) => "ERR:KeyError"
  | some (.ok hdr) =>
    let o := analyzeRoundtrip E k fl shape a hdr mode
    "aff=" ++ showAff o.affine ++ " z=" ++ showV3 o.pixdim

def rtMgh (E : Ext) (shape : List Nat) (a : Aff Rat) (hs : String) : String :=
  if shape.length < 3 then "bad-op" else
  let dims := natsToV3 shape 1
  let (src, spec) := splitSrc "MGH" hs
  -- a header of another class is ignored by `MGHHeader.from_header`: the default header is used
  let hdr? : Option (Except Unit (Option MHdr)) :=
    if src = "MGH" then (parseMHdr? E dims spec).map .ok
    else if spec = "-" then none
    else match parseAnyHdr? src shape spec with
      | none => none
      | some .keyError => some (.error ())
      | some _ => some (.ok none)
  match hdr? with
  | none => "bad-op"
  | some (.error _) => "ERR:KeyError"
  | some (.ok hdr) =>
    let (aff, f) := mghRoundtrip E dims a hdr
    "aff=" ++ showAff aff ++ " delta=" ++ showV3 f.delta ++ " mdc=" ++ showM33 f.mdc ++ " c=" ++ showV3 f.pxyzC

def handle : List String → String
  | ["rt", cls, shape, a, hdr, mode, flips] =>
      match parseNatList? shape, parseAff? a, parseMode? mode, parseFlips? flips with
      | some shape, some a, some mode, some fl =>
        if shape.isEmpty then "bad-op"
        -- the NIfTI and MGH flows are modelled for the default `default_x_flip` only
        else if (cls = "N1" || cls = "N1P" || cls = "N2" || cls = "MGH") && fl != Flips.dflt then "bad-op"
        else if cls = "N1" || cls = "N1P" then rtNifti cls (mkExt roundF32) fmtN1 shape a hdr
        else if cls = "N2" then rtNifti cls (mkExt id) fmtN2 shape a hdr
        else if cls = "AN" then rtAnalyze cls (mkExt roundF32) .analyze fl shape a hdr mode
        else if cls = "S99" || cls = "S2" then rtAnalyze cls (mkExt roundF32) .spm fl shape a hdr mode
        else if cls = "MGH" then rtMgh (mkExt roundF32) shape a hdr
        else "bad-op"
      | _, _, _, _ => "bad-op"
  | ["hq", cls, a, code] =>
      -- header level: `hdr.set_qform(A, code); hdr.get_qform(coded=True)`
      match parseAff? a, parseCodeTok? code with
      | some _, some none => "ERR:KeyError"
      | some a, some (some (code, _)) =>
        let go (E : Ext) (f : NFmt) : String :=
          match ((defaultNHdr [1, 1, 1]).setQform E (some a) code).qformCoded E f with
          | .error e => showErr e
          | .ok o => "q=" ++ showCoded o
        if cls = "N1" || cls = "N1P" then go (mkExt roundF32) fmtN1
        else if cls = "N2" then go (mkExt id) fmtN2
        else "bad-op"
      | _, _ => "bad-op"
  | ["hs", cls, a, code] =>
      -- header level: `hdr.set_sform(A, code); hdr.get_sform(coded=True)`
      match parseAff? a, parseCodeTok? code with
      | some _, some none => "ERR:KeyError"
      | some a, some (some (code, _)) =>
        let go (E : Ext) : String := "s=" ++ showCoded ((defaultNHdr [1, 1, 1]).setSform E (some a) code).sformCoded
        if cls = "N1" || cls = "N1P" then go (mkExt roundF32)
        else if cls = "N2" then go (mkExt id)
        else "bad-op"
      | _, _ => "bad-op"
  | ["fp", cls, bcd] =>
      -- `hdr.get_qform_quaternion()`: the threshold decision of `fillpositive`
      match parseV3? bcd with
      | some v =>
        let go (thr : Rat) : String :=
          match fillpositive sqrtQ thr v with
          | .error e => showErr e
          | .ok q => if q.w = 0 then "w0" else "wpos"
        if cls = "N1" || cls = "N1P" then go Gen.n1QuatThr
        else if cls = "N2" then go Gen.n2QuatThr
        else "bad-op"
      | none => "bad-op"
  | ["r32", x] =>
      match parseRat? x with
      | some x => toString (roundF32 x)
      | none => "bad-op"
  | ["q2m", q] =>
      match parseRats? q with
      | some [w, x, y, z] => showM33 (quat2matG Gen.floatEps ⟨w, x, y, z⟩)
      | _ => "bad-op"
  | ["m2q", m] =>
      match parseRats? m with
      | some [a, b, c, d, e, f, g, h, i] =>
          let M : M33 Rat := ⟨a, b, c, d, e, f, g, h, i⟩
          let q := mat2quat topEigQ M
          let ex := isExactSquare (q.w * q.w) && isExactSquare (q.x * q.x)
          (if ex then "" else "inexact ") ++
            ",".intercalate ([q.w, q.x, q.y, q.z].map toString) ++ " " ++ showM33 (quat2mat q)
      | _ => "bad-op"
  | ["szaff", shape, zooms, flip] =>
      match parseNatList? shape, parseRats? zooms with
      | some shape, some zs =>
          if shape.length ≠ zs.length || shape.isEmpty then "ERR:ValueError"
          else
            let z : V3 Rat := ⟨zs[0]?.getD 1, zs[1]?.getD 1, zs[2]?.getD 1⟩
            if flip = "1" then showAff (shapeZoomAffine shape z true)
            else if flip = "0" then showAff (shapeZoomAffine shape z false)
            else "bad-op"
      | _, _ => "bad-op"
  | _ => "bad-op"

end Nb.Drv.C04

def main : IO Unit := Nb.Drv.runDriver "C04" Nb.Drv.C04.handle
