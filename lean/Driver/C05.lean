import NibabelModel.Model.C05
import Driver.Util
/-! Line-protocol driver for C05: `C05 <op> <args...>` -> one observable line.

  ops (tokens separated by spaces; lists comma-separated, `-` = empty, `_` = None):
  * `slice <shape> <aff12> <idx>`                         img.slicer[idx]
  * `reor <shape> <aff12> <ornt> <dim>`                   Nifti1Image.as_reoriented(ornt)
  * `canon <shape> <aff12> <R9> <tol> <dim> <enforce>`    as_closest_canonical (polar factor R supplied)
  * `ioor <q> <p> <Rflat> <tol>`                          io_orientation from R onward
  * `orn2ax <ornt>` / `ax2orn <codes>` / `otrans <a> <b>` / `invaff <ornt> <shape>`
  * `hslice` / `hreor` / `hcanon` = the three above + `<kind> <hist>`: the image kind (`p` proxy, `a` array
    image, `a2|a4|a8` array image whose array has that native floating dtype) and the calls made on the
    image before the operation (`-` or `;`-separated: `u` = uncache(), `g<2|4|8><f|u><e|->` =
    get_fdata(dtype=float16|32|64, caching='fill'|'unchanged') followed by an in-place edit of the returned array: `e` reversal, `o` rotation by one).  Output: as the base op, the data list being the ORIGINAL element number each
    output voxel holds, then ` cache=<none|f2|f4|f8>[a]` (a = the cache is the data object).
  ornt = rows `ax,flip` or `nan` separated by `;`.  idx items as in C06 (`sA,B,C`, `iN`, `n`, `e`). -/
namespace Nb.Drv.C05
open Nb Nb.C05 Nb.C06

def parseItem? (s : String) : Option IdxItem :=
  if s = "n" then some .newaxis
  else if s = "e" then some .ellipsis
  else if s.startsWith "i" then (s.drop 1).toString.toInt?.map IdxItem.int
  else if s.startsWith "s" then
    match ((s.drop 1).toString.splitOn ",").mapM parseOptInt? with
    | some [a, b, c] => some (.slice ⟨a, b, c⟩)
    | _ => none
  else none

def parseIdx? (s : String) : Option (List IdxItem) :=
  if s = "-" then some [] else (s.splitOn ";").mapM parseItem?

def parseAff? (s : String) : Option (Aff Int) :=
  match parseIntList? s with
  | some [a, b, c, d, e, f, g, h, i, j, k, l] => some ⟨⟨a, b, c, d⟩, ⟨e, f, g, h⟩, ⟨i, j, k, l⟩⟩
  | _ => none

def parseOrntRow? (s : String) : Option (Option (Nat × Int)) :=
  if s = "nan" then some none
  else match s.splitOn "," with
    | [a, f] => match a.toNat?, f.toInt? with
      | some a, some f => some (some (a, f))
      | _, _ => none
    | _ => none

def parseOrntN? (s : String) : Option OrntN :=
  if s = "-" then some [] else (s.splitOn ";").mapM parseOrntRow?

def parseOrnt? (s : String) : Option Ornt := (parseOrntN? s).bind OrntN.toOrnt

def parseDim? (s : String) : Option DimInfo :=
  match (s.splitOn ",").mapM (fun t => if t = "_" then some none else t.toNat?.map some) with
  | some [a, b, c] => some [a, b, c]
  | _ => none

def parseCodes? (s : String) : Option (List (Option Char)) :=
  if s = "-" then some [] else some (s.toList.map (fun c => if c = '_' then none else some c))

def showRow : Option (Nat × Int) → String
  | none => "nan"
  | some (a, f) => toString a ++ "," ++ toString f

def showOrntN (o : OrntN) : String := if o.isEmpty then "-" else ";".intercalate (o.map showRow)

def showDim (d : DimInfo) : String :=
  ",".intercalate (d.map (fun x => match x with | none => "_" | some k => toString k))

def showErr : PyErr → String
  | .index => "ERR:IndexError"
  | .value => "ERR:ValueError"
  | .orientation => "ERR:OrientationError"

def showReor (shape : List Nat) (r : ReorOut) : String :=
  "same=" ++ (if r.same then "1" else "0") ++ " " ++ showList r.shape ++ " " ++ showList r.affine.toList ++
    " " ++ showList (r.data shape) ++ " " ++ showDim r.dimInfo

/-- rows of a q x p matrix given flat (row major) -/
def toRows (p : Nat) : Nat → List Int → List (List Int)
  | 0, _ => []
  | q + 1, l => l.take p :: toRows p q (l.drop p)

/-- orientation accepted by `reor`: NaN rows present, or a valid 3-row signed permutation -/
def reorAcceptable (o : OrntN) : Bool :=
  match o.toOrnt with
  | none => o.length == 3
  | some oo => oo.length == 3 && oo.valid

def parseFD? (c : Char) : Option FD :=
  if c = '2' then some .f2 else if c = '4' then some .f4 else if c = '8' then some .f8 else none

def parseKind? (s : String) : Option (Bool × Option FD) :=
  if s = "p" then some (true, none)
  else if s = "a" then some (false, none)
  else if s = "a2" then some (false, some .f2)
  else if s = "a4" then some (false, some .f4)
  else if s = "a8" then some (false, some .f8)
  else none

/-- the in-place edits of the protocol: `e` = C-order reversal, `o` = rotation by one
    (`a[...] = np.roll(a.ravel(), -1).reshape(a.shape)`), `-` = none -/
def parseEdit? (e : Char) : Option (Option (List Nat → List Nat)) :=
  if e = 'e' then some (some List.reverse)
  else if e = 'o' then some (some (fun l => l.rotateLeft 1))
  else if e = '-' then some none else none

def parseHStep? (s : String) : Option (HStep Nat) :=
  match s.toList with
  | ['u'] => some .uncache
  | ['g', d, c, e] =>
      match parseFD? d, (if c = 'f' then some true else if c = 'u' then some false else none), parseEdit? e with
      | some dt, some fill, some edit => some (.getFdata dt fill edit)
      | _, _, _ => none
  | _ => none

def parseHist? (s : String) : Option (List (HStep Nat)) :=
  if s = "-" then some [] else (s.splitOn ";").mapM parseHStep?

def showCache : Option (FCache Nat) → String
  | none => "cache=none"
  | some c => "cache=" ++ (match c.dt with | .f2 => "f2" | .f4 => "f4" | .f8 => "f8") ++ (if c.alias then "a" else "")

/-- the image after the history: kind, number of elements, steps -/
def histState (kind : Bool × Option FD) (shape : List Nat) (h : List (HStep Nat)) : ImgSt Nat :=
  (ImgSt.init kind.1 kind.2 (prodN shape)).run (fun _ k => k) h

def showReorH (shape : List Nat) (r : ReorOut) (st : ImgSt Nat) : String :=
  "same=" ++ (if r.same then "1" else "0") ++ " " ++ showList r.shape ++ " " ++ showList r.affine.toList ++
    " " ++ showList (st.values .dataobj (r.data shape)) ++ " " ++ showDim r.dimInfo ++ " " ++ showCache st.cache

def handle : List String → String
  | ["hslice", shape, aff, idx, kind, hist] =>
      match parseNatList? shape, parseAff? aff, parseIdx? idx, parseKind? kind, parseHist? hist with
      | some shape, some A, some idx, some kind, some hist =>
          match slicer A shape idx with
          | .ok o =>
              let st := histState kind shape hist
              "ok " ++ showList o.shape ++ " " ++ showList o.affine.toList ++ " " ++
                showList (st.values .dataobj (o.data shape)) ++ " " ++ showCache st.cache
          | .error e => showErr e
      | _, _, _, _, _ => "bad-op"
  | ["hreor", shape, aff, ornt, dim, kind, hist] =>
      match parseNatList? shape, parseAff? aff, parseOrntN? ornt, parseDim? dim, parseKind? kind, parseHist? hist with
      | some shape, some A, some o, some d, some kind, some hist =>
          if !reorAcceptable o || shape.length < 3 then "bad-op" else
          match asReoriented A shape d o with
          | .ok r => "ok " ++ showReorH shape r (histState kind shape hist)
          | .error e => showErr e
      | _, _, _, _, _, _ => "bad-op"
  | ["hcanon", shape, aff, rr, tol, dim, enf, kind, hist] =>
      match parseNatList? shape, parseAff? aff, parseIntList? rr, tol.toNat?, parseDim? dim,
            (if enf = "0" then some false else if enf = "1" then some true else none), parseKind? kind,
            parseHist? hist with
      | some shape, some A, some rr, some tol, some d, some enf, some kind, some hist =>
          if rr.length ≠ 9 || shape.length < 3 then "bad-op" else
          match asClosestCanonical A shape d (toRows 3 3 rr) tol enf with
          | .ok (o, r) => "ok " ++ showOrntN o ++ " " ++ showReorH shape r (histState kind shape hist)
          | .error e => showOrntN (ioOrientation (toRows 3 3 rr) 3 tol) ++ " " ++ showErr e
      | _, _, _, _, _, _, _, _ => "bad-op"
  | ["slice", shape, aff, idx] =>
      match parseNatList? shape, parseAff? aff, parseIdx? idx with
      | some shape, some A, some idx =>
          match slicer A shape idx with
          | .ok o => "ok " ++ showList o.shape ++ " " ++ showList o.affine.toList ++ " " ++ showList (o.data shape)
          | .error e => showErr e
      | _, _, _ => "bad-op"
  | ["reor", shape, aff, ornt, dim] =>
      match parseNatList? shape, parseAff? aff, parseOrntN? ornt, parseDim? dim with
      | some shape, some A, some o, some d =>
          if !reorAcceptable o || shape.length < 3 then "bad-op" else
          match asReoriented A shape d o with
          | .ok r => "ok " ++ showReor shape r
          | .error e => showErr e
      | _, _, _, _ => "bad-op"
  | ["canon", shape, aff, rr, tol, dim, enf] =>
      match parseNatList? shape, parseAff? aff, parseIntList? rr, tol.toNat?, parseDim? dim,
            (if enf = "0" then some false else if enf = "1" then some true else none) with
      | some shape, some A, some rr, some tol, some d, some enf =>
          if rr.length ≠ 9 || shape.length < 3 then "bad-op" else
          match asClosestCanonical A shape d (toRows 3 3 rr) tol enf with
          | .ok (o, r) => "ok " ++ showOrntN o ++ " " ++ showReor shape r
          | .error e => showOrntN (ioOrientation (toRows 3 3 rr) 3 tol) ++ " " ++ showErr e
      | _, _, _, _, _, _ => "bad-op"
  | ["ioor", q, p, rr, tol] =>
      match q.toNat?, p.toNat?, parseIntList? rr, tol.toNat? with
      | some q, some p, some rr, some tol =>
          if rr.length ≠ q * p then "bad-op" else showOrntN (ioOrientation (toRows p q rr) p tol)
      | _, _, _, _ => "bad-op"
  | ["orn2ax", ornt] =>
      match parseOrntN? ornt with
      | some o => match ornt2axcodes o with
          | .ok cs => if cs.isEmpty then "-" else String.ofList (cs.map (fun c => c.getD '_'))
          | .error e => showErr e
      | none => "bad-op"
  | ["ax2orn", codes] =>
      match parseCodes? codes with
      | some cs => match axcodes2ornt cs with
          | .ok o => showOrntN o
          | .error e => showErr e
      | none => "bad-op"
  | ["otrans", a, b] =>
      match parseOrnt? a, parseOrnt? b with
      | some a, some b => match orntTransform a b with
          | .ok o => if o.any (·.isNone) then "bad-op" else showOrntN o
          | .error e => showErr e
      | _, _ => "bad-op"
  | ["invaff", ornt, shape] =>
      match parseOrnt? ornt, parseNatList? shape with
      | some o, some shape =>
          if !(o.length == 3 && o.valid) || shape.length < 3 then "bad-op" else
          match invOrntAff o shape with
          | some M => showList M.toList
          | none => "bad-op"
      | _, _ => "bad-op"
  | _ => "bad-op"

end Nb.Drv.C05

def main : IO Unit := Nb.Drv.runDriver "C05" Nb.Drv.C05.handle
