import NibabelModel.Model.C05
import Driver.Util
/-! Line-protocol driver for C05: `C05 <op> <args...>` -> one observable line. -/
namespace Nb.Drv.C05

def handle : List String → String
  | _ => "bad-op"

end Nb.Drv.C05

def main : IO Unit := Nb.Drv.runDriver "C05" Nb.Drv.C05.handle
