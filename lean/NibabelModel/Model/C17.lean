/-! Model/C17 — executable model for C17 "GIFTI images round-trip through XML for every encoding"
    (core Lean only).

    Three parts, each citing the Python it models (line numbers of the pinned tree after the `fix:` commits):

    (a) container operations of `GiftiImage` on the list `darrays`            gifti/gifti.py:663-821
    (b) the parser's event machine incl. character-data collation            gifti/parse_gifti_fast.py:143-400
    (c) `read_data_block` (decode a <Data> payload)                           gifti/parse_gifti_fast.py:37-135
        and its writer-side counterpart `_data_tag_element`                   gifti/gifti.py:380-400

    Scope of (b): documents with ONE <GIFTI> element (a nested second <GIFTI> would leave `self.da`/`self.coordsys`
    pointing into the abandoned image; not modelled).  Every Python exception is one outcome `Err.other` (only
    IndexError of list.pop is kept apart); warnings (NumberOfDataArrays mismatch) are not modelled.  float()/int()
    of attribute text is modelled on canonical spellings only (`pyInt`; Label colours are kept as text).

    External (NOT modelled, enter as parameters `Ext` with a written contract): base64, zlib, conversion of one
    ASCII number token to a value of the array dtype (np.loadtxt), expat itself (the model starts at the handler
    calls expat makes).  Code tables (`Recoder`s) enter as the parameter `Codes`, instantiated by the REGENERATED
    file Generated/C17Codes.lean. -/
namespace Nb.C17

/-- character data / attribute values: a Python `str` as its list of code points -/
abbrev Text := List Char

inductive Err where
  | index    -- IndexError (list.pop out of range)
  | other    -- any other exception of the real code (GiftiParseError, KeyError, ValueError, AttributeError …)
deriving DecidableEq, Repr

/-! ## (a) container operations ------------------------------------------------------------------- -/

/-- a data array as far as the container operations are concerned: object identity + intent code -/
structure DA where
  id : Nat
  intent : Nat
deriving DecidableEq, Repr

/-- `add_gifti_data_array` (gifti.py:663-672): `self.darrays.append(dataarr)` -/
def addArray (l : List DA) (d : DA) : List DA := l ++ [d]

/-- `remove_gifti_data_array(ith)` (gifti.py:674-676): `self.darrays.pop(ith)`; Python index semantics
    (negative counts from the end, out of range raises IndexError). -/
def removeAt (l : List DA) (i : Int) : Except Err (List DA) :=
  let n : Int := l.length
  let j : Int := if i < 0 then i + n else i
  if j < 0 ∨ n ≤ j then .error .index else .ok (l.eraseIdx j.toNat)

/-- `remove_gifti_data_array_by_intent` as it is NOW (gifti.py:678-681):
    `self.darrays[:] = [d for d in self.darrays if d.intent != intent2remove]` -/
def removeByIntent (l : List DA) (it : Nat) : List DA := l.filter (fun d => d.intent != it)

/-- Python `for x in l: if p x: l.remove(x)` — the list iterator keeps an INDEX `i`; each round reads `l[i]`
    (stop when `i ≥ len l`), advances `i`, and `l.remove(x)` deletes the FIRST element equal to `x`.
    `fuel` bounds the number of rounds (`len l + 1` always suffices: `i` grows, `len l` never does). -/
def origLoop {α} [BEq α] (p : α → Bool) : Nat → List α → Nat → List α
  | 0, l, _ => l
  | fuel + 1, l, i =>
    match l[i]? with
    | none => l
    | some x => if p x then origLoop p fuel (l.erase x) (i + 1) else origLoop p fuel l (i + 1)

/-- the ORIGINAL (pre-fix) `remove_gifti_data_array_by_intent`:
    `for dele in self.darrays: if dele.intent == intent2remove: self.darrays.remove(dele)` -/
def removeByIntentOrig (l : List DA) (it : Nat) : List DA :=
  origLoop (fun d => d.intent == it) (l.length + 1) l 0

/-- what the original loop computes on duplicate-free lists: the element after each removed one is skipped
    (kept without being looked at) -/
def skipAfterRemoval {α} (p : α → Bool) : List α → List α
  | [] => []
  | x :: xs =>
    if p x then
      match xs with
      | [] => []
      | y :: ys => y :: skipAfterRemoval p ys
    else x :: skipAfterRemoval p xs

/-- `get_arrays_from_intent` (gifti.py:683-686): `[x for x in self.darrays if x.intent == it]` -/
def getArraysFromIntent (l : List DA) (it : Nat) : List DA := l.filter (fun d => d.intent == it)

/-- shape of the value `agg_data` returns (gifti.py:811-821) -/
inductive Agg where
  | stack (ids : List Nat)    -- np.column_stack of the selected arrays (all intents are TIME_SERIES)
  | single (id : Nat)         -- exactly one array selected: that array itself
  | tuple (ids : List Nat)    -- tuple of the selected arrays, in image order
deriving DecidableEq, Repr

def Agg.ids : Agg → List Nat
  | .stack l => l
  | .single i => [i]
  | .tuple l => l

/-- the arrays `agg_data(intent_code)` aggregates (gifti.py:811) -/
def aggSel (l : List DA) (code : Option Nat) : List DA :=
  match code with
  | none => l
  | some c => getArraysFromIntent l c

/-- how the selected arrays are returned (gifti.py:812-821); `ts` = code of NIFTI_INTENT_TIME_SERIES -/
def aggOf (ts : Nat) (ds : List DA) : Agg :=
  if ds ≠ [] ∧ ds.all (fun d => d.intent == ts) then .stack (ds.map (·.id))
  else match ds with
    | [d] => .single d.id
    | _ => .tuple (ds.map (·.id))

/-- `agg_data(intent_code)` for a non-tuple argument (gifti.py:811-821) -/
def aggOne (ts : Nat) (l : List DA) (code : Option Nat) : Agg := aggOf ts (aggSel l code)

/-- `agg_data(tuple_of_codes)` (gifti.py:808-809): one result per code, in the order asked -/
def aggTuple (ts : Nat) (l : List DA) (codes : List Nat) : List Agg := codes.map (fun c => aggOne ts l (some c))

/-! ### the intent ARGUMENT of the container methods (`intent_codes.code[intent]`, a `Recoder` lookup) -------- -/

/-- what the caller may pass as an intent: the integer code (0 = NIFTI_INTENT_NONE, the default intent of
    `GiftiDataArray`, is a valid — and falsy — code) or one of the string aliases (label / niistring) -/
inductive IntentArg where
  | code (n : Nat)
  | name (s : Text)
deriving DecidableEq, Repr

/-- tables the `Recoder` lookup `intent_codes.code[key]` consults (volumeutils.Recoder: every field value of every
    row is a key): `strs` string alias → code, `ints` the integer codes.  `none` = KeyError. -/
def resolveIntentIn (strs : List (String × Nat)) (ints : List Nat) : IntentArg → Option Nat
  | .code n => if ints.contains n then some n else none
  | .name s => (strs.find? (fun p => p.1 == String.ofList s)).map (·.2)

/-- `GiftiDataArray(data, intent=…)` (gifti.py:457-475) as far as the container is concerned: the new object `id`
    with `self.intent = intent_codes.code[intent]`; no argument = the default `'NIFTI_INTENT_NONE'` (its code is the
    regenerated `dflt`).  `none` = KeyError, no object is created. -/
def newArrayIn (strs : List (String × Nat)) (ints : List Nat) (dflt : Nat) (id : Nat) : Option IntentArg → Option DA
  | none => some ⟨id, dflt⟩
  | some a => (resolveIntentIn strs ints a).map (fun c => ⟨id, c⟩)

/-- `remove_gifti_data_array_by_intent(intent)` (gifti.py:683-686) with the lookup; a KeyError leaves the image
    untouched (the lookup is the first statement) -/
def removeByIntentArgIn (strs : List (String × Nat)) (ints : List Nat) (l : List DA) (a : IntentArg) :
    Except Err (List DA) :=
  match resolveIntentIn strs ints a with
  | some c => .ok (removeByIntent l c)
  | none => .error .other

/-- `get_arrays_from_intent(intent)` (gifti.py:688-691) with the lookup -/
def getArraysFromIntentArgIn (strs : List (String × Nat)) (ints : List Nat) (l : List DA) (a : IntentArg) :
    Except Err (List DA) :=
  match resolveIntentIn strs ints a with
  | some c => .ok (getArraysFromIntent l c)
  | none => .error .other

/-- `agg_data(intent_code)` for a non-tuple argument (gifti.py:816-826): ONLY `None` means "all arrays"
    (`self.darrays if intent_code is None else self.get_arrays_from_intent(intent_code)`) — the integer code 0 is an
    intent like any other. -/
def aggDataIn (strs : List (String × Nat)) (ints : List Nat) (ts : Nat) (l : List DA) : Option IntentArg → Except Err Agg
  | none => .ok (aggOne ts l none)
  | some a =>
    match resolveIntentIn strs ints a with
    | some c => .ok (aggOne ts l (some c))
    | none => .error .other

/-- `agg_data(tuple)` (gifti.py:813-814): `tuple(self.agg_data(intent_code=code) for code in intent_code)` — one
    result per element in the order asked; an element may itself be `None` (all arrays); the first KeyError aborts. -/
def aggDataTupleIn (strs : List (String × Nat)) (ints : List Nat) (ts : Nat) (l : List DA)
    (as : List (Option IntentArg)) : Except Err (List Agg) :=
  as.mapM (aggDataIn strs ints ts l)

/-! ## byte codec and index order (used by (c)) ---------------------------------------------------- -/

/-- little-endian bytes of the `w`-byte bit pattern `v` -/
def encLE : Nat → Nat → List Nat
  | 0, _ => []
  | w + 1, v => (v % 256) :: encLE w (v / 256)

def decLE : List Nat → Nat
  | [] => 0
  | b :: bs => b + 256 * decLE bs

def encElem (big : Bool) (w v : Nat) : List Nat := if big then (encLE w v).reverse else encLE w v
def decElem (big : Bool) (bs : List Nat) : Nat := decLE (if big then bs.reverse else bs)

/-- `n` consecutive groups of `w` bytes -/
def splitEvery (w : Nat) : Nat → List Nat → List (List Nat)
  | 0, _ => []
  | n + 1, bs => bs.take w :: splitEvery w n (bs.drop w)

/-- `np.frombuffer(buff, dtype)` for an itemsize-`w` dtype of byte order `big`: the flat element list
    (bit patterns); ValueError when the buffer is not a whole number of elements -/
def fromBuffer (big : Bool) (w : Nat) (bs : List Nat) : Except Err (List Nat) :=
  if w = 0 ∨ bs.length % w ≠ 0 then .error .other
  else .ok ((splitEvery w (bs.length / w) bs).map (decElem big))

/-- bytes of a flat element list -/
def toBytes (big : Bool) (w : Nat) (vals : List Nat) : List Nat := vals.flatMap (encElem big w)

def prod : List Nat → Nat
  | [] => 1
  | n :: ns => n * prod ns

/-- C-order (row-major) flat position ↔ multi-index -/
def unravelC : List Nat → Nat → List Nat
  | [], _ => []
  | _ :: ns, k => (k / prod ns) :: unravelC ns (k % prod ns)

def ravelC : List Nat → List Nat → Nat
  | _ :: ns, i :: is => i * prod ns + ravelC ns is
  | _, _ => 0

/-- F-order (column-major) flat position ↔ multi-index -/
def unravelF : List Nat → Nat → List Nat
  | [], _ => []
  | n :: ns, k => (k % n) :: unravelF ns (k / n)

def ravelF : List Nat → List Nat → Nat
  | n :: ns, i :: is => i + n * ravelF ns is
  | _, _ => 0

/-- An array is (shape, elements listed in C order).  `toOrder colMajor shape elems` = the elements in the order
    `ndarray.tobytes(order)` / `ravel(order)` emits them. -/
def toOrder (colMajor : Bool) (shape : List Nat) (elems : List Nat) : List Nat :=
  if colMajor then (List.range (prod shape)).map (fun k => elems.getD (ravelC shape (unravelF shape k)) 0)
  else elems

/-- `flat.reshape(shape, order=…)`, result listed in C order -/
def fromOrder (colMajor : Bool) (shape : List Nat) (flat : List Nat) : List Nat :=
  if colMajor then (List.range (prod shape)).map (fun j => flat.getD (ravelF shape (unravelC shape j)) 0)
  else flat

/-! ## code tables (Recoders), external functions --------------------------------------------------- -/

/-- The `Recoder` tables the parser consults.  Each alias table maps every STRING alias the recoder accepts
    to the code (`recoder.code[str]`); regenerated from the source into Generated/C17Codes.lean. -/
structure Codes where
  intent : List (String × Nat)          -- nifti1.intent_codes: label and niistring → code
  intentCodes : List Nat                -- nifti1.intent_codes: the integer codes themselves (also keys of `.code`)
  dtype : List (String × Nat)           -- nifti1.data_type_codes: label and niistring → code
  dtinfo : List (Nat × Nat × Char)      -- data type code → (itemsize, numpy kind) for the numeric u/i/f types
  xform : List (String × Nat)           -- nifti1.xform_codes
  order : List (String × Nat)           -- gifti.util.array_index_order_codes (label, npcode)
  encoding : List (String × Nat)        -- gifti_encoding_codes (label, giistring, specs)
  endian : List (String × Nat)          -- gifti_endian_codes (giistring, specs, byteorder)
  encAscii : Nat
  encB64 : Nat
  encGz : Nat
  encExt : Nat
  endBig : Nat
  endLittle : Nat
  ordRow : Nat
  ordCol : Nat
  timeSeries : Nat
  /-- defaults of `GiftiDataArray()` (gifti.py:453-497): intent, datatype, encoding, endian (sys.byteorder), ind_ord -/
  daDefaults : Nat × Nat × Nat × Nat × Nat

def lookup (tbl : List (String × Nat)) (s : Text) : Option Nat :=
  (tbl.find? (fun p => p.1 == String.ofList s)).map (·.2)

/-- the container methods over the regenerated tables -/
def resolveIntent (K : Codes) : IntentArg → Option Nat := resolveIntentIn K.intent K.intentCodes
def newArray (K : Codes) : Nat → Option IntentArg → Option DA := newArrayIn K.intent K.intentCodes K.daDefaults.1
def removeByIntentArg (K : Codes) := removeByIntentArgIn K.intent K.intentCodes
def getArraysFromIntentArg (K : Codes) := getArraysFromIntentArgIn K.intent K.intentCodes
def aggData (K : Codes) := aggDataIn K.intent K.intentCodes K.timeSeries
def aggDataTuple (K : Codes) := aggDataTupleIn K.intent K.intentCodes K.timeSeries

/-- external functions with their contracts (see Props/C17: `Ext.Good`) -/
structure Ext where
  /-- base64.b64decode; none = binascii.Error -/
  b64dec : Text → Option (List Nat)
  /-- zlib.decompress; none = zlib.error -/
  inflate : List Nat → Option (List Nat)
  /-- one whitespace-free ASCII token → bit pattern of the value in a dtype of (kind, itemsize); none = ValueError -/
  parseNum : Char → Nat → Text → Option Nat

/-! ## (c) read_data_block ----------------------------------------------------------------------------- -/

/-- decoded array: data type code, shape, elements (bit patterns, listed in C order) -/
structure Arr where
  dt : Nat
  shape : List Nat
  elems : List Nat
deriving DecidableEq, Repr

def isAsciiSpace (c : Char) : Bool :=
  c == ' ' || c == '\t' || c == '\n' || c == '\r' || c == '\x0b' || c == '\x0c'

/-- split on runs of ASCII whitespace (no empty tokens) -/
def splitWs (t : Text) : List Text :=
  let rec go : List Char → List Char → List Text
    | [], cur => if cur.isEmpty then [] else [cur.reverse]
    | c :: cs, cur =>
      if isAsciiSpace c then (if cur.isEmpty then go cs [] else cur.reverse :: go cs [])
      else go cs (c :: cur)
  go t []

def splitLines (t : Text) : List Text :=
  let rec go : List Char → List Char → List Text
    | [], cur => [cur.reverse]
    | c :: cs, cur => if c == '\n' then cur.reverse :: go cs [] else go cs (c :: cur)
  go t []

/-- `np.loadtxt(StringIO(data), ndmin=1)` up to number conversion: the non-blank rows of tokens; all rows must
    have the same number of columns (ValueError otherwise) -/
def loadRows (t : Text) : Except Err (List (List Text)) :=
  let rows := (splitLines t).map splitWs |>.filter (fun r => !r.isEmpty)
  match rows with
  | [] => .ok []
  | r :: rs => if rs.all (fun r' => r'.length == r.length) then .ok rows else .error .other

/-- fields of a `GiftiDataArray` that `read_data_block` reads -/
structure BlockSpec where
  encoding : Nat
  endian : Nat
  datatype : Nat
  dims : List Nat
  indOrd : Nat

/-- byte order of the declared endian code (:76-77; the 'undef' code makes `newbyteorder` raise) -/
def endianOf (K : Codes) (e : Nat) : Option Bool :=
  if e == K.endBig then some true else if e == K.endLittle then some false else none

/-- numpy order of the ArrayIndexingOrder code (:80); true = 'F' -/
def orderOf (K : Codes) (o : Nat) : Option Bool :=
  if o == K.ordCol then some true else if o == K.ordRow then some false else none

/-- :83-84 `np.loadtxt(StringIO(data), dtype, ndmin=1).reshape(shape, order=order)`; StringIO(None) is empty.
    The loaded table has shape (rows, cols) (squeezed by loadtxt, which does not change either ravel order). -/
def decodeAscii (X : Ext) (kind : Char) (w : Nat) (col : Bool) (dims : List Nat) (dt : Nat)
    (data : Option Text) : Except Err Arr :=
  match loadRows (data.getD []) with
  | .error e => .error e
  | .ok rows =>
    let ncol := (rows.head?.map List.length).getD 0
    match rows.flatten.mapM (X.parseNum kind w) with
    | none => .error .other
    | some vals =>
      let flat := toOrder col [rows.length, ncol] vals
      if flat.length ≠ prod dims then .error .other
      else .ok ⟨dt, dims, fromOrder col dims flat⟩

/-- :128-135 `base64.b64decode(data.encode('ascii'))` (data=None raises AttributeError), `zlib.decompress`
    unless B64BIN, `np.frombuffer(buff, dtype).reshape(shape, order=order)` -/
def decodeBinary (X : Ext) (gz big : Bool) (w : Nat) (col : Bool) (dims : List Nat) (dt : Nat)
    (data : Option Text) : Except Err Arr :=
  match data with
  | none => .error .other
  | some txt =>
    match X.b64dec txt with
    | none => .error .other
    | some dec =>
      match (if gz then X.inflate dec else some dec) with
      | none => .error .other
      | some buff =>
        match fromBuffer big w buff with
        | .error e => .error e
        | .ok flat =>
          if flat.length ≠ prod dims then .error .other
          else .ok ⟨dt, dims, fromOrder col dims flat⟩

/-- `read_data_block(darray, fname=None, data, mmap)` (parse_gifti_fast.py:37-135) for in-memory XML. -/
def readDataBlock (K : Codes) (X : Ext) (s : BlockSpec) (data : Option Text) : Except Err Arr :=
  -- :70-73 encoding label must be one of ASCII, B64BIN, B64GZ, External
  if !(s.encoding == K.encAscii || s.encoding == K.encB64 || s.encoding == K.encGz || s.encoding == K.encExt) then
    .error .other
  else
    match endianOf K s.endian, K.dtinfo.find? (fun r => r.1 == s.datatype), orderOf K s.indOrd with
    | some big, some (_, w, kind), some col =>
      if s.encoding == K.encAscii then decodeAscii X kind w col s.dims s.datatype data
      else if s.encoding == K.encExt then .error .other      -- :89-93 refused for in-memory XML
      else decodeBinary X (s.encoding != K.encB64) big w col s.dims s.datatype data
    | _, _, _ => .error .other

/-- writer side, `_data_tag_element` (gifti.py:380-400) for the Base64 encodings:
    `np.asanyarray(dataarray, dtype).tobytes(order)`, optionally `zlib.compress`, then `base64.b64encode`.
    `big` is the byte order of the machine that writes (the real writer always uses and declares the native
    order, gifti.py:508); `b64enc`/`deflate` are the external encoders. -/
def writeDataBlock (b64enc : List Nat → Text) (deflate : List Nat → List Nat)
    (gz : Bool) (big : Bool) (w : Nat) (col : Bool) (shape : List Nat) (elems : List Nat) : Text :=
  let out := toBytes big w (toOrder col shape elems)
  b64enc (if gz then deflate out else out)

/-- The array the writer is handed lives in MEMORY with its own dtype byte order (`memBig`; e.g. '>i4' after
    loading a document that declared BigEndian, or user-supplied non-native data): `mem` are its element bytes in
    C order.  `np.asanyarray(dataarray, dtype)` (gifti.py:393, `dtype` = the native dtype of the declared data
    type) converts by VALUE, so what reaches `tobytes(order)` are the element values re-encoded in the machine
    order `big` — the bytes written never depend on `memBig`. -/
def writeDataBlockMem (b64enc : List Nat → Text) (deflate : List Nat → List Nat)
    (gz : Bool) (big : Bool) (w : Nat) (col : Bool) (shape : List Nat) (memBig : Bool) (mem : List Nat) :
    Except Err Text :=
  match fromBuffer memBig w mem with
  | .ok vals => .ok (writeDataBlock b64enc deflate gz big w col shape vals)
  | .error e => .error e

/-- the bytes `_data_tag_element` hands to zlib/base64 (observable of the `wblock` correspondence stream) -/
def writerBytes (big : Bool) (w : Nat) (col : Bool) (shape : List Nat) (memBig : Bool) (mem : List Nat) :
    Except Err (List Nat) :=
  match fromBuffer memBig w mem with
  | .ok vals => .ok (toBytes big w (toOrder col shape vals))
  | .error e => .error e

/-- a concrete executable base64 decoder (what the driver plugs into `Ext.b64dec`): characters outside the
    alphabet are discarded (Python's non-validating mode), `=` ends the data; wrong length/padding = error -/
def b64val (c : Char) : Option Nat :=
  if 'A' ≤ c ∧ c ≤ 'Z' then some (c.toNat - 65)
  else if 'a' ≤ c ∧ c ≤ 'z' then some (c.toNat - 97 + 26)
  else if '0' ≤ c ∧ c ≤ '9' then some (c.toNat - 48 + 52)
  else if c == '+' then some 62
  else if c == '/' then some 63
  else none

def b64groups : List Nat → List Nat
  | a :: b :: c :: d :: rest =>
    let v := ((a * 64 + b) * 64 + c) * 64 + d
    (v / 65536) :: (v / 256 % 256) :: (v % 256) :: b64groups rest
  | [a, b, c] => let v := (a * 64 + b) * 64 + c; [v / 1024, v / 4 % 256]
  | [a, b] => [(a * 64 + b) / 16]
  | _ => []

def b64decode (t : Text) : Option (List Nat) :=
  let sig := t.filter (fun c => (b64val c).isSome || c == '=')
  let body := sig.takeWhile (· != '=')
  let pad := (sig.dropWhile (· != '=')).takeWhile (· == '=') |>.length
  let sx := body.filterMap b64val
  let r := sx.length % 4
  if r == 1 then none
  else if r == 0 then some (b64groups sx)
  else if pad + r ≥ 4 then some (b64groups sx)
  else none

/-! ## (b) the parser event machine ------------------------------------------------------------------ -/

/-- what expat delivers to the three handlers (xmlutils.py:107-109) -/
inductive Event where
  | start (tag : String) (attrs : List (String × Text))
  | chars (chunk : Text)
  | stop (tag : String)
deriving Repr

/-- `GiftiMetaData` = insertion-ordered dict str → str -/
abbrev MD := List (Text × Text)

def MD.set : MD → Text → Text → MD
  | [], k, v => [(k, v)]
  | (k', v') :: rest, k, v => if k' = k then (k', v) :: rest else (k', v') :: MD.set rest k v

structure Label where
  key : Int := 0
  red : Option Text := none       -- the attribute text; float() of it is external
  green : Option Text := none
  blue : Option Text := none
  alpha : Option Text := none
  label : Option Text := none     -- attribute `label` exists only after character data was flushed
deriving Repr

structure CoordSys where
  dataspace : Nat := 0
  xformspace : Nat := 0
  /-- rows of float64 bit patterns as np.loadtxt reads them; `none` = the constructor's np.identity(4) -/
  xform : Option (List (List Nat)) := none
deriving Repr

structure DArr where
  intent : Nat
  datatype : Nat
  indOrd : Nat
  encoding : Nat
  endian : Nat
  dims : List Nat := []
  extFname : Text := []
  extOffset : Int := 0
  dmeta : Option MD := some []
  coordsys : CoordSys := {}
  data : Option Arr := none
deriving Repr

structure Img where
  version : Text := ['1', '.', '0']
  gmeta : MD := []
  /-- `labeltable.labels`; `none` = the Python `None` a stray `</Label>` appends (:332) -/
  labels : List (Option Label) := []
  darrays : List DArr := []
deriving Repr

inductive WriteTo where
  | none | name | value | label | dataSpace | transformedSpace | matrixData | data
deriving DecidableEq, Repr

/-- parser attributes (parse_gifti_fast.py:144-170) -/
structure PState where
  img : Option Img := none
  fsm : List String := []
  nvpair : Option (Text × Text) := none
  /-- `self.da`: always the object appended last to `img.darrays`, hence "is some" + last element of the list -/
  haveDa : Bool := false
  /-- `self.coordsys`: the object lives in `img.darrays[idx].coordsys`; we keep the owner's index -/
  coordsys : Option Nat := none
  lata : Option (List (Option Label)) := none
  label : Option Label := none
  metaGlobal : Option MD := none
  metaDa : Option MD := none
  writeTo : WriteTo := .none
  /-- `self._char_blocks` -/
  blocks : Option (List Text) := none
deriving Repr

/-- Python `str.isspace` for one code point (what `str.strip()` removes) -/
def isPySpace (c : Char) : Bool :=
  let n := c.toNat
  (9 ≤ n && n ≤ 13) || (28 ≤ n && n ≤ 32) || n == 0x85 || n == 0xa0 || n == 0x1680 ||
  (0x2000 ≤ n && n ≤ 0x200a) || n == 0x2028 || n == 0x2029 || n == 0x202f || n == 0x205f || n == 0x3000

def strip (t : Text) : Text := ((t.dropWhile isPySpace).reverse.dropWhile isPySpace).reverse

/-- Python `int(str)` on the canonical decimal spellings the writer produces -/
def pyInt (t : Text) : Option Int := (String.ofList (strip t)).toInt?

def attr (attrs : List (String × Text)) (k : String) : Option Text := (attrs.find? (·.1 == k)).map (·.2)

def modifyLast {α} (f : α → α) : List α → List α
  | [] => []
  | [x] => [f x]
  | x :: xs => x :: modifyLast f xs

def modifyAt {α} (f : α → α) : List α → Nat → List α
  | [], _ => []
  | x :: xs, 0 => f x :: xs
  | x :: xs, i + 1 => x :: modifyAt f xs i

/-- `CharacterDataHandler` (parse_gifti_fast.py:336-347): append the chunk -/
def onChars (st : PState) (c : Text) : PState :=
  { st with blocks := some (st.blocks.getD [] ++ [c]) }

/-- `''.join(self._char_blocks)` or None -/
def joined (st : PState) : Option Text := st.blocks.map List.flatten

/-- body of `flush_chardata` (:349-395) after the collector has been read and reset:
    `st` has `blocks = none`, `data` is the joined text (None when nothing was collected) -/
def flushCore (K : Codes) (X : Ext) (st : PState) (data : Option Text) : Except Err PState :=
  -- :353 nothing to do for empty elements, except <Data>
  if st.writeTo ≠ .data ∧ data = none then .ok st
  else
    let txt := data.getD []     -- in every branch but `data` the text is non-None here
    match st.writeTo with
    | .none => .ok st
    | .name =>
      match st.nvpair with
      | some (_, v) => .ok { st with nvpair := some (strip txt, v) }
      | none => .error .other
    | .value =>
      match st.nvpair with
      | some (k, _) => .ok { st with nvpair := some (k, strip txt) }
      | none => .error .other
    | .dataSpace =>
      match st.coordsys, st.img, lookup K.xform (strip txt) with
      | some idx, some img, some code =>
        .ok { st with img := some { img with darrays := modifyAt (fun d => { d with coordsys := { d.coordsys with dataspace := code } }) img.darrays idx } }
      | _, _, _ => .error .other
    | .transformedSpace =>
      match st.coordsys, st.img, lookup K.xform (strip txt) with
      | some idx, some img, some code =>
        .ok { st with img := some { img with darrays := modifyAt (fun d => { d with coordsys := { d.coordsys with xformspace := code } }) img.darrays idx } }
      | _, _, _ => .error .other
    | .matrixData =>
      -- np.loadtxt(StringIO(data)) with the default float64: every token must be a number
      match st.coordsys, st.img, loadRows txt with
      | some idx, some img, .ok rows =>
        match rows.mapM (fun r => r.mapM (X.parseNum 'f' 8)) with
        | none => .error .other
        | some vals => .ok { st with img := some { img with darrays := modifyAt (fun d => { d with coordsys := { d.coordsys with xform := some vals } }) img.darrays idx } }
      | _, _, _ => .error .other
    | .data =>
      match st.haveDa, st.img with
      | true, some img =>
        match img.darrays.getLast? with
        | some d =>
          match readDataBlock K X ⟨d.encoding, d.endian, d.datatype, d.dims, d.indOrd⟩ data with
          | .ok arr => .ok { st with img := some { img with darrays := modifyLast (fun d => { d with data := some arr }) img.darrays } }
          | .error e => .error e
        | none => .error .other
      | _, _ => .error .other
    | .label =>
      match st.label with
      | some l => .ok { st with label := some { l with label := some (strip txt) } }
      | none => .error .other

/-- `flush_chardata` (:349-395) -/
def flush (K : Codes) (X : Ext) (st : PState) : Except Err PState :=
  flushCore K X { st with blocks := none } (joined st)

def optInt (o : Option Text) : Except Err (Option Int) :=
  match o with
  | none => .ok none
  | some t => match pyInt t with
    | some i => .ok (some i)
    | none => .error .other

def optCode (tbl : List (String × Nat)) (o : Option Text) (dflt : Nat) : Except Err Nat :=
  match o with
  | none => .ok dflt
  | some t => match lookup tbl t with
    | some c => .ok c
    | none => .error .other

/-- dims: `for i in range(num_dim): if f'Dim{i}' in attrs: dims.append(int(attrs[..]))`, then
    `assert len(dims) == num_dim` (:237-244) -/
def readDims (attrs : List (String × Text)) (numDim : Nat) : Except Err (List Nat) :=
  (List.range numDim).mapM (fun i =>
    match attr attrs ("Dim" ++ toString i) with
    | some t => match pyInt t with
      | some v => if 0 ≤ v then .ok v.toNat else .error .other
      | none => .error .other
    | none => .error .other)

/-- `StartElementHandler` after the flush (:177-277) -/
def startCore (K : Codes) (st : PState) (name : String) (attrs : List (String × Text)) : Except Err PState :=
  if name = "GIFTI" then
    let img : Img := {}
    let img := match attr attrs "Version" with
      | some v => { img with version := v }
      | none => img
    match optInt (attr attrs "NumberOfDataArrays") with
    | .ok _ => .ok { st with img := some img, fsm := st.fsm ++ ["GIFTI"] }
    | .error e => .error e
  else if name = "MetaData" then
    let fsm := st.fsm ++ ["MetaData"]
    if fsm.length = 2 then .ok { st with fsm := fsm, metaGlobal := some [] }
    else .ok { st with fsm := fsm, metaDa := some [] }
  else if name = "MD" then .ok { st with nvpair := some ([], []), fsm := st.fsm ++ ["MD"] }
  else if name = "Name" then
    if st.nvpair.isNone then .error .other else .ok { st with writeTo := .name }
  else if name = "Value" then
    if st.nvpair.isNone then .error .other else .ok { st with writeTo := .value }
  else if name = "LabelTable" then .ok { st with lata := some [], fsm := st.fsm ++ ["LabelTable"] }
  else if name = "Label" then
    match optInt (attr attrs "Index"), optInt (attr attrs "Key") with
    | .ok ix, .ok ky =>
      let key : Int := match ky, ix with
        | some k, _ => k
        | none, some i => i
        | none, none => 0
      .ok { st with label := some { key := key, red := attr attrs "Red", green := attr attrs "Green",
                                    blue := attr attrs "Blue", alpha := attr attrs "Alpha" },
                    writeTo := .label }
    | _, _ => .error .other
  else if name = "DataArray" then
    let (dI, dT, dE, dN, dO) := K.daDefaults
    match optCode K.intent (attr attrs "Intent") dI, optCode K.dtype (attr attrs "DataType") dT,
          optCode K.order (attr attrs "ArrayIndexingOrder") dO,
          optInt (attr attrs "Dimensionality"),
          optCode K.encoding (attr attrs "Encoding") dE, optCode K.endian (attr attrs "Endian") dN,
          (match attr attrs "ExternalFileOffset" with
           | none => Except.ok (0 : Int)
           | some t => if t.isEmpty then .ok 0 else match pyInt t with
             | some v => .ok v
             | none => .error Err.other),
          st.img with
    | .ok it, .ok dt, .ok ord, .ok nd, .ok enc, .ok en, .ok off, some img =>
      let numDim := (nd.getD 0).toNat     -- range() of a negative number is empty
      match readDims attrs numDim with
      | .ok dims =>
        if (nd.getD 0) < 0 then .error .other      -- assert len(dims) == num_dim
        else
          let da : DArr := { intent := it, datatype := dt, indOrd := ord, encoding := enc, endian := en,
                             dims := dims, extFname := (attr attrs "ExternalFileName").getD [], extOffset := off }
          .ok { st with img := some { img with darrays := img.darrays ++ [da] }, haveDa := true,
                        fsm := st.fsm ++ ["DataArray"] }
      | .error e => .error e
    | _, _, _, _, _, _, _, _ => .error .other
  else if name = "CoordinateSystemTransformMatrix" then
    match st.img with
    | some img =>
      if img.darrays.isEmpty then .error .other
      else
        let idx := img.darrays.length - 1
        .ok { st with img := some { img with darrays := modifyLast (fun d => { d with coordsys := {} }) img.darrays },
                      coordsys := some idx, fsm := st.fsm ++ ["CoordinateSystemTransformMatrix"] }
    | none => .error .other
  else if name = "DataSpace" then
    if st.coordsys.isNone then .error .other else .ok { st with writeTo := .dataSpace }
  else if name = "TransformedSpace" then
    if st.coordsys.isNone then .error .other else .ok { st with writeTo := .transformedSpace }
  else if name = "MatrixData" then
    if st.coordsys.isNone then .error .other else .ok { st with writeTo := .matrixData }
  else if name = "Data" then .ok { st with writeTo := .data }
  else .ok st

/-- `EndElementHandler` after the flush (:284-334) -/
def stopCore (st : PState) (name : String) : Except Err PState :=
  if name = "GIFTI" then
    if st.fsm.isEmpty then .error .other else .ok { st with fsm := st.fsm.dropLast }
  else if name = "MetaData" then
    if st.fsm.isEmpty then .error .other
    else
      let fsm := st.fsm.dropLast
      if fsm.length = 1 then
        match st.img, st.metaGlobal with
        | some img, some m => .ok { st with fsm := fsm, img := some { img with gmeta := m }, metaGlobal := none }
        | _, _ => .error .other       -- setter raises TypeError for None
      else
        match st.img with
        | some img =>
          if img.darrays.isEmpty then .error .other
          else .ok { st with fsm := fsm, metaDa := none,
                             img := some { img with darrays := modifyLast (fun d => { d with dmeta := st.metaDa }) img.darrays } }
        | none => .error .other
  else if name = "MD" then
    if st.fsm.isEmpty then .error .other
    else
      match st.nvpair with
      | some (k, v) =>
        let st := { st with fsm := st.fsm.dropLast, nvpair := none }
        match st.metaGlobal, st.metaDa with
        | some g, none => .ok { st with metaGlobal := some (MD.set g k v) }
        | none, some d => .ok { st with metaDa := some (MD.set d k v) }
        | _, _ => .ok st
      | none => .error .other
  else if name = "LabelTable" then
    if st.fsm.isEmpty then .error .other
    else
      match st.img, st.lata with
      | some img, some ls => .ok { st with fsm := st.fsm.dropLast, img := some { img with labels := ls }, lata := none }
      | _, _ => .error .other
  else if name = "DataArray" then
    if st.fsm.isEmpty then .error .other else .ok { st with fsm := st.fsm.dropLast }
  else if name = "CoordinateSystemTransformMatrix" then
    if st.fsm.isEmpty then .error .other else .ok { st with fsm := st.fsm.dropLast, coordsys := none }
  else if name = "DataSpace" ∨ name = "TransformedSpace" ∨ name = "MatrixData" ∨ name = "Name" ∨ name = "Value"
          ∨ name = "Data" then
    .ok { st with writeTo := .none }
  else if name = "Label" then
    match st.lata with
    | some ls => .ok { st with lata := some (ls ++ [st.label]), label := none, writeTo := .none }
    | none => .error .other
  else .ok st

/-- one handler call -/
def step (K : Codes) (X : Ext) (st : PState) : Event → Except Err PState
  | .chars c => .ok (onChars st c)
  | .start name attrs =>
    match flush K X st with
    | .ok st' => startCore K st' name attrs
    | .error e => .error e
  | .stop name =>
    match flush K X st with
    | .ok st' => stopCore st' name
    | .error e => .error e

def runFrom (K : Codes) (X : Ext) : PState → List Event → Except Err PState
  | st, [] => .ok st
  | st, e :: es =>
    match step K X st e with
    | .ok st' => runFrom K X st' es
    | .error err => .error err

/-- the parse result `parser.img` after all events (None when no <GIFTI> element was seen) -/
def run (K : Codes) (X : Ext) (es : List Event) : Except Err (Option Img) :=
  match runFrom K X {} es with
  | .ok st => .ok st.img
  | .error e => .error e

/-- merge every maximal run of adjacent character-data events into one event -/
def canon : List Event → List Event
  | .chars a :: .chars b :: rest => canon (.chars (a ++ b) :: rest)
  | e :: rest => e :: canon rest
  | [] => []
termination_by l => l.length

/-! ## (d) the writer: image → element tree → the handler calls its serialisation produces ------------------- -/

/-- writer-side columns of the `Recoder`s: code → the string the writer emits
    (`intent_codes.niistring`, `data_type_codes.niistring`, `array_index_order_codes.label`,
    `gifti_encoding_codes.specs`, `gifti_endian_codes.specs`, `xform_codes.niistring`); regenerated. -/
structure WNames where
  intent : List (Nat × String)
  dtype : List (Nat × String)
  order : List (Nat × String)
  encoding : List (Nat × String)
  endian : List (Nat × String)
  xform : List (Nat × String)

/-- `recoder.<column>[code]` (a KeyError of the real writer is outside the model: the theorems assume the codes
    of the image are in the tables) -/
def nameOf (tbl : List (Nat × String)) (c : Nat) : Text := ((tbl.find? (·.1 == c)).map (·.2.toList)).getD []

/-- Python `str(n)` of a non-negative int -/
def showNat (n : Nat) : Text := (Nat.repr n).toList

/-- `GiftiLabel` as the writer sees it (gifti.py:226-235): `Key=str(key)`, text = `ele.label`, and
    `Red/Green/Blue/Alpha = str(component)` for the components that are not None (str(float): external, kept as text) -/
structure WLabel where
  key : Nat
  label : Text
  red : Option Text := none
  green : Option Text := none
  blue : Option Text := none
  alpha : Option Text := none
deriving Repr

/-- `GiftiCoordSystem` (gifti.py:368-378); `matrixText` = `_arr2txt(self.xform, '%10.6f')` (number printing: external) -/
structure WCoord where
  dataspace : Nat
  xformspace : Nat
  matrixText : Text
deriving Repr

/-- `GiftiDataArray` as `_to_xml_element` (gifti.py:511-545) reads it; `endian` is what the writer sets
    (`gifti_endian_codes.code[sys.byteorder]`, :513); `dataText` = the text of `_data_tag_element(...)`
    (`writeDataBlock` for the Base64 encodings, `_arr2txt` for ASCII) -/
structure WDArr where
  intent : Nat
  datatype : Nat
  indOrd : Nat
  encoding : Nat
  endian : Nat
  dims : List Nat
  extFname : Text
  extOffset : Nat
  dmeta : MD
  coordsys : WCoord
  dataText : Text
deriving Repr

/-- `GiftiImage` as `_to_xml_element` (gifti.py:847-857) reads it (meta and label table objects present, as the
    constructor and the setters guarantee) -/
structure WImg where
  version : Text
  gmeta : MD
  labels : List WLabel
  darrays : List WDArr
deriving Repr

/-- character data of an element: ElementTree writes nothing for an empty / None text, so no handler call occurs -/
def textEvents (t : Text) : List Event := if t.isEmpty then [] else [.chars t]

/-- an element without children: `<tag attrs>text</tag>` -/
def leaf (tag : String) (attrs : List (String × Text)) (t : Text) : List Event :=
  .start tag attrs :: (textEvents t ++ [.stop tag])

/-- caret.py:126-137 one `<MD><Name>…</Name><Value>…</Value></MD>` -/
def mdEvents (kv : Text × Text) : List Event :=
  .start "MD" [] :: (leaf "Name" [] kv.1 ++ (leaf "Value" [] kv.2 ++ [.stop "MD"]))

def metaEvents (m : MD) : List Event := .start "MetaData" [] :: (m.flatMap mdEvents ++ [.stop "MetaData"])

def optAttr (k : String) : Option Text → List (String × Text)
  | none => []
  | some v => [(k, v)]

/-- gifti.py:228-234 -/
def labelEvents (l : WLabel) : List Event :=
  leaf "Label" (("Key", showNat l.key) ::
    (optAttr "Red" l.red ++ (optAttr "Green" l.green ++ (optAttr "Blue" l.blue ++ optAttr "Alpha" l.alpha)))) l.label

def labelTableEvents (ls : List WLabel) : List Event :=
  .start "LabelTable" [] :: (ls.flatMap labelEvents ++ [.stop "LabelTable"])

/-- gifti.py:368-378 -/
def coordEvents (N : WNames) (c : WCoord) : List Event :=
  .start "CoordinateSystemTransformMatrix" [] ::
    (leaf "DataSpace" [] (nameOf N.xform c.dataspace) ++ (leaf "TransformedSpace" [] (nameOf N.xform c.xformspace) ++
      (leaf "MatrixData" [] c.matrixText ++ [.stop "CoordinateSystemTransformMatrix"])))

/-- `data_array.attrib[f'Dim{di}'] = str(dn)` (gifti.py:529-530), starting at index `i` -/
def dimAttrs : List Nat → Nat → List (String × Text)
  | [], _ => []
  | n :: ns, i => ("Dim" ++ toString i, showNat n) :: dimAttrs ns (i + 1)

/-- gifti.py:516-530: the attributes in insertion order -/
def daAttrs (N : WNames) (d : WDArr) : List (String × Text) :=
  [("Intent", nameOf N.intent d.intent), ("DataType", nameOf N.dtype d.datatype),
   ("ArrayIndexingOrder", nameOf N.order d.indOrd), ("Dimensionality", showNat d.dims.length),
   ("Encoding", nameOf N.encoding d.encoding), ("Endian", nameOf N.endian d.endian),
   ("ExternalFileName", d.extFname), ("ExternalFileOffset", showNat d.extOffset)] ++ dimAttrs d.dims 0

/-- gifti.py:511-545 -/
def daEvents (N : WNames) (d : WDArr) : List Event :=
  .start "DataArray" (daAttrs N d) ::
    (metaEvents d.dmeta ++ (coordEvents N d.coordsys ++ (leaf "Data" [] d.dataText ++ [.stop "DataArray"])))

/-- `GiftiImage._to_xml_element` (gifti.py:847-857) flattened in document order.
    CONTRACT (ElementTree serialisation + expat, external): parsing the bytes `to_xml()` produces makes exactly
    these handler calls, except that expat may deliver the character data of one element in several chunks
    (`canon es = canon (imgEvents N w)`); escaping/unescaping of `& < > "` and UTF-8 coding are inverse. -/
def imgEvents (N : WNames) (w : WImg) : List Event :=
  .start "GIFTI" [("Version", w.version), ("NumberOfDataArrays", showNat w.darrays.length)] ::
    (metaEvents w.gmeta ++ (labelTableEvents w.labels ++ (w.darrays.flatMap (daEvents N) ++ [.stop "GIFTI"])))

end Nb.C17
