/-! Model/C17 — executable model (core Lean only; imports only NibabelModel.Basic.* / other Model files). -/
namespace Nb.C17

end Nb.C17
