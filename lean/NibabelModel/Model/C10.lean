/-
  Model/C10 — executable model of the fixed-layout binary headers of nibabel (core Lean only).

  Python source modelled (pinned tree):
  * nibabel/wrapstruct.py  WrapStruct.__init__ 130-172 (`ofBytes`, `ofBytesGuess`), binaryblock 193-209
    (`binaryblock`), endianness 235-258, copy 261-272 (`copy`), __eq__ 274-297 (`hdrEq`),
    as_byteswapped 418-477 (`asByteswapped`), check_fix 346-362 + nibabel/batteryrunners.py
    BatteryRunner.check_only/check_fix 131-172 (`runOnly`, `runFix`);
  * numpy structured-dtype semantics used by the above (`np.ndarray(shape=(), dtype, buffer)`,
    `.tobytes()`, `.byteswap()`, field access) — modelled by `parse`/`serialize`/`swapFields` over a
    `Layout` that is REGENERATED from `np.dtype(header_dtd)` (Generated/C10Layouts.lean);
  * nibabel/analyze.py AnalyzeHeader.guessed_endian 255-336 (`guessAnalyze`; NIfTI-1/2, SPM inherit it
    with their own `sizeof_hdr`), nibabel/ecat.py EcatHeader.guessed_endian 283-289 (`guessEcat`),
    nibabel/freesurfer/mghformat.py MGHHeader.guessed_endian 358-361 (always big endian) and
    MGHHeader.__init__/_set_affine_default 104-127,380-385 (`mghNormalise`);
  * the check batteries: analyze.py _chk_sizeof_hdr/_chk_datatype/_chk_bitpix/_chk_pixdims 794-882,
    spm99analyze.py _chk_origin 213-224, nifti1.py _chk_qfac/_chk_magic/_chk_offset/_chk_xform_code
    1883-1953, nifti2.py _chk_eol_check 203-222, mghformat.py chk_version 129-137
    (`reportOf`, `fixOf`; the battery order of every class is regenerated from `_get_checks()`).

  Conventions
  * a byte string is `List UInt8`; a field value is the list of its items as RAW UNSIGNED bit
    patterns (`Nat`), read in the header's byte order.  Signed integers are obtained with `toInt`;
    floats stay bit patterns (the checks only need sign / zero / NaN classes, `abs`, the constant 1.0
    and, for NIfTI-1 `vox_offset`, the exact dyadic value `FloatFmt.decode`); an `S<k>` byte-string
    field is `k` items of width 1 (byte order does not apply to it).
  * an external contract: NumPy's float comparisons / `np.abs` / Python's `%` on the decoded value
    behave like IEEE-754 (abs clears the sign bit also of NaNs; comparisons with NaN are false).
-/
namespace Nb.C10

abbrev Byte := UInt8

inductive Endian where
  | le | be
  deriving DecidableEq, Repr, Inhabited

def Endian.swap : Endian → Endian
  | .le => .be
  | .be => .le

/-! ### byte codec -/

/-- little-endian encoding of `v mod 256^w` into `w` bytes -/
def encLE : Nat → Nat → List Byte
  | 0, _ => []
  | w + 1, v => UInt8.ofNat (v % 256) :: encLE w (v / 256)

def decLE : List Byte → Nat
  | [] => 0
  | b :: bs => b.toNat + 256 * decLE bs

def enc (e : Endian) (w v : Nat) : List Byte :=
  match e with
  | .le => encLE w v
  | .be => (encLE w v).reverse

def dec (e : Endian) (bs : List Byte) : Nat :=
  match e with
  | .le => decLE bs
  | .be => decLE bs.reverse

/-- two's-complement reading of a `w`-byte unsigned pattern -/
def toInt (w v : Nat) : Int :=
  if 2 * v < 256 ^ w then (v : Int) else (v : Int) - ((256 ^ w : Nat) : Int)

/-- two's-complement pattern of an integer (what NumPy stores for an in-range value) -/
def ofInt (w : Nat) (i : Int) : Nat := (i % ((256 ^ w : Nat) : Int)).toNat

/-! ### layouts -/

inductive Kind where
  | int | uint | float | bytes
  deriving DecidableEq, Repr, Inhabited

/-- one field of a NumPy structured dtype: `isz` = itemsize of the base dtype, `count` = product of the
    sub-array shape -/
structure Field where
  name : String
  offset : Nat
  isz : Nat
  count : Nat
  kind : Kind
  deriving DecidableEq, Repr, Inhabited

/-- width of one byte-order unit -/
def Field.iw (f : Field) : Nat := if f.kind = .bytes then 1 else f.isz
/-- number of byte-order units -/
def Field.n (f : Field) : Nat := if f.kind = .bytes then f.isz * f.count else f.count
def Field.nbytes (f : Field) : Nat := f.iw * f.n

structure Layout where
  name : String
  size : Nat
  fields : List Field
  deriving Repr, Inhabited, DecidableEq

/-- the fields tile `[off, size)` in order with no gap and no overlap -/
def tiles : List Field → Nat → Nat → Bool
  | [], off, size => off == size
  | f :: fs, off, size => f.offset == off && tiles fs (off + f.nbytes) size

def Layout.wf (L : Layout) : Bool := tiles L.fields 0 L.size

def Layout.find? (L : Layout) (name : String) : Option Field := L.fields.find? (·.name == name)
def Layout.findIdx? (L : Layout) (name : String) : Option Nat := L.fields.findIdx? (·.name == name)

/-! ### structured record codec (NumPy `ndarray(shape=(), dtype=…, buffer=bs)` / `tobytes` / `byteswap`) -/

def decItems (e : Endian) (w : Nat) : Nat → List Byte → List Nat
  | 0, _ => []
  | n + 1, bs => dec e (bs.take w) :: decItems e w n (bs.drop w)

def encItems (e : Endian) (w : Nat) : List Nat → List Byte
  | [] => []
  | v :: vs => enc e w v ++ encItems e w vs

def swapItems (w : Nat) : Nat → List Byte → List Byte
  | 0, _ => []
  | n + 1, bs => (bs.take w).reverse ++ swapItems w n (bs.drop w)

/-- field access: items of field `f` read at its offset in byte order `e` -/
def parseField (f : Field) (e : Endian) (bs : List Byte) : List Nat :=
  decItems e f.iw f.n (bs.drop f.offset)

def parseFs (fs : List Field) (e : Endian) (bs : List Byte) : List (List Nat) :=
  fs.map (fun f => parseField f e bs)

def parse (L : Layout) (e : Endian) (bs : List Byte) : List (List Nat) := parseFs L.fields e bs

/-- `tobytes()` of a packed record: the fields' encodings one after the other -/
def serializeFs : List Field → Endian → List (List Nat) → List Byte
  | f :: fs, e, v :: vs => encItems e f.iw v ++ serializeFs fs e vs
  | _, _, _ => []

def serialize (L : Layout) (e : Endian) (vals : List (List Nat)) : List Byte :=
  serializeFs L.fields e vals

/-- `structarr.byteswap().tobytes()`: every item of every field reversed in place -/
def swapFs : List Field → List Byte → List Byte
  | [], _ => []
  | f :: fs, bs => swapItems f.iw f.n (bs.drop f.offset) ++ swapFs fs bs

def swapFields (L : Layout) (bs : List Byte) : List Byte := swapFs L.fields bs

/-- values are representable: one list per field, `n` items each `< 256^iw` -/
def valsOk : List Field → List (List Nat) → Bool
  | [], [] => true
  | f :: fs, v :: vs => v.length == f.n && v.all (fun x => decide (x < 256 ^ f.iw)) && valsOk fs vs
  | _, _ => false

/-! ### WrapStruct -/

structure Hdr where
  e : Endian
  vals : List (List Nat)
  deriving DecidableEq, Repr, Inhabited

def Hdr.ok (L : Layout) (h : Hdr) : Bool := valsOk L.fields h.vals

/-- `WrapStruct(binaryblock, endianness=e, check=False)` -/
def ofBytes (L : Layout) (e : Endian) (bs : List Byte) : Hdr := ⟨e, parse L e bs⟩

def binaryblock (L : Layout) (h : Hdr) : List Byte := serialize L h.e h.vals

/-- `as_byteswapped()` (endianness=None: swap from the current one) -/
def asByteswapped (L : Layout) (h : Hdr) : Hdr :=
  ofBytes L h.e.swap (swapFields L (binaryblock L h))

/-- `endian_codes[code]` (volumeutils.py 43-48, 237): every accepted spelling of a byte order; the
    table (spelling, resolved order on this machine) is regenerated from `endian_codes.keys()`;
    an unknown spelling is a `KeyError` (`none`). -/
def endianOf? (tbl : List (String × Endian)) (s : String) : Option Endian :=
  (tbl.find? (·.1 == s)).map (·.2)

/-- `copy()` = `self.__class__(self.binaryblock, self.endianness, check=False)` -/
def copy (L : Layout) (h : Hdr) : Hdr := ofBytes L h.e (binaryblock L h)

/-- `as_byteswapped(endianness)` (wrapstruct.py 465-477) with the requested code already resolved
    through `endian_codes`: `none` = swap from the current order; the current order = plain copy;
    otherwise byteswap the data and label them with the target order. -/
def asByteswappedTo (L : Layout) (h : Hdr) : Option Endian → Hdr
  | none => asByteswapped L h
  | some t => if t = h.e then copy L h else ofBytes L t (swapFields L (binaryblock L h))

/-- `__eq__` -/
def hdrEq (L : Layout) (a b : Hdr) : Bool :=
  if a.e = b.e then binaryblock L a == binaryblock L b
  else binaryblock L a == swapFields L (binaryblock L b)

/-- `hdr[name] = items` (items already reduced to their bit patterns) -/
def Hdr.setField (L : Layout) (h : Hdr) (name : String) (v : List Nat) : Hdr :=
  match L.findIdx? name with
  | some i => { h with vals := h.vals.set i v }
  | none => h

/-! A heap of header buffers, to state that `copy` allocates a fresh buffer: object `i` is
    `heap[i]`; `copyObj` appends, `setObj` updates one object. -/
abbrev Heap := List Hdr

def Heap.copyObj (L : Layout) (s : Heap) (i : Nat) : Heap × Nat :=
  (s ++ [copy L (s.getD i default)], s.length)

def Heap.setObj (L : Layout) (s : Heap) (i : Nat) (name : String) (v : List Nat) : Heap :=
  if i < s.length then s.set i ((s.getD i default).setField L name v) else s

def Heap.setMany (L : Layout) (s : Heap) (j : Nat) (ws : List (String × List Nat)) : Heap :=
  ws.foldl (fun s w => Heap.setObj L s j w.1 w.2) s

/-! ### endianness guessing -/

/-- item `i` of a field of item width `w` at `off`, read in byte order `e` -/
def itemAt (e : Endian) (off w i : Nat) (bs : List Byte) : Nat :=
  dec e ((bs.drop (off + w * i)).take w)

structure GuessSpec where
  szOff : Nat
  szW : Nat
  dimOff : Nat
  dimW : Nat
  sizeofHdr : Nat
  deriving Repr, DecidableEq

/-- side conditions under which the guess is right for every valid header: dim[0] is at least two
    bytes wide, `sizeof_hdr` is a non-negative value of its field that is not a byte palindrome, both
    fields lie inside the block -/
def GuessSpec.ok (g : GuessSpec) (size : Nat) : Bool :=
  decide (2 ≤ g.dimW) && decide (2 * g.sizeofHdr < 256 ^ g.szW) &&
  decide (decLE (encLE g.szW g.sizeofHdr).reverse ≠ g.sizeofHdr) &&
  decide (g.dimOff + g.dimW ≤ size) && decide (g.szOff + g.szW ≤ size)

def Layout.guessSpec? (L : Layout) (sizeofHdr : Nat) : Option GuessSpec :=
  match L.find? "sizeof_hdr", L.find? "dim" with
  | some s, some d => some ⟨s.offset, s.iw, d.offset, d.iw, sizeofHdr⟩
  | _, _ => none

/-- `AnalyzeHeader.guessed_endian` applied to the record read in the machine's byte order `native`
    (analyze.py 329-336): dim[0]==0 → sizeof_hdr byteswapped == klass.sizeof_hdr ? swapped : native;
    1<=dim[0]<=7 → native; else swapped. -/
def guessAnalyze (g : GuessSpec) (native : Endian) (bs : List Byte) : Endian :=
  let dim0 := toInt g.dimW (itemAt native g.dimOff g.dimW 0 bs)
  if dim0 = 0 then
    if toInt g.szW (itemAt native.swap g.szOff g.szW 0 bs) = (g.sizeofHdr : Int) then native.swap
    else native
  else if 1 ≤ dim0 ∧ dim0 ≤ 7 then native
  else native.swap

/-- `EcatHeader.guessed_endian` (ecat.py 285-289): sw_version (u2) == 74 → native else swapped -/
def guessEcat (swOff : Nat) (native : Endian) (bs : List Byte) : Endian :=
  if itemAt native swOff 2 0 bs = 74 then native else native.swap

inductive GuessKind where
  | analyze (sizeofHdr : Nat)
  | ecat
  | bigEndian          -- MGH: always '>'
  deriving Repr, DecidableEq, Inhabited

def guessEndian (L : Layout) (k : GuessKind) (native : Endian) (bs : List Byte) : Option Endian :=
  match k with
  | .analyze sz => (L.guessSpec? sz).map (fun g => guessAnalyze g native bs)
  | .ecat => (L.find? "sw_version").map (fun f => guessEcat f.offset native bs)
  | .bigEndian => some .be

/-! ### floats as bit patterns -/

structure FloatFmt where
  half : Nat      -- weight of the sign bit, 2^(bits-1)
  inf : Nat       -- magnitude pattern of +inf (exponent all ones, fraction 0)
  one : Nat       -- pattern of 1.0
  mbits : Nat     -- fraction bits
  bias : Nat
  deriving Repr, DecidableEq, Inhabited

def fmt32 : FloatFmt := ⟨2 ^ 31, 0x7F800000, 0x3F800000, 23, 127⟩
def fmt64 : FloatFmt := ⟨2 ^ 63, 0x7FF0000000000000, 0x3FF0000000000000, 52, 1023⟩

namespace FloatFmt
variable (F : FloatFmt)
def mag (p : Nat) : Nat := p % F.half
def signSet (p : Nat) : Bool := decide (F.half ≤ p)
def isNaN (p : Nat) : Bool := decide (F.inf < F.mag p)
def isZero (p : Nat) : Bool := decide (F.mag p = 0)
/-- `x < 0` -/
def isNeg (p : Nat) : Bool := F.signSet p && !F.isZero p && !F.isNaN p
/-- `x <= 0` -/
def le0 (p : Nat) : Bool := F.isZero p || F.isNeg p
/-- `np.abs`: clear the sign bit -/
def abs (p : Nat) : Nat := F.mag p
def negOne : Nat := F.one + F.half
end FloatFmt

/-- what the theorems about the checks need from a float format -/
def FloatFmt.ok (F : FloatFmt) : Bool := decide (0 < F.half) && !F.le0 F.one

/-- exact value of a float / integer field: `fin num k` = num / 2^k -/
inductive OffVal where
  | nan | pinf | ninf
  | fin (num : Int) (k : Nat)
  deriving Repr, DecidableEq, Inhabited

def FloatFmt.decode (F : FloatFmt) (p : Nat) : OffVal :=
  let m := F.mag p
  let neg := F.signSet p
  if F.inf < m then .nan
  else if m = F.inf then (if neg then .ninf else .pinf)
  else
    let ex := m / 2 ^ F.mbits
    let fr := m % 2 ^ F.mbits
    let M : Nat := if ex = 0 then fr else 2 ^ F.mbits + fr
    let E : Int := (if ex = 0 then 1 else (ex : Int)) - (F.bias : Int) - (F.mbits : Int)
    let s : Int := if neg then -(M : Int) else (M : Int)
    if 0 ≤ E then .fin (s * (2 ^ E.toNat : Nat)) 0 else .fin s (-E).toNat

def OffVal.isZero : OffVal → Bool
  | .fin n _ => n == 0
  | _ => false

/-- the value is exactly the integer `c` -/
def OffVal.eqInt (c : Int) : OffVal → Bool
  | .fin n k => n == c * (2 ^ k : Nat)
  | _ => false

/-- `x < c` for an integer `c` -/
def OffVal.ltInt (c : Int) : OffVal → Bool
  | .fin n k => decide (n < c * (2 ^ k : Nat))
  | .ninf => true
  | _ => false

/-- `not x % 16` (Python float/int `%`; inf and nan give nan, which is truthy) -/
def OffVal.mod16Zero : OffVal → Bool
  | .fin n k => n % (16 * (2 ^ k : Nat) : Int) == 0
  | _ => false

inductive VoxKind where
  | f32      -- NIfTI-1 / Analyze: float32
  | i64      -- NIfTI-2: int64
  deriving Repr, DecidableEq, Inhabited

def VoxKind.decode : VoxKind → Nat → OffVal
  | .f32, p => fmt32.decode p
  | .i64, p => .fin (toInt 8 p) 0

/-! ### data-type code tables (`make_dt_codes`, volumeutils.py 346-383) -/

/-- one row: code, NumPy kind char and itemsize of `dtype`, the same of `sw_dtype`, and whether
    `sw_dtype` has the opposite byte order (`'='`/`'<'` vs `'>'`; `'|'` = not applicable) -/
structure DtCode where
  code : Int
  kind : Char
  isz : Nat
  swKind : Char
  swIsz : Nat
  swOpposite : Bool
  deriving Repr, DecidableEq, Inhabited

def dtFind (t : List DtCode) (code : Int) : Option DtCode := t.find? (·.code == code)
def dtItemsize (t : List DtCode) (code : Int) : Option Nat := (dtFind t code).map (·.isz)
/-- reverse lookup dtype → code (Recoder: any of the synonyms indexes the row) for non-void dtypes -/
def dtCodeOf (t : List DtCode) (kind : Char) (isz : Nat) : Option Int :=
  (t.find? (fun r => r.kind == kind && r.isz == isz)).map (·.code)

/-- table consistency: codes distinct; swapped dtype has same kind and size, and the opposite byte
    order exactly when the type has a byte order (numeric, itemsize > 1) -/
def dtRowOk (r : DtCode) : Bool :=
  r.swKind == r.kind && r.swIsz == r.isz &&
  (r.swOpposite == (r.kind != 'V' && r.kind != 'S' && decide (1 < r.isz)))

def dtTableOk (t : List DtCode) : Bool :=
  t.all dtRowOk &&
  t.all (fun r => dtFind t r.code == some r) &&
  t.all (fun r => r.isz == 0 || dtCodeOf t r.kind r.isz == some r.code)

/-! ### header checks -/

inductive CheckId where
  | sizeofHdr | datatype | bitpix | pixdims | qfac | magic | offset | qform | sform | eol | origin
  | version
  deriving DecidableEq, Repr, Inhabited

inductive Msg where
  | none | sizeof | dtUnrec | dtUnsup | bpNoDt | bpMismatch | pdZero | pdNeg | pdZeroNeg | qfac
  | magic | offLow | off16 | qform | sform | eolZero | eolBad | origin | version
  deriving DecidableEq, Repr, Inhabited

/-- `Report`: problem_level, message class, whether `fix_msg` is non-empty when run with fix=True -/
structure Report where
  level : Nat
  msg : Msg
  fixMsg : Bool
  deriving DecidableEq, Repr, Inhabited

def Report.clean : Report := ⟨0, .none, false⟩

/-- the fields the checks read or write -/
structure CF where
  sizeofHdr : Int
  datatype : Int
  bitpix : Int
  qfac : Nat             -- pixdim[0], bit pattern
  pixdim : List Nat      -- pixdim[1:4], bit patterns
  magic : List Nat       -- raw bytes of `magic`
  voxOffset : Nat        -- raw pattern of `vox_offset`
  qform : Int
  sform : Int
  eol : List Int         -- eol_check (int8 x 4)
  origin : List Int      -- origin[0:3]  (int16)
  dim : List Int         -- dim[1:4]     (int16)
  version : Int
  deriving DecidableEq, Repr, Inhabited

/-- per-class constants; regenerated from the class attributes -/
structure ClsSpec where
  name : String
  layout : String
  sizeofHdr : Int
  checks : List CheckId
  dtTable : List DtCode
  pixFmt : FloatFmt
  voxKind : VoxKind
  singleMagic : List Nat
  pairMagic : List Nat
  singleVoxOffset : Int
  singleVoxPattern : Nat
  xformCodes : List Int
  guess : GuessKind
  swappable : Bool
  isSingle : Bool          -- klass.is_single (NIfTI: single-file magic)
  deriving Repr, Inhabited, DecidableEq

/-- `bytes_field.item()`: NumPy strips trailing NULs of an `S` item -/
def stripNul (l : List Nat) : List Nat := (l.reverse.dropWhile (· == 0)).reverse

def wrap16 (x : Int) : Int := (x + 32768) % 65536 - 32768

def eolGood : List Int := [13, 10, 26, 10]

/-- `_chk_pixdims` with fix (analyze.py 849-877) on the three spatial pixdims -/
def fixPixdims (F : FloatFmt) (d : List Nat) : List Nat :=
  if !d.any F.le0 then d
  else
    let d1 := if d.any F.isZero then d.map (fun p => if F.isZero p then F.one else p) else d
    if d.any F.isNeg then d1.map F.abs else d1

def originOk (origin dim : List Int) : Bool :=
  origin.all (· == 0) ||
  ((List.zipWith (fun o d => decide (o > wrap16 (-d))) origin dim).all id &&
   (List.zipWith (fun o d => decide (o < wrap16 (d * 2))) origin dim).all id)

/-- the report each `_chk_*` produces on `h` -/
def reportOf (c : ClsSpec) : CheckId → CF → Report
  | .sizeofHdr, h => if h.sizeofHdr = c.sizeofHdr then .clean else ⟨30, .sizeof, true⟩
  | .datatype, h =>
      match dtItemsize c.dtTable h.datatype with
      | none => ⟨40, .dtUnrec, true⟩
      | some 0 => ⟨40, .dtUnsup, true⟩
      | some _ => .clean
  | .bitpix, h =>
      match dtItemsize c.dtTable h.datatype with
      | none => ⟨10, .bpNoDt, true⟩
      | some n => if ((8 * n : Nat) : Int) = h.bitpix then .clean else ⟨10, .bpMismatch, true⟩
  | .pixdims, h =>
      if !h.pixdim.any c.pixFmt.le0 then .clean
      else if h.pixdim.any c.pixFmt.isNeg then
        (if h.pixdim.any c.pixFmt.isZero then ⟨35, .pdZeroNeg, true⟩ else ⟨35, .pdNeg, true⟩)
      else ⟨30, .pdZero, true⟩
  | .qfac, h =>
      if h.qfac = c.pixFmt.one ∨ h.qfac = c.pixFmt.negOne then .clean else ⟨20, .qfac, true⟩
  | .magic, h =>
      if stripNul h.magic = c.pairMagic ∨ stripNul h.magic = c.singleMagic then .clean
      else ⟨45, .magic, true⟩
  | .offset, h =>
      let v := c.voxKind.decode h.voxOffset
      if v.isZero then .clean
      else if stripNul h.magic = c.singleMagic ∧ v.ltInt c.singleVoxOffset = true then ⟨40, .offLow, true⟩
      else if v.mod16Zero then .clean
      else ⟨30, .off16, true⟩
  | .qform, h => if h.qform ∈ c.xformCodes then .clean else ⟨30, .qform, true⟩
  | .sform, h => if h.sform ∈ c.xformCodes then .clean else ⟨30, .sform, true⟩
  | .eol, h =>
      if h.eol = eolGood then .clean
      else if h.eol.all (· == 0) then ⟨20, .eolZero, true⟩
      else ⟨40, .eolBad, true⟩
  | .origin, h => if originOk h.origin h.dim then .clean else ⟨20, .origin, true⟩
  | .version, h => if h.version = 1 then .clean else ⟨40, .version, false⟩

/-- the in-place repair each `_chk_*` performs when called with fix=True -/
def fixOf (c : ClsSpec) : CheckId → CF → CF
  | .sizeofHdr, h => { h with sizeofHdr := if h.sizeofHdr = c.sizeofHdr then h.sizeofHdr else c.sizeofHdr }
  | .datatype, h => h
  | .bitpix, h =>
      { h with bitpix := match dtItemsize c.dtTable h.datatype with
                         | none => h.bitpix
                         | some n => if ((8 * n : Nat) : Int) = h.bitpix then h.bitpix else ((8 * n : Nat) : Int) }
  | .pixdims, h => { h with pixdim := fixPixdims c.pixFmt h.pixdim }
  | .qfac, h =>
      { h with qfac := if h.qfac = c.pixFmt.one ∨ h.qfac = c.pixFmt.negOne then h.qfac else c.pixFmt.one }
  | .magic, h => h
  | .offset, h =>
      { h with voxOffset :=
          let v := c.voxKind.decode h.voxOffset
          if v.isZero then h.voxOffset
          else if stripNul h.magic = c.singleMagic ∧ v.ltInt c.singleVoxOffset = true then c.singleVoxPattern
          else h.voxOffset }
  | .qform, h => { h with qform := if h.qform ∈ c.xformCodes then h.qform else 0 }
  | .sform, h => { h with sform := if h.sform ∈ c.xformCodes then h.sform else 0 }
  | .eol, h => { h with eol := if h.eol = eolGood then h.eol else eolGood }
  | .origin, h => h
  | .version, h => { h with version := if h.version = 1 then h.version else 1 }

/-- `BatteryRunner.check_fix`: checks run in order on the object as modified so far -/
def runFix (c : ClsSpec) (checks : List CheckId) (h : CF) : CF × List Report :=
  checks.foldl (fun acc k => (fixOf c k acc.1, acc.2 ++ [reportOf c k acc.1])) (h, [])

/-- `BatteryRunner.check_only` -/
def runOnly (c : ClsSpec) (checks : List CheckId) (h : CF) : List Report :=
  checks.map (fun k => reportOf c k h)

/-- the one input on which a check itself raises: `_chk_offset` formats `int(offset)` for the
    "too low" message, which is an `OverflowError` for -inf (nifti1.py 1917). -/
def raises (c : ClsSpec) (checks : List CheckId) (h : CF) : Bool :=
  checks.contains .offset && (c.voxKind.decode h.voxOffset == .ninf) &&
  (stripNul h.magic == c.singleMagic)

/-- the checks whose problem a repair cannot remove (they report again on the second run) -/
def unfixable : CheckId → Bool
  | .datatype | .bitpix | .magic | .offset | .origin => true
  | _ => false

/-! ### tying `CF` to the record -/

/-- the first field called `n` -/
def findFs : List Field → String → Option Field
  | [], _ => none
  | f :: fs, n => if f.name = n then some f else findFs fs n

/-- value of the first field called `n` (`hdr[n]` as raw items); `[]` when there is none -/
def getRawFs : List Field → List (List Nat) → String → List Nat
  | f :: fs, v :: vs, n => if f.name = n then v else getRawFs fs vs n
  | _, _, _ => []

/-- `hdr[n] = x`; nothing happens when the layout has no such field -/
def setRawFs : List Field → List (List Nat) → String → List Nat → List (List Nat)
  | f :: fs, v :: vs, n, x => if f.name = n then x :: vs else v :: setRawFs fs vs n x
  | _, vs, _, _ => vs

def getRaw (L : Layout) (vals : List (List Nat)) (name : String) : List Nat :=
  getRawFs L.fields vals name

def fieldW (L : Layout) (name : String) : Nat :=
  match findFs L.fields name with
  | some f => f.iw
  | none => 0

def getInts (L : Layout) (vals : List (List Nat)) (name : String) : List Int :=
  (getRaw L vals name).map (toInt (fieldW L name))

def setRaw (L : Layout) (vals : List (List Nat)) (name : String) (v : List Nat) : List (List Nat) :=
  setRawFs L.fields vals name v

def setInts (L : Layout) (vals : List (List Nat)) (name : String) (v : List Int) : List (List Nat) :=
  setRaw L vals name (v.map (ofInt (fieldW L name)))

def readCF (L : Layout) (vals : List (List Nat)) : CF where
  sizeofHdr := (getInts L vals "sizeof_hdr").getD 0 0
  datatype := (getInts L vals "datatype").getD 0 0
  bitpix := (getInts L vals "bitpix").getD 0 0
  qfac := (getRaw L vals "pixdim").getD 0 0
  pixdim := ((getRaw L vals "pixdim").drop 1).take 3
  magic := getRaw L vals "magic"
  voxOffset := (getRaw L vals "vox_offset").getD 0 0
  qform := (getInts L vals "qform_code").getD 0 0
  sform := (getInts L vals "sform_code").getD 0 0
  eol := getInts L vals "eol_check"
  origin := (getInts L vals "origin").take 3
  dim := ((getInts L vals "dim").drop 1).take 3
  version := (getInts L vals "version").getD 0 0

/-- the layout fields some check can repair -/
def writtenSlots : List String :=
  ["sizeof_hdr", "bitpix", "pixdim", "vox_offset", "qform_code", "sform_code", "eol_check", "version"]

/-- the raw items written into slot `n` for the (possibly repaired) record `h`; `pixdim[4:]` is not
    looked at by any check and keeps its items -/
def newRaw (L : Layout) (vals : List (List Nat)) (h : CF) (n : String) : List Nat :=
  if n = "sizeof_hdr" then [ofInt (fieldW L n) h.sizeofHdr]
  else if n = "bitpix" then [ofInt (fieldW L n) h.bitpix]
  else if n = "pixdim" then h.qfac :: h.pixdim ++ (getRaw L vals n).drop 4
  else if n = "vox_offset" then [h.voxOffset]
  else if n = "qform_code" then [ofInt (fieldW L n) h.qform]
  else if n = "sform_code" then [ofInt (fieldW L n) h.sform]
  else if n = "eol_check" then h.eol.map (ofInt (fieldW L n))
  else if n = "version" then [ofInt (fieldW L n) h.version]
  else getRaw L vals n

def setSlots (L : Layout) (vals : List (List Nat)) (ns : List String) (g : String → List Nat) :
    List (List Nat) :=
  ns.foldl (fun v n => setRaw L v n (g n)) vals

/-- write the (possibly repaired) fields back; only fields some check can write -/
def writeCF (L : Layout) (vals : List (List Nat)) (h : CF) : List (List Nat) :=
  setSlots L vals writtenSlots (newRaw L vals h)

/-- `BatteryRunner(klass._get_checks()).check_fix(hdr)` on a header given by its bytes:
    new binaryblock and the reports -/
def checkFixBytes (c : ClsSpec) (L : Layout) (e : Endian) (bs : List Byte) : List Byte × List Report :=
  let vals := parse L e bs
  let r := runFix c c.checks (readCF L vals)
  (serialize L e (writeCF L vals r.1), r.2)

def checkOnlyBytes (c : ClsSpec) (L : Layout) (e : Endian) (bs : List Byte) : List Report :=
  runOnly c c.checks (readCF L (parse L e bs))

def raisesBytes (c : ClsSpec) (L : Layout) (e : Endian) (bs : List Byte) : Bool :=
  raises c c.checks (readCF L (parse L e bs))

/-! ### from_header (analyze.py 350-408): the part that touches `dim` / `pixdim`

    `obj[key] = mapping[key]` copies `dim` and `pixdim` whole; then `set_data_shape(get_data_shape())`
    rewrites dim and executes `pixdim[ndims+1:] = 1.0` (analyze.py set_data_shape), then
    `set_zooms(get_zooms())` rewrites pixdim[1:ndims+1].  `pix` is the 8-entry pixdim as bit patterns. -/

/-- `get_zooms()`: pixdim[1 : ndim+1] -/
def getZooms (nd : Nat) (pix : List Nat) : List Nat := (pix.drop 1).take nd

/-- `set_data_shape` on the pixdims: entries after `ndims` become 1.0 -/
def setShapePix (F : FloatFmt) (nd : Nat) (pix : List Nat) : List Nat :=
  pix.take (nd + 1) ++ List.replicate (pix.length - (nd + 1)) F.one

/-- `set_zooms` -/
def setZoomsPix (nd : Nat) (zooms pix : List Nat) : List Nat :=
  pix.take 1 ++ zooms.take nd ++ pix.drop (nd + 1)

/-- pixdim of `klass.from_header(src)` for another class of the same float width -/
def fromHeaderPix (F : FloatFmt) (nd : Nat) (srcPix : List Nat) : List Nat :=
  setZoomsPix nd (getZooms nd srcPix) (setShapePix F nd srcPix)

/-! ### from_header on ALL fields (analyze.py 350-408, nifti1.py _clean_after_mapping 1855-1863)

    not own type:  obj = klass()                                    -- target defaults `dflt`
                   for key in header.as_analyze_map(): try obj[key] = mapping[key] except (ValueError, KeyError)
                   obj._clean_after_mapping()                       -- NIfTI targets: magic
                   obj.set_data_dtype(header.get_data_dtype())      -- datatype, bitpix
                   obj.set_data_shape(header.get_data_shape())      -- dim, pixdim[ndim+1:] = 1
                   obj.set_zooms(header.get_zooms())                -- pixdim[1:ndim+1]
    `cast fs fd v` is NumPy's assignment cast of a field value between the two field types (external);
    it is applied only when the fields are `castable` (otherwise NumPy raises ValueError and the key is
    skipped, as for an unknown key). -/

def castable (fs fd : Field) : Bool :=
  ((fs.kind == .bytes) == (fd.kind == .bytes)) && (fs.kind == .bytes || fs.count == fd.count)

/-- one `obj[key] = mapping[key]` -/
def copyStep (cast : Field → Field → List Nat → List Nat) (Ld : Layout) (fs : Field) (v : List Nat)
    (d : List (List Nat)) : List (List Nat) :=
  match findFs Ld.fields fs.name with
  | none => d
  | some fd => if castable fs fd then setRaw Ld d fs.name (cast fs fd v) else d

/-- the loop over the analyze map (the source header's fields in order) -/
def copyFs (cast : Field → Field → List Nat → List Nat) (Ld : Layout) :
    List Field → List (List Nat) → List (List Nat) → List (List Nat)
  | fs :: r, v :: vr, d => copyFs cast Ld r vr (copyStep cast Ld fs v d)
  | _, _, d => d

/-- the fields the calls after the copy loop write -/
def overwrittenSlots (niftiTarget : Bool) : List String :=
  ["datatype", "bitpix", "dim", "pixdim"] ++ (if niftiTarget then ["magic"] else [])

/-- `klass.from_header(src, check=False)` for another class: `g` gives the values the setters write -/
def fromHeaderVals (cast : Field → Field → List Nat → List Nat) (Ls Ld : Layout) (niftiTarget : Bool)
    (src dflt : List (List Nat)) (g : String → List Nat) : List (List Nat) :=
  setSlots Ld (copyFs cast Ld Ls.fields src dflt) (overwrittenSlots niftiTarget) g

inductive Prov where
  | copied | default | overwritten
  deriving DecidableEq, Repr

/-- where the value of target field `fd` comes from -/
def provOf (Ls : Layout) (niftiTarget : Bool) (fd : Field) : Prov :=
  if fd.name ∈ overwrittenSlots niftiTarget then .overwritten
  else match findFs Ls.fields fd.name with
    | some fs => if castable fs fd then .copied else .default
    | none => .default

/-- `get_data_shape()`: dim[0] == 0 reads as shape (0,) -/
def getShape (dim : List Int) : List Int :=
  let nd := (dim.getD 0 0).toNat
  if nd = 0 then [0] else (dim.drop 1).take nd

/-- `set_data_shape(shape)` on `dim` (8 entries) -/
def setShapeDim (shape : List Int) : List Int :=
  (shape.length : Int) :: shape ++ List.replicate (7 - shape.length) 1

/-- provenance of the 8 target pixdim entries: `c` = cast of the source entry, `1` = the constant 1.0.
    Entry 0 (qfac) is copied; entries 1..ndim come back through get_zooms/set_zooms (for a 0-d source
    get_zooms() is (1.0,)); entries after ndim are reset to 1.0 by set_data_shape (open finding). -/
def pixTags (F : FloatFmt) (dim : List Int) (pix : List Nat) : List Char :=
  let nd0 := (dim.getD 0 0).toNat
  let nd := (getShape dim).length
  (List.range 8).map (fun i =>
    if i = 0 then 'c'
    else if 1 ≤ i ∧ i ≤ nd ∧ nd0 ≠ 0 then 'c'
    else if pix.getD i 0 = F.one then 'c' else '1')

/-! ### MGH constructor normalisation (mghformat.py 104-127, 380-385) -/

/-- right zero-pad / truncate to the full (header+footer) size -/
def mghPad (full : Nat) (bs : List Byte) : List Byte :=
  bs.take full ++ List.replicate (full - bs.length) 0

/-- `_set_affine_default` when goodRASFlag == 0 -/
def mghNormalise (L : Layout) (vals : List (List Nat)) : List (List Nat) :=
  if (getRaw L vals "goodRASFlag").all (· == 0) then
    let o := fmt32.one
    let m := fmt32.negOne
    let v := setRaw L vals "goodRASFlag" [1]
    let v := setRaw L v "delta" [o, o, o]
    let v := setRaw L v "Mdc" [m, 0, 0, 0, 0, o, 0, m, 0]
    setRaw L v "Pxyz_c" [0, 0, 0]
  else vals

/-! ### the public entry point `WrapStruct.check_fix(logger=None, error_level=None)` (wrapstruct.py 345-362)

        battrun = BatteryRunner(self.__class__._get_checks())
        self, reports = battrun.check_fix(self)          -- ALL checks run, ALL repairs applied in place
        for report in reports:
            report.log_raise(logger, error_level)        -- only then: log each report, raise at the first
                                                         --   with problem_level and problem_level >= error_level
    `Report.log_raise` (batteryrunners.py 258-271) logs first and then raises `report.error(problem_msg)`;
    every `_chk_*` of the header classes builds its report with `HeaderDataError` (a report without an error
    class has level 0 and never raises).  `error_level=None` means `imageglobals.error_level` (default 40,
    settable through `imageglobals.ErrorLevel`), `logger=None` means `imageglobals.logger`.  The object is
    repaired IN PLACE, so the caller that catches the exception holds the repaired header: the bytes are an
    observable of the call also when it raises. -/

/-- `problem_level and problem_level >= error_level` -/
def Report.raisesAt (lvl : Int) (r : Report) : Bool := r.level != 0 && decide (lvl ≤ (r.level : Int))

/-- the loop `for report in reports: report.log_raise(logger, error_level)`:
    (reports handed to the logger, index of the report that raised) -/
def logRaise (lvl : Int) : List Report → List Report × Option Nat
  | [] => ([], none)
  | r :: rs =>
    if r.raisesAt lvl then ([r], some 0)
    else (r :: (logRaise lvl rs).1, (logRaise lvl rs).2.map (· + 1))

/-- `error_level=None` → `imageglobals.error_level` -/
def effLevel (arg : Option Int) (glob : Int) : Int := arg.getD glob

/-- what one call `hdr.check_fix(logger, error_level)` leaves behind -/
structure PubResult where
  bytes : List Byte          -- `hdr.binaryblock` after the call (also when it raised)
  logged : List Report       -- what the logger received, in order
  raised : Option Nat        -- battery index of the check whose report raised `HeaderDataError`
  deriving DecidableEq, Repr, Inhabited

def wrapCheckFix (c : ClsSpec) (L : Layout) (e : Endian) (bs : List Byte) (lvl : Int) : PubResult :=
  let r := checkFixBytes c L e bs
  let lr := logRaise lvl r.2
  ⟨r.1, lr.1, lr.2⟩

/-- a history of `check_fix` calls (each with its own effective error level) on the same object -/
def runHistory (c : ClsSpec) (L : Layout) (e : Endian) : List Byte → List Int → List PubResult
  | _, [] => []
  | bs, l :: ls => wrapCheckFix c L e bs l :: runHistory c L e (wrapCheckFix c L e bs l).bytes ls

/-- `Klass(binaryblock, endianness, check=True)` (wrapstruct.py 130-172; analyze.py 198, nifti1.py 847,
    mghformat.py 104-127 delegate): `check_fix()` with the global levels; the object exists only when
    nothing raised (`error i` = `HeaderDataError` from battery index `i`) -/
def ctorChecked (c : ClsSpec) (L : Layout) (e : Endian) (bs : List Byte) (glob : Int) : Except Nat (List Byte) :=
  match (wrapCheckFix c L e bs glob).raised with
  | some i => .error i
  | none => .ok (wrapCheckFix c L e bs glob).bytes

/-- `WrapStruct.diagnose_binaryblock` (wrapstruct.py 364-370): the non-empty messages of `check_only` -/
def diagnose (c : ClsSpec) (L : Layout) (e : Endian) (bs : List Byte) : List Report :=
  (checkOnlyBytes c L e bs).filter (fun r => r.msg != .none)

/-! ### from_header: the values the setters write, computed from the SOURCE header (analyze.py 394-405)

        obj.set_data_dtype(header.get_data_dtype())    -- get: analyze.py 535-542, set: 544-583
        obj.set_data_shape(header.get_data_shape())    -- get: 585-606 (`getShape`), set: 608-634 (`setShapeDim`, `setShapePix`)
        obj.set_zooms(header.get_zooms())              -- get: 664-690, set: 692-706
    `fromHeaderG?` is the `g` of `fromHeaderVals`; `none` = `HeaderDataError` (datatype not supported by the
    target, a dimension that does not fit the target's `dim` item type, a negative zoom).  `copied` = the target
    record after the copy loop (its pixdim is NumPy's cast of the source pixdim).  Not modelled: the
    NIfTI-1 freesurfer shape hacks (nifti1.py 947-1064: dim[1:4] = (-1,1,1) / (27307,1,6) on the source side;
    on the target side they need a dimension that does not fit int16 and are excluded by the fit test). -/

/-- value representable in a `w`-byte signed item (`dims[1:ndims+1] = shape; np.all(dims[1:ndims+1] == shape)`) -/
def fitsInt (w : Nat) (x : Int) : Bool :=
  decide (-((256 ^ w : Nat) : Int) ≤ 2 * x ∧ 2 * x < ((256 ^ w : Nat) : Int))

def convDtype? (ts td : List DtCode) (code : Int) : Option (Int × Int) :=
  match dtFind ts code with
  | none => none
  | some r => if r.isz = 0 then none
              else (dtCodeOf td r.kind r.isz).map (fun k => (k, ((8 * r.isz : Nat) : Int)))

def srcZooms (F : FloatFmt) (dim : List Int) (cp : List Nat) : List Nat :=
  if dim.getD 0 0 = 0 then [F.one] else getZooms (getShape dim).length cp

def fromHeaderPixG (F : FloatFmt) (dim : List Int) (cp : List Nat) : List Nat :=
  setZoomsPix (getShape dim).length (srcZooms F dim cp) (setShapePix F (getShape dim).length cp)

def padTo (n : Nat) (l : List Nat) : List Nat := l ++ List.replicate (n - l.length) 0

def fromHeaderG? (cs cd : ClsSpec) (Ls Ld : Layout) (src copied : List (List Nat)) : Option (String → List Nat) :=
  let dim := getInts Ls src "dim"
  let shape := getShape dim
  match convDtype? cs.dtTable cd.dtTable ((getInts Ls src "datatype").getD 0 0) with
  | none => none
  | some (k, bp) =>
    if !(shape.all (fitsInt (fieldW Ld "dim"))) then none
    else if dim.getD 0 0 ≠ 0 ∧ (getZooms shape.length (getRaw Ls src "pixdim")).any cs.pixFmt.isNeg then none
    else some (fun n =>
      if n = "datatype" then [ofInt (fieldW Ld n) k]
      else if n = "bitpix" then [ofInt (fieldW Ld n) bp]
      else if n = "dim" then (setShapeDim shape).map (ofInt (fieldW Ld n))
      else if n = "pixdim" then fromHeaderPixG cd.pixFmt dim (getRaw Ld copied n)
      else if n = "magic" then
        padTo (getRaw Ld copied n).length (if cd.isSingle then cd.singleMagic else cd.pairMagic)
      else getRaw Ld copied n)

/-! ### objects and buffers: can `copy()` alias?

    `_structarr` is a NumPy array object; two header objects could view the same memory.  State = buffers
    + objects that refer to a buffer by id; writes through an object land in the buffer it views. -/

/-- an object: its byte-order label and the id of the buffer its `_structarr` views -/
structure ObjRef where
  e : Endian
  buf : Nat
  deriving DecidableEq, Repr, Inhabited

/-- buffers (`_structarr` memory, as field values) and objects referring to them; two objects MAY share a
    buffer — whether `copy()` does is a property of the code, not of this state space -/
structure World where
  bufs : List (List (List Nat))
  objs : List ObjRef
  deriving DecidableEq, Repr, Inhabited

def World.wf (w : World) : Prop := ∀ o ∈ w.objs, o.buf < w.bufs.length

/-- the header object `i` denotes -/
def World.hdr (w : World) (i : Nat) : Hdr :=
  ⟨(w.objs.getD i default).e, w.bufs.getD (w.objs.getD i default).buf []⟩

/-- `copy()` (wrapstruct.py 261-272): `self.__class__(self.binaryblock, self.endianness, check=False)`;
    `binaryblock` is `tobytes()` (new bytes) and the constructor stores `wstr.copy()` (wrapstruct.py 170):
    a NEW buffer holding the parsed bytes, and a new object viewing it -/
def World.copyObj (L : Layout) (w : World) (i : Nat) : World × Nat :=
  let h := copy L (w.hdr i)
  (⟨w.bufs ++ [h.vals], w.objs ++ [⟨h.e, w.bufs.length⟩]⟩, w.objs.length)

/-- the ALIASING variant (not the code): a `copy()` that hands out a new object viewing the SAME
    `_structarr` buffer -/
def World.copyObjAlias (w : World) (i : Nat) : World × Nat :=
  (⟨w.bufs, w.objs ++ [w.objs.getD i default]⟩, w.objs.length)

/-- `obj_i[name] = v`: a write through object `i` lands in the buffer it views -/
def World.setObj (L : Layout) (w : World) (i : Nat) (name : String) (v : List Nat) : World :=
  if i < w.objs.length ∧ (w.objs.getD i default).buf < w.bufs.length then
    ⟨w.bufs.set (w.objs.getD i default).buf
      ((Hdr.setField L ⟨.le, w.bufs.getD (w.objs.getD i default).buf []⟩ name v).vals), w.objs⟩
  else w

def World.setMany (L : Layout) (w : World) (i : Nat) (ws : List (String × List Nat)) : World :=
  ws.foldl (fun w x => w.setObj L i x.1 x.2) w

end Nb.C10
