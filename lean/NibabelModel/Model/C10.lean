/-! Model/C10 — executable model (core Lean only; imports only NibabelModel.Basic.* / other Model files). -/
namespace Nb.C10

end Nb.C10
