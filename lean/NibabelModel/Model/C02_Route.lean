import NibabelModel.Model.C02
/-! Model/C02_Route — where the image and its header come FROM, what reaches the disk, and what the readers make of it
(core Lean only, executable).

`Model/C02.lean` models one `to_file_map` on a header whose consumable fields are `Option Rat`.  This file adds the
layers around it that the property's "reloads" depends on:

* the two float slots of an Analyze-family header as RAW field values (`Fld`: finite / NaN / ±inf) under the names each
  header class gives them (`scl_slope` | `funused1`, `scl_inter` | `funused2`; analyze.py:125-133,
  spm99analyze.py:26-33, spm2analyze.py:17-21, nifti1.py:55-57) and the class defaults (`default_structarr`);
* header conversion `klass.from_header(other)` — fields copied BY NAME through `as_analyze_map` (analyze.py:352-409);
* the image constructor's reset of the consumables, `set_slope_inter(None, None)` (analyze.py:913-916), and
  `set_slope_inter(slope, inter)` at field level for every class (analyze.py:773-792, spm99analyze.py:65-92,
  spm2analyze.py:113-117 — AFTER `fix:` a029be1a — and nifti1.py:1413-1446); `…Orig` = SPM2 before that fix;
* construction routes (`klass(data, aff, header=<header of another class>)`, `from_image`, `from_header`,
  `instance_to_filename`, image loaded from a file);
* the on-disk readers: `get_slope_inter` of every header class (analyze.py:766-771, spm99analyze.py:52-63,
  spm2analyze.py:94-111 incl. the glmax/glmin/cal_max/cal_min fallback, nifti1.py:1370-1411) and what `ArrayProxy`
  makes of the result (arrayproxy.py:176-180: `None` → 1 / 0);
* the image's data versus the working copies `get_fdata()` hands out (`_fdata_cache`, dataobj_images.py:224-357): a
  small reference model — an array returned by `get_fdata` either IS the image's array (array image, same dtype) or is
  a separate object; in-place edits reach the image data only through the former.

Float32 storage of the fields is not modelled (`rnd` of Model/C02 stands for it); field values are exact rationals. -/
namespace Nb.C02

/-- the value of a float header field -/
inductive Fld
  | fin (r : Rat)
  | nan | pinf | ninf
  deriving DecidableEq, Repr

/-- the field as `to_file_map` consumes it: NaN = "calculate"; (±inf: see `Fld.isInf`) -/
def Fld.consum : Fld → Option Rat
  | .fin r => some r
  | _ => none

def Fld.isInf : Fld → Bool
  | .pinf => true
  | .ninf => true
  | _ => false

def Fld.isNan : Fld → Bool
  | .nan => true
  | _ => false

/-- the two float slots at the `funused1` / `funused2` position, whatever the class calls them -/
structure Flds where
  slope : Fld
  inter : Fld
  deriving DecidableEq, Repr

/-- `glmax, glmin` (int32), `cal_max, cal_min` (float32): SPM2's fallback scaling (spm2analyze.py:103-110) -/
structure GlCal where
  glmax : Int
  glmin : Int
  calmax : Rat
  calmin : Rat
  deriving DecidableEq, Repr

def GlCal.zero : GlCal := ⟨0, 0, 0, 0⟩

/-- header classes with different scaling behaviour (NIfTI-1/2, single and pair, behave alike here) -/
inductive HK | nifti | spm99 | spm2 | analyze
  deriving DecidableEq, Repr

def HK.cls : HK → Cls
  | .nifti => .nifti
  | .spm99 => .spm
  | .spm2 => .spm
  | .analyze => .analyze

/-- is slot 1 called `scl_slope` (else `funused1`) -/
def HK.slot1Scl : HK → Bool
  | .analyze => false
  | _ => true

/-- is slot 2 called `scl_inter` (else `funused2`) -/
def HK.slot2Scl : HK → Bool
  | .nifti => true
  | .spm2 => true
  | _ => false

/-- `default_structarr` (nifti1.py:893-902, spm99analyze.py:46-50: `scl_slope = 1`; analyze.py: zeros) -/
def HK.default : HK → Flds
  | .analyze => ⟨.fin 0, .fin 0⟩
  | _ => ⟨.fin 1, .fin 0⟩

/-- `dst.from_header(src header)` (analyze.py:352-409): own type → copy; else a fresh header into which every field of
    `as_analyze_map()` whose NAME the target knows is copied (same names ⇒ same result as the copy) -/
def convert (src dst : HK) (f : Flds) : Flds :=
  { slope := if src.slot1Scl = dst.slot1Scl then f.slope else dst.default.slope,
    inter := if src.slot2Scl = dst.slot2Scl then f.inter else dst.default.inter }

/-- `hdr.set_slope_inter(None, None)` — the reset in `AnalyzeImage.__init__` (analyze.py:913-916) -/
def ctorReset (k : HK) (f : Flds) : Flds :=
  match k with
  | .nifti => ⟨.nan, .nan⟩
  | .spm99 => { f with slope := .nan }
  | .spm2 => ⟨.nan, .fin 0⟩                 -- a029be1a: the intercept field SPM2 reads but cannot set is cleared
  | .analyze => f

/-- SPM2 before a029be1a: inherited `SpmAnalyzeHeader.set_slope_inter`, `scl_inter` untouched -/
def ctorResetOrig (k : HK) (f : Flds) : Flds :=
  match k with
  | .spm2 => { f with slope := .nan }
  | _ => ctorReset k f

/-- `hdr.set_slope_inter(s, b)` with finite `s, b` at field level -/
def setSIF (k : HK) (s b : Rat) (f : Flds) : Except Err Flds :=
  match k with
  | .nifti => if s = 0 then .error .headerData else .ok ⟨.fin s, .fin b⟩
  | .spm99 => if s = 0 then .error .headerData else if b = 0 then .ok { f with slope := .fin s } else .error .headerType
  | .spm2 => if s = 0 then .error .headerData else if b = 0 then .ok ⟨.fin s, .fin 0⟩ else .error .headerType
  | .analyze => if s = 1 ∧ b = 0 then .ok f else .error .headerType

def setSIFOrig (k : HK) (s b : Rat) (f : Flds) : Except Err Flds :=
  match k with
  | .spm2 => setSIF .spm99 s b f
  | _ => setSIF k s b f

/-! ## construction routes -/

/-- how the image that is saved came to exist; `dk` = class of the donor (header or image), `F` = the donor header's
    fields as they are when the route starts -/
inductive Route
  | same        -- `K(data, aff, header=<header of K with fields F>)`; also an image LOADED from a K file with header F
  | fromImage   -- `K.from_image(donor image)` / `K.instance_to_filename(donor image, …)` / `K(…, header=donor_img.header)`
  | hdrRaw      -- `K(data, aff, header=<donor header as read by Header.from_fileobj>)` / `…, K.header_class.from_header(…)`
  deriving DecidableEq, Repr

def routeFldsWith (reset : HK → Flds → Flds) (r : Route) (dk k : HK) (F : Flds) : Flds :=
  match r with
  | .same => reset k F
  | .fromImage => reset k (convert dk k (reset dk F))   -- the donor header went through the donor image's constructor
  | .hdrRaw => reset k (convert dk k F)

def routeFlds := routeFldsWith ctorReset
def routeFldsOrig := routeFldsWith ctorResetOrig

/-! ## the readers -/

/-- `hdr.get_slope_inter()` of a header of class `k` read from disk -/
def readSI (k : HK) (f : Flds) (g : GlCal) : Except Err (Option Rat × Option Rat) :=
  match k with
  | .analyze => .ok (none, none)
  | .spm99 =>
      match f.slope with
      | .fin r => if r = 0 then .ok (none, none) else .ok (some r, none)
      | _ => .ok (none, none)
  | .nifti =>
      match f.slope with
      | .fin r =>
          if r = 0 then .ok (none, none)
          else match f.inter with
               | .fin b => .ok (some r, some b)
               | _ => .error .headerData            -- "Valid slope but invalid intercept"
      | _ => .ok (none, none)
  | .spm2 =>
      let fallback : Except Err (Option Rat × Option Rat) :=
        let ur : Rat := g.glmax - g.glmin
        let sr := g.calmax - g.calmin
        if ur ≠ 0 ∧ sr ≠ 0 then .ok (some (sr / ur), some (g.calmin - sr / ur * g.glmin)) else .ok (none, none)
      match f.slope with
      | .fin r =>
          if r = 0 then fallback
          else .ok (some r, some (match f.inter with | .fin b => b | _ => 0))   -- non-finite intercept counts as 0
      | _ => fallback

/-- the seeded "flattened" SPM2 reader: one finiteness test over both fields (valid slope with a non-finite intercept
    falls through to the gl / cal fallback) — kept for the counterexample theorem -/
def readSIFlat (f : Flds) (g : GlCal) : Except Err (Option Rat × Option Rat) :=
  match f.slope, f.inter with
  | .fin r, .fin b => if r = 0 then readSI .spm2 ⟨.fin 0, f.inter⟩ g else .ok (some r, some b)
  | _, _ => readSI .spm2 ⟨.nan, f.inter⟩ g

/-- `ArrayProxy.__init__` (arrayproxy.py:176-180): `None` slope → 1, `None` intercept → 0 -/
def proxySI (k : HK) (f : Flds) (g : GlCal) : Except Err (Rat × Rat) :=
  (readSI k f g).map fun (s, b) => (s.getD 1, b.getD 0)

/-! ## `to_file_map` at field level -/

/-- `scale_me` (analyze.py:1019) from the raw fields -/
def scaleMeF (k : HK) (f : Flds) : Bool :=
  (!k.cls.caps.hasSlope || f.slope.isNan) && (!k.cls.caps.hasInter || f.inter.isNan)

/-- the header fields as `hdr.write_to(hdrf)` sees them: after `hdr.set_slope_inter(*get_slope_inter(arr_writer))` when
    the scaling is calculated and the call got that far and was accepted, else untouched.
    `set` = the class's `set_slope_inter` at field level (`setSIF`, or `setSIFOrig`). -/
def hdrWrittenWith (set : HK → Rat → Rat → Flds → Except Err Flds) (k : HK) (rnd : Rat → Rat) (p32 : Nat) (i : InT)
    (o : OutT) (f : Flds) (data : List Val) : Flds :=
  if scaleMeF k f then
    match makeWriter k.cls.caps with
    | .error _ => f
    | .ok w =>
      match writerScale w rnd p32 i o data with
      | .error _ => f
      | .ok (s, b) =>
        match set k s b f with
        | .error _ => f
        | .ok f' => f'
  else f

/-- `img.to_file_map(fm, dtype=arg)` on an image of class `k` whose header holds data type `dt` and raw fields `f`:
    (what `toFileMap` observes, the fields WRITTEN TO DISK, the fields of the image header AFTER the call).
    `none`: float on-disk type, or an infinite consumable field (neither is modelled). -/
def toFileMapFWith (set : HK → Rat → Rat → Flds → Except Err Flds) (k : HK) (rnd : Rat → Rat) (p32 : Nat) (i : InT)
    (dt : DT) (f : Flds) (arg : Option DT) (data : List Val) :
    Option (Except Err (Rat × Rat × List Int) × Flds × Flds) :=
  let caps := k.cls.caps
  if (caps.hasSlope && f.slope.isInf) || (caps.hasInter && f.inter.isInf) then none
  else
    match effectiveOut dt arg, toFileMap k.cls rnd p32 i ⟨dt, f.slope.consum, f.inter.consum⟩ arg data with
    | some o, some (res, _) =>
        let disk := hdrWrittenWith set k rnd p32 i o f data
        -- finally: `hdr['scl_slope'] = slope` / `hdr['scl_inter'] = inter` only where the class declares the capability
        let after : Flds := { slope := if caps.hasSlope then f.slope else disk.slope,
                              inter := if caps.hasInter then f.inter else disk.inter }
        some (res, disk, after)
    | _, _ => none

def toFileMapF := toFileMapFWith setSIF
def toFileMapFOrig := toFileMapFWith setSIFOrig

/-! ## an image loaded from a file -/

/-- dtype of `np.asanyarray(proxy)` for raw integers of range `[lo, hi]` (arrayproxy.py:414-423 +
    `apply_read_scaling`): the raw type itself when the scaling is (1, 0); else float64 for the readers that return
    Python floats (NIfTI, SPM2) and NumPy's promotion with float32 for SPM99's float32 slope. -/
def loadedIn (dk : HK) (lo hi : Int) (s b : Rat) : InT :=
  if s = 1 ∧ b = 0 then .int lo hi
  else match dk with
       | .spm99 => .flt (workingPrec (.int lo hi))
       | _ => .flt 53

/-- `np.asanyarray(img.dataobj)` of an image loaded from a `dk` file with header fields `F` and raw integers `raws` -/
def loadData (dk : HK) (F : Flds) (g : GlCal) (lo hi : Int) (raws : List Int) : Except Err (InT × List Val) := do
  let (s, b) ← proxySI dk F g
  .ok (loadedIn dk lo hi s b, raws.map fun q => Val.fin (applyReadScaling s b q))

/-! ## the image's data and the arrays `get_fdata` hands out -/

inductive FT | f16 | f32 | f64
  deriving DecidableEq, Repr

inductive EditOp | zero | clip0 | neg
  deriving DecidableEq, Repr

/-- `work[...] = 0` / `np.clip(work, 0, None, out=work)` / `np.negative(work, out=work)` on one element -/
def EditOp.app : EditOp → Val → Val
  | .zero, _ => .fin 0
  | .clip0, .fin r => .fin (max r 0)
  | .clip0, .ninf => .fin 0
  | .clip0, v => v
  | .neg, .fin r => .fin (-r)
  | .neg, .pinf => .ninf
  | .neg, .ninf => .pinf
  | .neg, .nan => .nan

/-- an array object: the image's own array (`none`) or a separate one with its contents -/
abbrev Arr := Option (List Val)

inductive HOp
  | fd (dt : FT) (fill : Bool)   -- `work = img.get_fdata(dtype=dt, caching='fill' | 'unchanged')`
  | edit (e : EditOp)            -- in-place edit of the array the last `get_fdata` returned
  | uncache                      -- `img.uncache()`
  | editObj (e : EditOp)         -- in-place edit of `np.asanyarray(img.dataobj)`
  deriving DecidableEq, Repr

structure ImgSt where
  data : List Val                    -- the image's data (array image: the array; proxy: what the file decodes to)
  cache : Option (FT × Arr)          -- `_fdata_cache`
  last : Option Arr                  -- the array the caller got from the last `get_fdata`
  lastIsCache : Bool                 -- … and whether it is the very object in `_fdata_cache`
  deriving Repr

/-- one step.  `isProxy`: the image's dataobj is an array proxy; `arrFT`: the float dtype of an array image's array
    (`none`: integer array); `cast dt` = conversion of the data to float type `dt` (IEEE rounding: a parameter). -/
def stepH (isProxy : Bool) (arrFT : Option FT) (cast : FT → List Val → List Val) (st : ImgSt) : HOp → ImgSt
  | .fd dt fill =>
      match st.cache with
      | some (c, a) =>
          if c = dt then { st with last := some a, lastIsCache := true }
          else
            -- `np.asanyarray(self._dataobj, dtype=dt)`: the array itself iff it already has that dtype
            let a' : Arr := if !isProxy && arrFT = some dt then none else some (cast dt st.data)
            if fill then { st with cache := some (dt, a'), last := some a', lastIsCache := true }
            else { st with last := some a', lastIsCache := false }
      | none =>
          let a' : Arr := if !isProxy && arrFT = some dt then none else some (cast dt st.data)
          if fill then { st with cache := some (dt, a'), last := some a', lastIsCache := true }
          else { st with last := some a', lastIsCache := false }
  | .edit e =>
      match st.last with
      | none => st
      | some none =>                                 -- the caller holds the image's own array
          { st with data := st.data.map e.app }
      | some (some xs) =>
          let ys := xs.map e.app
          { st with last := some (some ys),
                    cache := if st.lastIsCache then st.cache.map fun (c, _) => (c, some ys) else st.cache }
  | .uncache => { st with cache := none, lastIsCache := false }
  | .editObj e => if isProxy then st else { st with data := st.data.map e.app }

def runH (isProxy : Bool) (arrFT : Option FT) (cast : FT → List Val → List Val) : ImgSt → List HOp → ImgSt
  | st, [] => st
  | st, op :: rest => runH isProxy arrFT cast (stepH isProxy arrFT cast st op) rest

def ImgSt.init (data : List Val) : ImgSt := ⟨data, none, none, false⟩

/-- what `to_file_map` writes: `np.asanyarray(self.dataobj)` (analyze.py:1004) -/
def ImgSt.written (st : ImgSt) : List Val := st.data

/-- the seeded variant: a scaled proxy whose `_fdata_cache` is filled writes the cache -/
def ImgSt.writtenFromCache (isProxy scaled : Bool) (st : ImgSt) : List Val :=
  match st.cache with
  | some (_, some xs) => if isProxy && scaled then xs else st.data
  | _ => st.data

end Nb.C02
