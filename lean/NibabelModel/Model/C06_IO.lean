/-
  Model/C06_IO — the part of `nibabel/fileslice.py` that touches the file, at the level of BYTES:
  `read_segments` (fileslice.py:627-682: the loop over the segments — seek, read, length checks, join) and the
  tail of `fileslice` (fileslice.py:775-781: `n_bytes`, `np.ndarray(sliced_shape, dtype, buffer=arr_data,
  order=order)[post_slicers]`), over a file object with contents and a CURRENT POSITION, plus histories of
  reads on several file objects (each read leaves the position of its file behind for the next one).

  `Model/C06.lean` works with element NUMBERS (`segElems`); `Lemmas/C06_Hist.lean` proves that the byte-level
  functions below deliver, for every output element, exactly the `isz` bytes of the stored element NumPy
  indexing selects — whatever the position the file object was left at by earlier reads.

  Conventions: a byte is a `Nat`; an element is the list of its `isz` bytes; `np.ndarray(shape, dtype,
  buffer=b)` of a buffer of exactly `prod(shape) * isz` bytes is the list of its `isz`-byte chunks (F order,
  fastest axis first, as everywhere in Model/C06).  File objects behave like `io.BytesIO` / a binary file opened
  for reading: `seek(o)` with `o >= 0` always succeeds, `read(n)` returns the at most `n` bytes from the current
  position to the end and advances by the number returned; a negative seek raises.  Core Lean only.
-/
import NibabelModel.Model.C06
namespace Nb.C06

/-- a binary file object opened for reading: contents and current position -/
structure FileObj where
  data : List Nat
  pos  : Nat
  deriving Repr, Inhabited, DecidableEq

/-- `fileobj.seek(o)` -/
def FileObj.seek (f : FileObj) (o : Nat) : FileObj := { f with pos := o }

/-- `fileobj.read(n)`: the bytes returned and the file object afterwards -/
def FileObj.read (f : FileObj) (n : Nat) : List Nat × FileObj :=
  let chunk := (f.data.drop f.pos).take n
  (chunk, { f with pos := f.pos + chunk.length })

/-- the loop of `read_segments` for more than one segment (fileslice.py:674-678):
    `for offset, length in segments: fileobj.seek(offset); bytes.write(fileobj.read(length))`
    where `bytes = mmap(-1, n_bytes)` (`cap` bytes; writing past its end raises `ValueError`).
    Returns what has been written and the file object as the loop leaves it. -/
def readLoop (cap : Nat) : List Segment → FileObj → List Nat → Except Err (List Nat) × FileObj
  | [], f, buf => (.ok buf, f)
  | s :: rest, f, buf =>
      if s.offset < 0 then (.error .value, f)
      else
        let r := (f.seek s.offset.toNat).read s.length
        if buf.length + r.1.length > cap then (.error .short, r.2)
        else readLoop cap rest r.2 (buf ++ r.1)

/-- `read_segments(fileobj, segments, n_bytes)` (fileslice.py:627-682): no segment → `b''` (an error if
    bytes were expected); one segment → seek, read, `len(bytes) != n_bytes` raises; otherwise the loop above
    into a fresh `mmap(-1, n_bytes)` (which raises for `n_bytes == 0`) and `bytes.tell() != n_bytes` raises. -/
def readSegments (f : FileObj) (segs : List Segment) (nBytes : Nat) : Except Err (List Nat) × FileObj :=
  match segs with
  | [] => if nBytes ≠ 0 then (.error .value, f) else (.ok [], f)
  | [s] =>
      if s.offset < 0 then (.error .value, f)
      else
        let r := (f.seek s.offset.toNat).read s.length
        if r.1.length ≠ nBytes then (.error .short, r.2) else (.ok r.1, r.2)
  | _ =>
      if nBytes = 0 then (.error .value, f)
      else
        match readLoop nBytes segs f [] with
        | (.ok buf, f') => if buf.length ≠ nBytes then (.error .short, f') else (.ok buf, f')
        | r => r

/-- the `count` elements of `isz` bytes each that `np.ndarray(..., buffer=b)` sees in `b` -/
def chunks (isz : Nat) : Nat → List Nat → List (List Nat)
  | 0, _ => []
  | k + 1, l => l.take isz :: chunks isz k (l.drop isz)

/-- `fileslice(fileobj, sliceobj, shape, dtype, offset, order, heuristic)` on a file object (bytes in, bytes
    out): plan (`calc_slicedefs`), `n_bytes = prod(sliced_shape) * itemsize`, `read_segments`,
    `np.ndarray(sliced_shape, dtype, buffer=arr_data, order=order)[post_slicers]`.
    Result: output shape and the bytes of every output element (enumerated in `order`), and the file object
    afterwards. -/
def filesliceIO (h : Heuristic) (idx : List IdxItem) (shape : List Nat) (isz off : Nat) (o : Order)
    (f : FileObj) : Except Err (List Nat × List (List Nat)) × FileObj :=
  match calcSlicedefs h idx shape isz off o with
  | .error e => (.error e, f)
  | .ok d =>
      let count := d.readShape.foldl (· * ·) 1
      match readSegments f d.segments (count * isz) with
      | (.error e, f') => (.error e, f')
      | (.ok bytes, f') =>
          match postSels d.post d.readShape with
          | .error e => (.error e, f')
          | .ok sels =>
              let r : NdArr (List Nat) := ⟨d.readShape, chunks isz count bytes⟩
              let out := r.index sels
              (.ok (orient o out.shape, out.data), f')

/-! ### histories: several reads, one after another, on several file objects -/

/-- one read: which file object, and the arguments of `fileslice` -/
structure Req where
  file  : Nat
  h     : Heuristic
  idx   : List IdxItem
  shape : List Nat
  isz   : Nat
  off   : Nat
  o     : Order

abbrev ReadResult := Except Err (List Nat × List (List Nat))

/-- run the reads in order; every read finds its file object where the previous read of that file left it -/
def runHistory : List FileObj → List Req → List ReadResult
  | _, [] => []
  | files, r :: rest =>
      let out := filesliceIO r.h r.idx r.shape r.isz r.off r.o (files.getD r.file default)
      out.1 :: runHistory (files.set r.file out.2) rest

/-- the bytes of stored element number `q` of an array starting at byte `off` of the file -/
def elemBytes (data : List Nat) (off isz q : Nat) : List Nat :=
  (List.range isz).map (fun i => data.getD (off + isz * q + i) 0)

end Nb.C06
