import NibabelModel.Basic.PySlice
import NibabelModel.Generated.C13Consts
/-!
Model/C13 — the image data cache and its aliases (core Lean only).

Models, as they are NOW in /repo:

* `nibabel/dataobj_images.py:196-224`  `DataobjImage.get_data`   (legacy cache `_data_cache`)
* `nibabel/dataobj_images.py:361-376`  `DataobjImage.get_fdata`  (`_fdata_cache`, dtype test)
* `nibabel/dataobj_images.py:378-389`  `in_memory`
* `nibabel/dataobj_images.py:391-417`  `uncache`
* `nibabel/arrayproxy.py:175-208`      `ArrayProxy.__init__` copies shape/dtype/slope/inter out of the
                                        header (`None` slope/inter become 1.0 / 0.0)
* `nibabel/arrayproxy.py:387-461`      `_get_unscaled`, `_get_scaled`, `__array__`, `__getitem__` (fresh array per read)
* `nibabel/fileslice.py:118-125`       `canonical_slicers`: which slices count as the whole axis
* `nibabel/volumeutils.py:904-909`     `apply_read_scaling`: (slope, inter) = (1, 0) returns the raw array
* `nibabel/volumeutils.py:446-453`     `array_from_file`: map mode (`True` means `'c'`), only for uncompressed
                                        real files; `'r'` maps are read-only (`IOp`, `Par.readRO`)
* `nibabel/filebasedimages.py:188`     `self._header = header_class.from_header(header)` (a copy)
* `nibabel/analyze.py:912-915`         `AnalyzeImage.__init__`: the image's header copy has slope/inter
                                        reset to (None, None)
* `nibabel/analyze.py:929-979`         `from_file_map` gives the proxy its own `header.copy()` (:964)

Conventions.  NumPy arrays live in a heap `List Arr`; the identity of an array is its index (ids are
never reused, exactly as the harness keeps every returned array alive so `id()` is not recycled).
An array is (dtype, values); values are small integers, exact in int16/float32/float64, so dtype
conversion keeps them (NumPy element casts are outside the model, see ASSUMPTIONS in c13.py).  The
images are 3-D of shape (n,1,1); `vals` is the first axis.  "edit" is the attempted in-place `arr += 1`
(refused by NumPy on a read-only array; the harness swallows exactly that refusal).

External contract (NumPy): `np.asanyarray(a, dtype=d)` is `a` itself when `a` is an ndarray whose
dtype is `d` (or no dtype is given) and a new array otherwise; `np.asanyarray(proxy, dtype=d)` calls
`proxy.__array__(d)`, which builds a new array on every call.
-/
namespace Nb.C13
open Nb

/-- the three dtypes of the property: int16, float32, float64 -/
inductive DT | i2 | f4 | f8
  deriving DecidableEq, Repr, Inhabited

structure Arr where
  dt : DT
  vals : List Int
  ro : Bool := false      -- `not arr.flags.writeable`
  deriving DecidableEq, Repr

/-- value of a dangling heap reference (never reached from a well-formed state) -/
def Arr.dflt : Arr := ⟨.f8, [], false⟩

/-- attempted in-place `arr += 1`: NumPy refuses (ValueError) on a read-only array -/
def bump (a : Arr) : Arr := if a.ro then a else { a with vals := a.vals.map (· + 1) }

/-- the header fields the property mentions: `get_slope_inter()` (`none` = `(None, None)`),
    first axis length of `get_data_shape()`, `get_data_dtype()` -/
structure Hdr where
  scale : Option (Int × Int)
  n : Nat
  dt : DT
  deriving DecidableEq, Repr

/-- the `mmap` argument of `nib.load` / `from_file_map` / `ArrayProxy`: `True`, `False`, `'c'`, `'r'` -/
inductive MMap | on | off | c | r
  deriving DecidableEq, Repr

/-- what the proxy's `file_like` is: the name of an uncompressed file, the name of a compressed file, or
    an open file-like object without a file descriptor (`io.BytesIO`) -/
inductive FileKind | path | pathGz | handle
  deriving DecidableEq, Repr

/-- the non-header arguments an `ArrayProxy` stores at construction (`self._mmap`, `self.file_like`)
    and whether the storage byte order is the machine's (`self._dtype.isnative`) -/
structure IOp where
  mmap : MMap := .on
  file : FileKind := .handle
  swapped : Bool := false
  deriving DecidableEq, Repr

/-- `np.memmap(..., mode=m)`: is the map read-only (`some true`), copy-on-write (`some false`); other modes do
    not occur -/
def MMap.modeRO (m : String) : Option Bool :=
  if m = "r" then some true else if m = "c" then some false else none

/-- volumeutils.py:446-453 (`array_from_file`): `if mmap and not compressed: mode = 'c' if mmap is True else
    mmap; try: return np.memmap(..., mode=mode)`; `some ro` = the whole-array read IS a memory map, read-only
    iff the mode is `'r'`.  External contract (OS / NumPy): `np.memmap` succeeds exactly for a real file
    (`.path`); for a `BytesIO` it raises and the code falls through to a plain, writeable read. -/
def IOp.mapMode (io : IOp) : Option Bool :=
  if io.file = .path then
    match io.mmap with
    | .off => none
    | .on => MMap.modeRO Gen.C13.mmapTrueMode     -- `'c'` in the current source (regenerated constant)
    | .c => MMap.modeRO "c"
    | .r => MMap.modeRO "r"
  else none

def IOp.roMap (io : IOp) : Bool := io.mapMode == some true

/-- the parameters an `ArrayProxy` copies out of the header at construction (arrayproxy.py:175-208);
    the shape is the length of the file's value list -/
structure Par where
  dt : DT
  slope : Int
  inter : Int
  io : IOp := {}
  deriving DecidableEq, Repr

/-- arrayproxy.py:177-184: `1.0 if slope is None else slope`, `0.0 if inter is None else inter` -/
def Par.ofHdr (h : Hdr) (io : IOp := {}) : Par :=
  match h.scale with
  | some (s, i) => ⟨h.dt, s, i, io⟩
  | none => ⟨h.dt, Gen.C13.proxyNoneSlope, Gen.C13.proxyNoneInter, io⟩   -- (1, 0), regenerated from the source

/-- `raw * slope + inter` (`apply_read_scaling`) -/
def Par.scaled (p : Par) (raw : List Int) : List Int := raw.map (fun v => v * p.slope + p.inter)

/-- dtype of an unconverted read: the storage dtype when (slope, inter) = (1, 0)
    (volumeutils.py:908), float64 otherwise (slope/inter are Python floats) -/
def Par.outDt (p : Par) : DT := if p.slope = 1 ∧ p.inter = 0 then p.dt else .f8

/-- fileslice.py:118-125 (`canonical_slicers`): the only slices recognised as "the whole axis" -/
def isFullSlice (sl : PySlice) (n : Nat) : Bool :=
  (sl.start == none && sl.stop == none && sl.step == none) ||
  (sl.stop == some (n : Int) && (sl.start == none || sl.start == some 0) &&
    (sl.step == none || sl.step == some 1))

/-- `proxy[sl]` (arrayproxy.py:387-410, 457-459): a whole-axis slice goes through `array_from_file`
    (writeable); any other slice goes through `fileslice`, whose result wraps an immutable `bytes`
    buffer and is read-only unless scaling arithmetic produced a new array -/
def Par.sliceRO (p : Par) (sl : PySlice) (n : Nat) : Bool :=
  decide (p.slope = 1 ∧ p.inter = 0) && (!isFullSlice sl n || p.io.roMap)

/-- is the result of a whole-array read (`__array__(dtype)`, arrayproxy.py:412-459) read-only?  Only when it
    is the read-only memory map itself: map mode `'r'`, no scaling (`apply_read_scaling` returns its
    argument for (1, 0), volumeutils.py:907-908) and no conversion — `astype(..., copy=False)` returns
    its argument only for the identical dtype, byte order included. -/
def Par.readRO (p : Par) (d : Option DT) : Bool :=
  p.io.roMap && decide (p.slope = 1 ∧ p.inter = 0) &&
    (match d with
     | none => true
     | some d => decide (d = p.dt) && !p.io.swapped)

/-- what the image's `dataobj` is: an ndarray (array image; `own` = its heap id) or an array proxy
    (proxy image; the file's raw values and the frozen parameters) -/
inductive Img
  | array (own : Nat)
  | proxy (raw : List Int) (par : Par)
  deriving DecidableEq, Repr

inductive Caching | fill | unchanged | other
  deriving DecidableEq, Repr

/-- the `caching` argument as written in Python -/
def Caching.ofStr (s : String) : Caching :=
  if s = "fill" then .fill else if s = "unchanged" then .unchanged else .other

/-- a dtype as written in the source (`np.float64`, …) -/
def DT.ofNp (s : String) : Option DT :=
  if s = "np.float64" then some .f8 else if s = "np.float32" then some .f4
  else if s = "np.int16" then some .i2 else none

inductive HTarget | img | orig
  deriving DecidableEq, Repr

inductive HEdit
  | scale (s i : Int)     -- `hdr.set_slope_inter(s, i)`
  | shape (n : Nat)       -- `hdr.set_data_shape((n, 1, 1))`
  | dtype (d : DT)        -- `hdr.set_data_dtype(d)`
  deriving DecidableEq, Repr

def HEdit.apply (e : HEdit) (h : Hdr) : Hdr :=
  match e with
  | .scale s i => { h with scale := some (s, i) }
  | .shape n => { h with n := n }
  | .dtype d => { h with dt := d }

inductive Op
  | getFdata (c : Caching) (d : DT)   -- `img.get_fdata(caching=c, dtype=d)`
  | getData (c : Caching)             -- `img.get_data(caching=c)` (deprecated, still present)
  | asarray                           -- `np.asarray(img.dataobj)`
  | slice (sl : PySlice)              -- `img.dataobj[sl]` (proxy images)
  | uncache                           -- `img.uncache()`
  | edit (k : Nat)                    -- `arr_k += 1` on the array with id `k`
  | editLast                          -- `+= 1` on the most recently returned array
  | inMemory                          -- `img.in_memory`
  | hdr (t : HTarget) (e : HEdit)     -- edit `img.header` / the header object given to the constructor
  deriving DecidableEq, Repr

inductive Res
  | arr (id : Nat) (a : Arr)     -- returned array: identity, dtype, values
  | unit                         -- nothing returned
  | valueError
  | noArr                        -- edit of an id that was never handed out
  | hdrs (img orig : Hdr)        -- both headers after a header edit
  | notApplicable                -- `dataobj[slice]` on an array image is outside the model
  deriving DecidableEq, Repr

/-- observable of one step: the result and `img.in_memory` read right after the step -/
structure Out where
  res : Res
  inMem : Bool
  deriving DecidableEq, Repr

structure State where
  img : Img
  heap : List Arr
  fcache : Option Nat      -- `_fdata_cache`
  dcache : Option Nat      -- `_data_cache`
  last : Option Nat        -- most recently returned array (harness bookkeeping for `editLast`)
  imgHdr : Hdr
  origHdr : Hdr
  deriving DecidableEq, Repr

def State.get (s : State) (id : Nat) : Arr := (s.heap[id]?).getD Arr.dflt

/-- ids in use are below the heap size -/
structure State.WF (s : State) : Prop where
  own : ∀ o, s.img = .array o → o < s.heap.length
  fcache : ∀ i, s.fcache = some i → i < s.heap.length
  dcache : ∀ i, s.dcache = some i → i < s.heap.length
  last : ∀ i, s.last = some i → i < s.heap.length

/-- dataobj_images.py:385-389 -/
def State.inMemory (s : State) : Bool :=
  (match s.img with | .array _ => true | .proxy _ _ => false) || s.fcache.isSome || s.dcache.isSome

/-- a new ndarray object -/
def alloc (s : State) (a : Arr) : State × Nat :=
  ({ s with heap := s.heap ++ [a] }, s.heap.length)

/-- `np.asanyarray(self._dataobj, dtype=d)`; `d = none`: no dtype argument -/
def readObj (s : State) (d : Option DT) : State × Nat :=
  match s.img with
  | .array own =>
      match d with
      | none => (s, own)
      | some d => if (s.get own).dt = d then (s, own) else alloc s ⟨d, (s.get own).vals, false⟩
  | .proxy raw p => alloc s ⟨d.getD p.outDt, p.scaled raw, p.readRO d⟩

def retArr (s : State) (id : Nat) : State × Out :=
  let s' := { s with last := some id }
  (s', ⟨.arr id (s.get id), s'.inMemory⟩)

def retRes (s : State) (r : Res) : State × Out := (s, ⟨r, s.inMemory⟩)

/-- dataobj_images.py:367-369: cache present and of the requested dtype -/
def fhit (s : State) (d : DT) : Option Nat :=
  match s.fcache with
  | some id => if (s.get id).dt = d then some id else none
  | none => none

def editAt (s : State) (k : Nat) : State × Out :=
  if k < s.heap.length then retRes { s with heap := s.heap.modify k bump } .unit
  else retRes s .noArr

def step (s : State) : Op → State × Out
  | .getFdata c d =>
      -- :361-365 both argument checks raise ValueError before anything else happens
      if c = .other ∨ d = .i2 then retRes s .valueError else
      match fhit s d with
      | some id => retArr s id                                         -- :367-369
      | none =>
          let r := readObj s (some d)                                  -- :373
          retArr (if c = .fill then { r.1 with fcache := some r.2 } else r.1) r.2   -- :374-376
  | .getData c =>
      if c = .other then retRes s .valueError else                     -- :217-218
      match s.dcache with
      | some id => retArr s id                                         -- :219-220
      | none =>
          let r := readObj s none                                      -- :221
          retArr (if c = .fill then { r.1 with dcache := some r.2 } else r.1) r.2   -- :222-224
  | .asarray =>
      let r := readObj s none
      retArr r.1 r.2
  | .slice sl =>
      match s.img with
      | .array _ => retRes s .notApplicable
      | .proxy raw p =>
          if sl.stepVal = 0 then retRes s .valueError else
          let r := alloc s ⟨p.outDt, sl.apply (p.scaled raw), p.sliceRO sl raw.length⟩
          retArr r.1 r.2
  | .uncache => retRes { s with fcache := none, dcache := none } .unit  -- :416-417
  | .edit k => editAt s k
  | .editLast =>
      match s.last with
      | some k => editAt s k
      | none => retRes s .noArr
  | .inMemory => retRes s .unit
  | .hdr t e =>
      let s' := match t with
        | .img => { s with imgHdr := e.apply s.imgHdr }
        | .orig => { s with origHdr := e.apply s.origHdr }
      retRes s' (.hdrs s'.imgHdr s'.origHdr)

def run (s : State) : List Op → State
  | [] => s
  | op :: ops => run (step s op).1 ops

def trace (s : State) : List Op → List Out
  | [] => []
  | op :: ops => (step s op).2 :: trace (step s op).1 ops

/-- `AnalyzeImage.__init__`: the image keeps a *copy* of the header with slope/inter reset -/
def imgHdrOf (h : Hdr) : Hdr := { h with scale := none }

/-- `Nifti1Image(arr, affine, hdr)`: the array is heap object 0 -/
def initArray (a : Arr) (h : Hdr) : State :=
  { img := .array 0, heap := [a], fcache := none, dcache := none, last := none,
    imgHdr := imgHdrOf h, origHdr := h }

/-- proxy image built from header `h` over a file with values `raw`
    (`from_file_map`, or `Nifti1Image(ArrayProxy(f, h), None, h)`) -/
def initProxy (raw : List Int) (h : Hdr) (io : IOp := {}) : State :=
  { img := .proxy raw (Par.ofHdr h io), heap := [], fcache := none, dcache := none, last := none,
    imgHdr := imgHdrOf h, origHdr := h }

/-! ## The documented model (doc/source/images_and_memory.rst, get_fdata docstring)

No heap: the image is its data source (`own` array or file) plus at most one cached array per cache.
Arrays carry their identity; `next` is the identity the next new array gets. -/

inductive SImg
  | array (own : Nat × Arr)
  | proxy (raw : List Int) (par : Par)
  deriving DecidableEq, Repr

structure Spec where
  img : SImg
  fcache : Option (Nat × Arr)
  dcache : Option (Nat × Arr)
  next : Nat
  last : Option Nat
  imgHdr : Hdr
  origHdr : Hdr
  deriving DecidableEq, Repr

namespace Spec

def inMemory (t : Spec) : Bool :=
  (match t.img with | .array _ => true | .proxy _ _ => false) || t.fcache.isSome || t.dcache.isSome

/-- read the data source as dtype `d`: an array image hands out its own array when the dtype already
    matches, everything else is a new array holding the source's *current* values -/
def read (t : Spec) (d : Option DT) : Spec × (Nat × Arr) :=
  match t.img with
  | .array own =>
      match d with
      | none => (t, own)
      | some d => if own.2.dt = d then (t, own)
                  else ({ t with next := t.next + 1 }, (t.next, ⟨d, own.2.vals, false⟩))
  | .proxy raw p => ({ t with next := t.next + 1 }, (t.next, ⟨d.getD p.outDt, p.scaled raw, p.readRO d⟩))

def ret (t : Spec) (r : Nat × Arr) : Spec × Out :=
  let t' := { t with last := some r.1 }
  (t', ⟨.arr r.1 r.2, t'.inMemory⟩)

def retRes (t : Spec) (r : Res) : Spec × Out := (t, ⟨r, t.inMemory⟩)

def bumpIf (k : Nat) (r : Nat × Arr) : Nat × Arr := if r.1 = k then (r.1, bump r.2) else r

def bumpImg (k : Nat) : SImg → SImg
  | .array own => .array (bumpIf k own)
  | .proxy r p => .proxy r p

/-- an in-place edit of array `k` is seen by the image exactly when `k` is its own array or a cached
    array -/
def editAt (t : Spec) (k : Nat) : Spec × Out :=
  if k < t.next then
    retRes { t with
      img := bumpImg k t.img,
      fcache := t.fcache.map (bumpIf k),
      dcache := t.dcache.map (bumpIf k) } .unit
  else retRes t .noArr

def step (t : Spec) : Op → Spec × Out
  | .getFdata c d =>
      if c = .other ∨ d = .i2 then retRes t .valueError else
      match t.fcache with
      | some r =>
          if r.2.dt = d then ret t r
          else
            let x := read t (some d)
            ret (if c = .fill then { x.1 with fcache := some x.2 } else x.1) x.2
      | none =>
          let x := read t (some d)
          ret (if c = .fill then { x.1 with fcache := some x.2 } else x.1) x.2
  | .getData c =>
      if c = .other then retRes t .valueError else
      match t.dcache with
      | some r => ret t r
      | none =>
          let x := read t none
          ret (if c = .fill then { x.1 with dcache := some x.2 } else x.1) x.2
  | .asarray => let x := read t none; ret x.1 x.2
  | .slice sl =>
      match t.img with
      | .array _ => retRes t .notApplicable
      | .proxy raw p =>
          if sl.stepVal = 0 then retRes t .valueError else
          ret { t with next := t.next + 1 } (t.next, ⟨p.outDt, sl.apply (p.scaled raw), p.sliceRO sl raw.length⟩)
  | .uncache => retRes { t with fcache := none, dcache := none } .unit
  | .edit k => editAt t k
  | .editLast =>
      match t.last with
      | some k => editAt t k
      | none => retRes t .noArr
  | .inMemory => retRes t .unit
  | .hdr tg e =>
      let t' := match tg with
        | .img => { t with imgHdr := e.apply t.imgHdr }
        | .orig => { t with origHdr := e.apply t.origHdr }
      retRes t' (.hdrs t'.imgHdr t'.origHdr)

def run (t : Spec) : List Op → Spec
  | [] => t
  | op :: ops => run (step t op).1 ops

def trace (t : Spec) : List Op → List Out
  | [] => []
  | op :: ops => (step t op).2 :: trace (step t op).1 ops

end Spec

/-- abstraction map: forget every array the image no longer refers to -/
def abs (s : State) : Spec :=
  { img := (match s.img with
      | .array own => .array (own, s.get own)
      | .proxy r p => .proxy r p),
    fcache := s.fcache.map (fun i => (i, s.get i)),
    dcache := s.dcache.map (fun i => (i, s.get i)),
    next := s.heap.length,
    last := s.last,
    imgHdr := s.imgHdr,
    origHdr := s.origHdr }

/-! ## Vocabulary used by the theorems (Props/C13.lean) -/

def Op.isHdr : Op → Bool
  | .hdr _ _ => true
  | _ => false

/-- the outputs of the non-header ops of a run (header ops are executed, their outputs dropped) -/
def dataTrace (s : State) : List Op → List Out
  | [] => []
  | op :: ops =>
      if op.isHdr then dataTrace (step s op).1 ops
      else (step s op).2 :: dataTrace (step s op).1 ops

def State.withHdrs (s : State) (a b : Hdr) : State := { s with imgHdr := a, origHdr := b }

/-- ops after which a cache holding an array of dtype `d` is still that same array: everything except
    `uncache` and a (valid) filling read of another float dtype -/
def keepsCache (d : DT) : Op → Bool
  | .uncache => false
  | .getFdata .fill d' => d' == d || d' == .i2
  | _ => true

/-- what an op does to "some cache is filled": `some true` = a valid filling read, `some false` =
    `uncache`, `none` = no effect -/
def cacheEvent : Op → Option Bool
  | .getFdata .fill d => if d = .i2 then none else some true
  | .getData .fill => some true
  | .uncache => some false
  | _ => none

/-- is a cache filled after the history `ops`, starting from `b` -/
def filled (b : Bool) : List Op → Bool
  | [] => b
  | op :: ops => filled ((cacheEvent op).getD b) ops

def Img.isArray : Img → Bool
  | .array _ => true
  | .proxy _ _ => false

/-- `k` is an array the image no longer (or never) refers to -/
def State.Garbage (s : State) (k : Nat) : Prop :=
  s.img ≠ .array k ∧ s.fcache ≠ some k ∧ s.dcache ≠ some k

/-! ## Reference model of the header OBJECTS (who aliases whom)

`State` above keeps two header *values* and a proxy with its own `Par`, so "the proxy does not see later
header edits" cannot even be mis-stated there.  `RState` is the object-level model: header objects are
cells of a heap, `img.header` and the header object the caller still holds are cell *indices*, and the
proxy's parameter source is either a copy made at construction or a *reference* to a header cell that
is consulted on every read.  The construction code decides which (three defensive copies, `Copies`):

* `nibabel/arrayproxy.py:175-208`   `ArrayProxy.__init__` copies shape/dtype/offset/slope/inter out of
                                      `spec` (`Copies.proxy`)
* `nibabel/analyze.py:961-964`      `from_file_map`: `hdr_copy = header.copy()` is what the proxy gets
                                      and what `img._load_cache['header']` keeps (`Copies.fileMap`)
* `nibabel/filebasedimages.py:188`  `self._header = self.header_class.from_header(header)` — a copy
                                      (`Copies.image`); `nibabel/analyze.py:912-915` then resets
                                      slope/inter on THAT object
-/

/-- where an `ArrayProxy` gets dtype/slope/inter from when it reads -/
inductive PSrc
  | copy (p : Par)     -- values copied at construction (what the code does)
  | ref (c : Nat) (io : IOp)   -- header object `c`, looked up at read time (the aliasing variant)
  deriving DecidableEq, Repr

inductive RImg
  | array (own : Nat)
  | proxy (raw : List Int) (src : PSrc)
  deriving DecidableEq, Repr

def Hdr.dflt : Hdr := ⟨none, 0, .f8⟩

/-- content of header object `c` -/
def cellGet (cells : List Hdr) (c : Nat) : Hdr := (cells[c]?).getD Hdr.dflt

/-- the parameters a read uses NOW -/
def PSrc.par (cells : List Hdr) : PSrc → Par
  | .copy p => p
  | .ref c io => Par.ofHdr (cellGet cells c) io

structure RState where
  cells : List Hdr         -- heap of header objects
  imgCell : Nat            -- `img.header`
  origCell : Nat           -- the header object the caller still holds (constructor argument /
                           -- `img._load_cache['header']`)
  img : RImg
  heap : List Arr
  fcache : Option Nat
  dcache : Option Nat
  last : Option Nat
  deriving DecidableEq, Repr

/-- the flat state a data access sees right now -/
def RState.view (r : RState) : State :=
  { img := (match r.img with
      | .array o => .array o
      | .proxy raw src => .proxy raw (src.par r.cells)),
    heap := r.heap, fcache := r.fcache, dcache := r.dcache, last := r.last,
    imgHdr := cellGet r.cells r.imgCell, origHdr := cellGet r.cells r.origCell }

def RState.cellOf (r : RState) : HTarget → Nat
  | .img => r.imgCell
  | .orig => r.origCell

/-- one op on the object-level state: a header edit mutates ONE cell (every alias sees it); every other
    op is `step` on the current view -/
def rstep (r : RState) (op : Op) : RState × Out :=
  match op with
  | .hdr t e =>
      let r' := { r with cells := r.cells.modify (r.cellOf t) e.apply }
      (r', ⟨.hdrs (cellGet r'.cells r'.imgCell) (cellGet r'.cells r'.origCell), r'.view.inMemory⟩)
  | op =>
      let x := step r.view op
      ({ r with heap := x.1.heap, fcache := x.1.fcache, dcache := x.1.dcache, last := x.1.last }, x.2)

def rrun (r : RState) : List Op → RState
  | [] => r
  | op :: ops => rrun (rstep r op).1 ops

def rtrace (r : RState) : List Op → List Out
  | [] => []
  | op :: ops => (rstep r op).2 :: rtrace (rstep r op).1 ops

/-- outputs of the non-header ops (header ops are executed, their outputs dropped) -/
def rdataTrace (r : RState) : List Op → List Out
  | [] => []
  | op :: ops =>
      if op.isHdr then rdataTrace (rstep r op).1 ops
      else (rstep r op).2 :: rdataTrace (rstep r op).1 ops

/-- which of the three defensive copies the construction code makes -/
structure Copies where
  proxy : Bool      -- arrayproxy.py:175-208
  fileMap : Bool    -- analyze.py:964
  image : Bool      -- filebasedimages.py:188
  deriving DecidableEq, Repr

/-- what the code in /repo does -/
def Copies.code : Copies := ⟨true, true, true⟩

/-- `ArrayProxy(file, spec = header object c)` -/
def mkSrc (k : Copies) (cells : List Hdr) (c : Nat) (io : IOp) : PSrc :=
  if k.proxy then .copy (Par.ofHdr (cellGet cells c) io) else .ref c io

/-- `klass(dataobj, affine, header = object c)`: filebasedimages.py:188, then analyze.py:912-915 resets
    slope/inter on `self._header` (on the caller's object, if no copy was made) -/
def mkImgHdr (k : Copies) (cells : List Hdr) (c : Nat) : List Hdr × Nat :=
  if k.image then (cells ++ [imgHdrOf (cellGet cells c)], cells.length)
  else (cells.modify c imgHdrOf, c)

/-- `klass.from_file_map(...)` (analyze.py:957-978) over a file with header `h` and values `raw`:
    cell 0 = `header`, `hdr_copy` = a new cell 1 (or cell 0 itself), the proxy is built from `hdr_copy`
    BEFORE the image is, the image from `header`; the caller reaches `hdr_copy` through `_load_cache` -/
def rinitFileMap (k : Copies) (raw : List Int) (h : Hdr) (io : IOp := {}) : RState :=
  let cells1 := if k.fileMap then [h, h] else [h]
  let pc := if k.fileMap then 1 else 0
  let src := mkSrc k cells1 pc io
  let x := mkImgHdr k cells1 0
  { cells := x.1, imgCell := x.2, origCell := pc, img := .proxy raw src,
    heap := [], fcache := none, dcache := none, last := none }

/-- `proxy = ArrayProxy(file, hdr); img = Nifti1Image(proxy, affine, hdr)` with the caller keeping `hdr`
    (cell 0) -/
def rinitCtor (k : Copies) (raw : List Int) (h : Hdr) (io : IOp := {}) : RState :=
  let src := mkSrc k [h] 0 io
  let x := mkImgHdr k [h] 0
  { cells := x.1, imgCell := x.2, origCell := 0, img := .proxy raw src,
    heap := [], fcache := none, dcache := none, last := none }

/-- `Nifti1Image(arr, affine, hdr)` with the caller keeping `hdr` (cell 0); the array is heap object 0 -/
def rinitArray (k : Copies) (a : Arr) (h : Hdr) : RState :=
  let x := mkImgHdr k [h] 0
  { cells := x.1, imgCell := x.2, origCell := 0, img := .array 0,
    heap := [a], fcache := none, dcache := none, last := none }

/-- the proxy (if any) owns a copy of its parameters -/
def RState.Frozen (r : RState) : Prop := ∀ raw c io, r.img ≠ .proxy raw (.ref c io)

/-- `img.header` and the caller's header are two different, existing objects -/
def RState.Sep (r : RState) : Prop :=
  r.imgCell < r.cells.length ∧ r.origCell < r.cells.length ∧ r.imgCell ≠ r.origCell

end Nb.C13
