/-! Model/C13 — executable model (core Lean only; imports only NibabelModel.Basic.* / other Model files). -/
namespace Nb.C13

end Nb.C13
