/-
  Model/C06 — executable model of `nibabel/fileslice.py` (everything in it that decides anything).

  Conventions
  * axes are listed FASTEST FIRST (Fortran order), exactly as `calc_slicedefs` does after
    reversing shape and slicers for C order;
  * a file is a byte store; only *addresses* matter, so elements are identified with their flat
    (F-order) element number `q`, stored at bytes `[off + isz*q, off + isz*(q+1))`;
  * the read-versus-skip heuristic is an arbitrary function (`Heuristic`).

  Python source modelled (line numbers of the pinned tree, after the `fix:` commit for C06):
  canonical_slicers, slice2len, _full_slicer_len, fill_slicer, predict_shape, _positive_slice,
  threshold_heuristic, optimize_slicer, optimize_read_slicers, slicers2segments, read_segments
  (address level), fileslice / calc_slicedefs.
-/
import NibabelModel.Basic.PySlice
namespace Nb.C06

/-- index items accepted by `canonical_slicers` (basic indexing) -/
inductive IdxItem where
  | int (i : Int)
  | slice (s : PySlice)
  | newaxis
  | ellipsis
  deriving Repr, DecidableEq, Inhabited

/-- canonical items: ellipsis expanded, ints made non-negative and checked -/
inductive Item where
  | int (i : Int)
  | slice (s : PySlice)
  | newaxis
  deriving Repr, DecidableEq, Inhabited

/-- result of `fill_slicer`: `stop = none` only for a negative step running through index 0 -/
structure Filled where
  start : Int
  stop  : Option Int
  step  : Int
  deriving Repr, DecidableEq, Inhabited

def Filled.toPy (f : Filled) : PySlice := ⟨some f.start, f.stop, some f.step⟩

inductive Err where
  | index      -- out-of-range integer (Python: ValueError/IndexError from canonical_slicers)
  | value      -- other documented ValueError (two ellipses, bad heuristic answer, ...)
  | short      -- not enough data in file
  deriving Repr, DecidableEq, Inhabited

def pySliceNone : PySlice := ⟨none, none, none⟩

/-! ### canonical_slicers -/

def isEllipsis : IdxItem → Bool | .ellipsis => true | _ => false
def isNewaxis : IdxItem → Bool | .newaxis => true | _ => false

/-- one int/slice item against its axis length (`canonical_slicers` loop body) -/
def canonItem (n : Nat) (checkInds : Bool) : IdxItem → Except Err Item
  | .int i =>
      if i < 0 then
        (if checkInds && decide (i + n < 0) then .error .index else .ok (.int (i + n)))
      else if checkInds && decide (i ≥ n) then .error .index
      else .ok (.int i)
  | .slice s =>
      if s = pySliceNone then .ok (.slice s)
      else if s.stop = some (n : Int) ∧ (s.start = none ∨ s.start = some 0) ∧
              (s.step = none ∨ s.step = some 1) then .ok (.slice pySliceNone)
      else .ok (.slice s)
  | .newaxis => .ok .newaxis
  | .ellipsis => .error .value

/-- `canonical_slicers(sliceobj, shape, check_inds)`; `nReal` = axes consumed so far -/
def canonLoop (checkInds : Bool) : List IdxItem → List Nat → Except Err (List Item)
  | [], shape => .ok (shape.map (fun _ => Item.slice pySliceNone))
  | .newaxis :: rest, shape => do
      let r ← canonLoop checkInds rest shape
      pure (Item.newaxis :: r)
  | .ellipsis :: rest, shape =>
      if rest.any isEllipsis then .error .value
      else
        let realRemaining := (rest.filter (fun x => !isNewaxis x)).length
        let nEllided := shape.length - realRemaining
        do
          let r ← canonLoop checkInds rest (shape.drop nEllided)
          pure ((List.replicate nEllided (Item.slice pySliceNone)) ++ r)
  | _ :: _, [] => .error .index          -- too many indices (Python: IndexError on shape[n_real])
  | it :: rest, n :: shape => do
      let c ← canonItem n checkInds it
      let r ← canonLoop checkInds rest shape
      pure (c :: r)

def canonicalSlicers (idx : List IdxItem) (shape : List Nat) : Except Err (List Item) :=
  canonLoop true idx shape

/-! ### fill_slicer, _full_slicer_len, slice2len, _positive_slice -/

/-- `fill_slicer(slicer, in_len)` (fileslice.py:201-233, after the C06 `fix:` commit):
    `slicer.indices(in_len)`, then for negative steps an empty "start before the first element"
    slice becomes `(0, 0, step)` and a stop below zero becomes `None`. -/
def fillSlicer (s : PySlice) (n : Nat) : Filled :=
  let (a, b, c) := s.indices n
  if c < 0 then
    (if a < 0 then ⟨0, some 0, c⟩ else if b < 0 then ⟨a, none, c⟩ else ⟨a, some b, c⟩)
  else ⟨a, some b, c⟩

/-- the pinned (pre-fix) `fill_slicer`, kept for the counterexample theorems -/
def fillSlicerOrig (s : PySlice) (n : Nat) : Filled :=
  let step := s.stepVal
  let start := s.start.map (fun v => if v < 0 then (n : Int) + v else v)
  let stop := s.stop.map (fun v => if v < 0 then (n : Int) + v else v)
  if step > 0 then
    ⟨start.getD 0, some (match stop with | none => (n : Int) | some v => min v n), step⟩
  else
    ⟨match start with | none => (n : Int) - 1 | some v => min v ((n : Int) - 1), stop, step⟩

/-- `_full_slicer_len` -/
def fullSlicerLen (f : Filled) : Nat :=
  let stop := f.stop.getD (-1)
  let gap := stop - f.start
  if (f.step > 0 ∧ gap ≤ 0) ∨ (f.step < 0 ∧ gap ≥ 0) then 0
  else
    -- int(np.ceil(gap / step)) for gap, step of the same sign
    ((gap.natAbs + f.step.natAbs - 1) / f.step.natAbs)

/-- `slice2len` -/
def slice2len (s : PySlice) (n : Nat) : Nat :=
  if s = pySliceNone then n else fullSlicerLen (fillSlicer s n)

/-- `_positive_slice` (fileslice.py:271-287, after the fix): an empty slice stays empty,
    otherwise `n = ceil(gap/step) - 1` steps down from `start` give the new start. -/
def positiveSlice (f : Filled) : Filled :=
  if f.step > 0 then f
  else
    let stop := f.stop.getD (-1)
    let gap := stop - f.start
    if gap ≥ 0 then ⟨f.start, some f.start, -f.step⟩
    else
      let q := gap.natAbs / f.step.natAbs
      let k : Int := if gap.natAbs % f.step.natAbs = 0 then (q : Int) - 1 else (q : Int)
      ⟨f.start + k * f.step, some (f.start + 1), -f.step⟩

/-! ### heuristic -/

inductive Action where | full | contiguous | skip
  deriving Repr, DecidableEq, Inhabited

/-- what the heuristic is shown: an int or a filled slice -/
inductive HArg where
  | int (i : Int)
  | slice (f : Filled)
  deriving Repr, DecidableEq, Inhabited

/-- `heuristic(slicer, dim_len, stride)` -/
abbrev Heuristic := HArg → Nat → Nat → Action

/-- `threshold_heuristic` -/
def thresholdHeuristic (skipThresh : Nat) : Heuristic
  | .int _, n, stride =>
      if (n - 1) * stride ≤ skipThresh then .full else .skip
  | .slice f, n, stride =>
      if f.step.natAbs * stride > skipThresh then .skip
      else
        let p := positiveSlice f
        let readLen := (p.stop.getD 0) - p.start
        if ((n : Int) - readLen) * stride ≤ skipThresh then .full else .contiguous

/-! ### optimize_slicer -/

/-- what to read along one axis; slices always have positive step -/
inductive ReadItem where
  | int (i : Int)
  | full                                   -- slice(None)
  | slice (start stop step : Int)
  | newaxis
  deriving Repr, DecidableEq, Inhabited

/-- post-read indexing along one axis -/
inductive PostItem where
  | int (i : Int)
  | slice (s : PySlice)
  | dropped
  deriving Repr, DecidableEq, Inhabited

def readOfFilled (f : Filled) : ReadItem := .slice f.start (f.stop.getD 0) f.step

/-- `optimize_slicer(slicer, dim_len, all_full, is_slowest, stride, heuristic)`; the item is
    canonical (int non-negative and checked, or slice). -/
def optimizeSlicer (h : Heuristic) (it : Item) (n : Nat) (allFull slowest : Bool) (stride : Nat) :
    Except Err (ReadItem × PostItem) :=
  match it with
  | .newaxis => .ok (.newaxis, .slice pySliceNone)
  | .int i0 =>
      let i := if i0 < 0 then (n : Int) + i0 else i0
      if allFull then
        match h (.int i) n stride with
        | .contiguous => .error .value
        | .full => if slowest then .ok (.int i, .dropped) else .ok (.full, .int i)
        | .skip => .ok (.int i, .dropped)
      else .ok (.int i, .dropped)
  | .slice s =>
      if s = pySliceNone then .ok (.full, .slice pySliceNone)
      else
        let f := fillSlicer s n
        if f = ⟨0, some (n : Int), 1⟩ then .ok (.full, .slice pySliceNone)
        else if f = ⟨(n : Int) - 1, none, -1⟩ then .ok (.full, .slice ⟨none, none, some (-1)⟩)
        else
          let dflt : ReadItem × PostItem :=
            if f.step > 0 then (readOfFilled f, .slice pySliceNone)
            else (readOfFilled (positiveSlice f), .slice ⟨none, none, some (-1)⟩)
          if allFull then
            let a0 := h (.slice f) n stride
            let a := if slowest && a0 = Action.full then Action.contiguous else a0
            match a with
            | .full => .ok (.full, .slice f.toPy)
            | .contiguous =>
                if f.step = 1 ∨ f.step = -1 then .ok dflt
                else
                  let p := if f.step < 0 then positiveSlice f else f
                  .ok (.slice p.start (p.stop.getD 0) 1, .slice ⟨none, none, some f.step⟩)
            | .skip => .ok dflt
          else .ok dflt

/-! ### optimize_read_slicers -/

def ReadItem.isFull : ReadItem → Bool | .full => true | _ => false
def ReadItem.isInt : ReadItem → Bool | .int _ => true | _ => false

/-- loop of `optimize_read_slicers`; `shape` lists the lengths of the remaining real axes -/
def optimizeLoop (h : Heuristic) : List Item → List Nat → (stride : Nat) → (allFull : Bool) →
    Except Err (List ReadItem × List PostItem)
  | [], _, _, _ => .ok ([], [])
  | .newaxis :: rest, shape, stride, allFull => do
      let (rs, ps) ← optimizeLoop h rest shape stride allFull
      pure (ReadItem.newaxis :: rs, PostItem.slice pySliceNone :: ps)
  | _ :: _, [], _, _ => .error .index
  | it :: rest, n :: shape, stride, allFull => do
      let (r, p) ← optimizeSlicer h it n allFull shape.isEmpty stride
      let (rs, ps) ← optimizeLoop h rest shape (stride * n) (allFull && r.isFull)
      pure (r :: rs, if r.isInt then ps else p :: ps)

/-! ### slicers2segments -/

structure Segment where
  offset : Int
  length : Nat
  deriving Repr, DecidableEq, Inhabited

/-- the Python slice object a read item stands for (`None` for ints / newaxis) -/
def ReadItem.toPy : ReadItem → PySlice
  | .full => pySliceNone
  | .slice a b c => ⟨some a, some b, some c⟩
  | _ => pySliceNone

/-- `range(f.start, f.stop, f.step)` of a filled, positive slicer -/
def Filled.range (f : Filled) : List Int :=
  rangeInts f.start f.step (rangeLen f.start (f.stop.getD (-1)) f.step)

/-- one iteration of the `slicers2segments` loop -/
def segStep (r : ReadItem) (n : Nat) (stride : Nat) (allFull : Bool) (segs : List Segment) :
    List Segment :=
  match r with
  | .newaxis => segs
  | .int i => segs.map (fun s => { s with offset := s.offset + stride * i })
  | r =>
      let f := fillSlicer r.toPy n
      let sliceLen := fullSlicerLen f
      if allFull ∧ f.step = 1 then
        segs.map (fun s => ⟨s.offset + stride * f.start, s.length * sliceLen⟩)
      else f.range.flatMap (fun i => segs.map (fun s => { s with offset := s.offset + stride * i }))

/-- `is_full = read_slicer == slice(0, dim_len, 1)` after filling -/
def ReadItem.isFullFor (n : Nat) : ReadItem → Bool
  | .int _ => false
  | .newaxis => false
  | r => fillSlicer r.toPy n = ⟨0, some (n : Int), 1⟩

/-- does this read item select nothing (`slice_len == 0` → `return []`) -/
def ReadItem.isEmptyFor (n : Nat) : ReadItem → Bool
  | .int _ => false
  | .newaxis => false
  | r => fullSlicerLen (fillSlicer r.toPy n) = 0

def segLoop : List ReadItem → List Nat → (stride : Nat) → (allFull : Bool) → List Segment → List Segment
  | [], _, _, _, segs => segs
  | .newaxis :: rest, shape, stride, allFull, segs => segLoop rest shape stride allFull segs
  | _ :: _, [], _, _, segs => segs
  | r :: rest, n :: shape, stride, allFull, segs =>
      if r.isEmptyFor n then []
      else segLoop rest shape (stride * n) (allFull && r.isFullFor n) (segStep r n stride allFull segs)

def slicers2segments (rs : List ReadItem) (shape : List Nat) (off : Nat) (isz : Nat) : List Segment :=
  segLoop rs shape isz true [⟨off, isz⟩]

/-! ### predict_shape of the read slicers (`slice2len` per kept axis) -/

def readShape : List ReadItem → List Nat → List Nat
  | [], _ => []
  | .newaxis :: rest, shape => 1 :: readShape rest shape
  | _ :: _, [] => []
  | r :: rest, n :: shape =>
      match r with
      | .int _ => readShape rest shape
      | .newaxis => readShape rest shape
      | r => slice2len r.toPy n :: readShape rest shape

/-! ### N-d arrays as flat F-order lists, and NumPy basic indexing on them -/

/-- per-axis selector for the array indexing spec -/
inductive Sel where
  | one (i : Nat)            -- integer index: axis dropped
  | many (l : List Nat)      -- slice: axis kept
  | new                      -- newaxis: length-1 axis added, consumes no input axis
  deriving Repr, DecidableEq, Inhabited

/-- flat (F-order) source positions, in F-order of the output -/
def gatherF : List (List Nat) → List Nat → List Nat
  | [], _ => [0]
  | _ :: _, [] => [0]
  | l :: ls, n :: ns => (gatherF ls ns).flatMap (fun r => l.map (fun i => i + n * r))

def Sel.list : Sel → List Nat
  | .one i => [i]
  | .many l => l
  | .new => [0]

/-- selectors restricted to the real (input-consuming) axes -/
def realSels (sels : List Sel) : List (List Nat) :=
  (sels.filter (fun s => s != Sel.new)).map Sel.list

def outShape : List Sel → List Nat
  | [] => []
  | .one _ :: rest => outShape rest
  | .many l :: rest => l.length :: outShape rest
  | .new :: rest => 1 :: outShape rest

/-- the array: shape + flat F-order data -/
structure NdArr (α : Type) where
  shape : List Nat
  data  : List α
  deriving Repr, DecidableEq

/-- `A[sels]` for an F-order array `A` -/
def NdArr.index {α} [Inhabited α] (a : NdArr α) (sels : List Sel) : NdArr α :=
  ⟨outShape sels, (gatherF (realSels sels) a.shape).map (fun q => a.data.getD q default)⟩

/-! ### the NumPy specification: `A[idx]` -/

def itemSel (n : Nat) : Item → Except Err Sel
  | .int i => match pyIntIndex n i with
      | some k => .ok (.one k)
      | none => .error .index
  | .slice s => .ok (.many (s.sel n))
  | .newaxis => .ok .new

def itemsSels : List Item → List Nat → Except Err (List Sel)
  | [], _ => .ok []
  | .newaxis :: rest, shape => do
      let r ← itemsSels rest shape
      pure (Sel.new :: r)
  | _ :: _, [] => .error .index
  | it :: rest, n :: shape => do
      let s ← itemSel n it
      let r ← itemsSels rest shape
      pure (s :: r)

inductive Order where | C | F
  deriving Repr, DecidableEq, Inhabited

def orient {α} (o : Order) (l : List α) : List α := match o with | .C => l.reverse | .F => l

/-- NumPy basic indexing `A[idx]` of an array of shape `shape` stored in `order`:
    output shape and, for every output element (enumerated in `order`), the stored element number. -/
def npIndex (idx : List IdxItem) (shape : List Nat) (o : Order) : Except Err (List Nat × List Nat) := do
  let items ← canonicalSlicers idx shape
  let sels ← itemsSels (orient o items) (orient o shape)
  pure (orient o (outShape sels), gatherF (realSels sels) (orient o shape))

/-! ### post slicing and the whole `fileslice` -/

def postSel (n : Nat) : PostItem → Except Err Sel
  | .int i => match pyIntIndex n i with
      | some k => .ok (.one k)
      | none => .error .index
  | .slice s => .ok (.many (s.sel n))
  | .dropped => .error .value

def postSels : List PostItem → List Nat → Except Err (List Sel)
  | [], _ => .ok []
  | _ :: _, [] => .error .index
  | p :: ps, n :: ns => do
      let s ← postSel n p
      let r ← postSels ps ns
      pure (s :: r)

/-- element numbers covered by the segments, `none` if a segment is not element aligned
    (never happens; makes the definition total) -/
def segElems (off isz : Nat) (segs : List Segment) : List Int :=
  segs.flatMap (fun s => (List.range (s.length / isz)).map (fun (k : Nat) => (s.offset - (off : Int)) / (isz : Int) + (k : Int)))

structure SliceDefs where
  segments : List Segment
  readShape : List Nat      -- fastest axis first
  post : List PostItem      -- fastest axis first
  deriving Repr

/-- `calc_slicedefs`: canonicalise, reorder fastest-first, optimise, make segments -/
def calcSlicedefs (h : Heuristic) (idx : List IdxItem) (shape : List Nat) (isz off : Nat) (o : Order) :
    Except Err SliceDefs := do
  let items ← canonicalSlicers idx shape
  let shapeF := orient o shape
  let (rs, ps) ← optimizeLoop h (orient o items) shapeF isz true
  pure ⟨slicers2segments rs shapeF off isz, readShape rs shapeF, ps⟩

/-- `read_segments` against a file of `flen` bytes: every segment must be fully inside the file,
    otherwise fewer than `n_bytes` arrive and the reader raises. -/
def segmentsReadable (flen : Nat) (segs : List Segment) : Bool :=
  segs.all (fun s => decide (0 ≤ s.offset) && decide (s.offset + s.length ≤ flen))

/-- The whole `fileslice` at the level of element numbers: output shape and, for each output
    element (enumerated in `order`), the number of the stored element it is read from. -/
def fileslice (h : Heuristic) (idx : List IdxItem) (shape : List Nat) (isz off flen : Nat) (o : Order) :
    Except Err (List Nat × List Int) := do
  let d ← calcSlicedefs h idx shape isz off o
  if !(segmentsReadable flen d.segments) then throw .short
  let elems := segElems off isz d.segments
  if elems.length ≠ d.readShape.foldl (· * ·) 1 then throw .short
  let sels ← postSels d.post d.readShape
  let r : NdArr Int := ⟨d.readShape, elems⟩
  let out := r.index sels
  pure (orient o out.shape, out.data)

/-! ### predict_shape (fileslice.py:236-266) -/

/-- loop of `predict_shape` over the canonical items: `None` → 1, int → axis dropped,
    slice → `slice2len(slicer, in_shape[real_no - 1])` -/
def predictLoop : List Item → List Nat → List Nat
  | [], _ => []
  | .newaxis :: rest, shape => 1 :: predictLoop rest shape
  | .int _ :: _, [] => []          -- Python: IndexError on in_shape[...]; unreachable after canonical_slicers
  | .slice _ :: _, [] => []
  | .int _ :: rest, _ :: shape => predictLoop rest shape
  | .slice s :: rest, n :: shape => slice2len s n :: predictLoop rest shape

/-- `predict_shape(sliceobj, in_shape)` -/
def predictShape (idx : List IdxItem) (shape : List Nat) : Except Err (List Nat) := do
  let items ← canonicalSlicers idx shape
  pure (predictLoop items shape)

end Nb.C06
