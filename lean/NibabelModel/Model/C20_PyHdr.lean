import NibabelModel.Model.C20_Py
import NibabelModel.Generated.C20Methods
/-! Model/C20_PyHdr — a `PARRECHeader` object for the TRANSLATED methods (`Generated/C20Methods.lean`):
the attribute values they read (`encDefs`, `encInfo`, `strict_sort`) and the methods they call on `self`,
each bound to the translation of that method (`self._get_n_slices()` ↦ `Gen.C20M.get_n_slices …`).  The only
methods NOT bound to a translation are `_strict_sort_order` (second half: 2-D NumPy; bound to the model's
`strictOrder`, whose first-stage key list is the translated `strict_sort_keys`) and
`_get_unique_image_prop('recon resolution')` (a constant of the data set).  `np.lexsort` is bound to
`NV.lexsortV`.  Core Lean only: the driver runs these compositions on the `genm` stream. -/
namespace Nb.C20.PyHdr
open Nb.Py Nb.Py.V Nb.Gen.C20M

def liftErr : Nb.C20.Err → Nb.Py.Err
  | .value => .valueError
  | .index => .indexError
  | .parrec => .unsupported

structure H where
  cfg : Cfg
  recs : List Rec
  strict : Bool
  xy : Nat × Nat := (2, 3)

def H.defs (h : H) : V := NV.encDefs h.cfg h.recs
def H.info (h : H) : V := NV.encInfo h.cfg

def H.getDef (h : H) (name : V) : M V := get_def h.defs name
def H.nSlices (h : H) : M V := get_n_slices h.defs
def H.nVols (h : H) : M V := get_n_vols h.defs h.info
def H.uniqueProp (h : H) (_ : V) : M V := pure (.tup2 (.int h.xy.1) (.int h.xy.2))
/-- `get_data_shape()`: the shape stored by `__init__` = `_calc_data_shape()` -/
def H.dataShape (h : H) : M V := calc_data_shape h.uniqueProp h.nSlices h.nVols
def H.laxOrder (h : H) : M V := lax_sort_order h.defs h.info NV.lexsortV
def H.strictKeys (h : H) : M V := strict_sort_keys h.defs h.info h.getDef
/-- `_strict_sort_order()`: the model's (second half not translated) -/
def H.strictOrder (h : H) : M V :=
  match Nb.C20.strictOrder h.cfg h.recs with
  | .ok o => pure (NV.ofNats (o.map (·.1)))
  | .error e => throw (liftErr e)
def H.sortedIndices (h : H) : M V :=
  get_sorted_slice_indices (.bool h.strict) h.laxOrder h.strictOrder h.dataShape
def H.volumeLabels (h : H) : M V := get_volume_labels h.sortedIndices h.defs

end Nb.C20.PyHdr
