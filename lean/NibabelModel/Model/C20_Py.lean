import NibabelModel.Basic.PyVal
import NibabelModel.Model.C20
/-! Model/C20_Py — the NumPy / `set` fragment used by the METHODS of `nibabel/parrec.py` that
`harness/py2lean_c20.py` translates on every run into `Generated/C20Methods.lean`
(`vol_is_full`, `PARRECHeader._get_n_slices`, `_get_n_vols`, `_lax_sort_order`,
`get_sorted_slice_indices`, the key-list construction of `_strict_sort_order`, `get_volume_labels`).
Core Lean only (the driver links it).

This file is the SPECIFICATION of that fragment (trusted; validated on every run by the `genm` stream,
which runs the translated functions in the native driver against the real methods):

* a 1-D NumPy array of ints / bools and a Python list are both a proper `V` list (`ofInts`, `ofBools`);
* a Python `set` of ints is the tagged value `mkSet l` = `("set", sorted distinct elements)`; iteration
  over it (`iter`) visits the distinct elements in ascending order (CPython's order for the small
  non-negative ints concerned; the translated loops do not depend on the order);
* a structured array (`image_defs`) and `general_info` are `V.dict`s  field name ↦ column / value;
* `np.lexsort` is NOT specified here: it stays a callable parameter of the translated functions
  (the model instantiates it with the stable sort `lexsortV`, the contract stated in Model/C20.lean).
-/
namespace Nb.C20.NV
open Nb.Py Nb.Py.V

def ints? : V → Option (List Int)
  | .nil => some []
  | .cons (.int i) t => (ints? t).map (i :: ·)
  | _ => Option.none

def bools? : V → Option (List Bool)
  | .nil => some []
  | .cons (.bool b) t => (bools? t).map (b :: ·)
  | _ => Option.none

def ofInts (l : List Int) : V := ofList (l.map V.int)
def ofBools (l : List Bool) : V := ofList (l.map V.bool)
def ofNats (l : List Nat) : V := ofList (l.map fun (k : Nat) => V.int k)

/-- insertion into an ascending duplicate-free list -/
def insertU (a : Int) : List Int → List Int
  | [] => [a]
  | b :: l => if a < b then a :: b :: l else if a = b then b :: l else b :: insertU a l

/-- ascending distinct elements -/
def sortU (l : List Int) : List Int := l.foldr insertU []

def mkSet (l : List Int) : V := .tup2 (.str "set") (ofInts (sortU l))

def set? : V → Option (List Int)
  | .tup2 (.str "set") l => ints? l
  | _ => Option.none

/-- `set(x)` for a sequence of ints -/
def set (x : V) : M V := do
  match ints? (← asList x) with
  | some l => pure (mkSet l)
  | Option.none => throw .typeError

/-- `s.issuperset(x)`: `s` a set, `x` a sequence of ints -/
def issuperset (s x : V) : M V := do
  match set? s, ints? (← asList x) with
  | some es, some l => pure (.bool (l.all (es.contains ·)))
  | _, _ => throw .typeError

/-- the iterable of a `for` loop: the elements of a set (ascending), else the sequence itself -/
def iter (x : V) : M V :=
  match set? x with
  | some es => pure (ofInts es)
  | Option.none => asList x

/-- `len(x)` (set-aware) -/
def len (x : V) : M V :=
  match set? x with
  | some es => pure (.int es.length)
  | Option.none => V.len x

def isScalar : V → Bool
  | .int _ => true
  | .bool _ => true
  | _ => false

def elemwise (f : V → Bool) : V → M V
  | .nil => pure .nil
  | .cons a t => do pure (.cons (.bool (f a)) (← elemwise f t))
  | _ => throw .typeError

/-- `a == b`: two sets → set equality; array and scalar → element-wise bool array; else Python `==` -/
def eq (a b : V) : M V :=
  match set? a, set? b with
  | some x, some y => pure (.bool (x == y))
  | _, _ =>
    if isScalar b && (a matches .nil | .cons ..) then elemwise (fun e => pyEq e b) a
    else pure (.bool (pyEq a b))

def ne (a b : V) : M V :=
  match set? a, set? b with
  | some x, some y => pure (.bool (x != y))
  | _, _ =>
    if isScalar b && (a matches .nil | .cons ..) then elemwise (fun e => !pyEq e b) a
    else pure (.bool (!pyEq a b))

/-- `arr[mask]` -/
def maskSel : V → List Bool → M V
  | .nil, [] => pure .nil
  | .cons a t, b :: m => do
      let r ← maskSel t m
      pure (if b then .cons a r else r)
  | _, _ => throw .indexError

/-- `arr[idx]` for a list of non-negative ints -/
def gatherV (x : V) : List Int → M V
  | [] => pure .nil
  | i :: is => do
      if i < 0 then throw .unsupported
      let a ← getNat x i.toNat
      pure (.cons a (← gatherV x is))

/-- `x[i]`: dict lookup / boolean-mask selection / integer-array gather / plain item -/
def getItem (x i : V) : M V :=
  match x with
  | .dict _ => V.getItem x i
  | _ =>
    match i with
    | .nil => pure .nil
    | .cons (.bool _) _ =>
        match bools? i with
        | some m => maskSel x m
        | Option.none => throw .typeError
    | .cons (.int _) _ =>
        match ints? i with
        | some l => gatherV x l
        | Option.none => throw .typeError
    | _ => V.getItem x i

/-- `arr[mask] = scalar` -/
def maskFill : V → List Bool → V → M V
  | .nil, [], _ => pure .nil
  | .cons a t, b :: m, v => do pure (.cons (if b then v else a) (← maskFill t m v))
  | _, _, _ => throw .indexError

/-- `x[i] = v`: boolean mask with a scalar value, else plain item assignment -/
def setItem (x i v : V) : M V :=
  match i with
  | .cons (.bool _) _ =>
      match bools? i with
      | some m => if isScalar v then maskFill x m v else throw .unsupported
      | Option.none => throw .typeError
  | .nil => if isScalar v then asList x else throw .unsupported
  | _ => V.setItem x i v

def takeNat : V → Nat → V
  | _, 0 => .nil
  | .cons a t, k + 1 => .cons a (takeNat t k)
  | _, _ + 1 => .nil

/-- `x[:k]` for a list and an int `k ≥ 0` -/
def takeTo (x k : V) : M V := do
  match ← asList x, k with
  | l, .int i => if 0 ≤ i then pure (takeNat l i.toNat) else throw .unsupported
  | _, _ => throw .typeError

/-- `a + b`: ints, or concatenation of two sequences (tuples) -/
def add (a b : V) : M V :=
  match a, b with
  | .int x, .int y => pure (.int (x + y))
  | _, _ => do V.extend (← asList a) b

/-- `arr.shape` of a 1-D array -/
def shape (x : V) : M V := do pure (.cons (← V.len (← asList x)) .nil)

/-- `arr.ndim`: 1 for a flat list of scalars (the only arrays of the fragment) -/
def ndim (x : V) : M V :=
  match x with
  | .nil => pure (.int 1)
  | .cons a _ => if isScalar a then pure (.int 1) else throw .unsupported
  | _ => throw .typeError

def keysOf : V → M V
  | .nil => pure .nil
  | .cons (.tup2 k _) rest => do pure (.cons k (← keysOf rest))
  | _ => throw .typeError

/-- `arr.dtype.names` / `arr.dtype.fields` (as the sequence of field names) -/
def fieldNames : V → M V
  | .dict es => keysOf es
  | _ => throw .typeError

/-- `np.array(x)` / `np.asarray(x)` of a sequence -/
def npArray (x : V) : M V := asList x

/-- `np.ones(shape, dtype=bool)` for a 1-D shape -/
def onesBool : V → M V
  | .cons (.int n) .nil => if 0 ≤ n then pure (ofBools (List.replicate n.toNat true)) else throw .valueError
  | _ => throw .unsupported

def prodL (l : List Int) : Int := l.foldl (· * ·) 1

/-- `np.prod(x)` of a NON-EMPTY sequence of ints (`np.prod(())` is the float 1.0: outside the fragment) -/
def prod (x : V) : M V := do
  match ints? (← asList x) with
  | some [] => throw .unsupported
  | some l => pure (.int (prodL l))
  | Option.none => throw .typeError

/-- `np.unique(x)`: ascending distinct values -/
def unique (x : V) : M V := do
  match ints? (← asList x) with
  | some l => pure (ofInts (sortU l))
  | Option.none => throw .typeError

/-- `np.logical_not(x)` of a bool array -/
def logicalNot (x : V) : M V := do
  match bools? (← asList x) with
  | some l => pure (ofBools (l.map (!·)))
  | Option.none => throw .typeError

/-! ### `np.lexsort` as the model specifies it (used to instantiate the callable parameter) -/

def column? (v : V) : Option (List Int) :=
  match ints? v with
  | some l => some l
  | Option.none => (bools? v).map (·.map fun b => if b then 1 else 0)

def columns? : V → Option (List (List Int))
  | .nil => some []
  | .cons c t => do
      let c ← (match asList c with | .ok l => column? l | .error _ => Option.none)
      let t ← columns? t
      pure (c :: t)
  | _ => Option.none

/-- row `i` of the key columns, LAST key first (the precedence order of `np.lexsort`) -/
def rowKey (cols : List (List Int)) (i : Nat) : List Int := cols.reverse.map (·.getD i 0)

/-- `np.lexsort(keys)`: the positions `0..n-1` stably sorted by the keys read from the last to the first -/
def lexsortV (keys : V) : M V := do
  match columns? (← asList keys) with
  | some [] => throw .typeError
  | some (c :: cs) =>
      if cs.all (·.length == c.length) then
        pure (ofNats (stableSort (fun a b => lexLe (rowKey (c :: cs) a) (rowKey (c :: cs) b)) (List.range c.length)))
      else throw .valueError
  | Option.none => throw .typeError

/-! ### encodings of a header (`image_defs`, `general_info`) for the translated methods -/

def colOf (f : Rec → Int) (recs : List Rec) : V := ofInts (recs.map f)

/-- the image-definition columns the assembly logic reads, by PAR version (V4 files have no 'diffusion b
    value number' / 'gradient orientation number' / 'label type'; their b-value key is 'diffusion_b_factor') -/
def encDefs (c : Cfg) (recs : List Rec) : V :=
  let col (n : String) (f : Rec → Int) : V := .tup2 (.str n) (colOf f recs)
  .dict (ofList (
    [col "slice number" (·.slice), col "echo number" (·.echo), col "dynamic scan number" (·.dyn),
     col "cardiac phase number" (·.phase), col "image_type_mr" (·.itype), col "scanning sequence" (·.seq)] ++
    (if c.hasGrad then [col "diffusion b value number" (·.bval), col "gradient orientation number" (·.grad)]
     else [col "diffusion_b_factor" (·.bval)]) ++
    (if c.hasLabel then [col "label type" (·.label)] else [])))

def encInfo (c : Cfg) : V :=
  .dict (ofList [.tup2 (.str "max_slices") (.int c.maxSlices),
                 .tup2 (.str "diffusion") (.int (if c.diffusion then 1 else 0))])

/-- `self.get_def(name)`: the column, or None when the version has no such field -/
def getDef (defs : V) (name : V) : M V :=
  match defs with
  | .dict es => pure ((dictGet? es name).getD .none)
  | _ => throw .typeError

end Nb.C20.NV
