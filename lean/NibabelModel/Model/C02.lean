/-! Model/C02 — rescaled integer storage (exact `Rat` arithmetic, core Lean only, executable).

Models (pinned tree + `fix:` 37e49301):

* `nibabel/arraywriters.py`  ArrayWriter.scaling_needed (:95-151), SlopeArrayWriter.scaling_needed (:287-311),
  `_writing_range` (:340-348), `_do_scaling` (:373-393), `_iu2iu` (:395-412), `_range_scale` (:414-438),
  SlopeInterArrayWriter `_iu2iu` (:539-575), `_range_scale` (:577-684), `make_array_writer` (:720-762),
  `get_slope_inter`;
* `nibabel/volumeutils.py`   `array_to_file` (:605-715 scaled path, :586-640 simple paths), `_write_data`
  (:718-783), `_dt_min_max`, `apply_read_scaling` (:868-925);
* `nibabel/casting.py`       `floor_exact`/`ceil_exact` (:486-588), `shared_range` (:156-207);
* header refusals            `analyze.py:772-792`, `spm99analyze.py:65-92`, `nifti1.py:1406-1438`;
* image classes              `AnalyzeImage.to_file_map` (analyze.py:985-1062), `MGHImage._write_data`
  (freesurfer/mghformat.py:561-581, calls `array_to_file` with default slope/intercept and NO range check).

What is exact and what is a parameter
* every number is a `Rat`; `rint` is round-half-to-even on `Rat`; there is no IEEE rounding in the model.
* `rnd : Rat → Rat` stands for the cast of slope / intercept to the scaler dtype (float32) done by the property
  setters (`arraywriters.py:322-325, 511-514`).  The theorems treat the STORED `(s, b)` as free rationals; the ideal
  `(s*, b*)` are what the writer computes with `rnd = id`.
* `p` is the number of significand bits of the working float type chosen by `array_to_file` (24, 53, 64).
  `floorExact p` / `sharedRange p` are the exact integer semantics of `casting.floor_exact` / `shared_range`
  (contract proved in Lemmas/C02: result representable-side of, and inside, the integer range).
  `workingPrec` is NumPy's promotion table for `working_type` (volumeutils.py:928-972); the overflow-driven upgrade
  of `best_write_scale_ftype` is NOT modelled (it only widens the working type).
-/
namespace Nb.C02

/-! ## numeric helpers -/

/-- absolute value on `Rat` (core has none) -/
def rabs (x : Rat) : Rat := if x < 0 then -x else x

/-- `np.rint` / `np.round`: round half to even -/
def rint (x : Rat) : Int :=
  let f := x.floor
  let r := x - (f : Rat)
  if r < 1/2 then f else if 1/2 < r then f + 1 else if f % 2 = 0 then f else f + 1

/-- `np.clip(x, lo, hi)` = `minimum(maximum(x, lo), hi)` (so for `lo > hi` the result is `hi`) -/
def clipI (x lo hi : Int) : Int := min (max x lo) hi

def clipR (x lo hi : Rat) : Rat := min (max x lo) hi

/-! ## types -/

inductive Err | writer | headerData | headerType | value | castNaN
  deriving DecidableEq, Repr

/-- integer on-disk type, given by its range; kind `'u'` iff `omin = 0` -/
structure OutT where
  omin : Int
  omax : Int
  deriving DecidableEq, Repr

def OutT.isU (o : OutT) : Bool := o.omin == 0
/-- `max(|omin|, |omax|)` -/
def OutT.absMax (o : OutT) : Int := max (o.omin.natAbs : Int) (o.omax.natAbs : Int)

/-- input dtype: float with `prec` significand bits (11, 24, 53) or an integer type given by its range -/
inductive InT
  | flt (prec : Nat)
  | int (imin imax : Int)
  deriving DecidableEq, Repr

/-- one input element -/
inductive Val
  | fin (r : Rat)
  | nan | pinf | ninf
  deriving DecidableEq, Repr

/-! ## casting.floor_exact / ceil_exact / shared_range (exact integer semantics) -/

/-- `floor_exact(v, flt)` for a float type with `p` significand bits, `|v|` below the float's overflow threshold:
    the largest integer `≤ v` exactly representable (casting.py:486-548). -/
def floorExact (p : Nat) (v : Int) : Int :=
  let a := v.natAbs
  if a < 2 ^ p then v
  else
    let g : Int := ((2 ^ (a.log2 + 1 - p) : Nat) : Int)
    (v / g) * g

def ceilExact (p : Nat) (v : Int) : Int := - floorExact p (-v)

/-- `shared_range(flt, int_type)` (casting.py:156-207; `TRUNC_UINT64` is False on this platform) -/
def sharedRange (p : Nat) (o : OutT) : Int × Int := (ceilExact p o.omin, floorExact p o.omax)

/-- NumPy promotion in `working_type` (volumeutils.py:928-972) for a float32 slope / intercept:
    float16/float32 and 8/16-bit integers work in float32, everything else in float64. -/
def workingPrec : InT → Nat
  | .flt prec => if prec ≤ 24 then 24 else prec
  | .int imin imax => if -32768 ≤ imin ∧ imax ≤ 65535 then 24 else 53

/-! ## finite_range (volumeutils.py `finite_range`) -/

/-- `(mn, mx)` of the finite values (`none` = no finite value, i.e. `(inf, -inf)`) and `has_nan` -/
def finiteRange : List Val → Option (Rat × Rat) × Bool
  | [] => (none, false)
  | v :: rest =>
    let (fr, hn) := finiteRange rest
    match v with
    | .fin r => (some (match fr with | none => (r, r) | some (a, b) => (min r a, max r b)), hn)
    | .nan => (fr, true)
    | _ => (fr, hn)

/-! ## ArrayWriter.scaling_needed -/

/-- `np.can_cast(in, out)` for integer `out`: safe casting = range containment; floats never cast safely -/
def canCast (i : InT) (o : OutT) : Bool :=
  match i with
  | .int a b => decide (o.omin ≤ a) && decide (b ≤ o.omax)
  | .flt _ => false

/-- `ArrayWriter.scaling_needed` (arraywriters.py:95-151), integer `out` -/
def awScalingNeeded (i : InT) (o : OutT) (data : List Val) : Bool :=
  if canCast i o then false
  else if data.isEmpty then false
  else
    match (finiteRange data).1, i with
    | some (mn, mx), .flt _ => !(mn == 0 && mx == 0)
    | none, .flt _ => true
    | some (mn, mx), .int _ _ =>
        if mn == 0 && mx == 0 then false else !(decide ((o.omin : Rat) ≤ mn) && decide (mx ≤ (o.omax : Rat)))
    | none, .int _ _ => false   -- unreachable: integer data are all finite

/-- `SlopeArrayWriter.scaling_needed` (:287-311): additionally False when there is no finite value -/
def slScalingNeeded (i : InT) (o : OutT) (data : List Val) : Bool :=
  awScalingNeeded i o data && (finiteRange data).1.isSome

/-! ## the scale calculators -/

/-- `SlopeArrayWriter._range_scale` (:414-438): slope only (ideal value, before the float32 cast) -/
def rangeScaleSlope (o : OutT) (inMin inMax : Rat) : Except Err Rat :=
  if o.isU then
    if inMin < 0 ∧ 0 < inMax then .error .writer
    else if inMax ≤ 0 then .ok (inMin / o.omax)
    else .ok (inMax / o.omax)
  else .ok (max (inMax / o.omax) (inMin / o.omin))

/-- `SlopeInterArrayWriter._range_scale` (:577-684).  `sh = shared_range(float32, out)`.
    Returns `(slope, inter)` as stored (after `rnd`). A stored slope of 0 is reported as the `HeaderDataError`
    every slope-capable header raises for it (the intermediate float warnings are not modelled). -/
def rangeScaleInter (rnd : Rat → Rat) (o : OutT) (sh : Int × Int) (nanFit : Bool)
    (inMin inMax : Rat) : Except Err (Rat × Rat) :=
  if inMax = inMin then .ok (1, rnd inMin)
  else
    let omn : Rat := sh.1
    let omx : Rat := sh.2
    let slope0 := (inMax - inMin) / (omx - omn)
    let (inter0, slope1) :=
      if sh.1 = 0 ∧ rabs inMax < rabs inMin then (inMax + omn * slope0, -slope0)
      else (inMin - omn * slope0, slope0)
    let b := rnd inter0
    let s := rnd slope1
    if s = 0 then .error .headerData
    else if !(decide (inMin = 0 ∨ inMax = 0) && nanFit) then .ok (s, b)
    else
      let nanFillF := -b / s
      let nanFillI := rint nanFillF
      if o.omin ≤ nanFillI ∧ nanFillI ≤ o.omax then .ok (s, b)
      else .ok (s, rnd (-(clipR nanFillF omn omx) * s))

/-- which `_range_scale` the (polymorphic) `self._range_scale` call reaches -/
inductive Writer | plain | slope | slopeInter
  deriving DecidableEq, Repr

def rangeScale (w : Writer) (rnd : Rat → Rat) (o : OutT) (sh : Int × Int) (nanFit : Bool)
    (inMin inMax : Rat) : Except Err (Rat × Rat) :=
  match w with
  | .slopeInter => rangeScaleInter rnd o sh nanFit inMin inMax
  | _ => do
      let s ← rangeScaleSlope o inMin inMax
      let s := rnd s
      if s = 0 then .error .headerData else .ok (s, 0)

/-- `SlopeArrayWriter._iu2iu` (:395-412): sign flip for uint output, else range scaling -/
def iu2iuSlope (w : Writer) (rnd : Rat → Rat) (o : OutT) (sh : Int × Int) (mn mx : Int) : Except Err (Rat × Rat) :=
  if o.isU ∧ mx ≤ 0 ∧ (mn.natAbs : Int) ≤ sh.2 then .ok (-1, 0)
  else rangeScale w rnd o sh false mn mx

/-- `SlopeInterArrayWriter._iu2iu` (:539-575): intercept only when the data range fits the (shared) type range.
    `p32` = significand bits of the scaler dtype. -/
def iu2iuInter (rnd : Rat → Rat) (p32 : Nat) (o : OutT) (sh : Int × Int) (mn mx : Int) : Except Err (Rat × Rat) :=
  let typeRange := sh.2 - sh.1
  let mn2mx := mx - mn
  let fall := iu2iuSlope .slopeInter rnd o sh mn mx
  if mn2mx ≤ typeRange then
    let inter :=
      if sh.1 = 0 then floorExact p32 (mn - sh.1)
      else floorExact p32 (mn + (mn2mx + 1) / 2)       -- mn + ceil(mn2mx / 2)
    if mx - inter ≤ sh.2 then .ok (1, (inter : Rat)) else fall
  else fall

/-- `_do_scaling` (:373-393) for a writer class; `fr = (mn, mx)` finite range; integers carry integral `mn, mx` -/
def doScaling (w : Writer) (rnd : Rat → Rat) (p32 : Nat) (i : InT) (o : OutT) (mn mx : Rat) (hasNan : Bool) :
    Except Err (Rat × Rat) :=
  let sh := sharedRange p32 o
  match i with
  | .flt _ =>
      let (mn', mx') := if hasNan then (min mn 0, max mx 0) else (mn, mx)
      rangeScale w rnd o sh hasNan mn' mx'
  | .int _ _ =>
      match w with
      | .slopeInter => iu2iuInter rnd p32 o sh mn.floor mx.floor
      | _ => iu2iuSlope w rnd o sh mn.floor mx.floor

/-- `make_array_writer(data, out, has_slope, has_intercept)` + `calc_scale` + `get_slope_inter`:
    the `(slope, inter)` the writer ends with, or the error its constructor raises. -/
def writerScale (w : Writer) (rnd : Rat → Rat) (p32 : Nat) (i : InT) (o : OutT) (data : List Val) :
    Except Err (Rat × Rat) :=
  match w with
  | .plain => if awScalingNeeded i o data then .error .writer else .ok (1, 0)
  | _ =>
    if slScalingNeeded i o data then
      match finiteRange data with
      | (some (mn, mx), hn) => doScaling w rnd p32 i o mn mx hn
      | (none, _) => .ok (1, 0)
    else .ok (1, 0)

/-! ## array_to_file -/

/-- extended integers for the rounded thresholds `post_mn`, `post_mx` -/
inductive ExtI | ninf | fin (i : Int) | pinf
  deriving DecidableEq, Repr

def ExtI.le : ExtI → ExtI → Bool
  | .ninf, _ => true
  | _, .pinf => true
  | .fin a, .fin b => decide (a ≤ b)
  | _, _ => false

/-- `np.clip(x, lo, hi)` for an extended `x` -/
def ExtI.clip (x : ExtI) (lo hi : Int) : Int :=
  match x with
  | .ninf => min lo hi
  | .fin i => clipI i lo hi
  | .pinf => hi

/-- `rint((x - inter) / slope)` of a threshold; `none` = that side is infinite (`lower = true`: −inf else +inf) -/
def scaleThresh (s b : Rat) (lower : Bool) (x : Option Rat) : ExtI :=
  match x with
  | some r => .fin (rint ((r - b) / s))
  | none => if (0 < s) = lower then .ninf else .pinf

/-- the two post-scale clip thresholds AFTER the fix (volumeutils.py:700-703): both clamped into the shared range -/
def postBounds (pmn pmx : ExtI) (bmn bmx : Int) : Int × Int := (pmn.clip bmn bmx, pmx.clip bmn bmx)

/-- ORIGINAL logic (before 37e49301): `post_mn = max(post_mn, both_mn); post_mx = min(post_mx, both_mx)` -/
def postBoundsOrig (pmn pmx bmn bmx : Int) : Int × Int := (max pmn bmn, min pmx bmx)

/-- one element through `_write_data` (:760-779): scale, rint, clip, nan fill -/
def scaleVal (s b : Rat) (lo hi : Int) (nanFill : Option Int) : Val → Except Err Int
  | .fin v => .ok (clipI (rint ((v - b) / s)) lo hi)
  | .pinf => .ok (if 0 < s then hi else min lo hi)
  | .ninf => .ok (if 0 < s then min lo hi else hi)
  | .nan => match nanFill with
            | some f => .ok f
            | none => .error .castNaN      -- NaN cast to an integer: undefined, NumPy warns

/-- the nan-fill range test (volumeutils.py:683-699) -/
def nanFillCheck (p : Nat) (s b : Rat) (nanFill bmn bmx : Int) : Except Err Int :=
  if bmn ≤ nanFill ∧ nanFill ≤ bmx then .ok nanFill
  else
    let estErr := rint (2 * (2 : Rat) ^ (1 - (p : Int)) * rabs (b / s))
    if (nanFill < bmn ∧ (bmn - nanFill) < estErr) ∨ (bmx < nanFill ∧ (nanFill - bmx) < estErr) then
      .ok (clipI nanFill bmn bmx)
    else .error .value

/-- scaled path of `array_to_file` (volumeutils.py:641-715) for stored `(s, b)`, `s ≠ 0`;
    `dtMn/dtMx` = `_dt_min_max(cast_in_dtype, mn, mx)` (`none` = ∓inf), `bm = shared_range(w_type, out)` -/
def scaledWrite (p : Nat) (s b : Rat) (dtMn dtMx : Option Rat) (bm : Int × Int) (nan2zero : Bool)
    (data : List Val) : Except Err (List Int) := do
  let pmn0 := scaleThresh s b true dtMn
  let pmx0 := scaleThresh s b false dtMx
  let (pmn, pmx) := if pmn0.le pmx0 then (pmn0, pmx0) else (pmx0, pmn0)
  let nanFill ← if nan2zero then (nanFillCheck p s b (rint ((0 - b) / s)) bm.1 bm.2).map some else pure none
  let (lo, hi) := postBounds pmn pmx bm.1 bm.2
  data.mapM (scaleVal s b lo hi nanFill)

/-- `(mn, mx) == (0, 0) or (mn is not None and mx is not None and mx < mn)` → `write_zeros` (volumeutils.py:598-600) -/
def writeZeros (mn mx : Option Rat) : Bool :=
  match mn, mx with
  | some a, some c => (a == 0 && c == 0) || decide (c < a)
  | _, _ => false

/-- integer input, null scaling (volumeutils.py:603-604, 622-629): direct cast when `np.can_cast`, else clip to the
    intersection of the (thresholded) input range and the output range, then cast -/
def intNullWrite (imin imax : Int) (o : OutT) (mn mx : Option Rat) (data : List Val) : Except Err (List Int) :=
  if canCast (.int imin imax) o then
    data.mapM fun v => match v with | .fin r => .ok r.floor | _ => .error .castNaN
  else
    let lo := max ((mn.map Rat.floor).getD imin) o.omin
    let hi := min ((mx.map Rat.floor).getD imax) o.omax
    data.mapM fun v => match v with | .fin r => .ok (clipI r.floor lo hi) | _ => .error .castNaN

/-- `array_to_file(data, fileobj, out, intercept=b, divslope=s, mn, mx, nan2zero)` for integer `out`
    (volumeutils.py:586-715); returns the integers written. -/
def arrayToFile (i : InT) (o : OutT) (s b : Rat) (mn mx : Option Rat) (nan2zero : Bool)
    (data : List Val) : Except Err (List Int) :=
  if s = 0 then .error .value
  else if writeZeros mn mx then .ok (data.map fun _ => 0)               -- write_zeros
  else
    match i with
    | .int imin imax =>
        if b = 0 ∧ s = 1 then intNullWrite imin imax o mn mx data
        else
          -- integer input with real scaling: nan2zero is switched off (volumeutils.py:630-632)
          scaledWrite (workingPrec i) s b (some (mn.getD imin)) (some (mx.getD imax))
            (sharedRange (workingPrec i) o) false data
    | .flt _ =>
        scaledWrite (workingPrec i) s b mn mx (sharedRange (workingPrec i) o) nan2zero data

/-- `apply_read_scaling` (volumeutils.py:868-925), exact -/
def applyReadScaling (s b : Rat) (q : Int) : Rat := q * s + b

/-! ## image classes -/

inductive Cls | nifti | spm | analyze | mgh
  deriving DecidableEq, Repr

def Cls.writer : Cls → Writer
  | .nifti => .slopeInter      -- has_data_slope, has_data_intercept (nifti1.py:826-827)
  | .spm => .slope             -- spm99analyze.py:43-44
  | .analyze => .plain         -- analyze.py:193-194
  | .mgh => .plain             -- (not used: MGH bypasses the array writers)

/-- `hdr.set_slope_inter(slope, inter)` refusals (analyze.py:772-792, spm99analyze.py:65-92, nifti1.py:1406-1438) -/
def setSlopeInter (c : Cls) (s b : Rat) : Except Err Unit :=
  match c with
  | .analyze | .mgh => if s = 1 ∧ b = 0 then .ok () else .error .headerType
  | .spm => if s = 0 then .error .headerData else if b = 0 then .ok () else .error .headerType
  | .nifti => if s = 0 then .error .headerData else .ok ()

/-- `_writing_range` (:340-348) and `_needs_nan2zero` (:181-188) feeding `to_fileobj` -/
def writingRange (w : Writer) (i : InT) (data : List Val) : Option Rat × Option Rat :=
  match w, i with
  | .plain, _ => (none, none)
  | _, .flt _ => match (finiteRange data).1 with
                 | some (mn, mx) => (some mn, some mx)
                 | none => (some 0, some 0)
  | _, .int _ _ => (none, none)

def needsNan2zero (i : InT) (data : List Val) : Bool :=
  match i with
  | .flt _ => (finiteRange data).2
  | .int _ _ => false

/-- `img.to_file_map()` restricted to what C02 observes: `(stored slope, stored inter, raw integers)` or the error.
    MGH: `MGHImage._write_data` calls `array_to_file(data, f, out_dtype, offset)` directly — default
    `intercept=0, divslope=1, mn=mx=None, nan2zero=True`; there is no writer, so no refusal. -/
def save (c : Cls) (rnd : Rat → Rat) (p32 : Nat) (i : InT) (o : OutT) (data : List Val) :
    Except Err (Rat × Rat × List Int) :=
  match c with
  | .mgh => do
      let raw ← arrayToFile i o 1 0 none none true data
      .ok (1, 0, raw)
  | _ => do
      let w := c.writer
      let (s, b) ← writerScale w rnd p32 i o data
      setSlopeInter c s b
      let (mn, mx) := writingRange w i data
      let raw ← arrayToFile i o s b mn mx (needsNan2zero i data) data
      .ok (s, b, raw)

/-! ## the pinned (pre-fix) clip, kept small for the witness theorem -/

/-- one finite element with the ORIGINAL thresholds -/
def scaleFinOrig (s b : Rat) (mn mx : Rat) (bmn bmx : Int) (v : Rat) : Int :=
  let a := rint ((mn - b) / s)
  let c := rint ((mx - b) / s)
  let (pmn, pmx) := if a ≤ c then (a, c) else (c, a)
  let (lo, hi) := postBoundsOrig pmn pmx bmn bmx
  clipI (rint ((v - b) / s)) lo hi

/-- the same element with the CURRENT thresholds -/
def scaleFin (s b : Rat) (mn mx : Rat) (bmn bmx : Int) (v : Rat) : Int :=
  let a := rint ((mn - b) / s)
  let c := rint ((mx - b) / s)
  let (pmn, pmx) := if a ≤ c then (a, c) else (c, a)
  clipI (rint ((v - b) / s)) (clipI pmn bmn bmx) (clipI pmx bmn bmx)

/-! ## `AnalyzeImage.to_file_map(file_map, dtype=None)` with its header bookkeeping (analyze.py:991-1061)

The on-disk type can be chosen in two ways: it is the header's current data type (`set_data_dtype`, the constructor's
`dtype=` / `header=`), or it is the `dtype=` SAVE ARGUMENT of `to_file_map` / `to_filename` / `nib.save` / `to_bytes`,
which overrides the header for the duration of the call.  The header's slope / intercept fields are "consumable":
NaN (`none`) means "calculate the scaling", anything else means "the caller fixed the scaling: write the array as it
is" (`ArrayWriter(data, out_dtype, check_scaling=False)`).  All of it is restored in the `finally:` block. -/

/-- a header data type: an integer type (by its range) or a float type (significand bits) -/
inductive DT
  | int (o : OutT)
  | flt (prec : Nat)
  deriving DecidableEq, Repr

/-- the consumable header fields (`none` = NaN).  A class without the field never reads it. -/
structure Hdr where
  dtype : DT
  slope : Option Rat
  inter : Option Rat
  deriving DecidableEq, Repr

/-- `header_class.has_data_slope`, `.has_data_intercept` (analyze.py:193-194, spm99analyze.py:43-44,
    nifti1.py:826-827); re-checked against the source by `Generated/C02Caps.lean` -/
structure Caps where
  hasSlope : Bool
  hasInter : Bool
  deriving DecidableEq, Repr

def Cls.caps : Cls → Caps
  | .nifti => ⟨true, true⟩
  | .spm => ⟨true, false⟩
  | .analyze => ⟨false, false⟩
  | .mgh => ⟨false, false⟩

/-- `make_array_writer(data, out, has_slope, has_intercept)` (arraywriters.py:720-762): which writer class -/
def makeWriter (k : Caps) : Except Err Writer :=
  if k.hasInter && !k.hasSlope then .error .value
  else if k.hasInter then .ok .slopeInter
  else if k.hasSlope then .ok .slope
  else .ok .plain

/-- the on-disk type of the call: `hdr.set_data_dtype(dtype)` when the argument is given, else the header's own
    (analyze.py:1011-1014).  `none`: a float on-disk type — outside this model (no integer rescaling). -/
def effectiveOut (hd : DT) (arg : Option DT) : Option OutT :=
  match arg.getD hd with
  | .int o => some o
  | .flt _ => none

/-- the body of the `try:` block for an integer on-disk type `o`, header fields read as `(slope, inter)`
    (`none` = NaN or field absent).  Returns what C02 observes — `(stored slope, stored inter, raw integers)` — and
    the header as the block leaves it (before `finally:`). -/
def tfmBody (c : Cls) (rnd : Rat → Rat) (p32 : Nat) (i : InT) (o : OutT) (h1 : Hdr) (slope inter : Option Rat)
    (data : List Val) : Except Err (Rat × Rat × List Int) × Hdr :=
  let k := c.caps
  -- scale_me = np.all(np.isnan((slope, inter)))          (analyze.py:1019)
  if slope.isNone && inter.isNone then
    match makeWriter k with
    | .error e => (.error e, h1)
    | .ok w =>
      match writerScale w rnd p32 i o data with           -- make_array_writer(...): constructor + calc_scale
      | .error e => (.error e, h1)
      | .ok (s, b) =>
        match setSlopeInter c s b with                    -- hdr.set_slope_inter(*get_slope_inter(arr_writer))
        | .error e => (.error e, h1)
        | .ok () =>
          let h2 : Hdr := { h1 with slope := if k.hasSlope then some s else h1.slope,
                                    inter := if k.hasInter then some b else h1.inter }
          let (mn, mx) := writingRange w i data
          match arrayToFile i o s b mn mx (needsNan2zero i data) data with
          | .error e => (.error e, h2)
          | .ok raw => (.ok (s, b, raw), h2)
  else
    -- the caller fixed the scaling: ArrayWriter(data, out_dtype, check_scaling=False).to_fileobj  (analyze.py:1025)
    match arrayToFile i o 1 0 none none (needsNan2zero i data) data with
    | .error e => (.error e, h1)
    | .ok raw => (.ok (slope.getD 1, inter.getD 0, raw), h1)

/-- `img.to_file_map(fm, dtype=arg)` for the Analyze family (NIfTI-1/2 single and pair, SPM99, SPM2, Analyze):
    the observable result and the image header AFTER the call.  `none` = float on-disk type (not modelled). -/
def toFileMap (c : Cls) (rnd : Rat → Rat) (p32 : Nat) (i : InT) (h : Hdr) (arg : Option DT) (data : List Val) :
    Option (Except Err (Rat × Rat × List Int) × Hdr) :=
  match effectiveOut h.dtype arg with
  | none => none
  | some o =>
    let k := c.caps
    -- data_dtype = hdr.get_data_dtype(); hdr.set_data_dtype(dtype); out_dtype = hdr.get_data_dtype()
    let h1 : Hdr := { h with dtype := .int o }
    let slope := if k.hasSlope then h.slope else none
    let inter := if k.hasInter then h.inter else none
    let (res, h2) := tfmBody c rnd p32 i o h1 slope inter data
    -- finally: restore dtype, slope, inter (analyze.py:1053-1061)
    let h3 : Hdr := { h2 with dtype := h.dtype,
                              slope := if k.hasSlope then slope else h2.slope,
                              inter := if k.hasInter then inter else h2.inter }
    some (res, h3)

/-- a history of saves on ONE image: each `to_file_map(dtype=arg)` sees the header the previous one left.
    A step with a float on-disk type is not modelled (`none` result); it runs the same `finally:` block, so the header
    it leaves is the one it found (checked against the real code by the `hist` stream, which observes the header
    after the whole history). -/
def saveSeq (c : Cls) (rnd : Rat → Rat) (p32 : Nat) (i : InT) (data : List Val) :
    Hdr → List (Option DT) → List (Option (Except Err (Rat × Rat × List Int))) × Hdr
  | h, [] => ([], h)
  | h, a :: rest =>
    match toFileMap c rnd p32 i h a data with
    | none => let (rs, hf) := saveSeq c rnd p32 i data h rest; (none :: rs, hf)
    | some (r, h') => let (rs, hf) := saveSeq c rnd p32 i data h' rest; (some r :: rs, hf)

end Nb.C02
