/-! Model/C02 — executable model (core Lean only; imports only NibabelModel.Basic.* / other Model files). -/
namespace Nb.C02

end Nb.C02
