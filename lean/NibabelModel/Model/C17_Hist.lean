import NibabelModel.Model.C17
/-! Model/C17_Hist — a small OBJECT-HISTORY model of one `GiftiImage` object that is serialised several times with
    mutations in between (core Lean only).

    Python objects are modelled with identity: the image holds a list of REFERENCES (ids) to `GiftiDataArray`
    objects, each of which holds a reference to an ndarray object.  The same data array may sit at two positions of
    `img.darrays`, two data arrays may share one ndarray, an ndarray may be edited IN PLACE (`da.data[...] = v`: every
    holder sees the new values) or `da.data` may be re-bound to another ndarray.

    What is modelled                                                         nibabel/gifti/gifti.py
      `GiftiImage._to_xml_element` walking the objects (`serLit`)             :847-857
      `GiftiDataArray._to_xml_element`: FIRST `self.endian = native`, then    :511-545
         the attributes are read (incl. the endian just written), then
         `_data_tag_element(self.data, encoding, dtype(datatype), ind_ord)`
      attribute assignments on the image / data arrays / metadata dicts / label table between serialisations
      container operations `add_gifti_data_array`, `remove_gifti_data_array`, `…_by_intent`   :668-686
      re-loading what was written (`reload`): fresh objects without sharing, arrays of the declared data type with
         shape = dims

    `to_xml`, `to_bytes`, `to_filename`, `to_stream`, `nib.save` all reduce to `to_xml` (:859-914,
    filebasedimages.py:553-596); `mode='strict'|'compat'|'force'` do not differ for the GIFTI data types
    (the harness varies both; the model has ONE serialise operation).

    External: the `<Data>` text `_data_tag_element` produces (`DataEnc`; base64/zlib/number printing) and the
    '%10.6f' matrix text inside `WCoord` — parameters, as in Model/C17 §(d). -/
namespace Nb.C17

/-- an ndarray object: data type code of the array IN MEMORY, shape, elements (bit patterns, C order) -/
structure NdArr where
  dt : Nat
  shape : List Nat
  elems : List Nat
deriving DecidableEq, Repr

/-- a `GiftiDataArray` object without its `endian` attribute (kept apart in `HSt.endians`: the writer overwrites it
    before reading it, gifti.py:513,524).  `data` is a reference to an ndarray object. -/
structure DObj where
  data : Nat
  intent : Nat
  datatype : Nat
  indOrd : Nat
  encoding : Nat
  dims : List Nat
  extFname : Text
  extOffset : Nat
  dmeta : MD
  coordsys : WCoord
deriving Repr

abbrev Heap (α : Type) := Nat → Option α

def Heap.set {α} (h : Heap α) (i : Nat) (a : α) : Heap α := fun j => if j = i then some a else h j

/-- everything reachable from the image object, plus the objects the caller still holds — all attributes but the
    data arrays' `endian` -/
structure Core where
  version : Text := ['1', '.', '0']
  gmeta : MD := []
  labels : List WLabel := []
  /-- `img.darrays`: ids of `GiftiDataArray` objects, in image order (repeats = the same object twice) -/
  darrays : List Nat := []
  das : Heap DObj := fun _ => none
  nds : Heap NdArr := fun _ => none

/-- the full object state: `endians` = the `endian` attribute (code) of every data array object -/
structure HSt where
  core : Core := {}
  endians : Nat → Nat := fun _ => 0

/-- `_data_tag_element(data, encoding, dtype(datatype), ind_ord).text` (gifti.py:385-405): external -/
abbrev DataEnc := Nat → Nat → Nat → NdArr → Text

/-! ### mutations between serialisations -/

/-- `del d[k]` of a dict; KeyError when absent -/
def MD.del (m : MD) (k : Text) : Option MD :=
  if m.any (fun p => p.1 == k) then some (m.filter (fun p => !(p.1 == k))) else none

inductive DAField where
  | intent (c : Nat) | datatype (c : Nat) | indOrd (c : Nat) | encoding (c : Nat)
  | dims (d : List Nat) | ext (f : Text) (off : Nat)
  | metaSet (k v : Text) | metaDel (k : Text) | metaNew (m : MD)
  | coord (c : WCoord)
  | data (nd : Nat)          -- `da.data = other_array` (re-binding; `dims` is NOT touched)

def DObj.upd (d : DObj) : DAField → Option DObj
  | .intent c => some { d with intent := c }
  | .datatype c => some { d with datatype := c }
  | .indOrd c => some { d with indOrd := c }
  | .encoding c => some { d with encoding := c }
  | .dims ds => some { d with dims := ds }
  | .ext f off => some { d with extFname := f, extOffset := off }
  | .metaSet k v => some { d with dmeta := MD.set d.dmeta k v }
  | .metaDel k => (MD.del d.dmeta k).map (fun m => { d with dmeta := m })
  | .metaNew m => some { d with dmeta := m }
  | .coord c => some { d with coordsys := c }
  | .data nd => some { d with data := nd }

inductive Op where
  | ser
  | version (v : Text)
  | gmetaSet (k v : Text) | gmetaDel (k : Text) | gmetaNew (m : MD)
  | labelAdd (l : WLabel) | labelSet (j : Nat) (l : WLabel) | labelDel (j : Nat) | labelsNew
  | newNd (id : Nat) (a : NdArr)                 -- `x = np.array(...)`
  | editNd (pos : Nat) (elems : List Nat)        -- `img.darrays[pos].data[...] = values`  (IN PLACE)
  | newDA (id : Nat) (d : DObj) (endian : Nat)   -- `d = GiftiDataArray(x, …)`
  | setDA (pos : Nat) (f : DAField)              -- `img.darrays[pos].<attr> = …`
  | setEndian (pos : Nat) (c : Nat)              -- `img.darrays[pos].endian = …`
  | add (id : Nat)                               -- `img.add_gifti_data_array(d)`
  | pop (i : Int)                                -- `img.remove_gifti_data_array(i)`
  | removeIntent (c : Nat)                       -- `img.remove_gifti_data_array_by_intent(c)`
  | reload (base : Nat)                          -- `img = GiftiImage.from_bytes(img.to_bytes())`

/-- `list.pop(i)` -/
def popAt {α} (l : List α) (i : Int) : Option (List α) :=
  let n : Int := l.length
  let j : Int := if i < 0 then i + n else i
  if j < 0 ∨ n ≤ j then none else some (l.eraseIdx j.toNat)

def setAt {α} (l : List α) (j : Nat) (a : α) : Option (List α) :=
  if j < l.length then some (l.set j a) else none

/-- the non-serialising operations: by their type they neither read nor write the `endian` attributes -/
def applyCore (s : Core) : Op → Option Core
  | .ser => some s
  | .reload _ => some s
  | .version v => some { s with version := v }
  | .gmetaSet k v => some { s with gmeta := MD.set s.gmeta k v }
  | .gmetaDel k => (MD.del s.gmeta k).map (fun m => { s with gmeta := m })
  | .gmetaNew m => some { s with gmeta := m }
  | .labelAdd l => some { s with labels := s.labels ++ [l] }
  | .labelSet j l => (setAt s.labels j l).map (fun ls => { s with labels := ls })
  | .labelDel j => if j < s.labels.length then some { s with labels := s.labels.eraseIdx j } else none
  | .labelsNew => some { s with labels := [] }
  | .newNd id a => some { s with nds := s.nds.set id a }
  | .editNd pos elems =>
    match s.darrays[pos]? with
    | none => none
    | some id =>
      match s.das id with
      | none => none
      | some d =>
        match s.nds d.data with
        | none => none
        | some a => if elems.length = a.elems.length then some { s with nds := s.nds.set d.data { a with elems := elems } }
                    else none
  | .newDA id d _ => if (s.nds d.data).isSome then some { s with das := s.das.set id d } else none
  | .setDA pos f =>
    match s.darrays[pos]? with
    | none => none
    | some id =>
      match s.das id with
      | none => none
      | some d =>
        match d.upd f with
        | none => none
        | some d' => if (s.nds d'.data).isSome then some { s with das := s.das.set id d' } else none
  | .setEndian pos _ => if pos < s.darrays.length then some s else none
  | .add id => if (s.das id).isSome then some { s with darrays := s.darrays ++ [id] } else none
  | .pop i => (popAt s.darrays i).map (fun l => { s with darrays := l })
  | .removeIntent c =>
    some { s with darrays := s.darrays.filter (fun id => (s.das id).map (·.intent) != some c) }

/-- … and the effect of an operation on the `endian` attributes -/
def applyEndian (s : Core) (en : Nat → Nat) : Op → (Nat → Nat)
  | .newDA id _ e => fun j => if j = id then e else en j
  | .setEndian pos c => match s.darrays[pos]? with
    | some id => fun j => if j = id then c else en j
    | none => en
  | _ => en

def applyMut (s : HSt) (op : Op) : Option HSt :=
  (applyCore s.core op).map (fun c => ⟨c, applyEndian s.core s.endians op⟩)

/-! ### the ABSTRACT value of the image: what a reader of the objects sees now -/

/-- one data array as `_to_xml_element` describes it, the endian being the machine's (`native`) -/
def viewDA (native : Nat) (E : DataEnc) (s : Core) (id : Nat) : Option WDArr :=
  match s.das id with
  | none => none
  | some d =>
    match s.nds d.data with
    | none => none
    | some a =>
      some { intent := d.intent, datatype := d.datatype, indOrd := d.indOrd, encoding := d.encoding, «endian» := native,
             dims := d.dims, extFname := d.extFname, extOffset := d.extOffset, dmeta := d.dmeta, coordsys := d.coordsys,
             dataText := E d.encoding d.datatype d.indOrd a }

def mapOpt {α β} (f : α → Option β) : List α → Option (List β)
  | [] => some []
  | a :: as =>
    match f a, mapOpt f as with
    | some b, some bs => some (b :: bs)
    | _, _ => none

def view (native : Nat) (E : DataEnc) (s : Core) : Option WImg :=
  (mapOpt (viewDA native E s) s.darrays).map
    (fun ds => { version := s.version, gmeta := s.gmeta, labels := s.labels, darrays := ds })

/-! ### the LITERAL serialiser: walks the objects, writes `self.endian`, reads the attributes back -/

/-- `for dar in self.darrays: GIFTI.append(dar._to_xml_element())` (gifti.py:855-856, 511-545), threading the
    `endian` attributes: each data array first gets `self.endian = native` (:513), then `Endian` is READ from the
    object (:524). -/
def serDAs (N : WNames) (native : Nat) (E : DataEnc) (s : Core) : (Nat → Nat) → List Nat → Option ((Nat → Nat) × List Event)
  | en, [] => some (en, [])
  | en, id :: ids =>
    let en' : Nat → Nat := fun j => if j = id then native else en j        -- :513
    match s.das id with
    | none => none
    | some d =>
      match s.nds d.data with
      | none => none
      | some a =>
        let w : WDArr :=
          { intent := d.intent, datatype := d.datatype, indOrd := d.indOrd, encoding := d.encoding, «endian» := en' id,
            dims := d.dims, extFname := d.extFname, extOffset := d.extOffset, dmeta := d.dmeta, coordsys := d.coordsys,
            dataText := E d.encoding d.datatype d.indOrd a }
        match serDAs N native E s en' ids with
        | none => none
        | some (en'', es) => some (en'', daEvents N w ++ es)

/-- `GiftiImage._to_xml_element` (:847-857) in document order + the state it leaves behind -/
def serLit (N : WNames) (native : Nat) (E : DataEnc) (s : HSt) : Option (HSt × List Event) :=
  match serDAs N native E s.core s.endians s.core.darrays with
  | none => none
  | some (en, es) =>
    some (⟨s.core, en⟩,
      .start "GIFTI" [("Version", s.core.version), ("NumberOfDataArrays", showNat s.core.darrays.length)] ::
        (metaEvents s.core.gmeta ++ (labelTableEvents s.core.labels ++ (es ++ [.stop "GIFTI"]))))

/-! ### re-loading what was written -/

/-- the objects `GiftiImage.from_bytes(img.to_bytes())` builds, for images whose arrays have data type = declared
    data type (no cast on writing; otherwise `none`: outside the model) and as many elements as `dims` says: every
    position gets a FRESH data array object `base+p` with a fresh ndarray `base+p` of shape `dims`
    (parse_gifti_fast.py:80-135 reshape in the declared order); nothing is shared any more. -/
def reloadDAs (col : Nat → Option Bool) (das : Heap DObj) (nds : Heap NdArr) (base : Nat) : List Nat → Nat → Core → Option Core
  | [], _, acc => some acc
  | id :: ids, p, acc =>
    match das id with
    | none => none
    | some d =>
      match nds d.data, col d.indOrd with
      | some a, some c =>
        if a.dt = d.datatype ∧ a.elems.length = prod a.shape ∧ prod a.shape = prod d.dims then
          let a' : NdArr := { dt := d.datatype, shape := d.dims, elems := fromOrder c d.dims (toOrder c a.shape a.elems) }
          reloadDAs col das nds base ids (p + 1)
            { acc with darrays := acc.darrays ++ [base + p], das := acc.das.set (base + p) { d with data := base + p },
                       nds := acc.nds.set (base + p) a' }
        else none
      | _, _ => none

def reloadCore (col : Nat → Option Bool) (s : Core) (base : Nat) : Option Core :=
  reloadDAs col s.das s.nds base s.darrays 0 { s with darrays := [] }

/-! ### histories -/

/-- LITERAL run: the object state (incl. what serialisation leaves behind in the `endian` attributes) is threaded
    through; one output per `ser`.  A re-loaded image has `endian` = native on every array. -/
def runLit (N : WNames) (native : Nat) (E : DataEnc) (col : Nat → Option Bool) : HSt → List Op → Option (List (List Event))
  | _, [] => some []
  | s, .ser :: ops =>
    match serLit N native E s with
    | none => none
    | some (s', out) => (runLit N native E col s' ops).map (out :: ·)
  | s, .reload base :: ops =>
    match reloadCore col s.core base with
    | none => none
    | some c => runLit N native E col ⟨c, fun _ => native⟩ ops
  | s, op :: ops =>
    match applyMut s op with
    | none => none
    | some s' => runLit N native E col s' ops

/-- the image states at the serialisation points of a history: the mutations act on `Core` alone -/
def serStates (col : Nat → Option Bool) : Core → List Op → Option (List Core)
  | _, [] => some []
  | s, .ser :: ops => (serStates col s ops).map (s :: ·)
  | s, .reload base :: ops =>
    match reloadCore col s base with
    | none => none
    | some s' => serStates col s' ops
  | s, op :: ops =>
    match applyCore s op with
    | none => none
    | some s' => serStates col s' ops

/-- ABSTRACT run: every serialisation is the PURE function `imgEvents ∘ view` of the image state at that point and
    leaves no trace -/
def runAbs (N : WNames) (native : Nat) (E : DataEnc) (col : Nat → Option Bool) (s : Core) (ops : List Op) :
    Option (List (List Event)) :=
  (serStates col s ops).bind (mapOpt (fun c => (view native E c).map (imgEvents N)))

end Nb.C17
