/-! Model/C03 — executable model (core Lean only; imports only NibabelModel.Basic.* / other Model files). -/
namespace Nb.C03

end Nb.C03
