/-
  Model/C03 — executable model of the array proxies (core Lean only), on top of the C06 model.

  Conventions (as in Model/C06)
  * a stored array is identified with its element numbers `0 … n-1` in storage order; a proxy read
    is described by its output shape and, per output element, the number of the stored element it
    shows ("gather").  Values enter only through an arbitrary function `raw : Int → ρ` (file content)
    and an arbitrary POINTWISE scaling function `f : ρ → σ → σ → β` (NumPy float arithmetic and dtype
    promotion are external: `apply_read_scaling`, `raw * slope + inter`, `out *= slope; out += inter`).
  * per-element scale parameters ("broadcast scale arrays") are described by the SLOT number of the
    parameter that NumPy broadcasting pairs with the element.

  Python source modelled (pinned tree after the `fix:` commits):
    arrayproxy.py:125-216 (`__init__` copies), 222-236 `copy`, 387-410 `_get_unscaled`, 412-426
      `_get_scaled`, 428-461 `get_unscaled/__array__/__getitem__`, 463-486 `reshape`
    ecat.py:688-743 `EcatImageArrayProxy.__array__/__getitem__`, fileslice.py:140-167 `slice2outax`,
      fileslice.py:236-266 `predict_shape`
    parrec.py:649-690 `PARRECArrayProxy._get_unscaled/_get_scaled`
    brikhead.py:248-265 `AFNIArrayProxy._get_scaled`, 397-417 `AFNIHeader.get_data_scaling`
    minc1.py:148-216 `Minc1File._normalize` (which image-min/max entry meets which voxel)
-/
import NibabelModel.Model.C06
namespace Nb.C03
open Nb Nb.C06

/-! ### generic `ArrayProxy` -/

/-- what `ArrayProxy.__init__` keeps ("Copies of values needed to read array", arrayproxy.py:203) -/
structure Params (σ : Type) where
  shape : List Nat
  isz   : Nat
  off   : Nat
  order : Order
  slope : σ
  inter : σ
  deriving Repr, DecidableEq

/-- `canonical_slicers((), shape, False)` : one `slice(None)` per axis -/
def allFull (shape : List Nat) : List Item := shape.map (fun _ => Item.slice pySliceNone)

/-- length in bytes of a file that holds exactly the array -/
def Params.flen {σ} (p : Params σ) : Nat := p.off + p.isz * p.shape.prod

/-- `ArrayProxy._get_unscaled(slicer)` (arrayproxy.py:387-410): when the canonical form of the
    slicer (ints unchecked) equals the canonical form of `()` the whole array is read with
    `array_from_file`, otherwise `fileslice` reads the pieces.  Result: shape and, per output
    element enumerated in `order`, the stored element number. -/
def getUnscaled {σ} (h : Heuristic) (p : Params σ) (idx : List IdxItem) : Except Err (List Nat × List Int) :=
  match canonLoop false idx p.shape with
  | .error e => .error e
  | .ok items =>
      if items = allFull p.shape then .ok (p.shape, (List.range p.shape.prod).map Int.ofNat)
      else fileslice h idx p.shape p.isz p.off p.flen p.order

/-- `ArrayProxy._get_scaled(dtype=None, slicer)` = `__getitem__` (arrayproxy.py:412-426, 460):
    the scaling is applied pointwise to what `_get_unscaled` returned. -/
def getScaled {σ ρ β} (f : ρ → σ → σ → β) (raw : Int → ρ) (h : Heuristic) (p : Params σ)
    (idx : List IdxItem) : Except Err (List Nat × List β) :=
  (getUnscaled h p idx).map (fun r => (r.1, r.2.map (fun q => f (raw q) p.slope p.inter)))

/-- `ArrayProxy.__array__()` = `_get_scaled(slicer=())` -/
def proxyArray {σ ρ β} (f : ρ → σ → σ → β) (raw : Int → ρ) (h : Heuristic) (p : Params σ) :
    Except Err (List Nat × List β) := getScaled f raw h p []

/-- number of `-1` entries of the shape argument of `reshape` -/
def nUnknown (shape : List Int) : Nat := (shape.filter (· == -1)).length

/-- the single unknown dimension filled in: `known_size = reduce(mul, shape, -1)`,
    `unknown_size = size // known_size` -/
def resolveShape (size : Nat) (shape : List Int) : List Int :=
  if nUnknown shape = 1 then
    let known : Int := shape.foldl (· * ·) (-1)
    shape.map (fun e => if e == -1 then Int.fdiv (size : Int) known else e)
  else shape

/-- shape argument of `reshape`: `-1` = unknown (arrayproxy.py:465-480) -/
def reshapeShape (size : Nat) (shape : List Int) : Except Err (List Nat) :=
  if nUnknown shape > 1 then .error .value
  else if (resolveShape size shape).foldl (· * ·) 1 = (size : Int) ∧ (resolveShape size shape).all (0 ≤ ·) then
    .ok ((resolveShape size shape).map Int.toNat)
  else .error .value

/-- `ArrayProxy.reshape(shape)` (arrayproxy.py:463-486, after the `fix:` commit "reshape keeps the
    memory order"): same file, dtype, offset, slope, inter AND order; new shape. -/
def reshape {σ} (p : Params σ) (shape : List Int) : Except Err (Params σ) := do
  let s ← reshapeShape p.shape.prod shape
  pure { p with shape := s }

/-- the pinned `reshape`: `order` was not passed on, the new proxy got the class default `dflt` -/
def reshapeOrig {σ} (dflt : Order) (p : Params σ) (shape : List Int) : Except Err (Params σ) := do
  let s ← reshapeShape p.shape.prod shape
  pure { p with shape := s, order := dflt }

/-- `ArrayProxy.copy()` (arrayproxy.py:222-236, after the `fix:` commit "copy keeps the memory
    order"): a new proxy with the same parameters; the pinned code dropped `order` as well. -/
def copy {σ} (p : Params σ) : Params σ := p
def copyOrig {σ} (dflt : Order) (p : Params σ) : Params σ := { p with order := dflt }

/-! ### header → proxy: parameters are copied (`frozen_params`) -/

/-- the header fields a proxy is built from -/
structure Hdr where
  shape : List Nat
  isz   : Nat
  off   : Nat
  slope : Option Int          -- `None` = no scaling recorded
  inter : Option Int
  deriving Repr, DecidableEq

/-- header mutators reachable through the public API after the proxy exists -/
inductive HdrOp where
  | setShape (s : List Nat)
  | setIsz (n : Nat)          -- set_data_dtype
  | setOff (n : Nat)          -- set_data_offset
  | setSlopeInter (s i : Option Int)
  deriving Repr, DecidableEq

def Hdr.apply (h : Hdr) : HdrOp → Hdr
  | .setShape s => { h with shape := s }
  | .setIsz n => { h with isz := n }
  | .setOff n => { h with off := n }
  | .setSlopeInter s i => { h with slope := s, inter := i }

/-- `ArrayProxy.__init__(file_like, header)`: `par = (get_data_shape(), get_data_dtype(),
    get_data_offset(), 1.0 if slope is None else slope, 0.0 if inter is None else inter)` -/
def proxyOfHdr (o : Order) (h : Hdr) : Params Int :=
  ⟨h.shape, h.isz, h.off, o, h.slope.getD 1, h.inter.getD 0⟩

/-- the pair (header object, proxy) as the program sees it: the header is mutable, the proxy holds
    VALUES copied at construction, so a header operation rewrites the first component only -/
structure World where
  hdr   : Hdr
  proxy : Params Int
  deriving Repr, DecidableEq

def World.step (w : World) (op : HdrOp) : World := { w with hdr := w.hdr.apply op }
def World.run (w : World) (ops : List HdrOp) : World := ops.foldl World.step w

/-! ### header OBJECTS and the proxy: a reference plus copies

    Python hands `ArrayProxy.__init__` a REFERENCE to a mutable header object.  `__init__` copies
    shape, dtype (item size), offset, slope, intercept into private attributes (arrayproxy.py:203-216)
    and every read uses those.  The heap below lets the model express the alternative — a proxy that
    keeps the reference and consults the header when it reads (`readParamsAlias`) — so that "reads use
    the copies" is a statement with content (`frozen_reads`, `frozen_alias_counterexample`). -/

instance : Inhabited Hdr := ⟨⟨[], 0, 0, none, none⟩⟩

/-- the proxy object: which header object it was built from, and the values copied at construction -/
structure ProxyObj where
  hdrRef : Nat
  copied : Params Int
  deriving Repr, DecidableEq

/-- all header objects alive (cell number = identity) and the proxy -/
structure Heap where
  hdrs  : List Hdr
  proxy : ProxyObj
  deriving Repr, DecidableEq

/-- `ArrayProxy(file_like, hdrs[ref])` -/
def newProxy (o : Order) (hdrs : List Hdr) (ref : Nat) : Heap :=
  ⟨hdrs, ⟨ref, proxyOfHdr o (hdrs.getD ref default)⟩⟩

/-- a header mutator called on header object `op.1` (any object, incl. the one the proxy was built from) -/
def Heap.step (w : Heap) (op : Nat × HdrOp) : Heap :=
  { w with hdrs := w.hdrs.modify op.1 (fun h => h.apply op.2) }
def Heap.run (w : Heap) (ops : List (Nat × HdrOp)) : Heap := ops.foldl Heap.step w

/-- the parameters a read uses — the code: the private copies -/
def Heap.readParams (w : Heap) : Params Int := w.proxy.copied
/-- the aliasing variant: ask the header object (through the kept reference) at read time -/
def Heap.readParamsAlias (o : Order) (w : Heap) : Params Int := proxyOfHdr o (w.hdrs.getD w.proxy.hdrRef default)

def Heap.read {ρ β} (f : ρ → Int → Int → β) (raw : Int → ρ) (h : Heuristic) (w : Heap) (idx : List IdxItem) :
    Except Err (List Nat × List β) :=
  getScaled f raw h w.readParams idx
def Heap.readAlias {ρ β} (o : Order) (f : ρ → Int → Int → β) (raw : Int → ρ) (h : Heuristic) (w : Heap) (idx : List IdxItem) :
    Except Err (List Nat × List β) :=
  getScaled f raw h (w.readParamsAlias o) idx

/-! ### ECAT: frame assembly -/

/-- split canonical items at the `k`-th real (non-newaxis) item:
    `sliceobj[:ax_inds[k]]`, `sliceobj[ax_inds[k]]`, `sliceobj[ax_inds[k]+1:]` -/
def splitReal : Nat → List Item → Option (List Item × Item × List Item)
  | _, [] => none
  | k, .newaxis :: rest => (splitReal k rest).map (fun r => (Item.newaxis :: r.1, r.2.1, r.2.2))
  | 0, it :: rest => some ([], it, rest)
  | k + 1, it :: rest => (splitReal k rest).map (fun r => (it :: r.1, r.2.1, r.2.2))

def itemIsInt : Item → Bool | .int _ => true | _ => false

/-- `predict_shape` on canonical items (fileslice.py:236-266): 1 per newaxis, nothing per int,
    `slice2len` per slice (a zero step raises `ValueError` inside `fill_slicer`) -/
def predictShape : List Item → List Nat → Except Err (List Nat)
  | [], _ => .ok []
  | .newaxis :: rest, shape => do
      let r ← predictShape rest shape
      pure (1 :: r)
  | _ :: _, [] => .error .index
  | .int _ :: rest, _ :: shape => predictShape rest shape
  | .slice s :: rest, n :: shape =>
      if s.Valid then do
        let r ← predictShape rest shape
        pure (slice2len s n :: r)
      else .error .value

/-- `out_data[(:, …, j, …, :)] = sub` (axis `k`) on the flat F-order buffer of an array of shape
    `outShape`.  `none` = never written (`np.empty`).  NumPy raises `IndexError` for `j` beyond the
    axis; a sub-array of another shape than the target is refused (NumPy would try to broadcast;
    the shapes here always agree — theorem `ecat_frames`). -/
def setAxis {α} (outShape : List Nat) (k j : Nat) (sub : NdArr α) (buf : List (Option α)) :
    Except Err (List (Option α)) :=
  if k ≥ outShape.length then .error .index
  else
    let L := (outShape.take k).prod
    let m := outShape.getD k 0
    if j ≥ m then .error .index
    else if sub.shape ≠ outShape.eraseIdx k then .error .value
    else
      .ok ((List.range buf.length).map (fun p =>
        if (p / L) % m = j then (sub.data[p % L + L * (p / L / m)]?) else buf.getD p none))

/-- NumPy basic indexing `A[sels]` of an F-order array of shape `shape` whose element number `q`
    holds `a q` (same as `NdArr.index`, with the content given as a function) -/
def indexFn {α} (a : Nat → α) (shape : List Nat) (sels : List Sel) : NdArr α :=
  ⟨outShape sels, (gatherF (realSels sels) shape).map a⟩

/-- the content of frame `i` in GLOBAL element numbers of the stacked 4-D array: its element `e`
    (F order over the three spatial axes, after the orientation flips) is element `e + V*i`,
    `V = x*y*z` -/
def frameElem (shape3 : List Nat) (i : Nat) (e : Nat) : Nat := e + shape3.prod * i

/-- number of output axes the items produce (newaxis and slices; ints drop) -/
def nonIntCount (items : List Item) : Nat := (items.filter (fun it => !itemIsInt it)).length

/-- the `for out_i, i in enumerate(range(T)[slice3])` loop (ecat.py:739-742); `pos out_i i` is the
    position written on the frame axis of the output -/
def ecatLoop (sub : Nat → Except Err (NdArr Nat)) (outShape : List Nat) (k : Nat) (pos : Nat → Nat → Nat) :
    Nat → List Nat → List (Option Nat) → Except Err (List (Option Nat))
  | _, [], buf => .ok buf
  | t, i :: rest, buf => do
      let s ← sub i
      let buf' ← setAxis outShape k (pos t i) s buf
      ecatLoop sub outShape k pos (t + 1) rest buf'

/-- `EcatImageArrayProxy.__getitem__` (ecat.py:715-743) for a proxy of shape `shape3 ++ [T]`.
    Result: shape and flat F-order data; `none` = element of `np.empty` never written. -/
def ecatGetitemWith (pos : Nat → Nat → Nat) (shape3 : List Nat) (T : Nat) (idx : List IdxItem) :
    Except Err (List Nat × List (Option Nat)) := do
  let shape4 := shape3 ++ [T]
  let items ← canonicalSlicers idx shape4
  match splitReal shape3.length items with
  | none => .error .value                                   -- assert len(ax_inds) == len(self.shape)
  | some (pre, slice3, post) =>
      let inSlicer := pre ++ post
      let sub : Nat → Except Err (NdArr Nat) := fun i => do   -- data[in_slicer]  (NumPy)
        let sels ← itemsSels inSlicer shape3
        pure (indexFn (frameElem shape3 i) shape3 sels)
      match slice3 with
      | .newaxis => .error .value
      | .int i =>
          if 0 ≤ i ∧ i < T then do                          -- frame_mapping[slice3]
            let a ← sub i.toNat
            pure (a.shape, a.data.map some)
          else .error .index
      | .slice s => do
          let outShape ← predictShape items shape4
          let k := nonIntCount pre                            -- slice2outax(4, sliceobj)[3]
          let buf ← ecatLoop sub outShape k pos 0 (s.sel T) (List.replicate outShape.prod none)
          pure (outShape, buf)

/-- the code after the `fix:` commit: write to the OUTPUT position -/
def ecatGetitem := ecatGetitemWith (fun outI _ => outI)
/-- the pinned code: `out_slicer[in2out_ind] = i` — the SOURCE frame index -/
def ecatGetitemOrig := ecatGetitemWith (fun _ i => i)

/-- `EcatImageArrayProxy.__array__` (ecat.py:688-713): `data[:, :, :, i] = frame i` for every frame -/
def ecatArray (shape3 : List Nat) (T : Nat) : List Nat × List Nat :=
  (shape3 ++ [T], (List.range T).flatMap (fun i => (List.range shape3.prod).map (frameElem shape3 i)))

/-! #### ECAT: frames are located through the matrix list (`get_frame_order`), each with its own scale factor -/

/-- insertion sort (stable), the model of `np.argsort` on distinct keys -/
def insertBy {α} (le : α → α → Bool) (a : α) : List α → List α
  | [] => [a]
  | b :: l => if le a b then a :: b :: l else b :: insertBy le a l

def isort {α} (le : α → α → Bool) : List α → List α
  | [] => []
  | a :: l => insertBy le a (isort le l)

/-- the id column after `ids[ids <= 0] = ids.max() + 1` -/
def effIds (ids : List Int) : List Int :=
  let mx := ids.foldl max (ids.headD 0)
  ids.map (fun v => if v ≤ 0 then mx + 1 else v)

/-- order of (id, row) pairs by id -/
def idLe (a b : Int × Nat) : Bool := decide (a.1 ≤ b.1)

/-- `get_frame_order(mlist)` (ecat.py:396-436) on the id column `mlist[:, 0]`: entry `i` is the matrix-list ROW
    holding frame `i` — rows with a valid id (> 0) in ascending id order (invalid ids are replaced by
    `max + 1`, sort last and are cut off by `n_valid`). -/
def frameOrder (ids : List Int) : List Nat :=
  let nValid := (ids.filter (fun v => decide (0 < v))).length
  ((isort idLe (effIds ids).zipIdx).map (·.2)).take nValid


/-- `EcatImageArrayProxy.__getitem__` (ecat.py:715-743, after the `fix:` commit) with the frame lookup
    `data_from_fileobj(frame_mapping[i][0])` explicit: frame `i` is read from matrix-list row `rowOf i`.
    Elements are numbered BY FILE ROW: element `e` (after the orientation flips) of the volume stored
    in row `r` is `e + V*r`; `data_from_fileobj(r)` multiplies exactly these elements with
    `scale_factor` of sub-header `r`, so the sub-header whose factor an output element carries is
    `(its number) / V`. -/
def ecatGetitemRows (rowOf : Nat → Nat) (shape3 : List Nat) (T : Nat) (idx : List IdxItem) :
    Except Err (List Nat × List (Option Nat)) := do
  let shape4 := shape3 ++ [T]
  let items ← canonicalSlicers idx shape4
  match splitReal shape3.length items with
  | none => .error .value
  | some (pre, slice3, post) =>
      let inSlicer := pre ++ post
      let sub : Nat → Except Err (NdArr Nat) := fun i => do
        let sels ← itemsSels inSlicer shape3
        pure (indexFn (frameElem shape3 (rowOf i)) shape3 sels)
      match slice3 with
      | .newaxis => .error .value
      | .int i =>
          if 0 ≤ i ∧ i < T then do
            let a ← sub i.toNat
            pure (a.shape, a.data.map some)
          else .error .index
      | .slice s => do
          let outShape ← predictShape items shape4
          let k := nonIntCount pre
          let buf ← ecatLoop sub outShape k (fun outI _ => outI) 0 (s.sel T) (List.replicate outShape.prod none)
          pure (outShape, buf)

/-- file element (and, through `/ V`, sub-header row) shown by stacked-array element `q` -/
def rowElem (rowOf : Nat → Nat) (V q : Nat) : Nat := q % V + V * rowOf (q / V)


/-- `EcatImageArrayProxy.__array__` (ecat.py:688-713): `data[:, :, :, i] = data_from_fileobj(frame_mapping[i][0])` -/
def ecatArrayRows (rowOf : Nat → Nat) (shape3 : List Nat) (T : Nat) : List Nat × List Nat :=
  (shape3 ++ [T], (List.range T).flatMap (fun i => (List.range shape3.prod).map (frameElem shape3 (rowOf i))))

/-! ### PAR/REC -/

/-- `indices[0] != 0 or np.any(np.diff(indices) != 1)` is False -/
def isSequential (indices : List Nat) : Bool := indices == List.range indices.length

/-- `rec_data[..., indices].reshape(shape, order='F')` as REC element numbers; `S` = elements per
    slice (`rec_shape[0]*rec_shape[1]`) -/
def parrecWhole (S : Nat) (indices : List Nat) : List Nat :=
  indices.flatMap (fun r => (List.range S).map (· + S * r))

/-- `np.diff(indices)` on a 1-D integer vector -/
def npDiff : List Nat → List Int
  | a :: b :: rest => ((b : Int) - (a : Int)) :: npDiff (b :: rest)
  | _ => []

/-- the test of the `elif` in `_get_unscaled` AS WRITTEN (parrec.py:656):
    `indices[0] != 0 or np.any(np.diff(indices) != 1)`; True = "can't load direct from REC file".
    (`indices[0]` of an empty vector raises in Python; a PAR header always has at least one image
    line and `shape[2] ≥ 1`, so the vector is never empty — the model says "fall back" there.)
    Theorems `parrec_guard_exact` / `parrec_guard_from_source`: this is False exactly for
    `[0, 1, …, K-1]`, `K ≥ 1`, and it is the expression found in the working tree. -/
def parrecFallback (indices : List Nat) : Bool :=
  indices.head? != some 0 || (npDiff indices).any (· != 1)

/-- `PARRECArrayProxy._get_unscaled(slicer)` (parrec.py:649-667); `idx = []` stands for the
    literal `()` (the test is `slicer == ()`).  Output: shape and REC element numbers (F order).
    `indices` is whatever `header.get_sorted_slice_indices()` returned: a permutation of all REC
    slices for a complete recording, a proper SUBSET (possibly ascending with holes) for a
    truncated recording loaded with `permit_truncated=True`. -/
def parrecUnscaled (h : Heuristic) (shape : List Nat) (isz S : Nat) (indices : List Nat)
    (idx : List IdxItem) : Except Err (List Nat × List Int) :=
  let whole := parrecWhole S indices
  if idx = [] then .ok (shape, whole.map Int.ofNat)
  else if parrecFallback indices then do
    let r ← npIndex idx shape .F                              -- self._get_unscaled(())[slicer]
    pure (r.1, r.2.map (fun q => Int.ofNat (whole.getD q 0)))
  else fileslice h idx shape isz 0 (isz * shape.prod) .F

/-! #### NumPy vocabulary of the expression translated from the source (Generated/C03Parrec.lean) -/
namespace Np
/-- `np.diff(v)` -/
def diff : List Int → List Int
  | a :: b :: rest => (b - a) :: diff (b :: rest)
  | _ => []
/-- `v[i]` for a constant integer `i` (negative = from the end); out of range: 0 (Python raises) -/
def item (v : List Int) (i : Int) : Int :=
  if i < 0 then (if i.natAbs ≤ v.length then v.getD (v.length - i.natAbs) 0 else 0) else v.getD i.toNat 0
/-- `np.any(b)` / `np.all(b)` -/
def any (b : List Bool) : Bool := b.any id
def all (b : List Bool) : Bool := b.all id
end Np

/-- slot (sorted slice number) of the slope/intercept that `slopes[slicer]` pairs with each output
    element: `slopes` is the `(1, 1) + shape[2:]` array broadcast to `shape` (parrec.py:677-686) -/
def parrecScaleSlots (shape : List Nat) (S : Nat) (idx : List IdxItem) : Except Err (List Nat × List Nat) := do
  let r ← npIndex idx shape .F
  pure (r.1, r.2.map (· / S))

/-! ### AFNI -/

/-- `AFNIHeader.get_data_scaling` (brikhead.py:397-417): `None` when no factor is non-zero, else a
    vector of ones of length `nvol` in which the NON-ZERO factors are written (a zero factor means
    "not scaled").  Factors are abstract (`σ`); `isZero` and `one` are what NumPy provides. -/
def afniScaling {σ} (isZero : σ → Bool) (one : σ) (nvol : Nat) (facs : Option (List σ)) : Option (List σ) :=
  match facs with
  | none => none
  | some fs =>
      if fs.all isZero then none
      else some ((List.range nvol).map (fun t =>
        match fs[t]? with
        | some v => if isZero v then one else v
        | none => one))

/-- slot (sub-brick number) of the factor that `scaling[slicer]` pairs with each output element:
    the length-`T` vector is broadcast along the LAST axis of `shape` (brikhead.py:257-265) -/
def afniScaleSlots (shape : List Nat) (idx : List IdxItem) : Except Err (List Nat × List Nat) := do
  let r ← npIndex idx shape .F
  pure (r.1, r.2.map (· / (shape.dropLast).prod))

/-- `np.broadcast_arrays(fake_data, self.scaling)[1]` (brikhead.py:258-259) as factor SLOTS in F order:
    NumPy aligns the length-`T` vector with the LAST axis, so the array of shape `(…, T)` consists of
    `T` blocks of `P = ∏ shape[:-1]` elements, block `t` filled with factor `t`. -/
def afniBroadcast (shape : List Nat) : List Nat :=
  (List.range (shape.getLast?.getD 0)).flatMap (fun t => List.replicate (shape.dropLast).prod t)

/-- `scaling[slicer]` (brikhead.py:265): NumPy indexing of the BROADCAST array with the same index as
    the data — per output element the slot of the factor it is multiplied with.  (Theorem
    `afni_scale_alongside`: that is the sub-brick `q / P` the element's source voxel `q` lies in.) -/
def afniScaleSlotsB (shape : List Nat) (idx : List IdxItem) : Except Err (List Nat × List Nat) := do
  let r ← npIndex idx shape .F
  pure (r.1, r.2.map (fun q => (afniBroadcast shape).getD q 0))

/-! ### MINC -/

/-- leading part of canonical items: everything before the `k`-th real item -/
def takeReal : Nat → List Item → List Item
  | _, [] => []
  | k, .newaxis :: rest => Item.newaxis :: takeReal k rest
  | 0, _ :: _ => []
  | k + 1, it :: rest => it :: takeReal k rest

/-- `Minc1File._normalize` (minc1.py:191-210): which entry of `image-max`/`image-min` (C-order
    element number of the `shape[:nscales]` array) is applied to each output element, output
    enumerated in C order.  `i_slicer = sliceobj[:ax_inds[nscales]] + (None,)*#non-int items after`,
    then NumPy broadcasting against the sliced data (same number of axes; trailing axes of the
    sliced scale array have length 1). -/
def mincScaleSlots (nscales : Nat) (shape : List Nat) (idx : List IdxItem) : Except Err (List Nat × List Nat) := do
  let items ← canonicalSlicers idx shape
  let lead := takeReal nscales items
  let trail := items.drop lead.length
  let sShape := shape.take nscales
  -- imax[i_slicer]: NumPy indexing of the C-order scale array by the leading items
  let sels ← itemsSels (orient .C lead) (orient .C sShape)
  let sOut := orient .C (outShape sels)                         -- shape of the sliced scale array
  let sSrc := gatherF (realSels sels) (orient .C sShape)        -- its elements, C order
  -- the sliced data
  let d ← npIndex idx shape .C
  let R := (d.1.drop sOut.length).prod                          -- size of the trailing (broadcast) part
  if d.1.length ≠ sOut.length + nonIntCount trail then .error .value
  else if d.1.take sOut.length ≠ sOut then .error .value        -- broadcasting of unequal non-1 axes
  else pure (d.1, (List.range d.2.length).map (fun k => sSrc.getD (k / R) 0))

end Nb.C03
