/-
  Model/C11_State — object-state model of NIfTI extensions and of the headers that carry them (core Lean only).

  Python source modelled (nibabel/nifti1.py, analyze.py of the working tree):

  * `NiftiExtension.__init__`      (327-351)  — `XCell.ofRaw` / `XCell.ofObj`  (`_raw`, `_object`)
  * `NiftiExtension._sync`         (389-396)  — `XCell.sync`       body GENERATED: `Nb.Gen.C11.State.sync`
  * `NiftiExtension.get_object`    (446-455)  — `XCell.getObject`  body GENERATED: `Nb.Gen.C11.State.getObject`
  * `NiftiExtension.content`       (423-427)  — `XCell.content`    body GENERATED: `Nb.Gen.C11.State.content`
  * `NiftiExtension.get_sizeondisk`(460-464)  — `XCell.size`   (`len(self.content)`: the size is taken AFTER `_sync`)
  * `NiftiExtension.write_to`      (466-495)  — `XCell.sync` then `serializeExt` of (`code`, `_raw`)
  * `_mangle` / `_unmangle` of the extension class — parameters (`Codec`), no law assumed
  * `Nifti1Header.__init__/copy`   (847-857)  — `World.copyHdr`: NEW list, SAME extension objects
  * `Nifti1Header.from_header`     (927-950) + `AnalyzeHeader.from_header` (analyze.py 356-409) — `World.fromHeader`:
        own class → `copy()` (byte order kept), other class → fresh native-order header, `vox_offset` carried through
        `as_analyze_map`, `check_fix` refuses an offset below `single_vox_offset` for a single-file class (`chkOffset`),
        extensions carried iff the conversion table (`Nb.Gen.C11.State.carriesExt`, regenerated from the class
        hierarchy) says so
  * `Nifti1Header.as_byteswapped`  (859-867) + `WrapStruct.as_byteswapped` (wrapstruct.py 418-477) — `.byteswap`:
        same byte order → `copy()`; other order → new header of the same class, field values kept, NEW list with the
        SAME extension objects iff the class has the override (`Nb.Gen.C11.State.byteswapCarries`, regenerated)
  * `AnalyzeImage.__init__`        (analyze.py 925-934) — `World.mkImg`: `from_header` + "reset consumable" offset 0
  * `Nifti1Header.write_to`        (880-906)  — `World.saveHdr`: sizes (every extension synced), offset rule, the field
        is MODIFIED when it was unset, block, extender, records
  * `AnalyzeImage.to_file_map`     (analyze.py 991-1062) — `World.saveImg`: remember the offset, `write_to`, seek, data,
        `finally` restore the offset

  A `World` is a heap of extension objects (`XCell`) and a list of headers, each holding a LIST OF REFERENCES into
  the heap: two headers may share extension objects (that is what `copy`/`from_header` do) while their lists are
  independent.  The header's `vox_offset` is kept as the value last ASSIGNED to the field (`req`); every reader
  sees `fmt.offRepr req` exactly as in Model/C11 (`writeSingle`, `writePair`).
-/
import NibabelModel.Model.C11
import NibabelModel.Generated.C11State
namespace Nb.C11

/-- `_mangle` / `_unmangle` of an extension class (runtime object ↔ bytes); nothing is assumed about them -/
structure Codec (Obj : Type) where
  mangle : Obj → List Nat
  unmangle : List Nat → Obj

/-- one `NiftiExtension` object -/
structure XCell (Obj : Type) where
  codec : Codec Obj
  code : Int
  raw : List Nat          -- `_raw`
  obj : Option Obj        -- `_object`

namespace XCell
variable {Obj : Type}

def st (x : XCell Obj) : Nb.Gen.C11.State.ExtState Obj := ⟨x.raw, x.obj⟩
def withSt (x : XCell Obj) (s : Nb.Gen.C11.State.ExtState Obj) : XCell Obj := { x with raw := s._raw, obj := s._object }

def ofRaw (c : Codec Obj) (code : Int) (raw : List Nat) : XCell Obj := ⟨c, code, raw, none⟩
/-- `NiftiExtension(code, object=o)`: `_raw = b''`, `_object = o` -/
def ofObj (c : Codec Obj) (code : Int) (o : Obj) : XCell Obj := ⟨c, code, [], some o⟩

/-- `_sync()` (generated body) -/
def sync (x : XCell Obj) : XCell Obj :=
  x.withSt (Nb.Gen.C11.State.sync x.codec.mangle x.codec.unmangle x.st)

/-- `get_object()` / `get_content()` (generated body): new state and the object returned -/
def getObject (x : XCell Obj) : XCell Obj × Obj :=
  let r := Nb.Gen.C11.State.getObject x.codec.mangle x.codec.unmangle x.st
  (x.withSt r.1, r.2)

/-- `.content` (generated body: `self._sync(); return self._raw`) -/
def content (x : XCell Obj) : XCell Obj × List Nat :=
  let r := Nb.Gen.C11.State.content x.codec.mangle x.codec.unmangle x.st
  (x.withSt r.1, r.2)

/-- `get_sizeondisk()`: the generated size expression on `len(self.content)` -/
def size (x : XCell Obj) : XCell Obj × Int :=
  let r := x.content
  (r.1, sizeOnDisk r.2.length)

/-- the caller took `get_content()` and changed the object IN PLACE to `f o` -/
def edit (f : Obj → Obj) (x : XCell Obj) : XCell Obj :=
  let r := x.getObject
  { r.1 with obj := some (f r.2) }

/-- what `write_to` puts into the record once `get_sizeondisk()` has synced: `self.code`, `self._raw` -/
def toExt (x : XCell Obj) : Ext := ⟨x.code, x.raw⟩

/-- `write_to(fileobj, byteswap)`: `rawsize = self.get_sizeondisk()` (syncs), then esize/ecode, `self._raw`, pad -/
def writeTo (e : Endian) (x : XCell Obj) : XCell Obj × Except Err (List Nat) :=
  let r := x.size
  (r.1, serializeExt e r.1.toExt)

/-! the value an extension SHOWS (abstract view; `_raw` is only a cache when there is an object) -/

/-- the bytes `.content` would return now -/
def shown (x : XCell Obj) : List Nat :=
  match x.obj with
  | some o => x.codec.mangle o
  | none => x.raw

/-- the object `get_content()` would return now -/
def toObj (x : XCell Obj) : Obj :=
  match x.obj with
  | some o => o
  | none => x.codec.unmangle x.raw

def shownExt (x : XCell Obj) : Ext := ⟨x.code, x.shown⟩

end XCell

/-- a header: class (format, single/pair), byte order, value last assigned to `vox_offset`, references to its
    extension objects, and whether it is the header of an image (`img.header`) -/
structure XHdr where
  cls : String            -- name of the header class (row of `Nb.Gen.C11.State.headerClasses`)
  fmt : Fmt
  single : Bool
  endian : Endian
  req : Nat
  refs : List Nat
  isImg : Bool
  deriving Repr, DecidableEq

structure World (Obj : Type) where
  heap : List (XCell Obj)
  hdrs : List XHdr

/-- outcome of an image save: what was written and what loading it gives -/
inductive Saved where
  | single (f : HFile) (l : Except Err Loaded)
  | pair (p : PairFiles) (l : Except Err Loaded)

inductive XObs (Obj : Type) where
  | done
  | bad                                             -- ill-formed operation (index out of range …)
  | obj (o : Obj)
  | bytes (b : List Nat)
  | int (n : Int)
  | err (e : Err)
  | hdrSaved (off : Nat) (after : List Nat)         -- `header.write_to`: field value, bytes after the block
  | imgSaved (s : Saved)

inductive XOp (Obj : Type) where
  | newRaw (h pos : Nat) (c : Codec Obj) (code : Int) (raw : List Nat)   -- `hdr.extensions.insert(pos, Ext(code, raw))`
  | newObj (h pos : Nat) (c : Codec Obj) (code : Int) (o : Obj)          -- `… Ext(code, object=o)`
  | getObj (h i : Nat)                                                   -- `hdr.extensions[i].get_content()`
  | edit (h i : Nat) (f : Obj → Obj)                                     -- … and change it in place
  | content (h i : Nat)
  | size (h i : Nat)
  | total (h : Nat)                                                      -- `hdr.extensions.get_sizeondisk()`
  | del (h i : Nat)
  | share (h i h2 pos : Nat)                                             -- `hdr2.extensions.insert(pos, hdr.extensions[i])`
  | copy (h : Nat)
  | byteswap (h : Nat) (target : Option Endian)                          -- `hdr.as_byteswapped(None | '<' | '>')`
  | fromHeader (h : Nat) (cls : String) (fmt : Fmt) (single : Bool)
  | mkImg (h : Nat) (cls : String) (fmt : Fmt) (single : Bool)
  | setOff (h : Nat) (off : Nat)
  | saveHdr (h : Nat)
  | saveImg (h : Nat) (data : List Nat)

namespace World
variable {Obj : Type}

def cellAt (w : World Obj) (h i : Nat) : Option (Nat × XCell Obj) :=
  match w.hdrs[h]? with
  | none => none
  | some hd =>
    match hd.refs[i]? with
    | none => none
    | some r => (w.heap[r]?).map fun c => (r, c)

def setCell (w : World Obj) (r : Nat) (c : XCell Obj) : World Obj := { w with heap := w.heap.set r c }

def setHdr (w : World Obj) (h : Nat) (hd : XHdr) : World Obj := { w with hdrs := w.hdrs.set h hd }

/-- every extension object referenced from `refs` is synced (order and repetitions do not matter: `_sync` touches
    only its own object and is idempotent) -/
def syncRefs (w : World Obj) (refs : List Nat) : World Obj :=
  { w with heap := w.heap.mapIdx fun i c => if i ∈ refs then c.sync else c }

/-- the records `Nifti1Extensions.write_to` would emit for `refs` from the `_raw` of each object -/
def rawExts (w : World Obj) (refs : List Nat) : List Ext := refs.filterMap fun r => (w.heap[r]?).map XCell.toExt

/-- (code, content SHOWN now) of the extensions of a reference list -/
def shownExts (w : World Obj) (refs : List Nat) : List Ext := refs.filterMap fun r => (w.heap[r]?).map XCell.shownExt

/-- insert a new object into the heap and a reference to it at `pos` of header `h` -/
def addCell (w : World Obj) (h pos : Nat) (c : XCell Obj) : World Obj × XObs Obj :=
  match w.hdrs[h]? with
  | none => (w, .bad)
  | some hd =>
    if pos > hd.refs.length then (w, .bad)
    else ({ heap := w.heap ++ [c], hdrs := w.hdrs.set h { hd with refs := hd.refs.insertIdx pos w.heap.length } }, .done)

/-- `klass.from_header(hdr)` (check=True); `cls`/`fmt`/`single` describe `klass` -/
def convert (machine : Endian) (hd : XHdr) (cls : String) (fmt : Fmt) (single : Bool) : Except Err XHdr :=
  let stored := hd.fmt.offRepr hd.req
  let same := hd.cls = cls
  -- `check_fix`: `_chk_offset` at level 40 raises; the value tested is the one the NEW header's field holds
  match chkOffset single fmt (if same then stored else fmt.offRepr stored) with
  | .error e => .error e
  | .ok _ =>
    let carries := Nb.Gen.C11.State.carriesExt.contains (hd.cls, cls)
    .ok { cls := cls, fmt := fmt, single := single, endian := if same then hd.endian else machine,
          req := if same then hd.req else stored, refs := if carries then hd.refs else [], isImg := false }

/-- `Nifti1Header.write_to` on the CURRENT state of the extension objects; returns the new world (objects synced,
    `vox_offset` field filled in when it was unset) -/
def saveHdrCore (w : World Obj) (h : Nat) (hd : XHdr) : World Obj × XObs Obj :=
  let w1 := w.syncRefs hd.refs                       -- `self.extensions.get_sizeondisk()`: every `_sync`
  let exts := w1.rawExts hd.refs
  if hd.single then
    match chooseOffset hd.fmt exts hd.req with
    | .error e => (w1, .err e)
    | .ok off =>
      let w2 := w1.setHdr h { hd with req := off.toNat }   -- the field is assigned before anything is written
      match extBlock true hd.endian exts with
      | .error e => (w2, .err e)
      | .ok blk => (w2, .hdrSaved off.toNat blk)
  else
    match extBlock false hd.endian exts with
    | .error e => (w1, .err e)
    | .ok blk => (w1, .hdrSaved (hd.fmt.offRepr hd.req) blk)

/-- `img.to_file_map()` + load of what was written.  The header's offset is restored in `finally`. -/
def saveImgCore (w : World Obj) (hd : XHdr) (data : List Nat) : World Obj × XObs Obj :=
  let w1 := w.syncRefs hd.refs
  let exts := w1.rawExts hd.refs
  if hd.single then
    match writeSingle hd.fmt hd.endian exts hd.req data with
    | .error e => (w1, .err e)
    | .ok f => (w1, .imgSaved (.single f (readSingle hd.fmt hd.endian f data.length)))
  else
    match writePair hd.fmt hd.endian exts hd.req data with
    | .error e => (w1, .err e)
    | .ok p => (w1, .imgSaved (.pair p (readPair hd.fmt hd.endian p data.length)))

def _root_.Nb.C11.Endian.flip : Endian → Endian
  | .le => .be
  | .be => .le

/-- byte order `hdr.as_byteswapped(target)` produces: the one asked for, or (None) the swapped order when the header
    is native and the native order otherwise -/
def swapTarget (machine : Endian) (cur : Endian) : Option Endian → Endian
  | some e => e
  | none => if cur = machine then machine.flip else machine

/-- one operation; `machine` = byte order of the host (a header converted to ANOTHER class is native) -/
def step (machine : Endian) (w : World Obj) : XOp Obj → World Obj × XObs Obj
  | .newRaw h pos c code raw => w.addCell h pos (XCell.ofRaw c code raw)
  | .newObj h pos c code o => w.addCell h pos (XCell.ofObj c code o)
  | .getObj h i =>
    match w.cellAt h i with
    | none => (w, .bad)
    | some (r, c) => (w.setCell r c.getObject.1, .obj c.getObject.2)
  | .edit h i f =>
    match w.cellAt h i with
    | none => (w, .bad)
    | some (r, c) => (w.setCell r (c.edit f), .done)
  | .content h i =>
    match w.cellAt h i with
    | none => (w, .bad)
    | some (r, c) => (w.setCell r c.content.1, .bytes c.content.2)
  | .size h i =>
    match w.cellAt h i with
    | none => (w, .bad)
    | some (r, c) => (w.setCell r c.size.1, .int c.size.2)
  | .total h =>
    match w.hdrs[h]? with
    | none => (w, .bad)
    | some hd => let w1 := w.syncRefs hd.refs; (w1, .int (totalSize (w1.rawExts hd.refs)))
  | .del h i =>
    match w.hdrs[h]? with
    | none => (w, .bad)
    | some hd => if i < hd.refs.length then (w.setHdr h { hd with refs := hd.refs.eraseIdx i }, .done) else (w, .bad)
  | .share h i h2 pos =>
    match w.cellAt h i, w.hdrs[h2]? with
    | some (r, _), some hd2 =>
      if pos > hd2.refs.length then (w, .bad)
      else (w.setHdr h2 { hd2 with refs := hd2.refs.insertIdx pos r }, .done)
    | _, _ => (w, .bad)
  | .copy h =>
    match w.hdrs[h]? with
    | none => (w, .bad)
    | some hd => ({ w with hdrs := w.hdrs ++ [{ hd with isImg := false }] }, .done)
  | .byteswap h target =>
    match w.hdrs[h]? with
    | none => (w, .bad)
    | some hd =>
      let tgt := swapTarget machine hd.endian target
      -- same order: `return self.copy()`; other order: the override re-attaches the extensions (generated table)
      let carries := tgt = hd.endian ∨ Nb.Gen.C11.State.byteswapCarries.contains hd.cls = true
      ({ w with hdrs := w.hdrs ++ [{ hd with endian := tgt, refs := if carries then hd.refs else [], isImg := false }] },
       .done)
  | .fromHeader h cls fmt single =>
    match w.hdrs[h]? with
    | none => (w, .bad)
    | some hd =>
      match convert machine hd cls fmt single with
      | .error e => (w, .err e)
      | .ok n => ({ w with hdrs := w.hdrs ++ [n] }, .done)
  | .mkImg h cls fmt single =>
    match w.hdrs[h]? with
    | none => (w, .bad)
    | some hd =>
      match convert machine hd cls fmt single with
      | .error e => (w, .err e)
      | .ok n => ({ w with hdrs := w.hdrs ++ [{ n with req := 0, isImg := true }] }, .done)
  | .setOff h off =>
    match w.hdrs[h]? with
    | none => (w, .bad)
    | some hd => (w.setHdr h { hd with req := off }, .done)
  | .saveHdr h =>
    match w.hdrs[h]? with
    | none => (w, .bad)
    | some hd => w.saveHdrCore h hd
  | .saveImg h data =>
    match w.hdrs[h]? with
    | none => (w, .bad)
    | some hd => if hd.isImg ∧ ¬ data.isEmpty then w.saveImgCore hd data else (w, .bad)

/-- a whole history: the observations in order -/
def run (machine : Endian) : World Obj → List (XOp Obj) → World Obj × List (XObs Obj)
  | w, [] => (w, [])
  | w, op :: ops =>
    let r := w.step machine op
    let rs := run machine r.1 ops
    (rs.1, r.2 :: rs.2)

end World
end Nb.C11
