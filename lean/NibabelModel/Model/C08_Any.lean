import NibabelModel.Model.C08
/-! Model/C08_Any — the tractogram readers with the file access abstracted to a request function
    (core Lean only), the `buffer_size` arithmetic of `TckFile._read`, and the decision which loader
    refuses which short header.

    * `tckChunkLoopG` / `tckReadBG`: `TckFile._read` (`streamlines/tck.py:425-473`) over a request function
      `rd pos n` (`seek(pos)` … `readinto(n)`), under `ShortReadsOf`: EVERY request may deliver fewer bytes
      than are available (an unbuffered / raw stream, a decompressor handing out what it has, a pipe) or
      raise.  `_read` takes `n_read != buffer_size` for end of file.
    * `trkLoopG` / `trkReadGenG`: `TrkFile._read` (`streamlines/trk.py:691-733`) under `ReadsOf` (every
      request delivers exactly the available part or raises).
    * `tckBufferSize`: `tck.py:425-427`.
    * `hdrRefuses`: `wrapstruct.py:159-161` + `filebasedimages.py` sniff, as a decision on the length. -/
namespace Nb.C08

/-- every request independently delivers SOME prefix of what is available at `pos` — at most `n` bytes,
    possibly fewer than available, possibly none — or raises -/
def ShortReadsOf (bytes : Bytes) (rd : Nat → Nat → Except Err Bytes) : Prop :=
  ∀ pos n, (∃ j, j ≤ n ∧ rd pos n = .ok ((bytes.drop pos).take j)) ∨ ∃ e, rd pos n = .error e

/-- `tckChunkLoop` with the file access abstracted (`tck.py:436-466`) -/
def tckChunkLoopG (rd : Nat → Nat → Except Err Bytes) (B : Nat) : Nat → Nat → List Bytes → List (List Bytes) →
    Except Err (List (List Bytes))
  | 0, _, _, _ => .error .bad
  | fuel + 1, pos, left, done =>
    match rd pos B with
    | .error e => .error e
    | .ok b =>
      if b.length % 4 ≠ 0 then .error .trunc                   -- np.frombuffer: not a multiple of 4
      else if (b.length / 4) % 3 ≠ 0 then .error .trunc        -- reshape((-1, 3))
      else
        let r := tckSplit (triples (b.length / 12) b) left.reverse done.reverse
        if b.length ≠ B then tckFinish r                       -- eof = n_read != buffer_size
        else tckChunkLoopG rd B fuel (pos + B) r.2 r.1

/-- `TckFile._read_header` + `_read` over a request function.  The magic is one request; the header lines
    are fetched by line iteration (`for line in f`: `readline` loops until `\n` or EOF whatever the chunking),
    so the scan runs over the available bytes, and `hdrErr` lets the file object raise during it. -/
def tckReadBG (B : Nat) (bytes : Bytes) (rd : Nat → Nat → Except Err Bytes) (hdrErr : Option Err) :
    Except Err (List (List Bytes)) :=
  match rd 0 13 with
  | .error e => .error e
  | .ok m =>
    if m ≠ tckMagic then .error .bad
    else match hdrErr with
      | some e => .error e
      | none =>
        match tckScan (bytes.length + 1) (bytes.drop 14) none with
        | .error e => .error e
        | .ok none => .error .bad
        | .ok (some off) => tckChunkLoopG rd B (bytes.length + 2) off [] []

/-- a request function given by a schedule for the successive `readinto` calls of the data loop (the
    `i`-th call is the one at `off + i * B`): `none` = raise, `some c` = deliver at most `c` bytes;
    calls beyond the schedule and everything before `off` (the header) are served in full. -/
def schedRd (bytes : Bytes) (off B : Nat) (sched : List (Option Nat)) : Nat → Nat → Except Err Bytes :=
  fun pos n =>
    if pos < off ∨ B = 0 then .ok ((bytes.drop pos).take n)
    else match sched[(pos - off) / B]? with
      | some none => .error .trunc
      | some (some c) => .ok ((bytes.drop pos).take (min n c))
      | none => .ok ((bytes.drop pos).take n)

/-! ### `buffer_size` of `TckFile._read` (`tck.py:425-427`)

    `buffer_size = int(buffer_size * MEGABYTE); buffer_size += coordinate_size - (buffer_size % coordinate_size)`.
    `regen()` translates the second statement from the AST (`Gen.tckBufAdjust`) and takes the default argument,
    `MEGABYTE` and `3 * itemsize` from the working tree. -/
def tckBufferSize (n c : Nat) : Nat := n + (c - n % c)

/-! ### TRK over a request function -/

def trkLoopG (rdf : Nat → Nat → Except Err Bytes) (rd : Bytes → Nat) (psz prsz cnt : Nat) (check : Bool) :
    Nat → Nat → Nat → List (Bytes × Bytes) → Except Err (List (Bytes × Bytes))
  | 0, _, _, _ => .error .bad
  | fuel + 1, pos, count, acc =>
    let finish : Except Err (List (Bytes × Bytes)) :=
      if check ∧ count < cnt then .error .trunc else .ok acc.reverse
    if cnt ≠ 0 ∧ cnt ≤ count then finish
    else match rdf pos 4 with
      | .error e => .error e
      | .ok h =>
        if h.length = 0 then finish
        else if h.length < 4 then .error .trunc
        else
          let npts := rd h
          if 2 ^ 31 ≤ npts then .error .bad
          else match rdf (pos + 4) (npts * psz) with
            | .error e => .error e
            | .ok p =>
              if p.length < npts * psz then .error .trunc
              else match rdf (pos + 4 + npts * psz) prsz with
                | .error e => .error e
                | .ok q =>
                  if q.length < prsz then .error .trunc
                  else trkLoopG rdf rd psz prsz cnt check fuel (pos + 4 + npts * psz + prsz) (count + 1)
                         ((p, q) :: acc)

def trkReadGenG (check : Bool) (bytes : Bytes) (rdf : Nat → Nat → Except Err Bytes) :
    Except Err (List (Bytes × Bytes)) :=
  match rdf 0 trkHdrSize with
  | .error e => .error e
  | .ok hb =>
    let le := rdLE hb trkOffHdrSize 4 = trkHdrSize
    let be := rdBE hb trkOffHdrSize 4 = trkHdrSize
    if ¬ le ∧ ¬ be then .error .bad
    else
      let f : Nat → Nat → Nat := fun off w => if le then rdLE hb off w else rdBE hb off w
      let version := f trkOffVersion 4
      if version ≠ 1 ∧ version ≠ 2 ∧ version ≠ 3 then .error .bad
      else
        let nsc := f trkOffNsc 2
        let npr := f trkOffNpr 2
        let cnt := f trkOffCount 4
        if 2 ^ 15 ≤ nsc ∨ 2 ^ 15 ≤ npr ∨ 2 ^ 31 ≤ cnt then .error .bad
        else
          let rd : Bytes → Nat := fun h => if le then rdLE h 0 4 else rdBE h 0 4
          trkLoopG rdf rd ((3 + nsc) * 4) (npr * 4) cnt check (bytes.length + 1) hb.length 0 []

/-! ### which loader refuses which short header

    `nib.load` sniffs (`_sniff_meta_for`: `max(sniffLen, 1024)` bytes; fewer than `sniffLen` ⇒ class not
    recognised), `Class.from_filename` / `Class.load` do not (`sniffLen := 0`); both then require the
    complete binary block (`WrapStruct.__init__`: 'Binary block is wrong size'). -/

/-- the class loader's view of a format: no sniff -/
def VolFmt.noSniff (fmt : VolFmt) : VolFmt := { fmt with sniffLen := 0 }

/-- the decision on a plain header file of `len` bytes: refused by the size checks alone -/
def hdrRefuses (fmt : VolFmt) (len : Nat) : Bool := decide (len < fmt.hdrSize) || decide (len < fmt.sniffLen)

end Nb.C08
