/-
  Model/C12 — executable model of the file-name logic behind "all serialisation routes and accepted
  file names are equivalent" (core Lean only).

  Strings are lists of character codes (`Str = List Nat`; the driver feeds the UTF-8 bytes of the
  POSIX-normalised path).  Case folding is ASCII (`A..Z` <-> `a..z`), which is what Python's
  `str.lower()/upper()` do on ASCII names; names with non-ASCII *letters that have case mappings onto
  ASCII letters* (e.g. KELVIN SIGN) are outside the model (recorded in ASSUMPTIONS).

  Python source modelled (tree after the `fix:` commit be3c8502 for C12):
    nibabel/filename_parser.py  types_filenames 45-169, parse_filename 172-243, _endswith/_iendswith
                                246-251, splitext_addext 254-309
    posixpath.splitext (CPython genericpath._splitext) — used by parse_filename, Opener, MGHImage
    nibabel/filebasedimages.py  filespec_to_file_map 252-285, to_filename 287-304, path_maybe_image
                                424-476 (extension test), SerializableImage 479-610
    nibabel/freesurfer/mghformat.py  MGHImage.filespec_to_file_map 484-490
    nibabel/openers.py          Opener.__init__ (file-like => no codec) 151-178,
                                _get_opener_argnames 180-191
    nibabel/loadsave.py         load 85-121 (class loop), save 143-203 (target class)
  `_stringify_path` (pathlib normalisation) is NOT modelled: every function here takes the string
  that `_stringify_path` returned.
-/
namespace Nb.C12

abbrev Str := List Nat

def DOT : Nat := 46
def SEP : Nat := 47

/-! ### ASCII case folding -/
def lowerC (c : Nat) : Nat := if 65 ≤ c ∧ c ≤ 90 then c + 32 else c
def upperC (c : Nat) : Nat := if 97 ≤ c ∧ c ≤ 122 then c - 32 else c
def lower (s : Str) : Str := s.map lowerC
def upper (s : Str) : Str := s.map upperC

/-! ### `_endswith`, `_iendswith`, Python negative slicing -/
/-- `whole.endswith(e)` -/
def endsWith (whole e : Str) : Bool := e.isSuffixOf whole
/-- `_iendswith(whole, e)` = `whole.lower().endswith(e.lower())` (filename_parser.py:250-251) -/
def iendsWith (whole e : Str) : Bool := (lower e).isSuffixOf (lower whole)
def endsFn (matchCase : Bool) : Str → Str → Bool := if matchCase then endsWith else iendsWith

/-- `(s[:-n], s[-n:])` with Python semantics, including `n = 0` (`s[:-0] = ''`, `s[-0:] = s`) and
    `n > len s`. -/
def cutEnd (s : Str) (n : Nat) : Str × Str :=
  if n = 0 then ([], s) else (s.take (s.length - n), s.drop (s.length - n))

/-! ### `os.path.splitext` (posixpath) -/
/-- split at the LAST occurrence of `c`: `some (s[:i], s[i:])` with `i = s.rfind(c)`, `none` if absent -/
def splitLast (c : Nat) : Str → Option (Str × Str)
  | [] => none
  | x :: xs =>
    match splitLast c xs with
    | some (a, b) => some (x :: a, b)
    | none => if x = c then some ([], x :: xs) else none

/-- the characters after the last `/` (in reverse order — only used through `any`) -/
def baseRev (a : Str) : Str := a.reverse.takeWhile (· ≠ SEP)

/-- `posixpath.splitext(p)`: split at the last dot provided it lies after the last `/` and the
    basename has a character other than `.` before it (leading dots are not an extension). -/
def splitext (p : Str) : Str × Str :=
  match splitLast DOT p with
  | none => (p, [])
  | some (a, b) =>
    if b.contains SEP then (p, [])
    else if (baseRev a).any (· ≠ DOT) then (a, b) else (p, [])

/-! ### `splitext_addext` (filename_parser.py:254-309) -/
def splitextAddext (fn : Str) (addexts : List Str) (matchCase : Bool := false) : Str × Str × Str :=
  let r : Str × Str := match addexts.find? (endsFn matchCase fn) with
    | some e => cutEnd fn e.length
    | none => (fn, [])
  match splitLast DOT r.1 with
  | none => (r.1, [], r.2)
  | some (a, b) => if r.1.all (· = DOT) then (r.1, [], r.2) else (a, b, r.2)

/-! ### `parse_filename` (filename_parser.py:172-243) -/
abbrev TypesExts := List (Str × Option Str)

structure Parsed where
  root : Str
  ext : Str
  ignored : Option Str
  guessed : Option Str
  deriving Repr, DecidableEq

/-- the `type_ext and endswith(filename, type_ext)` test of the second loop -/
def typeMatches (ends : Str → Str → Bool) (fn : Str) (t : Str × Option Str) : Bool :=
  match t.2 with
  | some e => !e.isEmpty && ends fn e
  | none => false

def parseFilename (fn : Str) (T : TypesExts) (S : List Str) (matchCase : Bool := false) : Parsed :=
  let ends := endsFn matchCase
  let r : Str × Option Str := match S.find? (ends fn) with
    | some e => let c := cutEnd fn e.length; (c.1, some c.2)
    | none => (fn, none)
  match T.find? (typeMatches ends r.1) with
  | some (name, oe) =>
      let c := cutEnd r.1 (oe.getD []).length
      ⟨c.1, c.2, r.2, some name⟩
  | none =>
      let c := splitext r.1
      ⟨c.1, c.2, r.2, none⟩

/-! ### `types_filenames` (filename_parser.py:45-169) -/
inductive Err where
  | typesFilenames   -- TypesFilenamesError (=> ImageFileError in filespec_to_file_map)
  | notImplemented   -- NotImplementedError of `_filemap_from_iobase` for multi-file classes
  | imageFile        -- ImageFileError of load()/save()
  deriving Repr, DecidableEq

/-- `template_fname.removesuffix('.')` -/
def removeSuffixDot (s : Str) : Str :=
  if s.getLast? = some DOT then s.dropLast else s

def truthy : Option Str → Bool
  | some s => !s.isEmpty
  | none => false

/-- the case rule applied to SIBLING extensions (lines 148-156): all upper => upper, all lower =>
    lower, otherwise (and for an empty found extension) unchanged -/
def procExt (found e : Str) : Str :=
  if found.isEmpty then e
  else if found = upper found then upper e
  else if found = lower found then lower e
  else e

abbrev FileMap := List (Str × Str)

/-- one iteration of the final loop; `namedKeepsExt = true` is the repaired code (the member that was
    named keeps `found_ext` exactly), `false` the pinned original (`if ext: fname += proc_ext(ext)`) -/
def memberName (namedKeepsExt : Bool) (tmpl : Str) (p : Parsed) (direct : Option Str)
    (t : Str × Option Str) : Str × Str :=
  if some t.1 = direct then (t.1, tmpl)
  else
    let e : Str :=
      if namedKeepsExt && decide (some t.1 = p.guessed) then p.ext
      else match t.2 with
        | some e => if e.isEmpty then [] else procExt p.ext e
        | none => []
    (t.1, p.root ++ e ++ (if truthy p.ignored then p.ignored.getD [] else []))

def typesFilenamesGen (namedKeepsExt : Bool) (tmpl0 : Str) (T : TypesExts) (S : List Str)
    (enforce : Bool := true) (matchCase : Bool := false) : Except Err FileMap :=
  let tmpl := removeSuffixDot tmpl0
  let p := parseFilename tmpl T S matchCase
  if enforce && p.guessed.isNone && !p.ext.isEmpty then .error .typesFilenames
  else if enforce && p.guessed.isNone && truthy p.ignored then .error .typesFilenames
  else
    let direct : Option Str :=
      if !enforce && (!p.ext.isEmpty || truthy p.ignored) then T.head?.map (·.1) else none
    .ok (T.map (memberName namedKeepsExt tmpl p direct))

/-- `types_filenames` as it is now -/
def typesFilenames (tmpl : Str) (T : TypesExts) (S : List Str) (enforce : Bool := true)
    (matchCase : Bool := false) : Except Err FileMap :=
  typesFilenamesGen true tmpl T S enforce matchCase

/-- `types_filenames` of the pinned tree (before the fix: the named member's extension went through
    the sibling case rule as well) -/
def typesFilenamesOrig (tmpl : Str) (T : TypesExts) (S : List Str) (enforce : Bool := true)
    (matchCase : Bool := false) : Except Err FileMap :=
  typesFilenamesGen false tmpl T S enforce matchCase

/-! ### class table rows (instances are REGENERATED into Generated/C12FileTypes.lean) -/
structure ClassRow where
  name : Str                 -- class `__name__`
  filesTypes : TypesExts     -- `files_types`
  validExts : List Str       -- `valid_exts`
  suffixes : List Str        -- `_compressed_suffixes`
  makeable : Bool
  rw : Bool
  sniffs : Bool              -- `hasattr(header_class, 'may_contain_header')`
  fmKind : Nat               -- filespec_to_file_map: 0 = FileBasedImage's, 1 = MGHImage's `.mgz`
                             --   override, 2 = other override (AFNI; depends on the file system — not modelled)
  serial : Bool              -- subclass of SerializableImage
  deriving Repr, DecidableEq

def mgzExt : Str := [46, 109, 103, 122]   -- ".mgz"

/-- `klass.filespec_to_file_map(filespec)`; `none` for classes whose override is not modelled -/
def filespecToFileMap (r : ClassRow) (fn : Str) : Option (Except Err FileMap) :=
  if r.fmKind = 0 then some (typesFilenames fn r.filesTypes r.suffixes)
  else if r.fmKind = 1 then
    -- mghformat.py:484-490
    if lower (splitext fn).2 = mgzExt then some (.ok [((r.filesTypes.head?.map (·.1)).getD [], fn)])
    else some (typesFilenames fn r.filesTypes r.suffixes)
  else none

/-! ### Opener codec choice (openers.py:180-191) -/
/-- codec ids: 0 = plain `open`, 1 = gzip, 2 = bz2, 3 = zstd.  `keys` = `compress_ext_map` without the
    `None` entry, in dict order.  `codecOfExt`: the case-insensitive loop (openers.py:183-188) -/
def codecOfExt (keys : List (Str × Nat)) (x : Str) : Nat :=
  match keys.find? (fun k => lower k.1 == lower x) with
  | some k => k.2
  | none => 0

def openerCodec (keys : List (Str × Nat)) (icase : Bool) (fn : Str) : Nat :=
  let ext := (splitext fn).2
  if icase then codecOfExt keys ext
  else
    match keys.find? (fun k => k.1 == ext) with
    | some k => k.2
    | none => 0

/-! ### `path_maybe_image` extension test and the `load()` class loop -/
def extOK (r : ClassRow) (fn : Str) : Bool :=
  r.validExts.contains (lower (splitextAddext fn r.suffixes).2.1)

/-- `load(filename)`: first class of `all_image_classes` whose extension test passes and whose header
    sniff (external: `sniffOK className` = `header_class.may_contain_header(bytes of the header
    file)`) accepts; `none` = ImageFileError -/
def loadClass (table : List ClassRow) (sniffOK : Str → Bool) (fn : Str) : Option Str :=
  (table.find? fun r => extOK r fn && (!r.sniffs || sniffOK r.name)).map (·.name)

/-- the file `_sniff_meta_for` reads for class `r` (filebasedimages.py:405-410):
    `types_filenames(...).get('header', filename)` -/
def sniffFile (headerKey : Str) (r : ClassRow) (fn : Str) : Except Err Str :=
  match typesFilenames fn r.filesTypes r.suffixes with
  | .ok m => .ok ((m.lookup headerKey).getD fn)
  | .error e => .error e

/-! ### `save()` target class (loadsave.py:143-203) -/
def findRow (table : List ClassRow) (name : Str) : Option ClassRow := table.find? (·.name = name)

/-- `pairOf`/`singleOf`: the four special-cased conversions `Nifti{1,2}Image <-> Nifti{1,2}Pair`
    given as (from, to) class names for `.img/.hdr` and for `.nii`. Generic branch: first class in
    the table whose `valid_exts` has the lower-cased extension (assuming its `from_image` succeeds). -/
def saveClass (table : List ClassRow) (saveSfx : List Str) (toPair toSingle : List (Str × Str))
    (imgHdr nii : List Str) (k : ClassRow) (fn : Str) : Except Err Str :=
  match filespecToFileMap k fn with
  | some (.ok _) => .ok k.name
  | _ =>
    let lext := lower (splitextAddext fn saveSfx).2.1
    match (if imgHdr.contains lext then toPair.lookup k.name
           else if nii.contains lext then toSingle.lookup k.name else none) with
    | some c => .ok c
    | none =>
      match table.find? (fun r => r.validExts.contains lext) with
      | some r => .ok r.name
      | none => .error .imageFile

/-! ### serialisation routes (filebasedimages.py:479-610) over an abstract byte-level world -/
abbrev Bytes := List Nat

/-- a file system: association list name ↦ stored bytes (latest write first) -/
abbrev FS := List (Str × Bytes)
def fsWrite (fs : FS) (n : Str) (b : Bytes) : FS := (n, b) :: fs.filter (fun e => e.1 ≠ n)
def fsRead (fs : FS) (n : Str) : Option Bytes := fs.lookup n

/-- external codecs; contract (ASSUMPTION): `decomp c (comp c b) = b` -/
structure Codecs where
  comp : Nat → Bytes → Bytes
  decomp : Nat → Bytes → Bytes

/-- where a FileHolder points: a named file (opened through `ImageOpener`, codec by suffix) or a
    caller-supplied stream (openers.py:152-155: used as is, no codec) -/
inductive Holder where
  | file (n : Str)
  | stream
  deriving Repr, DecidableEq

structure World where
  fs : FS
  stream : Bytes

/-- `_filemap_from_iobase` (filebasedimages.py:537-541) -/
def filemapFromIobase (r : ClassRow) : Except Err (List (Str × Holder)) :=
  if r.filesTypes.length > 1 then .error .notImplemented
  else .ok [((r.filesTypes.head?.map (·.1)).getD [], Holder.stream)]

/-- `to_file_map` of a single-file class: `ser img` written through the holder -/
def writeHolder (cd : Codecs) (keys : List (Str × Nat)) (icase : Bool) (payload : Bytes) (w : World) :
    Holder → World
  | .file n => { w with fs := fsWrite w.fs n (cd.comp (openerCodec keys icase n) payload) }
  | .stream => { w with stream := payload }

def readHolder (cd : Codecs) (keys : List (Str × Nat)) (icase : Bool) (w : World) : Holder → Option Bytes
  | .file n => (fsRead w.fs n).map (cd.decomp (openerCodec keys icase n))
  | .stream => some w.stream

/-- `to_stream(io)` then `io.getvalue()` = `to_bytes()` -/
def toBytes (cd : Codecs) (keys : List (Str × Nat)) (icase : Bool) (r : ClassRow) (payload : Bytes) :
    Except Err Bytes :=
  match filemapFromIobase r with
  | .ok [(_, h)] => .ok (writeHolder cd keys icase payload ⟨[], []⟩ h).stream
  | .ok _ => .error .notImplemented
  | .error e => .error e

/-- `to_filename(name)`: `file_map = filespec_to_file_map(name); to_file_map()` for a single-file class -/
def toFilename (cd : Codecs) (keys : List (Str × Nat)) (icase : Bool) (r : ClassRow) (payload : Bytes)
    (w : World) (fn : Str) : Except Err World :=
  match filespecToFileMap r fn with
  | some (.ok [(_, n)]) => .ok (writeHolder cd keys icase payload w (.file n))
  | some (.error e) => .error e
  | _ => .error .notImplemented

/-- `from_filename(name)` (bytes handed to the format parser) for a single-file class -/
def fromFilename (cd : Codecs) (keys : List (Str × Nat)) (icase : Bool) (r : ClassRow) (w : World)
    (fn : Str) : Option Bytes :=
  match filespecToFileMap r fn with
  | some (.ok [(_, n)]) => readHolder cd keys icase w (.file n)
  | _ => none

/-- `from_bytes(b)` = `from_stream(BytesIO(b))`: the parser sees `b` -/
def fromBytes (r : ClassRow) (b : Bytes) : Except Err Bytes :=
  match filemapFromIobase r with
  | .ok [(_, h)] => match readHolder ⟨fun _ b => b, fun _ b => b⟩ [] true ⟨[], b⟩ h with
      | some x => .ok x
      | none => .error .imageFile
  | .ok _ => .error .notImplemented
  | .error e => .error e

/-! ### the serialiser as a WRITE PROGRAM run on a holder (what makes the routes agree)

  Every `to_file_map` is a sequence of `fileobj.write(bytes)` and `seek_tell(fileobj, offset, write0=True)`
  (volumeutils.py:839-866) on the object `ImageOpener` returned for the holder.  Two kinds of object:
  random access (`BytesIO` of `to_bytes/to_stream`, a plain file opened `'wb'`): `seek` moves the position, a
  later write pads the gap with zeros, overwrites what lies under it; and sequential writers (gzip: a forward
  `seek` writes zeros, a backward one raises; bz2 / zstd: `seek` raises and `seek_tell` writes the zeros
  itself, or raises for a backward move). -/
inductive WOp where
  | write (b : Bytes)
  | seekTo (off : Nat)
  deriving Repr, DecidableEq

def zeros (n : Nat) : Bytes := List.replicate n 0

structure RA where
  buf : Bytes
  pos : Nat
  deriving Repr, DecidableEq

def raWrite (s : RA) (b : Bytes) : RA :=
  if b.isEmpty then s
  else ⟨s.buf.take s.pos ++ zeros (s.pos - s.buf.length) ++ b ++ s.buf.drop (s.pos + b.length), s.pos + b.length⟩

def raStep (s : RA) : WOp → RA
  | .write b => raWrite s b
  | .seekTo o => { s with pos := o }

def raFinal (s : RA) (p : List WOp) : RA := p.foldl raStep s
def raRun (p : List WOp) : Bytes := (raFinal ⟨[], 0⟩ p).buf

def seqStep (out : Bytes) : WOp → Option Bytes
  | .write b => some (out ++ b)
  | .seekTo o => if out.length ≤ o then some (out ++ zeros (o - out.length)) else none

def seqFrom (out : Bytes) : List WOp → Option Bytes
  | [] => some out
  | op :: r => match seqStep out op with
    | some o => seqFrom o r
    | none => none
def seqRun (p : List WOp) : Option Bytes := seqFrom [] p

def mono : Nat → List WOp → Bool
  | _, [] => true
  | p, .write b :: r => mono (p + b.length) r
  | p, .seekTo o :: r => decide (p ≤ o) && mono o r


/-- no dangling forward seek: the final position is the end of what was written -/
def complete (p : List WOp) : Bool :=
  let s := raFinal ⟨[], 0⟩ p
  s.pos == s.buf.length

/-- the logical (uncompressed) bytes that end up under a holder opened with codec `c` -/
def holderBytes (c : Nat) (p : List WOp) : Option Bytes := if c = 0 then some (raRun p) else seqRun p

/-- `to_bytes()`: the program on a fresh `BytesIO()`, then `getvalue()` -/
def toBytesP (r : ClassRow) (p : List WOp) : Except Err Bytes :=
  match filemapFromIobase r with
  | .ok [(_, _)] => .ok (raRun p)
  | .ok _ => .error .notImplemented
  | .error e => .error e

/-- `to_filename(name)`: the program on `ImageOpener(name, 'wb')`; a failing seek is an `OSError` -/
def toFilenameP (cd : Codecs) (keys : List (Str × Nat)) (icase : Bool) (r : ClassRow) (p : List WOp)
    (w : World) (fn : Str) : Except Err World :=
  match filespecToFileMap r fn with
  | some (.ok [(_, n)]) =>
      match holderBytes (openerCodec keys icase n) p with
      | some b => .ok { w with fs := fsWrite w.fs n (cd.comp (openerCodec keys icase n) b) }
      | none => .error .imageFile
  | some (.error e) => .error e
  | _ => .error .notImplemented

/-! ### histories over ONE process (several saves / loads / plain `Opener` uses in a row)

  The real code keeps NO process-wide state between calls: `Opener._get_opener_argnames` scans the
  class's `compress_ext_map` on every call, `filespec_to_file_map`/`types_filenames`/`load()` are pure
  functions of the name and of the files that exist.  The model therefore threads ONLY the file system
  through a history; the history stream of the harness runs the same histories in a fresh interpreter
  each (so that module/class-level caches introduced by a change show up as a disagreement). -/

/-- what the model remembers of a file: which image class wrote it (`[]` = not an image) and the codec
    its bytes really are in -/
structure FEnt where
  writer : Str
  codec : Nat
  deriving Repr, DecidableEq

abbrev PFS := List (Str × FEnt)
def pfsPut (fs : PFS) (n : Str) (e : FEnt) : PFS := (n, e) :: fs.filter (fun x => x.1 ≠ n)
def pfsDel (fs : PFS) (n : Str) : PFS := fs.filter (fun x => x.1 ≠ n)

/-- the static environment of a history: the class table, BOTH opener key tables (`Opener.compress_ext_map`
    of the base class and `ImageOpener.compress_ext_map`), `loadsave` constants and the external sniff
    answers (`sniffTab` : writer class ↦ the classes whose `may_contain_header` accepts its header) -/
structure Env where
  table : List ClassRow
  baseKeys : List (Str × Nat)
  imgKeys : List (Str × Nat)
  icase : Bool
  saveSfx : List Str
  toPair : List (Str × Str)
  toSingle : List (Str × Str)
  imgHdr : List Str
  nii : List Str
  headerKey : Str
  optional : List Str          -- members that `from_file_map` tolerates to be missing (SPM `mat`)
  sniffTab : List (Str × List Str)

inductive Op where
  /-- `Opener(fn, 'wb')` (`image = false`) or `ImageOpener(fn, 'wb')` (`true`): write a few bytes to a
      side file, close.  Observable: the codec the bytes on disk are in. -/
  | opener (image : Bool) (fn : Str)
  /-- `nib.save(<image of class cls>, fn)` -/
  | save (cls fn : Str)
  /-- `nib.load(fn)` and reading its data -/
  | load (fn : Str)
  /-- `os.rename(a, b)` -/
  | rename (a b : Str)
  deriving Repr, DecidableEq

inductive LoadRes where
  | cls (name : Str)      -- loaded as this class
  | nofile                -- the name, or a member file the class needs, does not exist
  | err                   -- ImageFileError: no class accepts
  | mismatch              -- a file's bytes are not in the codec its name asks for (reader fails)
  | unmodelled
  deriving Repr, DecidableEq

inductive Obs where
  | codec (c : Nat)
  | saved (cls : Str) (files : List (Str × Nat))     -- (file written, codec), in file-map order
  | saveErr
  | loaded (r : LoadRes)
  | moved (ok : Bool)
  | bad
  deriving Repr, DecidableEq

/-- does the header sniff of class `r` accept, given the files that exist?  (`_sniff_meta_for` reads the
    `header` member's file — or the name itself — through `ImageOpener`; an unreadable file (missing, or
    not in the codec its name asks for) gives `None` ⇒ not accepted) -/
def histSniff (env : Env) (fs : PFS) (r : ClassRow) (f : Str) : Bool :=
  match sniffFile env.headerKey r f with
  | .ok s =>
    match fs.lookup s with
    | some e => decide (e.codec = openerCodec env.imgKeys env.icase s) &&
                ((env.sniffTab.lookup e.writer).getD []).contains r.name
    | none => false
  | .error _ => false

/-- `nib.load(f)` + data read on the file system `fs` (loadsave.py:85-121, filebasedimages.py:405-476) -/
def histLoad (env : Env) (fs : PFS) (f : Str) : LoadRes :=
  if (fs.lookup f).isNone then .nofile
  else
    match env.table.find? (fun r => extOK r f && (!r.sniffs || histSniff env fs r f)) with
    | none => .err
    | some r =>
      match filespecToFileMap r f with
      | some (.ok m) =>
        if m.all (fun kv => env.optional.contains kv.1 || (fs.lookup kv.2).isSome) then
          if m.all (fun kv => match fs.lookup kv.2 with
                              | some e => decide (e.codec = openerCodec env.imgKeys env.icase kv.2)
                              | none => true) then .cls r.name
          else .mismatch
        else .nofile
      | _ => .unmodelled

/-- `nib.save(img_of cls, fn)`: the class that finally writes and the (file, codec) list -/
def histSave (env : Env) (cls fn : Str) : Option (Str × List (Str × Nat)) :=
  match findRow env.table cls with
  | none => none
  | some k =>
    match saveClass env.table env.saveSfx env.toPair env.toSingle env.imgHdr env.nii k fn with
    | .error _ => none
    | .ok wname =>
      match findRow env.table wname with
      | none => none
      | some w =>
        match filespecToFileMap w fn with
        | some (.ok m) => some (wname, m.map fun kv => (kv.2, openerCodec env.imgKeys env.icase kv.2))
        | _ => none

def step (env : Env) (fs : PFS) : Op → PFS × Obs
  | .opener image fn =>
      -- the side file is never named by a save/load step (harness: its own directory): not tracked
      (fs, .codec (openerCodec (if image then env.imgKeys else env.baseKeys) env.icase fn))
  | .save cls fn =>
      match histSave env cls fn with
      | some (w, files) => (files.foldl (fun acc fc => pfsPut acc fc.1 ⟨w, fc.2⟩) fs, .saved w files)
      | none => (fs, .saveErr)
  | .load fn => (fs, .loaded (histLoad env fs fn))
  | .rename a b =>
      match fs.lookup a with
      | some e => (pfsPut (pfsDel fs a) b e, .moved true)
      | none => (fs, .moved false)

/-- run a history from the file system `fs`: final file system and one observation per step -/
def runHist (env : Env) (fs : PFS) : List Op → PFS × List Obs
  | [] => (fs, [])
  | op :: rest =>
    let r := step env fs op
    let t := runHist env r.1 rest
    (t.1, r.2 :: t.2)

def Op.isOpener : Op → Bool
  | .opener _ _ => true
  | _ => false

end Nb.C12
