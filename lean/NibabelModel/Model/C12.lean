/-! Model/C12 — executable model (core Lean only; imports only NibabelModel.Basic.* / other Model files). -/
namespace Nb.C12

end Nb.C12
