/-! Model/C19 — executable model (core Lean only; imports only NibabelModel.Basic.* / other Model files). -/
namespace Nb.C19

end Nb.C19
