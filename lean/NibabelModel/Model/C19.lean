/-
  Model/C19 — executable model of the FreeSurfer surface / morphometry / annotation codecs and of the
  MGH header shape/zoom logic (core Lean only).

  Python source modelled (working tree after the `fix:` commits):
  * nibabel/freesurfer/io.py
      _fread3 20-34 (`rdMagic3`), _read_volume_info 54-76 (`rdVolInfo`), _pack_rgb 79-96 (`packRgb`),
      read_geometry 99-192 triangle branch (`readGeometry`), write_geometry 195-241 (`writeGeometry`),
      read_morph_data 244-271 new-format branch (`readMorph`), write_morph_data 274-315 (`writeMorph`),
      read_annot 318-390 + _read_annot_ctab_new_format 438-488 (`readAnnot`), write_annot 491-566
      (`writeAnnot`; pre-fix variants `writeAnnotOrig`, `writeAnnotLookupOrig`, `writeAnnotUnsignedOrig`),
      _serialize_volume_info 594-619 (`serializeVolInfo`).
  * nibabel/freesurfer/mghformat.py
      MGHHeader.from_fileobj 156-175 + __init__ 104-127 (`readMgh`), _ndims 234-244 (`ndims`),
      get_zooms 246-265 (`getZooms`), set_zooms 267-293 (`setZooms`), get_data_shape 295-302
      (`getDataShape`), set_data_shape 304-316 (`setDataShape`), get_footer_offset 318-334
      (`footerOffset`), writehdr_to/writeftr_to 387-425 + MGHImage.__init__ 478-482, to_file_map
      537-559, _write_data 561-581 (`writeMgh`, `mghSaveLoad`).

  Conventions
  * a byte string is `List Nat` (every element < 256); all multi-byte numbers are big endian;
  * a `>f4` value is its raw 32-bit pattern (`Nat < 2^32`); the float64→float32 cast of the writers and
    the float32→float64 widening of the readers are NumPy's (external; the harness feeds float32-exact
    values so both are the identity on patterns);
  * text: the create stamp and the annotation names are byte strings (UTF-8 encode/decode is CPython's);
    the volume-info text lines are modelled for ASCII text only (`str.strip/split` whitespace on
    non-ASCII code points is not modelled); number ↔ text conversion of the volume-info values
    (`f'{v:.10g}'`, `float()`) is external: the model carries the value TOKENS; the INTEGER tokens of the
    `volume` line (`f'{val[0]}'`, `np.array(tokens, int)`) are modelled: `intRepr` / `intParse`;
  * old-format files (quad surfaces, old morph files, old colour tables) are never written by the
    library and are refused by the model with `Err.unmodelled`; `read_label` has no writer in the
    library (no `write_label`) and is out of scope.
-/
import NibabelModel.Generated.C19
import NibabelModel.Model.C16
namespace Nb.C19
open Nb.Gen.C19

abbrev Bytes := List Nat

/-- exception classes observable at the API -/
inductive Err where
  | short       -- file ended early (np.fromfile returned fewer items → IndexError / ValueError later)
  | value       -- ValueError
  | index       -- IndexError
  | overflow    -- OverflowError
  | os          -- OSError
  | exc         -- bare Exception (read_annot)
  | hdrData     -- HeaderDataError
  | mgh         -- MGHError
  | key         -- KeyError
  | type        -- TypeError (`np.ndarray(buffer=...)` on fewer than 90 header bytes)
  | unmodelled  -- input outside the modelled domain
  deriving DecidableEq, Repr

deriving instance DecidableEq for Except

/-! ## big-endian 32-bit codec -/

def encU32 (u : Nat) : Bytes := [u / 16777216 % 256, u / 65536 % 256, u / 256 % 256, u % 256]
def decU32 (a b c d : Nat) : Nat := a * 16777216 + b * 65536 + c * 256 + d
/-- two's-complement pattern of an integer (`astype('>i4')` wraps) -/
def toU32 (v : Int) : Nat := (v % 4294967296).toNat
def ofU32 (u : Nat) : Int := if u < 2147483648 then (u : Int) else (u : Int) - 4294967296
def encI32 (v : Int) : Bytes := encU32 (toU32 v)
def wrap32 (v : Int) : Int := ofU32 (toU32 v)
def inI32 (v : Int) : Bool := decide (-2147483648 ≤ v) && decide (v < 2147483648)

def encU32s : List Nat → Bytes
  | [] => []
  | x :: xs => encU32 x ++ encU32s xs

def encI32s : List Int → Bytes
  | [] => []
  | x :: xs => encI32 x ++ encI32s xs

def rdU32 : Bytes → Except Err (Nat × Bytes)
  | a :: b :: c :: d :: r => .ok (decU32 a b c d, r)
  | _ => .error .short

def rdI32 (bs : Bytes) : Except Err (Int × Bytes) :=
  match rdU32 bs with
  | .ok (u, r) => .ok (ofU32 u, r)
  | .error e => .error e

def rdU32s : Nat → Bytes → Except Err (List Nat × Bytes)
  | 0, bs => .ok ([], bs)
  | n + 1, bs =>
    match rdU32 bs with
    | .ok (x, r) =>
      match rdU32s n r with
      | .ok (xs, r') => .ok (x :: xs, r')
      | .error e => .error e
    | .error e => .error e

def rdI32s : Nat → Bytes → Except Err (List Int × Bytes)
  | 0, bs => .ok ([], bs)
  | n + 1, bs =>
    match rdI32 bs with
    | .ok (x, r) =>
      match rdI32s n r with
      | .ok (xs, r') => .ok (x :: xs, r')
      | .error e => .error e
    | .error e => .error e

/-- `np.fromfile(fobj, '|S<n>', 1)[0]` raw bytes / `fobj.read(n)` of exactly n bytes -/
def rdBytes (n : Nat) (bs : Bytes) : Except Err (Bytes × Bytes) :=
  if bs.length < n then .error .short else .ok (bs.take n, bs.drop n)

/-- `_fread3`: 3-byte big-endian magic -/
def rdMagic3 : Bytes → Except Err (Nat × Bytes)
  | a :: b :: c :: r => .ok (a * 65536 + b * 256 + c, r)
  | _ => .error .short

/-! ## text lines -/

/-- `fobj.readline()`: up to and including the first `\n` -/
def readLine : Bytes → Bytes × Bytes
  | [] => ([], [])
  | b :: r => if b = 10 then ([10], r) else ((b :: (readLine r).1), (readLine r).2)

/-- `.rstrip(b'\n')` -/
def rstripNl (l : Bytes) : Bytes := (l.reverse.dropWhile (· == 10)).reverse

/-- `str.isspace` on ASCII code points -/
def isWs (b : Nat) : Bool := b == 32 || (decide (9 ≤ b) && decide (b ≤ 13)) || (decide (28 ≤ b) && decide (b ≤ 31))

/-- `str.strip()` (ASCII) -/
def strip (l : Bytes) : Bytes := ((l.dropWhile isWs).reverse.dropWhile isWs).reverse

/-- `str.split()` (ASCII): maximal runs of non-whitespace -/
def wordsGo : Bytes → Bytes → List Bytes
  | cur, [] => if cur = [] then [] else [cur]
  | cur, b :: r =>
    if isWs b then (if cur = [] then wordsGo [] r else cur :: wordsGo [] r)
    else wordsGo (cur ++ [b]) r
def words (l : Bytes) : List Bytes := wordsGo [] l

/-- split at the first occurrence of `c` -/
def splitFirst (c : Nat) : Bytes → Bytes × Option Bytes
  | [] => ([], none)
  | b :: r => if b = c then ([], some r) else (b :: (splitFirst c r).1, (splitFirst c r).2)

/-! ## integer tokens of the volume-info `volume` line (decimal digits: `Nb.C16.decRepr` / `parseDec`) -/

/-- `str(v)` / `f'{v}'` of a Python or NumPy integer, as ASCII codes -/
def intRepr (v : Int) : Bytes :=
  if v < 0 then 45 :: Nb.C16.decRepr v.natAbs else Nb.C16.decRepr v.natAbs

/-- `int(token)` on the tokens `str(int)` produces: an optional `-` and ASCII digits (CPython also accepts
    `+`, `_` and surrounding blanks, which the writer never emits: refused as unmodelled) -/
def intParse (t : Bytes) : Except Err Int :=
  match t with
  | 45 :: r => match Nb.C16.parseDec r with
    | some n => .ok (-(n : Int))
    | none => .error .unmodelled
  | r => match Nb.C16.parseDec r with
    | some n => .ok (n : Int)
    | none => .error .unmodelled

def intsParse : List Bytes → Except Err (List Int)
  | [] => .ok []
  | t :: ts =>
    match intParse t with
    | .error e => .error e
    | .ok v => match intsParse ts with
      | .ok vs => .ok (v :: vs)
      | .error e => .error e

/-! ## geometry (triangle surfaces) -/

def kHead : Bytes := [104, 101, 97, 100]
def kValid : Bytes := [118, 97, 108, 105, 100]
def kFilename : Bytes := [102, 105, 108, 101, 110, 97, 109, 101]
def kVolume : Bytes := [118, 111, 108, 117, 109, 101]
def kVoxelsize : Bytes := [118, 111, 120, 101, 108, 115, 105, 122, 101]
def kXras : Bytes := [120, 114, 97, 115]
def kYras : Bytes := [121, 114, 97, 115]
def kZras : Bytes := [122, 114, 97, 115]
def kCras : Bytes := [99, 114, 97, 115]

/-- volume-info dictionary: `head` ints, two strings, six 3-vectors as value tokens (text) -/
structure VolInfo where
  head : List Int
  valid : Bytes
  filename : Bytes
  volume : List Bytes
  voxelsize : List Bytes
  xras : List Bytes
  yras : List Bytes
  zras : List Bytes
  cras : List Bytes
  deriving DecidableEq, Repr

/-- `f'{key} = {val}\n'` -/
def kvLine (k v : Bytes) : Bytes := k ++ (32 :: 61 :: 32 :: (v ++ [10]))
/-- `f'{key:6s}'` -/
def padKey (k : Bytes) : Bytes := k ++ List.replicate (6 - k.length) 32
/-- `f'{val[0]} {val[1]} {val[2]}'` (IndexError when fewer than three values; extra values ignored) -/
def join3 : List Bytes → Except Err Bytes
  | a :: b :: c :: _ => .ok (a ++ (32 :: (b ++ (32 :: c))))
  | _ => .error .index

/-- `_serialize_volume_info` (io.py:594-619) for a dictionary holding exactly the nine known keys -/
def serializeVolInfo (vi : VolInfo) : Except Err Bytes :=
  match join3 vi.volume, join3 vi.voxelsize, join3 vi.xras, join3 vi.yras, join3 vi.zras, join3 vi.cras with
  | .ok vol, .ok vox, .ok xr, .ok yr, .ok zr, .ok cr =>
    if vi.head.all inI32 then
      .ok (encI32s vi.head ++ (kvLine kValid vi.valid ++ (kvLine kFilename vi.filename ++ (kvLine kVolume vol ++
        (kvLine (padKey kVoxelsize) vox ++ (kvLine (padKey kXras) xr ++ (kvLine (padKey kYras) yr ++
        (kvLine (padKey kZras) zr ++ kvLine (padKey kCras) cr))))))))
    else .error .overflow
  | _, _, _, _, _, _ => .error .index

/-- one `key = value` line of `_read_volume_info`: `pair = line.split('=')`; OSError unless
    `len(pair) == 2` and `pair[0].strip() == key`; returns `pair[1]` -/
def parseKV (key line : Bytes) : Except Err Bytes :=
  match splitFirst 61 line with
  | (k, some v) => if v.contains 61 then .error .os else if strip k = key then .ok v else .error .os
  | (_, none) => .error .os

/-- the head of the footer: `[20]` or `[2, 0, 20]`; anything else (incl. end of file) → warning and
    an empty dictionary (`none`) -/
def rdVolHead (bs : Bytes) : Option (List Int) × Bytes :=
  match rdI32 bs with
  | .ok (h0, r) =>
    if h0 = 20 then (some [20], r)
    else match rdI32 r with
      | .ok (h1, r1) =>
        match rdI32 r1 with
        | .ok (h2, r2) => if h0 = 2 ∧ h1 = 0 ∧ h2 = 20 then (some [2, 0, 20], r2) else (none, r2)
        | .error _ => (none, r1)
      | .error _ => (none, r)
  | .error _ => (none, bs)

/-- `_read_volume_info` (io.py:54-76); `none` = empty dictionary -/
def rdVolInfo (bs : Bytes) : Except Err (Option VolInfo) :=
  match rdVolHead bs with
  | (none, _) => .ok none
  | (some head, r0) =>
    let l1 := readLine r0
    let l2 := readLine l1.2
    let l3 := readLine l2.2
    let l4 := readLine l3.2
    let l5 := readLine l4.2
    let l6 := readLine l5.2
    let l7 := readLine l6.2
    let l8 := readLine l7.2
    match parseKV kValid l1.1, parseKV kFilename l2.1, parseKV kVolume l3.1, parseKV kVoxelsize l4.1,
          parseKV kXras l5.1, parseKV kYras l6.1, parseKV kZras l7.1, parseKV kCras l8.1 with
    | .ok v1, .ok v2, .ok v3, .ok v4, .ok v5, .ok v6, .ok v7, .ok v8 =>
      .ok (some { head := head, valid := strip v1, filename := strip v2, volume := words v3,
                  voxelsize := words v4, xras := words v5, yras := words v6, zras := words v7,
                  cras := words v8 })
    | _, _, _, _, _, _, _, _ => .error .os

/-- what `read_geometry(..., read_metadata, read_stamp=True)` returns -/
structure Geom where
  stamp : Bytes
  nv : Nat
  nf : Nat
  coords : List Nat      -- 3*nv float32 patterns, row major
  faces : List Int       -- 3*nf
  vol : Option VolInfo   -- `none` = empty dictionary (or read_metadata=False)
  deriving DecidableEq, Repr

/-- `write_geometry` (io.py:195-241).  `coords` is the (nv, 3) array after `astype('>f4')` as row-major
    patterns, `faces` the (nf, 3) integer array; `vol = none` for `volume_info` None/empty. -/
def writeGeometry (stamp : Bytes) (nv nf : Nat) (coords : List Nat) (faces : List Int)
    (vol : Option VolInfo) : Except Err Bytes :=
  if nv ≥ 2147483648 ∨ nf ≥ 2147483648 then .error .overflow else
  let body := geomMagicBytes ++ (stamp ++ (10 :: 10 :: (encU32 nv ++ (encU32 nf ++ (encU32s coords ++ encI32s faces)))))
  match vol with
  | none => .ok body
  | some vi =>
    match serializeVolInfo vi with
    | .ok f => .ok (body ++ f)
    | .error e => .error e

/-- `read_geometry` (io.py:99-192), triangle branch.  `vnum * 3` is evaluated by NumPy in int32: counts
    with `3 * vnum ≥ 2^31` overflow (RuntimeWarning, negative count) — refused here as unmodelled. -/
def readGeometry (readMeta : Bool) (bs : Bytes) : Except Err Geom :=
  match rdMagic3 bs with
  | .error e => .error e
  | .ok (magic, r0) =>
    if magic = quadMagic ∨ magic = newQuadMagic then .error .unmodelled
    else if magic ≠ triangleMagic then .error .value
    else
      let l1 := readLine r0
      let l2 := readLine l1.2
      match rdI32 l2.2 with
      | .error e => .error e
      | .ok (vnum, r1) =>
        match rdI32 r1 with
        | .error e => .error e
        | .ok (fnum, r2) =>
          if vnum < 0 ∨ fnum < 0 ∨ 3 * vnum ≥ 2147483648 ∨ 3 * fnum ≥ 2147483648 then .error .unmodelled
          else
            match rdU32s (3 * vnum.toNat) r2 with
            | .error e => .error e
            | .ok (coords, r3) =>
              match rdI32s (3 * fnum.toNat) r3 with
              | .error e => .error e
              | .ok (faces, r4) =>
                if readMeta then
                  match rdVolInfo r4 with
                  | .ok vol => .ok ⟨rstripNl l1.1, vnum.toNat, fnum.toNat, coords, faces, vol⟩
                  | .error e => .error e
                else .ok ⟨rstripNl l1.1, vnum.toNat, fnum.toNat, coords, faces, none⟩

/-! ## morphometry ("curv") -/

def prod : List Nat → Nat
  | [] => 1
  | x :: xs => x * prod xs

/-- `vector.shape in ((vnum,), (vnum, 1), (1, vnum), (vnum, 1, 1))` with `vnum = np.prod(shape)` -/
def morphAccepts (shape : List Nat) : Bool :=
  let v := prod shape
  shape == [v] || shape == [v, 1] || shape == [1, v] || shape == [v, 1, 1]

/-- `write_morph_data` (io.py:274-315); `vals` = the array after `astype('>f4')`, C order -/
def writeMorph (shape : List Nat) (vals : List Nat) (fnum : Int) : Except Err Bytes :=
  if !morphAccepts shape then .error .value
  else if prod shape > 2147483647 then .error .value
  else if !inI32 fnum then .error .value
  else .ok (morphMagicBytes ++ (encI32 (prod shape) ++ (encI32 fnum ++ (encI32 1 ++ encU32s vals))))

/-- `read_morph_data` (io.py:244-271), new-format branch -/
def readMorph (bs : Bytes) : Except Err (List Nat) :=
  match rdMagic3 bs with
  | .error e => .error e
  | .ok (magic, r0) =>
    if magic ≠ morphMagic then .error .unmodelled
    else
      match rdI32s 3 r0 with
      | .error e => .error e
      | .ok (hd, r1) =>
        match hd with
        | vnum :: _ =>
          if vnum < 0 then .error .unmodelled
          else match rdU32s vnum.toNat r1 with
            | .ok (vals, _) => .ok vals
            | .error e => .error e
        | [] => .error .short

/-! ## annotations -/

/-- one colour-table row `R, G, B, T, annotation value` -/
structure Row where
  r : Int
  g : Int
  b : Int
  t : Int
  a : Int
  deriving DecidableEq, Repr

/-- `_pack_rgb` (io.py:79-96) on one row -/
def packRgb (r g b : Int) : Int := r + g * 256 + b * 65536

/-- `_pack_rgb` BEFORE the fix `8ec49dcc`: the shifts `2 ** [0, 8, 16]` and the dot product were computed in
    the table's own dtype; for an unsigned dtype with `m = 2^bits` values everything wraps modulo `m`
    (uint8: `2**8` and `2**16` are 0, the packed value is just R) -/
def packRgbOrig (m : Nat) (r g b : Nat) : Nat := (r + g * (256 % m) + b * (65536 % m)) % m

/-- NumPy / Python integer indexing with negative wrap-around -/
def indexPy {α} (l : List α) (i : Int) : Except Err α :=
  let j : Int := if i < 0 then i + l.length else i
  if j < 0 then .error .index
  else match l[j.toNat]? with
    | some x => .ok x
    | none => .error .index

/-- `ctab = np.hstack((ctab[:, :4], _pack_rgb(ctab[:, :3])))` / the given 5-column table.
    `has5` = the caller's table has a fifth column (`ctab[:, [4]]` raises IndexError otherwise). -/
def fillCtab (fill has5 : Bool) (ctab : List Row) : Except Err (List Row) :=
  if fill then .ok (ctab.map fun c => { c with a := packRgb c.r c.g c.b })
  else if has5 then .ok ctab else .error .index

/-- `clut_labels = ctab[:, -1][labels]; clut_labels[labels == -1] = 0` for one label -/
def clutLabel (avals : List Int) (l : Int) : Except Err Int :=
  match indexPy avals l with
  | .ok a => .ok (if l = -1 then 0 else a)
  | .error e => .error e

def clutLabels (avals : List Int) : List Int → Except Err (List Int)
  | [] => .ok []
  | l :: ls =>
    match clutLabel avals l with
    | .ok c =>
      match clutLabels avals ls with
      | .ok cs => .ok (c :: cs)
      | .error e => .error e
    | .error e => .error e

/-- the lookup of the working tree (fix cb244bc8): `labeled = labels != -1; clut_labels = np.zeros(vnum, int64);
    clut_labels[labeled] = ctab[:, -1][labels[labeled]]` — unlabeled vertices never index the table.  (`clutLabel` /
    `clutLabels` above are the lookup BEFORE that fix: `ctab[:, -1][labels]`, then the -1 positions zeroed.) -/
def clutLabelFixed (avals : List Int) (l : Int) : Except Err Int :=
  if l = -1 then .ok 0 else indexPy avals l

def clutLabelsFixed (avals : List Int) : List Int → Except Err (List Int)
  | [] => .ok []
  | l :: ls =>
    match clutLabelFixed avals l with
    | .ok c =>
      match clutLabelsFixed avals ls with
      | .ok cs => .ok (c :: cs)
      | .error e => .error e
    | .error e => .error e

/-- `np.vstack((range(vnum), clut_labels)).T.astype('>i4')` written row by row, starting at vertex `i` -/
def encVtx (i : Nat) : List Int → Bytes
  | [] => []
  | c :: cs => encI32 i ++ (encI32 c ++ encVtx (i + 1) cs)

/-- `write_string` -/
def writeString (s : Bytes) : Bytes := encI32 (s.length + 1) ++ (s ++ [0])

/-- the loop `for ind, (clu, name) in enumerate(zip(ctab, names))` (zip stops at the shorter one);
    `write(val)` raises OverflowError for a value outside int32 -/
def encEntries (i : Nat) : List Row → List Bytes → Except Err Bytes
  | c :: cs, nm :: nms =>
    if inI32 c.r && inI32 c.g && inI32 c.b && inI32 c.t then
      match encEntries (i + 1) cs nms with
      | .ok rest => .ok (encI32 i ++ (writeString nm ++ (encI32 c.r ++ (encI32 c.g ++ (encI32 c.b ++ (encI32 c.t ++ rest))))))
      | .error e => .error e
    else .error .overflow
  | _, _ => .ok []

/-- `np.max(labels, initial=-1)` -/
def labelsMax (labels : List Int) : Int := labels.foldl max (-1)

/-- `np.max(labels)` of the ORIGINAL code: ValueError on an empty array -/
def labelsMaxOrig : List Int → Except Err Int
  | [] => .error .value
  | l :: ls => .ok (ls.foldl max l)

def writeAnnotWith (lookup : List Int → List Int → Except Err (List Int)) (mx : Except Err Int) (labels : List Int)
    (ctab : List Row) (has5 : Bool) (names : List Bytes) (fill : Bool) : Except Err Bytes :=
  match fillCtab fill has5 ctab with
  | .error e => .error e
  | .ok ctab' =>
    match lookup (ctab'.map (·.a)) labels with
    | .error e => .error e
    | .ok cl =>
      match mx with
      | .error e => .error e
      | .ok m =>
        match encEntries 0 ctab' names with
        | .error e => .error e
        | .ok ents =>
          .ok (encI32 labels.length ++ (encVtx 0 cl ++ (encI32 1 ++ (encI32 (-2) ++
            (encI32 (max (m + 1) ctab'.length) ++ (writeString noFile ++ (encI32 ctab'.length ++ ents)))))))

/-- `write_annot` (io.py:491-566), working tree (after the fixes 1b8b93eb, f0d22687, cb244bc8): labelled-only
    lookup; `max_label = int(np.max(labels)) if vnum else -1` (`max(max_label + 1, n_rows)` equals
    `max(labelsMax + 1, n_rows)` because `n_rows ≥ 0`); any integer label dtype -/
def writeAnnot (labels : List Int) (ctab : List Row) (has5 : Bool) (names : List Bytes) (fill : Bool) :
    Except Err Bytes :=
  writeAnnotWith clutLabelsFixed (.ok (labelsMax labels)) labels ctab has5 names fill

/-- `write_annot` before the fix 1b8b93eb (`np.max(labels)` without `initial`; old lookup) -/
def writeAnnotOrig (labels : List Int) (ctab : List Row) (has5 : Bool) (names : List Bytes) (fill : Bool) :
    Except Err Bytes :=
  writeAnnotWith clutLabels (labelsMaxOrig labels) labels ctab has5 names fill

/-- `write_annot` before the fix cb244bc8: `clut_labels = ctab[:, -1][labels]` indexes the table with the -1
    labels too (IndexError on an empty table) -/
def writeAnnotLookupOrig (labels : List Int) (ctab : List Row) (has5 : Bool) (names : List Bytes) (fill : Bool) :
    Except Err Bytes :=
  writeAnnotWith clutLabels (.ok (labelsMax labels)) labels ctab has5 names fill

/-- `write_annot` between 1b8b93eb and f0d22687 when `labels` has an UNSIGNED integer dtype:
    `np.max(labels, initial=-1)` raised OverflowError under NumPy 2 (the Python int -1 is out of bounds for the
    dtype), after the label lookup succeeded -/
def writeAnnotUnsignedOrig (labels : List Int) (ctab : List Row) (has5 : Bool) (names : List Bytes) (fill : Bool) :
    Except Err Bytes :=
  writeAnnotWith clutLabels (.error .overflow) labels ctab has5 names fill

/-- `np.fromfile(fobj, dt, vnum * 2).reshape(vnum, 2)[:, 1]` -/
def rdVtx : Nat → Bytes → Except Err (List Int × Bytes)
  | 0, bs => .ok ([], bs)
  | n + 1, bs =>
    match rdI32 bs with
    | .error e => .error e
    | .ok (_, r) =>
      match rdI32 r with
      | .error e => .error e
      | .ok (c, r1) =>
        match rdVtx n r1 with
        | .ok (cs, r2) => .ok (c :: cs, r2)
        | .error e => .error e

/-- a NumPy `|S<n>` scalar drops trailing NUL bytes -/
def stripNul (s : Bytes) : Bytes := (s.reverse.dropWhile (· == 0)).reverse

/-- length-prefixed string record -/
def rdString (bs : Bytes) : Except Err (Bytes × Bytes) :=
  match rdI32 bs with
  | .error e => .error e
  | .ok (len, r) => if len < 0 then .error .value else rdBytes len.toNat r

/-- `ctab[idx, :4] = rgbt` -/
def setRow (ctab : List Row) (idx : Int) (r g b t : Int) : Except Err (List Row) :=
  let j : Int := if idx < 0 then idx + ctab.length else idx
  if j < 0 ∨ j ≥ ctab.length then .error .index
  else .ok (ctab.set j.toNat ⟨r, g, b, t, 0⟩)

/-- the entry loop of `_read_annot_ctab_new_format` -/
def rdEntries : Nat → Bytes → List Row → Except Err (List Row × List Bytes)
  | 0, _, ctab => .ok (ctab, [])
  | k + 1, bs, ctab =>
    match rdI32 bs with
    | .error e => .error e
    | .ok (idx, r0) =>
      match rdString r0 with
      | .error e => .error e
      | .ok (nm, r1) =>
        match rdI32 r1 with
        | .error e => .error e
        | .ok (r, q1) =>
          match rdI32 q1 with
          | .error e => .error e
          | .ok (g, q2) =>
            match rdI32 q2 with
            | .error e => .error e
            | .ok (b, q3) =>
              match rdI32 q3 with
              | .error e => .error e
              | .ok (t, r2) =>
                match setRow ctab idx r g b t with
                | .error e => .error e
                | .ok ctab' =>
                  match rdEntries k r2 ctab' with
                  | .ok (ctabF, nms) => .ok (ctabF, stripNul nm :: nms)
                  | .error e => .error e

/-- stable argsort (NumPy's default sort is not stable; the two agree when the values are pairwise
    distinct, which is the property's domain): pairs `(value, row)` sorted by value -/
def sortedPairs (vals : List Int) : List (Int × Nat) :=
  vals.zipIdx.mergeSort (fun p q => decide (p.1 ≤ q.1))

/-- `np.searchsorted(sorted, v)` (side='left') on a sorted array: index of the first element ≥ v -/
def searchsortedLeft (sorted : List Int) (v : Int) : Nat := (sorted.takeWhile (· < v)).length

/-- `labels[~mask] = -1; labels[mask] = ord[np.searchsorted(ctab[ord, -1], labels[mask])]` for one
    annotation value; `ord = argsort(ctab[:, -1])`, `ctab[ord, -1]` = the sorted values -/
def backMap (avals : List Int) (lab : Int) : Except Err Int :=
  if lab = 0 then .ok (-1)
  else
    let sp := sortedPairs avals
    let ord : List Nat := sp.map (·.2)
    match ord[searchsortedLeft (sp.map (·.1)) lab]? with
    | some i => .ok (i : Int)
    | none => .error .index

def backMaps (avals : List Int) : List Int → Except Err (List Int)
  | [] => .ok []
  | l :: ls =>
    match backMap avals l with
    | .ok c =>
      match backMaps avals ls with
      | .ok cs => .ok (c :: cs)
      | .error e => .error e
    | .error e => .error e

/-- what `read_annot` returns -/
structure Annot where
  labels : List Int
  ctab : List Row
  names : List Bytes
  deriving DecidableEq, Repr

/-- `read_annot` (io.py:318-390) with `_read_annot_ctab_new_format` (438-488) -/
def readAnnot (origIds : Bool) (bs : Bytes) : Except Err Annot :=
  match rdI32 bs with
  | .error e => .error e
  | .ok (vnum, r0) =>
    if vnum < 0 then .error .unmodelled else
    match rdVtx vnum.toNat r0 with
    | .error e => .error e
    | .ok (vals, r1) =>
      match rdI32 r1 with
      | .error e => .error e
      | .ok (ctabExists, r2) =>
        if ctabExists = 0 then .error .exc else
        match rdI32 r2 with
        | .error e => .error e
        | .ok (nEntries, r3) =>
          if nEntries > 0 then .error .unmodelled
          else if -nEntries ≠ 2 then .error .exc
          else
            match rdI32 r3 with
            | .error e => .error e
            | .ok (maxIndex, r4) =>
              if maxIndex < 0 then .error .value else
              match rdString r4 with
              | .error e => .error e
              | .ok (_, r5) =>
                match rdI32 r5 with
                | .error e => .error e
                | .ok (nRead, r6) =>
                  match rdEntries nRead.toNat r6 (List.replicate maxIndex.toNat ⟨0, 0, 0, 0, 0⟩) with
                  | .error e => .error e
                  | .ok (ctab0, names) =>
                    let ctab := ctab0.map fun c => { c with a := wrap32 (packRgb c.r c.g c.b) }
                    if origIds then .ok ⟨vals, ctab, names⟩
                    else
                      match backMaps (ctab.map (·.a)) vals with
                      | .ok labels => .ok ⟨labels, ctab, names⟩
                      | .error e => .error e

/-- `ctab[:, :3] = rgb` on a table as `read_annot` returned it: the colours change, the transparency and —
    what matters — the annotation-value column keep their OLD (now stale) values; rows beyond the shorter
    list are left alone -/
def recolour : List Row → List (Int × Int × Int) → List Row
  | c :: cs, p :: ps => { c with r := p.1, g := p.2.1, b := p.2.2 } :: recolour cs ps
  | cs, _ => cs

/-- the two-step history `write_annot; read_annot; ctab[:, :3] = rgb; write_annot(fill_ctab=fill2); read_annot`
    (the second write gets the 5-column table and the `bytes` names exactly as the first read returned them);
    result: first read, second file, second read -/
def annotChain (labels : List Int) (ctab : List Row) (has5 : Bool) (names : List Bytes) (fill : Bool)
    (rgb : List (Int × Int × Int)) (fill2 : Bool) : Except Err (Annot × Bytes × Annot) :=
  match writeAnnot labels ctab has5 names fill with
  | .error e => .error e
  | .ok f1 =>
    match readAnnot false f1 with
    | .error e => .error e
    | .ok a1 =>
      match writeAnnot a1.labels (recolour a1.ctab rgb) true a1.names fill2 with
      | .error e => .error e
      | .ok f2 =>
        match readAnnot false f2 with
        | .error e => .error e
        | .ok a2 => .ok (a1, f2, a2)

/-! ## MGH header: shape, zooms, footer offset -/

/-- the `dims` field (always four entries) -/
structure Dims where
  x : Nat
  y : Nat
  z : Nat
  f : Nat
  deriving DecidableEq, Repr

def Dims.toList (d : Dims) : List Nat := [d.x, d.y, d.z, d.f]
def Dims.prod (d : Dims) : Nat := d.x * d.y * d.z * d.f

/-- header state relevant to C19: dims, type code, delta (3 patterns), footer (tr, flip_angle, te, ti,
    fov as patterns) -/
structure MghHdr where
  dims : Dims
  code : Nat
  delta : List Nat
  ftr : List Nat
  deriving DecidableEq, Repr

/-- `MGHImage.__init__`: `shape + (1,) * (3 - len(shape))` -/
def padShape3 (s : List Nat) : List Nat := s ++ List.replicate (3 - s.length) 1

/-- `set_data_shape` (mghformat.py:304-316): dims part -/
def setDataShape : List Nat → Except Err Dims
  | [] => .ok ⟨1, 1, 1, 1⟩
  | [a] => .ok ⟨a, 1, 1, 1⟩
  | [a, b] => .ok ⟨a, b, 1, 1⟩
  | [a, b, c] => .ok ⟨a, b, c, 1⟩
  | [a, b, c, d] => .ok ⟨a, b, c, d⟩
  | _ => .error .value

/-- `_ndims` (234-244) -/
def ndims (d : Dims) : Nat := 3 + (if d.f > 1 then 1 else 0)

/-- `get_data_shape` (295-302) -/
def getDataShape (d : Dims) : List Nat := if d.f = 1 then [d.x, d.y, d.z] else [d.x, d.y, d.z, d.f]

def f32IsNaN (u : Nat) : Bool := decide (u % 2147483648 > 2139095040)
/-- `x <= 0` on a float32 pattern -/
def f32LeZero (u : Nat) : Bool := !f32IsNaN u && (decide (u ≥ 2147483648) || u == 0)
/-- `x < 0` on a float32 pattern -/
def f32LtZero (u : Nat) : Bool := !f32IsNaN u && decide (u > 2147483648)

def ftrTr (h : MghHdr) : Nat := h.ftr.headD 0

/-- `get_zooms` (246-265) -/
def getZooms (h : MghHdr) : List Nat := h.delta ++ (if ndims h.dims > 3 then [ftrTr h] else [])

/-- `set_zooms` (267-293).  `hdr['delta'] = zooms[:3]` broadcasts a single value and raises ValueError
    for 0 or 2 values. -/
def setZooms (h : MghHdr) (zs : List Nat) : Except Err MghHdr :=
  if zs.length > ndims h.dims then .error .hdrData
  else if (zs.take 3).any f32LeZero then .error .hdrData
  else
    match zs with
    | [a] => .ok { h with delta := [a, a, a] }
    | [a, b, c] => .ok { h with delta := [a, b, c] }
    | [a, b, c, t] =>
      if f32LtZero t then .error .hdrData
      else .ok { h with delta := [a, b, c], ftr := t :: h.ftr.drop 1 }
    | _ => .error .value

def bytesPerVox (code : Nat) : Option Nat :=
  (typeCodes.find? (fun e => e.2.1 == code)).map (·.2.2)

def codeOfDtype (dt : String) : Option Nat :=
  (typeCodes.find? (fun e => e.1 == dt)).map (·.2.1)

/-- `get_footer_offset` (330-334) = `get_data_offset() + get_data_bytespervox() * prod(dims)` -/
def footerOffset (bpv : Nat) (d : Dims) : Nat := dataOffset + bpv * d.prod

/-- one data element of width `w` ∈ {1,2,4} as big-endian bytes -/
def encW (w v : Nat) : Bytes :=
  if w = 1 then [v % 256] else if w = 2 then [v / 256 % 256, v % 256] else encU32 v

def encWs (w : Nat) : List Nat → Bytes
  | [] => []
  | x :: xs => encW w x ++ encWs w xs

def decBE (bs : Bytes) : Nat := bs.foldl (fun a b => a * 256 + b) 0

/-- n elements of width w -/
def rdWs (w : Nat) : Nat → Bytes → Except Err (List Nat)
  | 0, _ => .ok []
  | n + 1, bs =>
    if bs.length < w then .error .os
    else match rdWs w n (bs.drop w) with
      | .ok xs => .ok (decBE (bs.take w) :: xs)
      | .error e => .error e

def zeros (n : Nat) : Bytes := List.replicate n 0

/-- file image written by `to_file_map`: `writehdr_to` (the 90 header bytes; `Mdc`/`Pxyz_c`, which belong
    to property C04, are carried as the 48 bytes `ras`), zero fill up to DATA_OFFSET (`array_to_file` seeks
    with `write0`), data in Fortran order, `writeftr_to` at the footer offset -/
def writeMgh (h : MghHdr) (ras : Bytes) (bpv : Nat) (data : List Nat) : Bytes :=
  encU32 defVersion ++ (encU32s h.dims.toList ++ (encU32 h.code ++ (encU32 defDof ++ ([0, defGoodRAS] ++
    (encU32s h.delta ++ (ras ++ (zeros (dataOffset - hdrItemsize) ++ (encWs bpv data ++ encU32s h.ftr))))))))

/-- right zero-pad / truncate to n bytes (`MGHHeader.__init__`) -/
def padTo (n : Nat) (bs : Bytes) : Bytes := bs.take n ++ zeros (n - bs.length)

/-- `MGHHeader.from_fileobj` + `MGHHeader.__init__` + `data_from_fileobj`; returns the header fields, the 48
    bytes of `Mdc`/`Pxyz_c` the loaded header holds (bytes 42..90 of the file, or — when `goodRASFlag` is 0 —
    what `_set_affine_default` puts there: `defRasBytes`, regenerated from the source) and the data elements
    (Fortran order) -/
def readMgh (bs : Bytes) : Except Err (MghHdr × Bytes × List Nat) :=
  if bs.length < hdrItemsize then .error .type else
  match rdU32 bs with
  | .error e => .error e
  | .ok (version, r0) =>
    match rdU32 r0 with
    | .error e => .error e
    | .ok (x, q1) =>
    match rdU32 q1 with
    | .error e => .error e
    | .ok (y, q2) =>
    match rdU32 q2 with
    | .error e => .error e
    | .ok (z, q3) =>
    match rdU32 q3 with
    | .error e => .error e
    | .ok (f, r1) =>
      if x = 0 ∨ y = 0 ∨ z = 0 ∨ f = 0 then .error .mgh else
      match rdU32 r1 with
      | .error e => .error e
      | .ok (code, _) =>
        match bytesPerVox code with
        | none => .error .key
        | some bpv =>
          let d : Dims := ⟨x, y, z, f⟩
          let good := decBE ((bs.drop 28).take 2)
          match rdU32s 3 (bs.drop 30) with
          | .error e => .error e
          | .ok (delta, _) =>
            match rdU32s 5 (padTo ftrItemsize (bs.drop (footerOffset bpv d))) with
            | .error e => .error e
            | .ok (ftr, _) =>
              if version ≠ 1 then .error .hdrData else
              let delta' := if good = 0 then defDeltaNoRas else delta
              let ras' := if good = 0 then defRasBytes else (bs.drop 42).take 48
              match rdWs bpv d.prod (bs.drop dataOffset) with
              | .error e => .error e
              | .ok data => .ok (⟨d, code, delta', ftr⟩, ras', data)

/-- `hdr[field] = value` for the footer fields, index 0..4 -/
def setFtr (h : MghHdr) (sets : List (Nat × Nat)) : MghHdr :=
  sets.foldl (fun h s => { h with ftr := h.ftr.set s.1 s.2 }) h

structure MghOut where
  hz : List Nat          -- header.get_zooms() before saving
  file : Bytes
  shape : List Nat       -- loaded.shape
  code : Nat
  zooms : List Nat       -- loaded.header.get_zooms()
  ftr : List Nat
  data : List Nat
  ras : Bytes            -- loaded.header: bytes of Mdc / Pxyz_c
  deriving DecidableEq, Repr

/-- the save/load part of `mghSaveLoad`, from the header `h1` as the caller left it: footer assignments,
    `update_header` (delta from the affine), `to_file_map`, `load` -/
def mghSaveLoadFrom (shape3 : List Nat) (code : Nat) (h1 : MghHdr) (data : List Nat) (affDelta : List Nat)
    (ras : Bytes) (ftrSets : List (Nat × Nat)) : Except Err MghOut :=
  let h2 := setFtr h1 ftrSets
  let h3 := { h2 with delta := affDelta }
  if getDataShape h3.dims ≠ shape3 then .error .hdrData else
  match bytesPerVox code with
  | none => .error .key
  | some bpv =>
    let file := writeMgh h3 ras bpv data
    match readMgh file with
    | .error e => .error e
    | .ok (h', ras', data') =>
      .ok ⟨getZooms h1, file, getDataShape h'.dims, h'.code, getZooms h', h'.ftr, data', ras'⟩

/-- `img = MGHImage(data, affine)`; optional `img.header.set_zooms(zs)`; footer assignments;
    `save`; `load`.  `affDelta` = float32(voxel_sizes(affine)) (external); on save `update_header`
    re-derives `delta` from the affine unless the header affine is `allclose` to it, so the saved delta
    is `affDelta` (generators keep `zs[:3]` either equal to it or far from it).  `ras` = the 48 bytes
    `_affine2header` stores in `Mdc`/`Pxyz_c` (float arithmetic: external, computed by the harness
    independently of nibabel). -/
def mghSaveLoad (shape : List Nat) (dt : String) (data : List Nat) (affDelta : List Nat) (ras : Bytes)
    (setZ : Option (List Nat)) (ftrSets : List (Nat × Nat)) : Except Err MghOut :=
  let shape3 := if shape.length < 3 then padShape3 shape else shape
  match codeOfDtype dt with
  | none => .error .mgh
  | some code =>
    match setDataShape shape3 with
    | .error e => .error e
    | .ok dims =>
      let h0 : MghHdr := ⟨dims, code, affDelta, [0, 0, 0, 0, 0]⟩
      match setZ with
      | none => mghSaveLoadFrom shape3 code h0 data affDelta ras ftrSets
      | some zs =>
        match setZooms h0 zs with
        | .error e => .error e
        | .ok h1 => mghSaveLoadFrom shape3 code h1 data affDelta ras ftrSets

/-! ## MGH: LOAD → edit → SAVE → LOAD history (everything a loaded header carries) -/

/-- everything a loaded `MGHHeader` holds besides `version` (which `check_fix` forces to `versionOk`): the
    C19 fields `h`, `dof` and `goodRASFlag` as raw unsigned patterns (`>i4` / `>i2`), the 48 `Mdc`/`Pxyz_c` bytes -/
structure MghFull where
  h : MghHdr
  dof : Nat
  good : Nat
  ras : Bytes
  deriving DecidableEq, Repr

def encU16 (g : Nat) : Bytes := [g / 256 % 256, g % 256]

/-- `writehdr_to` + `_write_data` + `writeftr_to` (mghformat.py:387-425, 561-581) for an arbitrary header
    state: the 90 header bytes are `binaryblock[:90]` VERBATIM (so `dof` and `goodRASFlag` are whatever the
    header holds, not the defaults), the footer is `binaryblock[90:110]` verbatim -/
def writeMghX (L : MghFull) (bpv : Nat) (data : List Nat) : Bytes :=
  encU32 versionOk ++ (encU32s L.h.dims.toList ++ (encU32 L.h.code ++ (encU32 L.dof ++ (encU16 L.good ++
    (encU32s L.h.delta ++ (L.ras ++ (zeros (dataOffset - hdrItemsize) ++ (encWs bpv data ++ encU32s L.h.ftr))))))))

/-- `MGHHeader.from_fileobj` + `data_from_fileobj` as `readMgh`, returning in addition `dof` and the
    `goodRASFlag` the loaded header holds (`_set_affine_default` stores `defGoodNoRas` when the file had 0) -/
def readMghX (bs : Bytes) : Except Err (MghFull × List Nat) :=
  match readMgh bs with
  | .error e => .error e
  | .ok (h, ras, data) =>
    let good := decBE ((bs.drop 28).take 2)
    .ok (⟨h, decBE ((bs.drop 24).take 4), if good = 0 then defGoodNoRas else good, ras⟩, data)

/-- an optional `header.set_zooms(zs)` call -/
def optSetZooms (h : MghHdr) : Option (List Nat) → Except Err MghHdr
  | none => .ok h
  | some zs => setZooms h zs

/-- the history `img = load(file); [img.header.set_zooms(zs)]; img.header[footer field] = v ...; save(img, other);
    load(other)` (MGHImage.from_file_map 503-535, to_file_map 537-559).  The loaded image's affine IS the header's
    affine, so `update_header` leaves `delta`/`Mdc`/`Pxyz_c` alone as long as the caller does not change `delta`
    (`np.allclose(affine, affine)`; finite values — the harness generates no NaN/inf/overflowing `Mdc`/`Pxyz_c`);
    a `set_zooms` that CHANGES the voxel sizes makes `update_header` re-derive them from the affine in floating
    point: refused as unmodelled.  Result: first load, second file, second load. -/
def mghResave (file : Bytes) (setZ : Option (List Nat)) (ftrSets : List (Nat × Nat)) :
    Except Err (MghFull × List Nat × Bytes × MghFull × List Nat) :=
  match readMghX file with
  | .error e => .error e
  | .ok (L, data) =>
    match optSetZooms L.h setZ with
    | .error e => .error e
    | .ok h1 =>
      if h1.delta ≠ L.h.delta then .error .unmodelled else
      match bytesPerVox h1.code with
      | none => .error .key
      | some bpv =>
        let L2 : MghFull := { L with h := setFtr h1 ftrSets }
        let f2 := writeMghX L2 bpv data
        match readMghX f2 with
        | .error e => .error e
        | .ok (L3, data3) => .ok (L, data, f2, L3, data3)

end Nb.C19
