/-
  Model/C07 — executable step-machine model of "saving an image" (`to_file_map`) with fault injection.

  Python source modelled (line numbers of /repo after the `fix:` commits 229c8cbf and 7a63ed50):
  * `AnalyzeImage.to_file_map`                     nibabel/analyze.py:990-1062   (`analyzeSave`)
  * `Nifti1Pair.to_file_map`, `get_data_dtype(finalize=True)`, `set_data_dtype`
                                                   nibabel/nifti1.py:2229-2378   (`niftiSave`, `setDtypeOp`)
  * `Nifti1Header.write_to` (offset consumption, extension flag, extensions)
                                                   nibabel/nifti1.py:880-901, 466-495 (`chooseOffset`, `extCalls`)
  * `Spm99AnalyzeImage.to_file_map` (.mat holder)  nibabel/spm99analyze.py:302-333 (`spmSave`)
  * `MGHImage.to_file_map`, `writehdr_to`, `writeftr_to`, `_write_data`
                                                   nibabel/freesurfer/mghformat.py:387-425, 537-581 (`mghSave`)
  * `Cifti2Image.to_file_map`                      nibabel/cifti2/cifti2.py:1555-1590 (`ciftiSave`)
  * `seek_tell`                                    nibabel/volumeutils.py:839-866 (`seekTell`)
  * `FileHolder.get_prepare_fileobj`, `Opener.close_if_mine`
                                                   nibabel/fileholders.py:52-82, nibabel/openers.py:246-249 (`prepare`, `closeIfMine`)
  * the `.mat` arithmetic of `Spm99AnalyzeImage.to_file_map` / `from_file_map`
                                                   nibabel/spm99analyze.py:283-300, 316-333 (`spmM`, `spmMat`, `loadMat`)
  * `data = np.asanyarray(self.dataobj); if maps_file(data): data = np.array(data)` and `maps_file`
                                                   nibabel/analyze.py:1004-1007, mghformat.py:548-551,
                                                   volumeutils.py:392-410 (`materialize`, `mapsFile`, `Step.openW`)
  and the ORIGINAL control flow of the pinned tree (before the fix commits): `analyzeSaveOrig`,
  `niftiSaveOrig` (no restore in `finally`, no copy of a memory-mapped volume).

  Abstractions
  * the image is (header consumables, dtype alias, data id, affine, header attribute `default_x_flip`,
    where the data come from, header-object id) + file_map id;
    floats in the header (scl_slope / scl_inter) are opaque bit patterns, `none` = NaN;
  * the affine is `none` (`affine=None`) or a 4x4 matrix with INTEGER entries (the correspondence only
    generates integer-valued affines, for which NumPy's float64 products are exact);
  * the data source is an in-memory array or an ArrayProxy on a file, with or without memory mapping;
    files are identified by IDENTITY (device/inode), never by the spelling of their path; data id 0 =
    "garbage" (what is read from a file truncated under a live memory map);
  * a destination is three file objects (header / image / mat) of which only the position, the number of
    I/O calls and the number of bytes accepted matter; the bytes written are abstracted to a list of
    `Chunk`s that records, for every piece, the state it was computed from;
  * a fault makes I/O call number k raise OSError (`Fault.call k`) or makes the write that would exceed
    a byte budget raise OSError (`Fault.bytes b`);
  * EXTERNAL functions enter through `Env` (contracts in the comments there): dtype-alias resolution
    (`_get_analyze_compat_dtype` / `_get_smallest_dtype`), `make_array_writer` (raises or not, which
    slope/inter it computes, how many `write` calls `to_fileobj` makes), `scipy.io.savemat` write sizes,
    sizes of the NIfTI extensions.
  * `update_header()` (CIFTI-2: `update_headers()` + the normalisation of intent / pixdim / extension) is
    modelled as a step that may change the non-consumable header bytes ONCE: the image carries the id
    `rest` of those bytes and `pending = some r` when the affine / shape / header have been edited so that
    harmonising would turn them into `r`; the step sets `rest := r, pending := none` (so it is idempotent
    by construction). WHICH bytes result is external (ids supplied by the correspondence from the real
    `update_header`).
  * `hdr.set_slope_inter(*get_slope_inter(arr_writer))` may raise HeaderDataError inside the `try:` (slope
    0 or infinite after the cast to the header's float32 field) — external flag `Env.slopeRaises`.
  * compressed destinations: `gzHeader` / `gzStream` (section at the end) model the gzip member header that
    CPython writes and the arguments nibabel's `DeterministicGzipFile` passes.
  * `maps_file` (volumeutils.py:392-410) is modelled on the CHAIN OF OWNERS of the array (`Owner`, `mapsFile`); an
    image may HOLD an array that views a memory map through any such chain (`Src.view`); `materialize` copies exactly
    when `mapsFile` says so. `mapsFileOrig` / `isMemmapOrig` are the two earlier tests.
  * the slice loop of `_write_data` (volumeutils.py:778-802) is modelled only as far as MEMORY SHARING goes
    (`WFlags`, `sliceBody`, `runSlice`): which statements rebind `dslice` to a new array, which store in place.
-/
import NibabelModel.Generated.C07
namespace Nb.C07

inductive Cls where
  | analyze | spm99 | spm2 | n1pair | n1single | n2pair | n2single | mgh | cifti2
  deriving Repr, DecidableEq, Inhabited

/-- header-class traits (regenerated from the source tree); a CIFTI-2 image carries a Nifti2Header -/
def Cls.traits : Cls → Gen.Traits
  | .analyze => Gen.analyze | .spm99 => Gen.spm99 | .spm2 => Gen.spm2
  | .n1pair => Gen.n1pair | .n1single => Gen.n1single
  | .n2pair => Gen.n2pair | .n2single => Gen.n2single
  | .mgh => Gen.mgh | .cifti2 => Gen.n2single

/-- classes derived from `Nifti1Pair`: they have `_dtype_alias` and the wrapping `to_file_map` -/
def Cls.isNifti : Cls → Bool
  | .n1pair | .n1single | .n2pair | .n2single => true
  | _ => false

inductive Alias where | compat | smallest
  deriving Repr, DecidableEq, Inhabited

/-! ### 4x4 integer matrices (`np.dot` on 4x4 arrays) -/

structure V4 where
  x : Int
  y : Int
  z : Int
  w : Int
  deriving Repr, DecidableEq, Inhabited

/-- rows r0..r3 -/
structure M4 where
  r0 : V4
  r1 : V4
  r2 : V4
  r3 : V4
  deriving Repr, DecidableEq, Inhabited

def V4.add (a b : V4) : V4 := ⟨a.x + b.x, a.y + b.y, a.z + b.z, a.w + b.w⟩
def V4.smul (k : Int) (a : V4) : V4 := ⟨k * a.x, k * a.y, k * a.z, k * a.w⟩
/-- row vector times matrix = linear combination of the rows -/
def V4.mulM (v : V4) (b : M4) : V4 :=
  ((V4.smul v.x b.r0).add (V4.smul v.y b.r1)).add ((V4.smul v.z b.r2).add (V4.smul v.w b.r3))
/-- `np.dot(a, b)` -/
def M4.mul (a b : M4) : M4 := ⟨a.r0.mulM b, a.r1.mulM b, a.r2.mulM b, a.r3.mulM b⟩
def M4.toList (m : M4) : List Int :=
  [m.r0.x, m.r0.y, m.r0.z, m.r0.w, m.r1.x, m.r1.y, m.r1.z, m.r1.w,
   m.r2.x, m.r2.y, m.r2.z, m.r2.w, m.r3.x, m.r3.y, m.r3.z, m.r3.w]

/-- `np.diag([a, b, c, d])` -/
def diag4 (d : List Int) : M4 :=
  ⟨⟨d.getD 0 0, 0, 0, 0⟩, ⟨0, d.getD 1 0, 0, 0⟩, ⟨0, 0, d.getD 2 0, 0⟩, ⟨0, 0, 0, d.getD 3 0⟩⟩
/-- `e = np.eye(4); e[:3, 3] = c` -/
def shift4 (c : Int) : M4 := ⟨⟨1, 0, 0, c⟩, ⟨0, 1, 0, c⟩, ⟨0, 0, 1, c⟩, ⟨0, 0, 0, 1⟩⟩

/-- `np.diag([-1, 1, 1, 1])` in `to_file_map` (spm99analyze.py:323); the list is REGENERATED from the source -/
def xflipM : M4 := diag4 Gen.xflipDiagW
/-- the same matrix as `from_file_map` spells it (spm99analyze.py:291) -/
def xflipR : M4 := diag4 Gen.xflipDiagR
/-- `from_111 = np.eye(4); from_111[:3, 3] = -1` (spm99analyze.py:326-327); the constant is regenerated -/
def from111 : M4 := shift4 Gen.from111Shift
/-- `to_111 = np.eye(4); to_111[:3, 3] = 1` (spm99analyze.py:296-297); the constant is regenerated -/
def to111 : M4 := shift4 Gen.to111Shift

/-- the `M` matrix of the `.mat` file (spm99analyze.py:322-328): optional x flip, then 1-based voxel origin -/
def spmM (flip : Bool) (mat : M4) : M4 := (if flip then xflipM.mul mat else mat).mul from111
/-- the `mat` matrix of the `.mat` file (spm99analyze.py:329) -/
def spmMat (mat : M4) : M4 := mat.mul from111

/-- the affine `Spm99AnalyzeImage.from_file_map` takes from a `.mat` file holding the variables
    `mat?` / `M?` (spm99analyze.py:283-298): `mat` overrides `M`; `M` gets the header's flip; then
    back to 0-based voxels. `none` = ValueError (neither variable). -/
def loadMat (flip : Bool) (mat? M? : Option M4) : Option M4 :=
  match mat?, M? with
  | some m, _ => some (m.mul to111)
  | none, some M => some ((if flip then xflipR.mul M else M).mul to111)
  | none, none => none

/-- one link of the chain of OWNERS of an array object: the array itself, then what it is a view of
    (`ndarray.base`, `memoryview.obj`, the `base` attribute of an array-interface holder), … up to `None` -/
inductive Owner where
  | memmap      -- an `np.memmap` instance
  | mmap        -- an `mmap.mmap` object
  | memoryview  -- a `memoryview` (next link: `.obj`)
  | ndarray     -- a plain `np.ndarray` (next link: `.base`)
  | other       -- any other object (next link: its `base` attribute, `None` if it has none)
  deriving Repr, DecidableEq, Inhabited

def Owner.isMap : Owner → Bool
  | .memmap | .mmap => true
  | _ => false

/-- `maps_file(arr)` (volumeutils.py:392-410, after fix 8d96c629) on the chain of owners of `arr`:
    `while arr is not None: if isinstance(arr, (np.memmap, mmap.mmap)): return True;
     arr = arr.obj if isinstance(arr, memoryview) else getattr(arr, 'base', None)`, then `return False` -/
def mapsFile : List Owner → Bool
  | [] => false
  | o :: rest => if o = .memmap ∨ o = .mmap then true else mapsFile rest

/-- `maps_file` as commit ae98171b had it: `while isinstance(arr, np.ndarray): if isinstance(arr, np.memmap):
    return True; arr = arr.base`, then `return isinstance(arr, mmap.mmap)` — a memoryview or an array-interface
    holder ends the walk -/
def mapsFileOrig : List Owner → Bool
  | [] => false
  | .memmap :: _ => true
  | .ndarray :: rest => mapsFileOrig rest
  | .mmap :: _ => true
  | _ :: _ => false

/-- the test of commit fae418e9: `isinstance(data, np.memmap)` -/
def isMemmapOrig : List Owner → Bool
  | .memmap :: _ => true
  | _ => false

/-- where `np.asanyarray(img.dataobj)` takes the data from -/
inductive Src where
  | array                               -- an ndarray in memory
  | proxy (file : Nat) (mmap : Bool)    -- ArrayProxy on the file with identity `file`; `mmap`: asanyarray gives an np.memmap
  | view (file : Nat) (chain : List Owner)
      -- an array object HELD by the image whose chain of owners is `chain` (first link: the array itself); its
      -- memory is a live map of the file with identity `file` exactly when the chain contains a map link
  deriving Repr, DecidableEq, Inhabited

/-- the chain of owners of `np.asanyarray(self.dataobj)` -/
def Src.chain : Src → List Owner
  | .array => [.ndarray]
  | .proxy _ true => [.memmap, .mmap]
  | .proxy _ false => [.ndarray]
  | .view _ ch => ch

/-- the file whose live memory map `np.asanyarray(self.dataobj)` reads from, if any -/
def Src.mapped : Src → Option Nat
  | .array => none
  | .proxy f mm => if mm then some f else none
  | .view f ch => if ch.any Owner.isMap then some f else none

/-- a float header field as raw bits; `none` = NaN ("compute at write time") -/
abbrev Scl := Option Nat

/-- the consumable header fields -/
structure Hdr where
  offset : Nat
  dtype  : Nat
  slope  : Scl
  inter  : Scl
  deriving Repr, DecidableEq, Inhabited

/-- everything the property calls "what the image represents" (+ identity of the header object) -/
structure Core where
  hdr    : Hdr
  alias  : Option Alias
  data   : Nat
  affine : Option M4
  xflip  : Bool := true      -- `header.default_x_flip` (an attribute of the header object, not in its bytes)
  src    : Src := .array
  hdrObj : Nat
  rest    : Nat := 0               -- id of the header bytes other than the consumables
  pending : Option Nat := none     -- `some r`: update_header() would turn `rest` into `r`
  deriving Repr, DecidableEq, Inhabited

/-- the effect of `update_header()` on the image -/
def harmonise (k : Core) : Core := { k with rest := k.pending.getD k.rest, pending := none }

structure Img where
  core    : Core
  fileMap : Nat
  deriving Repr, DecidableEq, Inhabited

inductive Err where
  | os | writer | headerData | value | type | assertion
  deriving Repr, DecidableEq, Inhabited

inductive Fault where
  | none
  | call (k : Nat)      -- the k-th I/O call (1-based) on the destination file objects raises OSError
  | bytes (b : Nat)     -- the write that would take the accepted bytes beyond b raises OSError
  deriving Repr, DecidableEq, Inhabited

inductive File where | header | image | mat
  deriving Repr, DecidableEq, Inhabited

inductive IoKind where
  | write (n : Nat) | seek (target : Nat) | tell | close
  deriving Repr, DecidableEq, Inhabited

structure IoCall where
  file : File
  kind : IoKind
  deriving Repr, DecidableEq, Inhabited

/-- abstract bytes: each piece with the state it was computed from -/
inductive Chunk where
  | hdr (f : File) (h : Hdr) (rest : Nat) (affine : Option M4)
  | data (f : File) (dataId code : Nat) (scaled : Bool) (slope inter : Scl)
  | mat (M mat : M4)                    -- the two variables of the `.mat` file
  | trailer (f : File)
  deriving Repr, DecidableEq, Inhabited

/-- externals of `make_array_writer(data, out_dtype, …)` / `arr_writer.to_fileobj` for ONE out dtype code -/
structure WEntry where
  wok     : Bool    -- make_array_writer succeeds (no WriterError) when scaling has to be computed
  slope   : Scl     -- get_slope_inter(arr_writer) as it lands in the header field
  inter   : Scl
  nWrites : Nat     -- number of `write` calls made by to_fileobj
  wBytes  : Nat     -- bytes per such call
  deriving Repr, DecidableEq, Inhabited

/-- EXTERNAL behaviour, fixed for one save request.
    * `owned`: the Opener owns the file object (opened by name) → `close_if_mine` closes; otherwise
      `get_prepare_fileobj` seeks the caller's file object to `pos`=0 instead.
    * `exts`: (content bytes, pad bytes) of each NIfTI extension; size on disk = 8 + content + pad.
    * `mat`: sizes of the `write` calls of `scipy.io.savemat` (SPM) / of the MGH footer.
    * `resolve`: `_get_analyze_compat_dtype` / `_get_smallest_dtype` on the image data; `none` = ValueError.
    * `writer`: see `WEntry`.
    * `destImage`: identity of the destination's IMAGE file (the file that holds the data); 0 = a file
      that is not the source of any image (source files have identities ≥ 1). -/
structure Env where
  owned   : Bool
  exts    : List (Nat × Nat)
  mat     : List Nat
  resolve : Alias → Option Nat
  writer  : Nat → WEntry
  destImage : Nat := 0
  slopeRaises : Nat → Bool := fun _ => false   -- per out dtype code: set_slope_inter refuses the computed slope

structure World where
  img     : Core
  bound   : Bool := false           -- `self.file_map = file_map` has been executed
  live    : Option Nat := none      -- the local `data` is still a memory map of this file (not copied)
  calls   : Nat := 0
  written : Nat := 0
  posH    : Nat := 0
  posI    : Nat := 0
  posM    : Nat := 0
  log     : List IoCall := []       -- newest first
  out     : List Chunk := []        -- newest first
  deriving Repr, DecidableEq, Inhabited

abbrev Res := Option Err × World

def World.pos (w : World) : File → Nat
  | .header => w.posH | .image => w.posI | .mat => w.posM

def World.setPos (w : World) (f : File) (p : Nat) : World :=
  match f with
  | .header => { w with posH := p } | .image => { w with posI := p } | .mat => { w with posM := p }

def World.setHdr (w : World) (h : Hdr) : World := { w with img := { w.img with hdr := h } }

/-- effect of a successful I/O call on the destination -/
def applyCall (c : IoCall) (w : World) : World :=
  match c.kind with
  | .write n => { w.setPos c.file (w.pos c.file + n) with written := w.written + n }
  | .seek t => w.setPos c.file t
  | .tell => w
  | .close => w

/-- one I/O call on a (possibly faulty) destination file object -/
def ioCall (fault : Fault) (c : IoCall) (w : World) : Res :=
  let w1 := { w with calls := w.calls + 1, log := c :: w.log }
  match fault with
  | .none => (none, applyCall c w1)
  | .call k => if w1.calls = k then (some .os, w1) else (none, applyCall c w1)
  | .bytes b =>
      match c.kind with
      | .write n => if w1.written + n > b then (some .os, { w1 with written := b }) else (none, applyCall c w1)
      | _ => (none, applyCall c w1)

/-- sequencing: continue only when nothing was raised -/
def Res.andThen (r : Res) (f : World → Res) : Res :=
  match r with
  | (none, w) => f w
  | (some e, w) => (some e, w)

def ioMany (fault : Fault) : List IoCall → World → Res
  | [], w => (none, w)
  | c :: cs, w => (ioCall fault c w).andThen (ioMany fault cs)

/-- per-request constants visible to the body of `AnalyzeImage.to_file_map` -/
structure Ctx where
  t       : Gen.Traits
  env     : Env
  fault   : Fault
  went    : WEntry      -- writer externals for the out dtype
  scaleMe : Bool        -- slope and inter both NaN at entry
  hdrLocal : Nat        -- the local `hdr` (object id)
  slopeBad : Bool := false   -- `hdr.set_slope_inter(computed slope, inter)` raises HeaderDataError

inductive Step where
  | mkWriter                      -- make_array_writer / ArrayWriter(check_scaling=False)   may raise WriterError
  | setSlopeInter                 -- if scale_me: hdr.set_slope_inter(*get_slope_inter(arr_writer))   MUTATES slope, inter
  | chooseOffset                  -- Nifti1Header.write_to, single file: vox_offset 0 → minimum     MUTATES offset; may raise HeaderDataError
  | ios (cs : List IoCall)        -- plain I/O calls
  | seekTell (f : File) (write0 : Bool)   -- seek_tell(f, hdr.get_data_offset(), write0)
  | emitHdr (f : File)            -- the header bytes are taken from the header NOW
  | emitData (f : File)           -- the data bytes are computed by the writer
  | emitMat (a : M4)              -- M, mat computed from the affine `a` and the header's default_x_flip
  | emitTrailer (f : File)
  | openW (f : File)              -- `get_prepare_fileobj('wb')`: a file opened BY NAME is truncated here
  | bindHeader                    -- self._header = hdr
  | bindFileMap                   -- self.file_map = file_map
  deriving Repr, DecidableEq, Inhabited

def extTotal (exts : List (Nat × Nat)) : Nat := (exts.map (fun e => 8 + e.1 + e.2)).sum

/-- `seek_tell(fileobj, offset, write0)` (volumeutils.py:839-866): a failing seek is absorbed when the
    position already is right, or (write0) by writing zeros up to the offset -/
def seekTell (fault : Fault) (f : File) (write0 : Bool) (w : World) : Res :=
  let target := w.img.hdr.offset
  match ioCall fault ⟨f, .seek target⟩ w with
  | (some .os, w1) =>
      (ioCall fault ⟨f, .tell⟩ w1).andThen fun w2 =>
        if w2.pos f = target then (none, w2)
        else if !write0 then (some .os, w2)
        else if w2.pos f > target then (some .os, w2)
        else
          (ioCall fault ⟨f, .write (target - w2.pos f)⟩ w2).andThen fun w3 =>
            (ioCall fault ⟨f, .tell⟩ w3).andThen fun w4 =>
              if w4.pos f = target then (none, w4) else (some .assertion, w4)
  | r => r

def exec (c : Ctx) : Step → World → Res
  | .mkWriter, w => if c.scaleMe && !c.went.wok then (some .writer, w) else (none, w)
  | .setSlopeInter, w =>
      if c.scaleMe && c.slopeBad then (some .headerData, w)
      else if c.scaleMe then
        (none, w.setHdr { w.img.hdr with
          slope := if c.t.hasSlope then c.went.slope else w.img.hdr.slope,
          inter := if c.t.hasInter then c.went.inter else w.img.hdr.inter })
      else (none, w)
  | .chooseOffset, w =>
      if c.t.single then
        let minOff := c.t.singleVoxOffset + extTotal c.env.exts
        if w.img.hdr.offset = 0 then (none, w.setHdr { w.img.hdr with offset := minOff })
        else if w.img.hdr.offset < minOff then (some .headerData, w)
        else (none, w)
      else (none, w)
  | .ios cs, w => ioMany c.fault cs w
  | .seekTell f w0, w => seekTell c.fault f w0 w
  | .emitHdr f, w => (none, { w with out := .hdr f w.img.hdr w.img.rest w.img.affine :: w.out })
  | .emitData f, w =>
      (none, { w with out := .data f w.img.data w.img.hdr.dtype c.scaleMe
                               (if c.scaleMe then c.went.slope else none)
                               (if c.scaleMe then c.went.inter else none) :: w.out })
  | .emitMat a, w => (none, { w with out := .mat (spmM w.img.xflip a) (spmMat a) :: w.out })
  | .openW f, w =>
      -- truncating the file under a live memory map destroys the local `data` AND what the image's own
      -- proxy will read from now on
      if c.env.owned && f = .image && w.live = some c.env.destImage then
        (none, { w with img := { w.img with data := 0 } })
      else (none, w)
  | .emitTrailer f, w => (none, { w with out := .trailer f :: w.out })
  | .bindHeader, w => (none, { w with img := { w.img with hdrObj := c.hdrLocal } })
  | .bindFileMap, w => (none, { w with bound := true })

def runSteps (c : Ctx) : List Step → World → Res
  | [], w => (none, w)
  | s :: ss, w => (exec c s w).andThen (runSteps c ss)

/-- `FileHolder.get_prepare_fileobj` on a holder with a file object: `obj.seek(self.pos)`; on a
    file opened by the Opener itself (owned) nothing is called on the object -/
def prepare (env : Env) (f : File) : List Step :=
  .openW f :: (if env.owned then [] else [.ios [⟨f, .seek 0⟩]])

/-- `Opener.close_if_mine` -/
def closeIfMine (env : Env) (f : File) : List Step :=
  if env.owned then [.ios [⟨f, .close⟩]] else []

/-- `NiftiExtension.write_to`: tell, write esize/ecode, write content, tell, write padding (if any) -/
def extCalls (f : File) (e : Nat × Nat) : List IoCall :=
  [⟨f, .tell⟩, ⟨f, .write 8⟩, ⟨f, .write e.1⟩, ⟨f, .tell⟩] ++ (if e.2 = 0 then [] else [⟨f, .write e.2⟩])

/-- extension part of `Nifti1Header.write_to` (nifti1.py:892-901); Analyze/SPM headers: `exts = []`, not single -/
def extSteps (c : Ctx) (f : File) : List Step :=
  if c.env.exts.isEmpty then (if c.t.single then [.ios [⟨f, .write 4⟩]] else [])
  else [.ios (⟨f, .write 4⟩ :: c.env.exts.flatMap (extCalls f))]

def dataCalls (c : Ctx) (f : File) : List IoCall :=
  List.replicate c.went.nWrites ⟨f, .write c.went.wBytes⟩

/-- body of the `try:` block of `AnalyzeImage.to_file_map` (analyze.py:1020-1051) -/
def coreBody (c : Ctx) : List Step :=
  let hf : File := if c.t.single then .image else .header
  [.mkWriter] ++ prepare c.env hf ++ (if c.t.single then [] else prepare c.env .image) ++
  [.setSlopeInter, .chooseOffset, .emitHdr hf, .ios [⟨hf, .write c.t.sizeofHdr⟩]] ++ extSteps c hf ++
  [.seekTell .image true, .emitData .image, .ios (dataCalls c .image)] ++
  closeIfMine c.env hf ++ (if c.t.single then [] else closeIfMine c.env .image) ++
  [.bindHeader, .bindFileMap]

inductive DtReq where
  | none | code (c : Nat) | alias (a : Alias) | bad
  deriving Repr, DecidableEq, Inhabited

/-- `hdr.set_data_dtype(dtype)` on the header (no alias support there): `none` = HeaderDataError -/
def applyOverride (t : Gen.Traits) (dt : DtReq) (h : Hdr) : Option Hdr :=
  match dt with
  | .none => some h
  | .code c => if c ∈ t.codes then some { h with dtype := c } else none
  | .alias _ => none
  | .bad => none

/-- `hdr.set_data_dtype(hdr_get_data_dtype_result)`: the code obtained by going through the dtype -/
def rtCode (t : Gen.Traits) (c : Nat) : Nat :=
  match t.roundtrip.lookup c with
  | some c' => c'
  | none => c

/-- the `finally:` block of `AnalyzeImage.to_file_map` (analyze.py:1052-1061) -/
def restore (t : Gen.Traits) (saved : Hdr) (h : Hdr) : Hdr :=
  { offset := saved.offset
    dtype := rtCode t saved.dtype
    slope := if t.hasSlope then saved.slope else h.slope
    inter := if t.hasInter then saved.inter else h.inter }

def slopeOf (t : Gen.Traits) (h : Hdr) : Scl := if t.hasSlope then h.slope else none
def interOf (t : Gen.Traits) (h : Hdr) : Scl := if t.hasInter then h.inter else none

def mkCtx (t : Gen.Traits) (env : Env) (fault : Fault) (w : World) (h1 : Hdr) : Ctx :=
  { t := t, env := env, fault := fault, went := env.writer h1.dtype,
    scaleMe := (slopeOf t h1).isNone && (interOf t h1).isNone, hdrLocal := w.img.hdrObj,
    slopeBad := env.slopeRaises h1.dtype }

/-- `try: body finally: cleanup` where the cleanup cannot raise -/
def tryFinally (body : World → Res) (cleanup : World → World) (w : World) : Res :=
  let r := body w
  (r.1, cleanup r.2)

/-- `data = np.asanyarray(self.dataobj); if maps_file(data): data = np.array(data)`
    (analyze.py:1004-1007, mghformat.py:548-551) with the test `detect` on the chain of owners of `data`:
    afterwards the local `data` is an independent array, unless it reads from a live map of a file and the
    test does not see that (then no copy is made) -/
def materializeWith (detect : List Owner → Bool) (w : World) : World :=
  { w with live := match w.img.src.mapped with
      | some f => if detect w.img.src.chain then none else some f
      | none => none }

/-- `copy = true`: the current test `maps_file`; `copy = false`: no copy at all (the pinned tree) -/
def materialize (copy : Bool) (w : World) : World :=
  materializeWith (if copy then mapsFile else fun _ => false) w

/-- `self.update_header()` (analyze.py:1009, mghformat.py:551) -/
def updateHeader (w : World) : World := { w with img := harmonise w.img }

/-- everything after `self.update_header()` in `AnalyzeImage.to_file_map` as it is NOW -/
def analyzeBody (t : Gen.Traits) (env : Env) (dt : DtReq) (fault : Fault) (w : World) : Res :=
  let h0 := w.img.hdr
  match applyOverride t dt h0 with
  | none => (some .headerData, w)
  | some h1 =>
      let c := mkCtx t env fault w h1
      tryFinally (runSteps c (coreBody c)) (fun w' => w'.setHdr (restore t h0 w'.img.hdr)) (w.setHdr h1)

/-- `AnalyzeImage.to_file_map` as it is NOW -/
def analyzeSave (t : Gen.Traits) (env : Env) (dt : DtReq) (fault : Fault) (w0 : World) : Res :=
  analyzeBody t env dt fault (updateHeader (materialize true w0))

/-- ORIGINAL control flow (pinned tree): `except WriterError: restore; raise` around the writer
    construction only, restore again at the very end; nothing on any other exception -/
def analyzeSaveOrig (t : Gen.Traits) (env : Env) (dt : DtReq) (fault : Fault) (w0 : World) : Res :=
  let w := updateHeader (materialize false w0)
  let h0 := w.img.hdr
  match applyOverride t dt h0 with
  | none => (some .headerData, w)
  | some h1 =>
      let c := mkCtx t env fault w h1
      let fin := fun (w' : World) => w'.setHdr (restore t h0 w'.img.hdr)
      match exec c .mkWriter (w.setHdr h1) with
      | (some e, w1) => (some e, if e = .writer then fin w1 else w1)
      | (none, w1) =>
          match runSteps c ((coreBody c).drop 1) w1 with
          | (some e, w2) => (some e, w2)
          | (none, w2) => (none, fin w2)

def World.setAlias (w : World) (a : Option Alias) : World := { w with img := { w.img with alias := a } }
def World.setDtype (w : World) (c : Nat) : World := w.setHdr { w.img.hdr with dtype := c }

/-- the `finally:` of `Nifti1Pair.to_file_map`: `super().set_data_dtype(hdr_dtype); self.set_data_dtype(img_dtype)` -/
def niftiRestore (t : Gen.Traits) (alias0 : Option Alias) (dtype0 : Nat) (w : World) : World :=
  let w1 := w.setDtype (rtCode t dtype0)
  match alias0 with
  | some a => w1.setAlias (some a)
  | none => (w1.setAlias none).setDtype (rtCode t dtype0)

/-- ORIGINAL `finally:` — `self.set_data_dtype(img_dtype)` only -/
def niftiRestoreOrig (t : Gen.Traits) (alias0 : Option Alias) (dtype0 : Nat) (w : World) : World :=
  match alias0 with
  | some a => w.setAlias (some a)
  | none => (w.setAlias none).setDtype (rtCode t dtype0)

/-- `Nifti1Pair.to_file_map` parameterised by the Analyze-level save and the cleanup -/
def niftiSaveWith (inner : World → Res) (cleanup : Option Alias → Nat → World → World)
    (t : Gen.Traits) (env : Env) (w : World) : Res :=
  let alias0 := w.img.alias
  let dtype0 := w.img.hdr.dtype
  match alias0 with
  | none => tryFinally inner (cleanup alias0 dtype0) w
  | some a =>
      -- get_data_dtype(finalize=True)
      match env.resolve a with
      | none => (some .value, w)
      | some c =>
          if c ∈ t.codes then tryFinally inner (cleanup alias0 dtype0) ((w.setAlias none).setDtype c)
          else (some .headerData, w.setAlias none)

def niftiSave (t : Gen.Traits) (env : Env) (dt : DtReq) (fault : Fault) (w : World) : Res :=
  niftiSaveWith (analyzeSave t env dt fault) (niftiRestore t) t env w

def niftiSaveOrig (t : Gen.Traits) (env : Env) (dt : DtReq) (fault : Fault) (w : World) : Res :=
  niftiSaveWith (analyzeSaveOrig t env dt fault) (niftiRestoreOrig t) t env w

/-- `with holder.get_prepare_fileobj('wb') as f: body` — the prepare happens before the block is
    entered; `__exit__` calls close_if_mine whether or not the body raised (an exception raised by
    the close replaces the one in flight) -/
def withOpened (c : Ctx) (f : File) (body : List Step) (w : World) : Res :=
  match runSteps c (prepare c.env f) w with
  | (none, w1) =>
      let r := runSteps c body w1
      let r2 := runSteps c (closeIfMine c.env f) r.2
      (match r2.1 with | some e => some e | none => r.1, r2.2)
  | r => r

/-- body of the `with file_map['mat'].get_prepare_fileobj(mode='wb') as mfobj:` block -/
def matBody (env : Env) (a : M4) : List Step :=
  [.emitMat a, .ios (env.mat.map fun n => ⟨.mat, .write n⟩)]

/-- `Spm99AnalyzeImage.to_file_map`: the Analyze save, then — unless the image has no affine — the
    `.mat` file -/
def spmSaveWith (inner : World → Res) (t : Gen.Traits) (env : Env) (fault : Fault) (w : World) : Res :=
  match inner w with
  | (none, w1) =>
      match w1.img.affine with
      | none => (none, w1)
      | some a => withOpened (mkCtx t env fault w1 w1.img.hdr) .mat (matBody env a) w1
  | r => r

def spmSave (t : Gen.Traits) (env : Env) (dt : DtReq) (fault : Fault) (w : World) : Res :=
  spmSaveWith (analyzeSave t env dt fault) t env fault w

/-- body of the `with file_map['image'].get_prepare_fileobj('wb') as mghf:` block:
    writehdr_to (seek 0, write), _write_data (array_to_file with offset → seek_tell without write0),
    writeftr_to (seek footer offset, write) -/
def mghBody (c : Ctx) : List Step :=
  [.emitHdr .image, .ios [⟨.image, .seek 0⟩, ⟨.image, .write c.t.sizeofHdr⟩],
   .seekTell .image false, .emitData .image, .ios (dataCalls c .image),
   .ios (⟨.image, .seek (c.t.singleVoxOffset + c.went.nWrites * c.went.wBytes)⟩ ::
          c.env.mat.map fun n => ⟨.image, .write n⟩),
   .emitTrailer .image]

def mghCtx (t : Gen.Traits) (env : Env) (fault : Fault) (w : World) : Ctx :=
  { mkCtx t env fault w w.img.hdr with scaleMe := false }

/-- `MGHImage.to_file_map` (no dtype parameter: passing one is a TypeError) -/
def mghSave (t : Gen.Traits) (env : Env) (dt : DtReq) (fault : Fault) (w0 : World) : Res :=
  if dt ≠ .none then (some .type, w0) else
  let w := updateHeader (materialize true w0)
  match withOpened (mghCtx t env fault w) .image (mghBody (mghCtx t env fault w)) w with
  | (none, w1) => runSteps (mghCtx t env fault w) [.bindHeader, .bindFileMap] w1
  | r => r

/-- `Cifti2Image.to_file_map`: a temporary `Nifti2Image(data, None, header, dtype=dtype)` — whose
    constructor COPIES the header, resets offset/slope/inter and applies `dtype` through
    `Nifti1Pair.set_data_dtype` (aliases allowed) — is saved; the CIFTI image itself is not touched and
    its file_map is never rebound.  (The normalisation of intent / pixdim / extension is idempotent and
    assumed done.) -/
def ciftiSave (env : Env) (dt : DtReq) (fault : Fault) (w0 : World) : Res :=
  let t := Gen.n2single
  let w := updateHeader w0      -- update_headers() + extension / intent / pixdim normalisation of the NIfTI header
  let h := { w.img.hdr with offset := 0, slope := none, inter := none }
  let inner0 : Core := { w.img with hdr := h, alias := none, affine := none, hdrObj := w.img.hdrObj + 1 }
  let inner : Option Core :=
    match dt with
    | .none => some inner0
    | .code c => if c ∈ t.codes then some { inner0 with hdr := { h with dtype := c } } else none
    | .alias a => some { inner0 with alias := some a }
    | .bad => none
  match inner with
  | none => (some .headerData, w)
  | some i =>
      let r := niftiSave t env .none fault { w with img := i }
      (r.1, { r.2 with img := { w.img with data := r.2.img.data }, bound := w.bound })

def saveWorld (cls : Cls) (env : Env) (dt : DtReq) (fault : Fault) (w : World) : Res :=
  match cls with
  | .analyze => analyzeSave cls.traits env dt fault w
  | .spm99 | .spm2 => spmSave cls.traits env dt fault w
  | .n1pair | .n1single | .n2pair | .n2single => niftiSave cls.traits env dt fault w
  | .mgh => mghSave cls.traits env dt fault w
  | .cifti2 => ciftiSave env dt fault w

/-- the ORIGINAL save of the pinned tree (Analyze / SPM core and NIfTI wrapper) -/
def saveWorldOrig (cls : Cls) (env : Env) (dt : DtReq) (fault : Fault) (w : World) : Res :=
  match cls with
  | .n1pair | .n1single | .n2pair | .n2single => niftiSaveOrig cls.traits env dt fault w
  | .spm99 | .spm2 => spmSaveWith (analyzeSaveOrig cls.traits env dt fault) cls.traits env fault w
  | .mgh => mghSave cls.traits env dt fault w
  | _ => analyzeSaveOrig cls.traits env dt fault w

structure SaveReq where
  dtype   : DtReq
  fileMap : Option Nat      -- `file_map=None` → the image's own
  fault   : Fault
  deriving Repr, DecidableEq, Inhabited

structure Outcome where
  err   : Option Err
  img   : Img
  calls : Nat
  log   : List IoCall       -- oldest first
  out   : List Chunk        -- oldest first
  deriving Repr, DecidableEq, Inhabited

def finish (img : Img) (target : Nat) (r : Res) : Outcome :=
  { err := r.1, img := { core := r.2.img, fileMap := if r.2.bound then target else img.fileMap },
    calls := r.2.calls, log := r.2.log.reverse, out := r.2.out.reverse }

/-- `img.to_file_map(file_map, dtype=…)` on a destination with the given fault -/
def save (cls : Cls) (env : Env) (req : SaveReq) (img : Img) : Outcome :=
  finish img (req.fileMap.getD img.fileMap) (saveWorld cls env req.dtype req.fault { img := img.core })

/-- `img.to_filename(name)` (filebasedimages.py:287-304): `self.file_map = filespec_to_file_map(name)` is
    executed FIRST and unconditionally, then `self.to_file_map()` — so, unlike `to_file_map(fm)`, a by-name
    save that fails leaves the image bound to the new names (`req.fileMap` = id of that new file_map) -/
def saveByName (cls : Cls) (env : Env) (req : SaveReq) (img : Img) : Outcome :=
  save cls env { req with fileMap := none } { img with fileMap := req.fileMap.getD img.fileMap }

def saveOrig (cls : Cls) (env : Env) (req : SaveReq) (img : Img) : Outcome :=
  finish img (req.fileMap.getD img.fileMap) (saveWorldOrig cls env req.dtype req.fault { img := img.core })

/-! ### histories -/

inductive Op where
  | save (env : Env) (req : SaveReq)
  | setDtype (c : Nat)        -- img.set_data_dtype(<numpy dtype whose code is c>)
  | setAlias (a : Alias)      -- img.set_data_dtype('compat' | 'smallest')

def Op.isSave : Op → Bool
  | .save _ _ => true
  | _ => false

/-- `img.set_data_dtype(dtype)`: NIfTI classes clear the alias first (also when the header then
    refuses the dtype), the others go straight to the header -/
def setDtypeOp (cls : Cls) (c : Nat) (k : Core) : Option Err × Core :=
  let k1 := if cls.isNifti then { k with alias := none } else k
  if c ∈ cls.traits.codes then (none, { k1 with hdr := { k1.hdr with dtype := c } }) else (some .headerData, k1)

def setAliasOp (cls : Cls) (a : Alias) (k : Core) : Option Err × Core :=
  if cls.isNifti then (none, { k with alias := some a }) else (some .headerData, k)

def step (cls : Cls) (img : Img) : Op → Option Err × Img
  | .save env req => let o := save cls env req img; (o.err, o.img)
  | .setDtype c => let r := setDtypeOp cls c img.core; (r.1, { img with core := r.2 })
  | .setAlias a => let r := setAliasOp cls a img.core; (r.1, { img with core := r.2 })

def run (cls : Cls) (img : Img) : List Op → Img
  | [] => img
  | op :: ops => run cls (step cls img op).2 ops

/-! ### the syntactic skeleton of the source this step machine is written for
    (compared by `skeleton_agrees` with the skeleton extracted from the working tree on every run) -/

/-- `analyzeSave`: `materialize true` (the copy, made whenever `maps_file(data)`, before any open), `updateHeader`,
    `applyOverride`, then `coreBody` inside `tryFinally … restore` — the four restores are the four fields of `restore` -/
def expectedSkelAnalyze : List (String × String) := [
  ("", "test maps_file(data)"),
  ("", "if(maps_file(data)): data = np.array(data)"),
  ("", "self.update_header()"),
  ("", "if(dtype is not None): hdr.set_data_dtype(dtype)"),
  ("try: ", "if(scale_me): arr_writer = make_array_writer(data, out_dtype, hdr.has_data_slope, hdr.has_data_intercept)"),
  ("try: ", "else(scale_me): arr_writer = ArrayWriter(data, out_dtype, check_scaling=False)"),
  ("try: ", "hdrf = hdr_fh.get_prepare_fileobj(mode='wb')"),
  ("try: ", "else(hdr_img_same): imgf = img_fh.get_prepare_fileobj(mode='wb')"),
  ("try: ", "if(scale_me): hdr.set_slope_inter(*get_slope_inter(arr_writer))"),
  ("try: ", "hdr.write_to(hdrf)"),
  ("try: ", "seek_tell(imgf, hdr.get_data_offset(), write0=True)"),
  ("try: ", "arr_writer.to_fileobj(imgf)"),
  ("try: ", "hdrf.close_if_mine()"),
  ("try: ", "if(not hdr_img_same): imgf.close_if_mine()"),
  ("try: ", "self._header = hdr"),
  ("try: ", "self.file_map = file_map"),
  ("finally: ", "hdr.set_data_offset(offset)"),
  ("finally: ", "hdr.set_data_dtype(data_dtype)"),
  ("finally: ", "if(hdr.has_data_slope): hdr['scl_slope'] = slope"),
  ("finally: ", "if(hdr.has_data_intercept): hdr['scl_inter'] = inter")]

/-- `niftiSaveWith`: alias finalisation, `tryFinally inner (niftiRestore …)` — header dtype first, then the alias -/
def expectedSkelNifti : List (String × String) := [
  ("", "self.get_data_dtype(finalize=True)"),
  ("try: ", "super().to_file_map(file_map, dtype)"),
  ("finally: ", "super().set_data_dtype(hdr_dtype)"),
  ("finally: ", "self.set_data_dtype(img_dtype)")]

/-- `spmSaveWith`: the Analyze save, `return` when the affine is None, `spmM` / `spmMat` (every product
    makes a NEW array: the only alias of `self._affine`, `M = mat`, is rebound before anything is written in place), `withOpened … matBody` -/
def expectedSkelSpm : List (String × String) := [
  ("", "super().to_file_map(file_map, dtype=dtype)"),
  ("", "ALIAS-OF-AFFINE mat = self._affine"),
  ("", "if(mat is None): return"),
  ("", "if(hdr.default_x_flip): M = np.dot(np.diag([-1, 1, 1, 1]), mat)"),
  ("", "else(hdr.default_x_flip): ALIAS-OF-AFFINE M = mat"),
  ("", "from_111[:3, 3] = -1"),
  ("", "M = np.dot(M, from_111)"),
  ("", "mat = np.dot(mat, from_111)"),
  ("", "with-enter file_map['mat'].get_prepare_fileobj(mode='wb') as mfobj"),
  ("", "with: sio.savemat(mfobj, {'M': M, 'mat': mat}, format='4')"),
  ("", "with-exit")]

/-- `mghSave`: `materialize true`, `updateHeader`, `withOpened … mghBody`, the two bindings -/
def expectedSkelMgh : List (String × String) := [
  ("", "test maps_file(data)"),
  ("", "if(maps_file(data)): data = np.array(data)"),
  ("", "self.update_header()"),
  ("", "with-enter file_map['image'].get_prepare_fileobj('wb') as mghf"),
  ("", "with: hdr.writehdr_to(mghf)"),
  ("", "with: self._write_data(mghf, data, hdr)"),
  ("", "with: hdr.writeftr_to(mghf)"),
  ("", "with-exit"),
  ("", "self._header = hdr"),
  ("", "self.file_map = file_map")]

/-- `ciftiSave`: `updateHeader` (update_headers + normalisation of the NIfTI header), a temporary Nifti2Image, its save -/
def expectedSkelCifti : List (String × String) := [
  ("", "self.update_headers()"),
  ("", "header.extensions = Nifti1Extensions((ext for ext in header.extensions if not isinstance(ext, Cifti2Extension)))"),
  ("", "header.extensions.append(extension)"),
  ("", "if(self._dataobj.shape != self.header.matrix.get_data_shape()): raise ValueError"),
  ("", "if(header.get_intent()[0] == 'none'): header.set_intent('NIFTI_INTENT_CONNECTIVITY_UNKNOWN')"),
  ("", "if(header['qform_code'] == 0): header['pixdim'][:4] = 1"),
  ("", "img = Nifti2Image(data, None, header, dtype=dtype)"),
  ("", "img.to_file_map(file_map or self.file_map)")]

/-- `mapsFile`: the loop over the owners, the two map classes, the two ways to the next owner -/
def expectedSkelMapsFile : List (String × String) := [
  ("", "while arr is not None"),
  ("", "while(arr is not None): if(isinstance(arr, (np.memmap, mmap.mmap))): return True"),
  ("", "while(arr is not None): if(isinstance(arr, memoryview)): arr = arr.obj"),
  ("", "while(arr is not None): else(isinstance(arr, memoryview)): arr = getattr(arr, 'base', None)"),
  ("", "return False")]

/-- `saveByName`: bind first, then `to_file_map()` -/
def expectedSkelToFilename : List (String × String) := [
  ("", "self.file_map = self.filespec_to_file_map(filename)"),
  ("", "self.to_file_map(**kwargs)")]

/-- canonical name of the event a step of the `try:` body stands for -/
def stepToken : Step → Option String
  | .mkWriter => some "mk_writer"
  | .openW _ => some "open"
  | .setSlopeInter => some "set_slope_inter"
  | .emitHdr _ => some "write_hdr"
  | .seekTell _ _ => some "seek_tell"
  | .emitData _ => some "write_data"
  | .ios [⟨_, .close⟩] => some "close"
  | .bindHeader => some "bind_header"
  | .bindFileMap => some "bind_file_map"
  | _ => none

/-- canonical name of a source token of the `try:` body of `AnalyzeImage.to_file_map` (the `else` alternative of
    the writer construction is the same step) -/
def srcToken : String × String → Option String
  | ("try: ", "if(scale_me): arr_writer = make_array_writer(data, out_dtype, hdr.has_data_slope, hdr.has_data_intercept)") => some "mk_writer"
  | ("try: ", "hdrf = hdr_fh.get_prepare_fileobj(mode='wb')") => some "open"
  | ("try: ", "else(hdr_img_same): imgf = img_fh.get_prepare_fileobj(mode='wb')") => some "open"
  | ("try: ", "if(scale_me): hdr.set_slope_inter(*get_slope_inter(arr_writer))") => some "set_slope_inter"
  | ("try: ", "hdr.write_to(hdrf)") => some "write_hdr"
  | ("try: ", "seek_tell(imgf, hdr.get_data_offset(), write0=True)") => some "seek_tell"
  | ("try: ", "arr_writer.to_fileobj(imgf)") => some "write_data"
  | ("try: ", "hdrf.close_if_mine()") => some "close"
  | ("try: ", "if(not hdr_img_same): imgf.close_if_mine()") => some "close"
  | ("try: ", "self._header = hdr") => some "bind_header"
  | ("try: ", "self.file_map = file_map") => some "bind_file_map"
  | _ => none

/-- a two-file class, files opened by name, scaling to be computed: every step of the body is present -/
def skelEnv : Env :=
  { owned := true, exts := [], mat := [], resolve := fun _ => none, writer := fun _ => ⟨true, none, none, 1, 1⟩ }
def skelCtx : Ctx :=
  { t := Gen.n1pair, env := skelEnv, fault := Fault.none, went := ⟨true, none, none, 1, 1⟩, scaleMe := true,
    hdrLocal := 0 }

/-- the source statements of the `finally:` block that `restore` models, field by field, in order -/
def restoreTokens : List String :=
  ["hdr.set_data_offset(offset)",                          -- offset := saved.offset
   "hdr.set_data_dtype(data_dtype)",                       -- dtype := rtCode saved.dtype
   "if(hdr.has_data_slope): hdr['scl_slope'] = slope",     -- slope := if hasSlope then saved.slope
   "if(hdr.has_data_intercept): hdr['scl_inter'] = inter"] -- inter := if hasInter then saved.inter

/-! ### compressed destinations: the gzip member header (RFC 1952) as CPython's `GzipFile._write_gzip_header`
    writes it, and the arguments nibabel passes (`DeterministicGzipFile`, openers.py:45-98).
    Bytes are `Nat`s < 256. The deflate body, CRC-32 and the file name → bytes encoding are external. -/

/-- the arguments of `gzip.GzipFile.__init__` that reach the header -/
structure GzSink where
  nameArg  : Option (List Nat)   -- `filename=` (none: taken from the file object's `.name`)
  objName  : List Nat            -- `.name` of the underlying file object (the path it was opened with)
  mtimeArg : Option Nat          -- `mtime=` (none: the clock is read when the header is written)
  level    : Nat
  deriving Repr, DecidableEq, Inhabited

/-- `os.path.basename` on bytes: what follows the last `/` (47) -/
def basename (p : List Nat) : List Nat :=
  p.foldl (fun acc b => if b = 47 then [] else acc ++ [b]) []

/-- `if fname.endswith(b'.gz'): fname = fname[:-3]` -/
def stripGz (n : List Nat) : List Nat :=
  if n.length ≥ 3 ∧ n.drop (n.length - 3) = [46, 103, 122] then n.take (n.length - 3) else n

def le32 (v : Nat) : List Nat := [v % 256, v / 256 % 256, v / 65536 % 256, v / 16777216 % 256]

/-- `GzipFile._write_gzip_header(compresslevel)` with the wall clock reading `clock` -/
def gzHeader (s : GzSink) (clock : Nat) : List Nat :=
  let fname := stripGz (basename (s.nameArg.getD s.objName))
  let xfl := if s.level = 9 then 2 else if s.level = 1 then 4 else 0
  [31, 139, 8, if fname.isEmpty then 0 else 8] ++ le32 (s.mtimeArg.getD clock) ++ [xfl, 255] ++
    (if fname.isEmpty then [] else fname ++ [0])

/-- the whole member: header, deflate stream, CRC-32 and size of the uncompressed data -/
def gzStream (deflate : Nat → List Nat → List Nat) (crc : List Nat → Nat) (s : GzSink) (clock : Nat)
    (data : List Nat) : List Nat :=
  gzHeader s clock ++ deflate s.level data ++ le32 (crc data) ++ le32 data.length

/-- what `Opener(path, 'wb')` builds for a `.gz` path: `DeterministicGzipFile(path, mode, level, mtime=0)`,
    which calls `GzipFile.__init__(filename='', …, fileobj=open(path, …), mtime=mtime)` -/
def nibSink (path : List Nat) (level : Nat) (mtime : Nat := Gen.gzOpenMtimeDefault) : GzSink :=
  { nameArg := some (if Gen.gzPassesPath then path else Gen.gzFilenameConst), objName := path,
    mtimeArg := if Gen.gzPassesMtime then some mtime else none, level := level }

/-- `gzip.GzipFile(path, 'wb', level)` / `gzip.open(path, 'wb', level)` — the sink nibabel does NOT use -/
def plainSink (path : List Nat) (level : Nat) : GzSink :=
  { nameArg := some path, objName := path, mtimeArg := none, level := level }

/-! ### the slice loop of `volumeutils._write_data` (volumeutils.py:778-802): does it ever store into the
    caller's (the image's) array? -/

/-- which branches of one iteration of the loop are taken; every combination is possible a priori -/
structure WFlags where
  preClips  : Bool   -- `pre_clips is not None`
  inCast    : Bool   -- `in_cast is not None`
  inter     : Bool   -- `inter != 0.0`
  slope     : Bool   -- `slope != 1.0`
  postClips : Bool   -- `post_clips is not None`
  nanFill   : Bool   -- `nan_fill is not None`
  anyNan    : Bool   -- `np.any(nans)`
  castOut   : Bool   -- `dslice.dtype != out_dtype`
  deriving Repr, DecidableEq, Inhabited

/-- `nan_need_copy = (pre_clips, in_cast, inter, slope, post_clips) == (None, None, 0, 1, None)` -/
def nanNeedCopy (f : WFlags) : Bool := !f.preClips && !f.inCast && !f.inter && !f.slope && !f.postClips

/-- one statement of the loop body, as far as memory sharing goes -/
inductive WStmt where
  | fresh (cond : Bool)    -- `if cond: dslice = <new array>` (np.clip, astype, arithmetic, copy): dslice no longer shares
  | store (cond : Bool)    -- `if cond: dslice[...] = …`: writes into whatever memory dslice has
  | read                   -- anything that only reads dslice (`np.isnan`, `tobytes`, `fileobj.write`)
  deriving Repr, DecidableEq, Inhabited

/-- the loop body in source order (the statements of `Gen.skelWriteData` from `for dslice in data` on); the
    transpose / squeeze / atleast_2d before the loop and the iteration itself only make VIEWS, so at the top of
    the body `dslice` shares memory with the caller's array -/
def sliceBody (f : WFlags) : List WStmt :=
  [.fresh f.preClips,                                   -- dslice = np.clip(dslice, *pre_clips)
   .fresh f.inCast,                                     -- dslice = dslice.astype(in_cast)
   .fresh f.inter,                                      -- dslice = dslice - inter
   .fresh f.slope,                                      -- dslice = dslice / slope
   .fresh f.postClips,                                  -- dslice = np.clip(np.rint(dslice), *post_clips)
   .read,                                               -- nans = np.isnan(dslice)
   .fresh (f.nanFill && f.anyNan && nanNeedCopy f),     -- if nan_need_copy: dslice = dslice.copy()
   .store (f.nanFill && f.anyNan),                      -- dslice[nans] = nan_fill
   .fresh f.castOut,                                    -- dslice = dslice.astype(out_dtype)
   .read]                                               -- fileobj.write(dslice.tobytes())

/-- run the body: (does dslice still share memory with the input, has the input been stored into) -/
def runSlice : List WStmt → Bool × Bool → Bool × Bool
  | [], st => st
  | .fresh c :: rest, (shared, hit) => runSlice rest (if c then false else shared, hit)
  | .store c :: rest, (shared, hit) => runSlice rest (shared, hit || (c && shared))
  | .read :: rest, st => runSlice rest st

def sliceLoopStoresIntoInput (f : WFlags) : Bool := (runSlice (sliceBody f) (true, false)).2

/-- the "optimised" loop of the seeded change class: gather with `np.ascontiguousarray` (no copy when the slice is
    already contiguous and of the working type: `contig`), then scale IN PLACE -/
def sliceBodyInplace (contig : Bool) (f : WFlags) : List WStmt :=
  [.fresh f.preClips, .fresh f.inCast, .fresh ((f.inter || f.slope) && !contig), .store f.inter, .store f.slope,
   .fresh f.postClips, .read, .fresh (f.nanFill && f.anyNan && nanNeedCopy f), .store (f.nanFill && f.anyNan),
   .fresh f.castOut, .read]

/-- the source of `_write_data` this body is written for (every statement, from the AST of volumeutils.py) -/
def expectedSkelWriteData : List (String × String) := [
  ("", "data = np.squeeze(data)"),
  ("", "if(data.ndim < 2): data = np.atleast_2d(data)"),
  ("", "else(data.ndim < 2): if(order == 'F'): data = data.T"),
  ("", "nan_need_copy = (pre_clips, in_cast, inter, slope, post_clips) == (None, None, 0, 1, None)"),
  ("", "for dslice in data"),
  ("", "for(dslice in data): if(pre_clips is not None): dslice = np.clip(dslice, *pre_clips)"),
  ("", "for(dslice in data): if(in_cast is not None): dslice = dslice.astype(in_cast)"),
  ("", "for(dslice in data): if(inter != 0.0): dslice = dslice - inter"),
  ("", "for(dslice in data): if(slope != 1.0): dslice = dslice / slope"),
  ("", "for(dslice in data): if(post_clips is not None): dslice = np.clip(np.rint(dslice), *post_clips)"),
  ("", "for(dslice in data): if(nan_fill is not None): nans = np.isnan(dslice)"),
  ("", "for(dslice in data): if(nan_fill is not None): test np.any(nans)"),
  ("", "for(dslice in data): if(nan_fill is not None): if(np.any(nans)): if(nan_need_copy): dslice = dslice.copy()"),
  ("", "for(dslice in data): if(nan_fill is not None): if(np.any(nans)): dslice[nans] = nan_fill"),
  ("", "for(dslice in data): if(dslice.dtype != out_dtype): dslice = dslice.astype(out_dtype)"),
  ("", "for(dslice in data): fileobj.write(dslice.tobytes())")]

end Nb.C07
