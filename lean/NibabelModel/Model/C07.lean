/-! Model/C07 — executable model (core Lean only; imports only NibabelModel.Basic.* / other Model files). -/
namespace Nb.C07

end Nb.C07
