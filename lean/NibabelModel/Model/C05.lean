/-
  Model/C05 — executable model of the code that rearranges or crops the voxel grid and must keep
  every voxel at its world position (core Lean only).

  Python source modelled (pinned tree, after the `fix:` commit 1bdf40c8 for `slice_affine`):
  * nibabel/spatialimages.py:380-462  SpatialFirstSlicer.__getitem__ / check_slicing / slice_affine
    (on `fileslice.canonical_slicers`, re-used from Model/C06);
  * nibabel/spatialimages.py:662-690  SpatialImage.as_reoriented;
  * nibabel/nifti1.py:2376-2405       Nifti1Pair.as_reoriented (dim_info remap);
  * nibabel/orientations.py           io_orientation (from the polar factor `R` onward: lines 72-91),
                                      ornt_transform, apply_orientation, inv_ornt_aff, ornt2axcodes,
                                      axcodes2ornt;
  * nibabel/funcs.py:180-215          as_closest_canonical (+ `_aff_is_diag` on integer affines).

  Conventions
  * a 4x4 affine with last row (0,0,0,1) is three rows `(a b c t)`; `Aff.comp A B` is `A.dot(B)`;
  * an array is identified with its *gather*: the result of an operation is an output shape plus a
    function `src` from output multi-indices to input multi-indices (the driver prints, for every
    output voxel in C order, the C-order element number of its source voxel; the harness fills the
    input with exactly those numbers);
  * external: `numpy.linalg.svd` inside `io_orientation` — the polar factor `R` is an input of the
    model, given as an integer matrix (the float entries scaled by a power of two, which is exact)
    together with the scaled `allclose` tolerance.
-/
import NibabelModel.Basic.PySlice
import NibabelModel.Model.C06
namespace Nb.C05
open Nb
open Nb.C06 (IdxItem Item Sel canonicalSlicers itemsSels outShape)

/-! ### affines -/

/-- one row `(a b c | t)` of a 3-D affine -/
structure Row (R : Type) where
  a : R
  b : R
  c : R
  t : R
  deriving Repr, DecidableEq, Inhabited

/-- rows 0..2 of a 4x4 affine whose last row is `(0 0 0 1)` -/
structure Aff (R : Type) where
  r0 : Row R
  r1 : Row R
  r2 : Row R
  deriving Repr, DecidableEq, Inhabited

section generic
variable {R : Type} [Add R] [Mul R]

def Row.apply (r : Row R) (x y z : R) : R := r.a * x + r.b * y + r.c * z + r.t

/-- `A @ (x, y, z, 1)` (first three components) -/
def Aff.apply (A : Aff R) (x y z : R) : R × R × R :=
  (A.r0.apply x y z, A.r1.apply x y z, A.r2.apply x y z)

/-- one row of `A.dot(B)` -/
def Row.comp (r : Row R) (B : Aff R) : Row R :=
  ⟨r.a * B.r0.a + r.b * B.r1.a + r.c * B.r2.a,
   r.a * B.r0.b + r.b * B.r1.b + r.c * B.r2.b,
   r.a * B.r0.c + r.b * B.r1.c + r.c * B.r2.c,
   r.a * B.r0.t + r.b * B.r1.t + r.c * B.r2.t + r.t⟩

/-- `A.dot(B)` for homogeneous 4x4 matrices -/
def Aff.comp (A B : Aff R) : Aff R := ⟨A.r0.comp B, A.r1.comp B, A.r2.comp B⟩

/-- `transform = eye(4); transform[i,i] = step_i; transform[i,3] = start_i` (slice_affine) -/
def scaleShift [OfNat R 0] (p0 p1 p2 s0 s1 s2 : R) : Aff R :=
  ⟨⟨p0, 0, 0, s0⟩, ⟨0, p1, 0, s1⟩, ⟨0, 0, p2, s2⟩⟩

end generic

def Aff.toList (A : Aff Int) : List Int :=
  [A.r0.a, A.r0.b, A.r0.c, A.r0.t, A.r1.a, A.r1.b, A.r1.c, A.r1.t, A.r2.a, A.r2.b, A.r2.c, A.r2.t]

inductive PyErr where
  | index        -- IndexError
  | value        -- ValueError
  | orientation  -- OrientationError
  deriving Repr, DecidableEq, Inhabited

/-! ### gathers: arrays as index maps -/

/-- all multi-indices of `shape` in C order -/
def allIdx : List Nat → List (List Nat)
  | [] => [[]]
  | n :: ns => (List.range n).flatMap (fun i => (allIdx ns).map (fun r => i :: r))

/-- C-order element number of `idx` in an array of shape `shape` -/
def ravelC (shape idx : List Nat) : Nat :=
  (shape.zip idx).foldl (fun acc p => acc * p.1 + p.2) 0

/-- source multi-index of output multi-index `j` under per-axis selectors (NumPy basic indexing) -/
def srcIdx : List Sel → List Nat → List Nat
  | [], _ => []
  | .one i :: r, j => i :: srcIdx r j
  | .many l :: r, j0 :: j => l.getD j0 0 :: srcIdx r j
  | .many _ :: r, [] => 0 :: srcIdx r []
  | .new :: r, _ :: j => srcIdx r j
  | .new :: r, [] => srcIdx r []

/-! ### SpatialFirstSlicer -/

/-- `start, _, step = s.indices(n)` → the 1-D map `j ↦ start + step*j` of `slice_affine` -/
def sliceAffine (A : Aff Int) (s0 s1 s2 : PySlice) (n0 n1 n2 : Nat) : Aff Int :=
  A.comp (scaleShift (s0.indices n0).2.2 (s1.indices n1).2.2 (s2.indices n2).2.2
                     (s0.indices n0).1 (s1.indices n1).1 (s2.indices n2).1)

/-- the pinned (pre-fix) logic: `step = s.step if s.step is not None else 1`, `start = s.start or 0` -/
def sliceAffineOrig (A : Aff Int) (s0 s1 s2 : PySlice) : Aff Int :=
  A.comp (scaleShift (s0.step.getD 1) (s1.step.getD 1) (s2.step.getD 1)
                     (s0.start.getD 0) (s1.start.getD 0) (s2.start.getD 0))

structure SliceOut where
  shape  : List Nat
  affine : Aff Int
  sels   : List Sel
  deriving Repr, DecidableEq

def itemZeroStep : Item → Bool
  | .slice s => s.step == some 0
  | _ => false

/-- `img.slicer[idx]` for an in-memory image of shape `shape` and affine `A`.
    check_slicing: canonical_slicers (ValueError → IndexError), first three canonical items must be
    slices; NumPy indexing (zero step → ValueError); empty result → IndexError; slice_affine. -/
def slicer (A : Aff Int) (shape : List Nat) (idx : List IdxItem) : Except PyErr SliceOut :=
  match canonicalSlicers idx shape with
  | .error _ => .error .index
  | .ok can =>
    match can, shape with
    | .slice s0 :: .slice s1 :: .slice s2 :: crest, n0 :: n1 :: n2 :: nrest =>
      match itemsSels crest nrest with
      | .error _ => .error .index
      | .ok rsels =>
        if can.any itemZeroStep then .error .value
        else
          let sels := Sel.many (s0.sel n0) :: Sel.many (s1.sel n1) :: Sel.many (s2.sel n2) :: rsels
          if (outShape sels).any (· == 0) then .error .index
          else .ok ⟨outShape sels, sliceAffine A s0 s1 s2 n0 n1 n2, sels⟩
    | _, _ => .error .index

/-- the data of the sliced image: source element number of every output voxel (C order) -/
def SliceOut.data (o : SliceOut) (inShape : List Nat) : List Nat :=
  (allIdx o.shape).map (fun j => ravelC inShape (srcIdx o.sels j))

/-! ### orientations -/

/-- an orientation without dropped axes: one row `(output axis, flip)` per input axis -/
abbrev Ornt := List (Nat × Int)
/-- orientation rows as `io_orientation`/`axcodes2ornt` return them: `none` = `[nan, nan]` -/
abbrev OrntN := List (Option (Nat × Int))

def OrntN.toOrnt (o : OrntN) : Option Ornt := o.mapM id

/-- rows are `(σ i, ±1)` with `σ` a permutation of `range n` -/
def Ornt.valid (o : Ornt) : Bool :=
  o.all (fun r => r.2 == 1 || r.2 == -1) &&
  (List.range o.length).all (fun k => (o.filter (fun r => r.1 == k)).length == 1)

/-- insert index `i` (key `keys[i]`) into a list of indices sorted by key, after equal keys (stable) -/
def insertByKey (key : Nat → Nat) (i : Nat) : List Nat → List Nat
  | [] => [i]
  | h :: t => if key i < key h then i :: h :: t else h :: insertByKey key i t

/-- `np.argsort(keys)` (stable; keys are distinct for valid orientations) -/
def argsort (keys : List Nat) : List Nat :=
  (List.range keys.length).foldl (fun acc i => insertByKey (fun k => keys.getD k 0) i acc) []

/-- shape of `apply_orientation(arr, ornt)`: flips keep the shape, then
    `transpose(full_transpose)` with `full_transpose[:n] = argsort(ornt[:,0])` -/
def applyOrntShape (shape : List Nat) (o : Ornt) : List Nat :=
  (argsort (o.map (·.1))).map (fun k => shape.getD k 0) ++ shape.drop o.length

/-- gather of `apply_orientation`: `out[j] = flipped[x]` with `x[perm[k]] = j[k]`, and
    `flipped[x] = arr[x']`, `x'_i = n_i - 1 - x_i` on flipped axes. -/
def applyOrntSrc (shape : List Nat) (o : Ornt) (j : List Nat) : List Nat :=
  let perm := argsort (o.map (·.1))
  let x := (List.range o.length).map (fun i => j.getD (perm.idxOf i) 0)
  let x' := (List.range o.length).map (fun i =>
    if (o.getD i (0, 1)).2 = -1 then shape.getD i 0 - 1 - x.getD i 0 else x.getD i 0)
  x' ++ j.drop o.length

/-- row `k` of `np.eye(4)`, `k < 3` -/
def unitRow (k : Nat) : Row Int :=
  ⟨if k = 0 then 1 else 0, if k = 1 then 1 else 0, if k = 2 then 1 else 0, 0⟩

/-- `(flip * center_trans) - center_trans` with `center_trans = -(n - 1) / 2.0`; the value is
    integral for `flip = ±1` (the only flips a valid orientation has), so it is computed as
    `(flip * c2 - c2) / 2` with `c2 = -(n - 1)`. -/
def flipTrans (n : Nat) (f : Int) : Int := (f * (-((n : Int) - 1)) - (-((n : Int) - 1))) / 2

/-- `inv_ornt_aff(ornt, shape)` for `p = 3`: `np.dot(undo_flip, undo_reorder)` -/
def invOrntAff (o : Ornt) (shape : List Nat) : Option (Aff Int) :=
  match o, shape with
  | [(a0, f0), (a1, f1), (a2, f2)], n0 :: n1 :: n2 :: _ =>
      let undoReorder : Aff Int := ⟨unitRow a0, unitRow a1, unitRow a2⟩
      let undoFlip : Aff Int := scaleShift f0 f1 f2 (flipTrans n0 f0) (flipTrans n1 f1) (flipTrans n2 f2)
      some (undoFlip.comp undoReorder)
  | _, _ => none

def identityOrnt : Ornt := [(0, 1), (1, 1), (2, 1)]

/-- `(freq, phase, slice)` of `header.get_dim_info()` -/
abbrev DimInfo := List (Option Nat)

/-- nifti1 `as_reoriented`: `None if d is None else int(ornt[d, 0])` -/
def dimInfoReorient (o : Ornt) (d : DimInfo) : DimInfo :=
  d.map (fun x => x.map (fun k => (o.getD k (0, 1)).1))

structure ReorOut where
  same    : Bool              -- `return self`
  shape   : List Nat
  affine  : Aff Int
  ornt    : Ornt              -- the orientation applied (gather = `applyOrntSrc inShape ornt`)
  dimInfo : DimInfo
  deriving Repr, DecidableEq

/-- `Nifti1Image.as_reoriented(ornt)` for a 3-row orientation (valid rows or NaN rows) -/
def asReoriented (A : Aff Int) (shape : List Nat) (d : DimInfo) (o : OrntN) : Except PyErr ReorOut :=
  match o.toOrnt with
  | none => .error .orientation          -- apply_orientation: NaN in ornt[:,0]
  | some oo =>
    if oo = identityOrnt then .ok ⟨true, shape, A, oo, d⟩
    else if shape.length < oo.length then .error .orientation
    else match invOrntAff oo shape with
      | none => .error .value
      | some inv => .ok ⟨false, applyOrntShape shape oo, A.comp inv, oo, dimInfoReorient oo d⟩

/-- source voxel (in the input image) of output voxel `j` -/
def ReorOut.src (r : ReorOut) (inShape : List Nat) (j : List Nat) : List Nat :=
  if r.same then j else applyOrntSrc inShape r.ornt j

def ReorOut.data (r : ReorOut) (inShape : List Nat) : List Nat :=
  (allIdx r.shape).map (fun j => ravelC inShape (r.src inShape j))

/-! ### ornt_transform, axis codes -/

/-- index of the first row of `start` whose output axis is `k` -/
def findOut (start : Ornt) (k : Nat) : Option Nat :=
  let i := (start.map (·.1)).idxOf k
  if i < start.length then some i else none

/-- the double loop of `ornt_transform`; `res` is the `np.empty_like` buffer (`none` = never written) -/
def orntTransformLoop (start : Ornt) : List (Nat × Int) → Nat → OrntN → Except PyErr OrntN
  | [], _, res => .ok res
  | (endOut, endFlip) :: rest, endIn, res =>
    match findOut start endOut with
    | none => .error .value
    | some si =>
      let flip : Int := if (start.getD si (0, 1)).2 = endFlip then 1 else -1
      orntTransformLoop start rest (endIn + 1) (res.set si (some (endIn, flip)))

def orntTransform (start end_ : Ornt) : Except PyErr OrntN :=
  if start.length ≠ end_.length then .error .value
  else orntTransformLoop start end_ 0 (List.replicate start.length none)

/-- default labels `(('L','R'),('P','A'),('I','S'))` -/
def labels : List (Char × Char) := [('L', 'R'), ('P', 'A'), ('I', 'S')]

/-- `ornt2axcodes(ornt)`; `none` code = Python `None` (dropped axis) -/
def ornt2axcodes : OrntN → Except PyErr (List (Option Char))
  | [] => .ok []
  | none :: rest => do
      let r ← ornt2axcodes rest
      pure (none :: r)
  | some (ax, dir) :: rest =>
      if dir = 1 then
        match labels[ax]? with
        | none => .error .index
        | some (_, pos) => do
          let r ← ornt2axcodes rest
          pure (some pos :: r)
      else if dir = -1 then
        match labels[ax]? with
        | none => .error .index
        | some (neg, _) => do
          let r ← ornt2axcodes rest
          pure (some neg :: r)
      else .error .value

/-- inner loop of `axcodes2ornt` for one code -/
def codeRow (code : Char) : List (Char × Char) → Nat → Option (Nat × Int)
  | [], _ => none
  | (neg, pos) :: rest, k =>
      if code = neg then some (k, -1)
      else if code = pos then some (k, 1)
      else codeRow code rest (k + 1)

/-- `axcodes2ornt(axcodes)` -/
def axcodes2ornt (codes : List (Option Char)) : Except PyErr OrntN :=
  if codes.all (fun c => match c with
      | none => true
      | some ch => labels.any (fun l => l.1 == ch || l.2 == ch)) then
    .ok (codes.map (fun c => match c with
      | none => none
      | some ch => codeRow ch labels 0))
  else .error .value

/-! ### io_orientation from the polar factor onward -/

def colOf (R : List (List Int)) (c : Nat) : List Int := R.map (fun row => row.getD c 0)

/-- `np.argmax(np.abs(col))`: first index of the largest absolute value;
    `best`/`bi` = running maximum and its index, `i` = current index -/
def argmaxAbsAux : List Int → Nat → Nat → Nat → Nat
  | [], _, _, bi => bi
  | x :: xs, i, best, bi =>
      if best < x.natAbs then argmaxAbsAux xs (i + 1) x.natAbs i
      else argmaxAbsAux xs (i + 1) best bi

def argmaxAbs : List Int → Nat
  | [] => 0
  | x :: xs => argmaxAbsAux xs 1 x.natAbs 0

/-- `R[out_ax, :] = 0` -/
def zeroRow (R : List (List Int)) (r : Nat) : List (List Int) :=
  R.set r ((R.getD r []).map (fun _ => 0))

/-- the loop `for in_ax in range(p)` of `io_orientation` (orientations.py:80-91);
    `np.allclose(col, 0)` ⇔ every `|x| ≤ tol` (tol = the scaled `atol`) -/
def ioGreedy (tol : Nat) : List Nat → List (List Int) → OrntN
  | [], _ => []
  | c :: cs, R =>
      let col := colOf R c
      if col.all (fun x => x.natAbs ≤ tol) then none :: ioGreedy tol cs R
      else
        let r := argmaxAbs col
        some (r, if col.getD r 0 < 0 then -1 else 1) :: ioGreedy tol cs (zeroRow R r)

/-- `io_orientation` given the polar factor `R` (q rows, p columns) -/
def ioOrientation (R : List (List Int)) (p : Nat) (tol : Nat) : OrntN :=
  ioGreedy tol (List.range p) R

/-- `_aff_is_diag` on an integer affine: `np.allclose(rzs, diag(diag(rzs)))` ⇔ off-diagonal = 0 -/
def affIsDiag (A : Aff Int) : Bool :=
  A.r0.b == 0 && A.r0.c == 0 && A.r1.a == 0 && A.r1.c == 0 && A.r2.a == 0 && A.r2.b == 0

/-- `as_closest_canonical(img, enforce_diag)` with the polar factor of `img.affine` supplied -/
def asClosestCanonical (A : Aff Int) (shape : List Nat) (d : DimInfo) (R : List (List Int)) (tol : Nat)
    (enforceDiag : Bool) : Except PyErr (OrntN × ReorOut) :=
  let o := ioOrientation R 3 tol
  match asReoriented A shape d o with
  | .error e => .error e
  | .ok r => if enforceDiag && !affIsDiag r.affine then .error .orientation else .ok (o, r)

/-! ### image state: the data object versus the `get_fdata` cache

  nibabel/dataobj_images.py:226-417 (`get_fdata`, `uncache`) and the three operations of this
  property, which take the voxels from `self.dataobj` (spatialimages.py `__getitem__`:
  `self.img.dataobj[slicer]`; `as_reoriented`: `np.asanyarray(self.dataobj)`) — WHERE an operation
  reads its voxels is a parameter `Src` of the model (the property holds for `Src.dataobj` and fails
  for `Src.cache`); which of the two the code of this run uses is regenerated from the AST
  (`srcOfAttrs` on Generated/C05.lean).

  The model is generic in the type `α` of voxel values.  `cast dt v` is the rendering of value `v` in
  floating dtype `dt` (IEEE rounding: EXTERNAL, a parameter — the theorems hold for every `cast`).
  A caller can change the data object only through an array that IS the data object:
  `np.asanyarray(self._dataobj, dtype=dt)` returns the array itself exactly when the image is an
  array image whose array already has the (native) floating dtype `dt`; a proxy always reads a fresh
  array from the file.  An in-place edit of the array returned by `get_fdata` is an ARBITRARY
  function on its contents (permutation, overwrite, ...). -/

/-- floating dtypes `get_fdata(dtype=...)` is called with -/
inductive FD where
  | f2 | f4 | f8
  deriving Repr, DecidableEq, Inhabited

/-- where an operation takes the voxel values from -/
inductive Src where
  | dataobj      -- `self.dataobj` / `self.img.dataobj`
  | cache        -- the `get_fdata` cache when it is filled (whatever its dtype), else the data object
  deriving Repr, DecidableEq, Inhabited

/-- `self._fdata_cache`: its dtype, its contents, and whether the cached array is the data object itself -/
structure FCache (α : Type) where
  dt    : FD
  vals  : List α
  alias : Bool
  deriving Repr, DecidableEq

structure ImgSt (α : Type) where
  proxy : Bool               -- `is_proxy(self._dataobj)`
  arrFD : Option FD          -- array images: the floating dtype of the array, if it has a native one
  data  : List α             -- contents of the data object (what `np.asanyarray(img.dataobj)` gives), C order
  cache : Option (FCache α)
  deriving Repr, DecidableEq

/-- the calls a user makes on an image before the operation under test -/
inductive HStep (α : Type) where
  /-- `a = img.get_fdata(dtype=dt, caching='fill'|'unchanged')`, then optionally `a[...] = edit(a)` in place -/
  | getFdata (dt : FD) (fill : Bool) (edit : Option (List α → List α))
  /-- `img.uncache()` -/
  | uncache

/-- apply an optional in-place edit -/
def applyEdit {α : Type} : Option (List α → List α) → List α → List α
  | none, l => l
  | some e, l => e l

/-- a fresh image whose data object holds `range n` (element numbers, as the driver prints them) -/
def ImgSt.init (proxy : Bool) (arrFD : Option FD) (n : Nat) : ImgSt Nat := ⟨proxy, arrFD, List.range n, none⟩

section imgst
variable {α : Type}

/-- does `np.asanyarray(self._dataobj, dtype=dt)` return the data object itself? -/
def ImgSt.aliases (s : ImgSt α) (dt : FD) : Bool := !s.proxy && s.arrFD == some dt

/-- dataobj_images.py:373-376: cache miss — `data = np.asanyarray(self._dataobj, dtype=dtype)`;
    `if caching == 'fill': self._fdata_cache = data`; the caller may then edit `data` -/
def ImgSt.fresh (cast : FD → α → α) (s : ImgSt α) (dt : FD) (fill : Bool) (edit : Option (List α → List α)) :
    ImgSt α :=
  let al := s.aliases dt
  let arr := applyEdit edit (if al then s.data else s.data.map (cast dt))
  { s with data := if al then arr else s.data,
           cache := if fill then some ⟨dt, arr, al⟩ else s.cache }

/-- `a = img.get_fdata(dtype=dt, caching=...)` (dataobj_images.py:363-376), then optionally the edit -/
def ImgSt.getFdata (cast : FD → α → α) (s : ImgSt α) (dt : FD) (fill : Bool) (edit : Option (List α → List α)) :
    ImgSt α :=
  match s.cache with
  | some c =>
    if c.dt = dt then          -- dataobj_images.py:367-369: the cache array itself is returned
      { s with cache := some { c with vals := applyEdit edit c.vals },
               data := if c.alias then applyEdit edit c.vals else s.data }
    else s.fresh cast dt fill edit
  | none => s.fresh cast dt fill edit

def ImgSt.step (cast : FD → α → α) (s : ImgSt α) : HStep α → ImgSt α
  | .uncache => { s with cache := none }
  | .getFdata dt fill edit => s.getFdata cast dt fill edit

def ImgSt.run (cast : FD → α → α) (s : ImgSt α) (h : List (HStep α)) : ImgSt α := h.foldl (ImgSt.step cast) s

/-- the array an operation reading from `src` sees -/
def ImgSt.source (s : ImgSt α) : Src → List α
  | .dataobj => s.data
  | .cache => match s.cache with
    | some c => c.vals
    | none => s.data

/-- the voxel values an operation with gather `srcs` (source element number of every output voxel)
    produces on an image in state `s` when it reads its voxels from `src` -/
def ImgSt.values [Inhabited α] (src : Src) (s : ImgSt α) (srcs : List Nat) : List α :=
  srcs.map (fun k => (s.source src).getD k default)

/-- what the data object holds after a history, computed WITHOUT any cache bookkeeping and without any
    cast: only an edit of `get_fdata(dtype=dt)` on an array image whose array has dtype `dt` reaches
    the data -/
def dataSpec (proxy : Bool) (arrFD : Option FD) : List (HStep α) → List α → List α
  | [], d => d
  | .getFdata dt _ edit :: r, d => dataSpec proxy arrFD r (if !proxy && arrFD == some dt then applyEdit edit d else d)
  | .uncache :: r, d => dataSpec proxy arrFD r d

/-- cache bookkeeping invariant: a cache is flagged as the data object exactly when its dtype is the
    array's own, and then its contents are the data object's -/
def ImgSt.WF (s : ImgSt α) : Prop :=
  ∀ c, s.cache = some c → c.alias = s.aliases c.dt ∧ (c.alias = true → c.vals = s.data)

/-- an edit that only rearranges / duplicates / drops values already in the array -/
def HStep.Rearranges : HStep α → Prop
  | .getFdata _ _ (some e) => ∀ l x, x ∈ e l → x ∈ l
  | _ => True

end imgst

/-- number of elements of an array of shape `shape` -/
def prodN : List Nat → Nat
  | [] => 1
  | n :: ns => n * prodN ns

/-- names through which the cached floating-point rendering of an image's data is reached
    (dataobj_images.py) -/
def cacheNames : List String := ["_fdata_cache", "_data_cache", "get_fdata", "get_data", "in_memory", "uncache"]

/-- the value source of a function, from the attribute names it touches on the image (regenerated from the
    AST on every run): any cache accessor → `cache`; else `dataobj` if it reads `dataobj`; else unknown -/
def srcOfAttrs (attrs : List String) : Option Src :=
  if attrs.any (fun a => cacheNames.contains a) then some .cache
  else if attrs.contains "dataobj" then some .dataobj
  else none

/-- IEEE round-to-nearest-even of an integer to a floating format with `p` significand bits (exponent
    range ignored): the concrete `cast` used by the counterexample for `Src.cache` -/
def roundBits (p : Nat) (v : Int) : Int :=
  let a := v.natAbs
  if a < 2 ^ p then v else
    let e := a.log2 + 1 - p
    let q := a / 2 ^ e
    let r := a % 2 ^ e
    let q' := if r > 2 ^ (e - 1) || (r == 2 ^ (e - 1) && q % 2 == 1) then q + 1 else q
    (if v < 0 then -1 else 1) * ((q' * 2 ^ e : Nat) : Int)

def castInt : FD → Int → Int
  | .f2 => roundBits 11
  | .f4 => roundBits 24
  | .f8 => roundBits 53

/-- the 48 signed permutations of three axes -/
def allOrnts3 : List Ornt :=
  [[0, 1, 2], [0, 2, 1], [1, 0, 2], [1, 2, 0], [2, 0, 1], [2, 1, 0]].flatMap (fun (p : List Nat) =>
    [[1, 1, 1], [1, 1, -1], [1, -1, 1], [1, -1, -1], [-1, 1, 1], [-1, 1, -1], [-1, -1, 1], [-1, -1, -1]].map
      (fun (f : List Int) => p.zip f))

end Nb.C05
