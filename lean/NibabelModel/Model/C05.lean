/-! Model/C05 — executable model (core Lean only; imports only NibabelModel.Basic.* / other Model files). -/
namespace Nb.C05

end Nb.C05
