/-
  Model/C11 — executable model of the NIfTI header-extension code path (core Lean only).

  Python source modelled (nibabel/nifti1.py of the working tree, after the `fix:` commit
  "Nifti1Extensions.from_fileobj stops at a zero-size record"):

  * `NiftiExtension.get_sizeondisk`            (460-464)  — NOT hand-written: `Nb.Gen.C11.getSizeondisk`,
                                                            regenerated from the function's AST on every run
  * the one-line integer rules of reader and writer — loop condition, zero-size stop, read count, content-length
    check, `size -= esize`, `extsize`, `min_vox_offset`, the three offset tests, `pad` — are NOT hand-written
    either: `Nb.Gen.C11.{readLoopCond, zeroSizeStops, readCount, contentLenOk, sizeAfter, extSize, minVoxOffset,
    offsetUnset, offsetTooSmall, storedBelow, padBytes}` (regen() checks the shape of the surrounding statements);
    they are unfolded only in Lemmas/C11 `gen rules` section
  * `NiftiExtension.write_to`                  (466-495)  — `serializeExt`
  * `Nifti1Extensions.get_sizeondisk/write_to` (701-725)  — `totalSize`, `serializeExts`
  * `Nifti1Extensions.from_fileobj`            (727-795)  — `parseExtsAux` / `parseExts` (and `parseExtsOrig`,
                                                            the pinned logic without the zero-size stop)
  * `Nifti1Header.from_fileobj`                (859-878)  — `readExtsAfter`
  * `Nifti1Header.write_to`                    (880-901)  — `writeSingle` / `writePair`
  * `Nifti1Header._chk_offset`                 (1907-1930)— `chkOffset` (level 40 finding = error on load;
                                                            the level-30 "not divisible by 16" finding is only logged)
  * `AnalyzeImage.to_file_map` (analyze.py 1041-1047): header, then `seek_tell(imgf, offset)`, then the data
                                                          — `writeAt`
  * constants of `Nifti1Header` / `Nifti2Header` (nifti1.py 836-838, nifti2.py 132-142) — `Nb.Gen.C11.*`

  Abstractions (see ASSUMPTIONS in harness/props/c11.py):
  * bytes are `Nat`s (the driver only ever feeds values < 256; no theorem needs the bound for content bytes);
  * the fixed-size header block is reduced to the value of its `vox_offset` field and the byte order; a file
    that carries a header is `HFile` = (vox_offset, all bytes AFTER the header block), so the byte at absolute
    file position `p ≥ hdrSize` is `after[p - hdrSize]`;
  * voxel data are an opaque, non-empty byte string written at the data offset;
  * `np.array((rawsize, code), dtype=np.int32)` is a range check (`OverflowError` outside int32);
  * `esize % 16 ≠ 0` only produces a warning in the real code and has no counterpart here;
  * the `vox_offset` FIELD is modelled with its precision: `Fmt.offRepr` (float32 rounding for NIfTI-1, exact
    for the int64 field of NIfTI-2; which one is regenerated from the header dtype).
-/
import NibabelModel.Generated.C11
namespace Nb.C11

inductive Endian where
  | le | be
  deriving Repr, DecidableEq, Inhabited

inductive Err where
  | headerData   -- HeaderDataError
  | overflow     -- OverflowError (int32 conversion of esize / ecode)
  | value        -- ValueError: `bytes(pad)` with a negative pad
  | short        -- the data region is not completely present in the file
  | unmodelled   -- outside the modelled domain (data offset inside the header block)
  | fuel         -- unreachable: recursion budget of the reader exhausted
  deriving Repr, DecidableEq, Inhabited

/-- one header extension as the property sees it: integer code and raw content bytes -/
structure Ext where
  code : Int
  content : List Nat
  deriving Repr, DecidableEq, Inhabited

/-! ### int32 codec (NumPy `int32`, little or big endian, two's complement) -/

def inInt32 (v : Int) : Prop := -2147483648 ≤ v ∧ v < 2147483648

instance (v : Int) : Decidable (inInt32 v) :=
  inferInstanceAs (Decidable (-2147483648 ≤ v ∧ v < 2147483648))

def toU32 (v : Int) : Nat := (v % 4294967296).toNat

def ofU32 (u : Nat) : Int := if u < 2147483648 then (u : Int) else (u : Int) - 4294967296

def encI32 (e : Endian) (v : Int) : List Nat :=
  let u := toU32 v
  match e with
  | .le => [u % 256, u / 256 % 256, u / 65536 % 256, u / 16777216 % 256]
  | .be => [u / 16777216 % 256, u / 65536 % 256, u / 256 % 256, u % 256]

def decI32 (e : Endian) (b0 b1 b2 b3 : Nat) : Int :=
  match e with
  | .le => ofU32 (b0 + 256 * b1 + 65536 * b2 + 16777216 * b3)
  | .be => ofU32 (b3 + 256 * b2 + 65536 * b1 + 16777216 * b0)

/-! ### writer: `get_sizeondisk`, `NiftiExtension.write_to`, `Nifti1Extensions.write_to` -/

def zeros (k : Nat) : List Nat := List.replicate k 0

/-- `NiftiExtension.get_sizeondisk` for `n` content bytes (generated expression) -/
def sizeOnDisk (n : Nat) : Int := Nb.Gen.C11.getSizeondisk (n : Int)

/-- `Nifti1Extensions.get_sizeondisk` -/
def totalSize : List Ext → Int
  | [] => 0
  | x :: xs => sizeOnDisk x.content.length + totalSize xs

/-- `NiftiExtension.write_to` (nifti1.py 482-495): esize, ecode as int32 in the header's byte order, the raw
    content, then `pad = extstart + rawsize - tell()` zero bytes. -/
def serializeExt (e : Endian) (x : Ext) : Except Err (List Nat) :=
  let n := x.content.length
  let rawsize := sizeOnDisk n
  if ¬ (inInt32 rawsize ∧ inInt32 x.code) then .error .overflow
  else
    -- `pad = extstart + rawsize - fileobj.tell()` (generated) with the record starting at position 0 of the model
    let pad : Int := Nb.Gen.C11.padBytes 0 rawsize (8 + (n : Int))
    if pad < 0 then .error .value
    else .ok (encI32 e rawsize ++ encI32 e x.code ++ x.content ++ zeros pad.toNat)

/-- `Nifti1Extensions.write_to`: the records one after the other (the first failing record raises) -/
def serializeStep (e : Endian) (x : Ext) (acc : Except Err (List Nat)) : Except Err (List Nat) :=
  serializeExt e x >>= fun a => acc.map (a ++ ·)

def serializeExts (e : Endian) (xs : List Ext) : Except Err (List Nat) :=
  xs.foldr (serializeStep e) (.ok [])

/-! ### reader: `Nifti1Extensions.from_fileobj` -/

/-- `bytes.rstrip(b'\x00')` -/
def rstripNul (l : List Nat) : List Nat := (l.reverse.dropWhile (· == 0)).reverse

def Ext.strip (x : Ext) : Ext := ⟨x.code, rstripNul x.content⟩

/-- `Nifti1Extensions.from_fileobj(fileobj, size, byteswap)`; `bs` = the bytes from the current file position to
    the end of the file, `size` as passed (negative = read to the end).  `stopAtZero = true` is the repaired
    logic (a zero esize ends the list), `false` the pinned logic.  One unit of `fuel` per loop iteration; every
    iteration that continues consumes at least 8 bytes, so `bs.length + 1` is always enough. -/
def parseExtsAux (stopAtZero : Bool) (e : Endian) : Nat → List Nat → Int → Except Err (List Ext)
  | 0, _, _ => .error .fuel
  | fuel + 1, bs, size =>
    if Nb.Gen.C11.readLoopCond size = true then         -- while size >= 16 or size < 0   (generated)
      match bs.take 8 with                               -- ext_def = fileobj.read(8)
      | [] => if size < 0 then .ok [] else .error .headerData
      | [b0, b1, b2, b3, b4, b5, b6, b7] =>
          let esize := decI32 e b0 b1 b2 b3
          let ecode := decI32 e b4 b5 b6 b7
          if stopAtZero = true ∧ Nb.Gen.C11.zeroSizeStops esize = true then .ok []   -- if esize == 0: break
          else
            let rest := bs.drop 8
            let want : Int := Nb.Gen.C11.readCount esize
            -- fileobj.read(int(esize - 8)): a negative count reads everything that is left
            let ev := if want < 0 then rest else rest.take want.toNat
            if ¬ (Nb.Gen.C11.contentLenOk (ev.length : Int) esize = true) then .error .headerData
            else
              (parseExtsAux stopAtZero e fuel (rest.drop want.toNat) (Nb.Gen.C11.sizeAfter size esize)).map
                (⟨ecode, rstripNul ev⟩ :: ·)
      | _ => .error .headerData                          -- 1..7 bytes: 'failed to read extension header'
    else .ok []

def parseExts (e : Endian) (bs : List Nat) (size : Int) : Except Err (List Ext) :=
  parseExtsAux true e (bs.length + 1) bs size

/-- the reader of the pinned tree (before the fix) -/
def parseExtsOrig (e : Endian) (bs : List Nat) (size : Int) : Except Err (List Ext) :=
  parseExtsAux false e (bs.length + 1) bs size

/-! ### formats -/

structure Fmt where
  hdrSize : Nat      -- `template_dtype.itemsize`: the fixed header block read / written
  sizeofHdr : Nat    -- `sizeof_hdr`
  singleOff : Nat    -- `single_vox_offset`
  pairOff : Nat      -- `pair_vox_offset`
  voxF32 : Bool      -- the `vox_offset` field of the header dtype is IEEE float32 (NIfTI-1) / an int64 (NIfTI-2)
  deriving Repr, DecidableEq

def nifti1 : Fmt := ⟨Nb.Gen.C11.nifti1_hdr_itemsize, Nb.Gen.C11.nifti1_sizeof_hdr,
                     Nb.Gen.C11.nifti1_single_vox_offset, Nb.Gen.C11.nifti1_pair_vox_offset,
                     Nb.Gen.C11.nifti1_vox_offset_is_f32⟩
def nifti2 : Fmt := ⟨Nb.Gen.C11.nifti2_hdr_itemsize, Nb.Gen.C11.nifti2_sizeof_hdr,
                     Nb.Gen.C11.nifti2_single_vox_offset, Nb.Gen.C11.nifti2_pair_vox_offset,
                     Nb.Gen.C11.nifti2_vox_offset_is_f32⟩

/-! ### what the `vox_offset` FIELD can hold

  `hdr['vox_offset'] = v` stores `v` in the field's dtype.  NIfTI-1: float32 — a natural number is rounded to
  the nearest value with a 24-bit significand, ties to even (IEEE 754 round-to-nearest-even; NumPy's
  int → float32 conversion for values below 2^53, where the detour through float64 is exact; larger values are
  outside the model).  NIfTI-2: int64 — exact
  (values ≥ 2^63 are outside the model).  Everything that later uses the offset (`write_to`'s check, the seek of
  `to_file_map`, `from_fileobj`'s `extsize`, `dataobj.offset`) sees the STORED value. -/

/-- smallest `k` with `n / 2^k < 2^24` (`fuel ≥ log2 n` suffices; `fuel = n` is used) -/
def f32exp : Nat → Nat → Nat
  | 0, _ => 0
  | fuel + 1, n => if n < 16777216 then 0 else f32exp fuel (n / 2) + 1

/-- `int(np.float32(n))` for a natural number `n < 2^128`: with `P = 2^k` the spacing of float32 values in
    the binade of `n`, the multiple of `P` below `n` or the next one (nearest, ties to the even multiple) -/
def f32round (n : Nat) : Nat :=
  let P := 2 ^ f32exp n n
  let r := n % P
  let s := n - r
  if 2 * r > P ∨ (2 * r = P ∧ (n / P) % 2 = 1) then s + P else s

/-- `int(np.nextafter(np.float32(s), np.float32(inf)))` for a float32 value `s ≥ 2^24`: one spacing up -/
def f32next (s : Nat) : Nat := s + 2 ^ f32exp s s

/-- the value read back from the `vox_offset` field after `n` was assigned to it -/
def Fmt.offRepr (fmt : Fmt) (n : Nat) : Nat := if fmt.voxF32 then f32round n else n

/-- `np.nextafter(stored, +inf)` in the field's dtype.  Only ever applied to a stored value that is below the
    value assigned, which cannot happen for the exact int64 field (that branch is unreachable). -/
def Fmt.offNext (fmt : Fmt) (s : Nat) : Nat := if fmt.voxF32 then f32next s else s + 1

/-- what `Nifti1Header.write_to` leaves in the field when it fills in the minimum offset `m` itself
    (after the `fix:` commit "keeps a float32 vox_offset at or above the minimum offset"): assign, read back,
    and if the stored value fell below `m` move it one representable value up. -/
def Fmt.offFill (fmt : Fmt) (m : Nat) : Nat :=
  let s := fmt.offRepr m
  if Nb.Gen.C11.storedBelow (s : Int) (m : Int) = true then fmt.offNext s else s

/-- a file that starts with a header block: value of the `vox_offset` field + every byte after the block -/
structure HFile where
  voxOffset : Nat
  after : List Nat
  deriving Repr, DecidableEq

structure PairFiles where
  hdr : HFile
  img : List Nat
  deriving Repr, DecidableEq

structure Loaded where
  exts : List Ext
  offset : Nat          -- `img.dataobj.offset`
  data : List Nat       -- the bytes the array proxy reads
  deriving Repr, DecidableEq

/-- write `data` at position `pos` of a seekable byte store: overwrite what is there, zero-fill a hole past the
    end (`seek` beyond EOF followed by `write`); writing nothing leaves the store alone. -/
def writeAt (buf : List Nat) (pos : Nat) (data : List Nat) : List Nat :=
  if data.isEmpty then buf
  else buf.take pos ++ zeros (pos - buf.length) ++ data ++ buf.drop (pos + data.length)

/-- bytes following the header block written by `Nifti1Header.write_to` (893-901) -/
def extBlock (single : Bool) (e : Endian) (exts : List Ext) : Except Err (List Nat) :=
  if exts.isEmpty then .ok (if single then [0, 0, 0, 0] else [])
  else (serializeExts e exts).map ([1, 0, 0, 0] ++ ·)

/-- the minimum-offset rule of `Nifti1Header.write_to` (882-890); `userOff = 0` means "not set" exactly as in
    the header field -/
def minOffset (fmt : Fmt) (exts : List Ext) : Int := Nb.Gen.C11.minVoxOffset (fmt.singleOff : Int) (totalSize exts)

/-- the rule on the total size alone.  `userOff` is what the caller assigned to `hdr['vox_offset']`; the rule
    reads the field back (`fmt.offRepr userOff`), and when it fills the field in itself
    (`self._structarr['vox_offset'] = min_vox_offset`) the value it leaves there is `fmt.offFill` of it. -/
def chooseOffsetT (fmt : Fmt) (total : Int) (userOff : Nat) : Except Err Int :=
  let u := fmt.offRepr userOff
  let mn : Int := Nb.Gen.C11.minVoxOffset (fmt.singleOff : Int) total
  if Nb.Gen.C11.offsetUnset (u : Int) = true then .ok ((fmt.offFill mn.toNat : Nat) : Int)
  else if Nb.Gen.C11.offsetTooSmall (u : Int) mn = true then .error .headerData
  else .ok (u : Int)

/-- the rule before that fix: the minimum is assigned to the field and whatever the field keeps is used -/
def chooseOffsetTOrig (fmt : Fmt) (total : Int) (userOff : Nat) : Except Err Int :=
  let u := fmt.offRepr userOff
  let mn : Int := Nb.Gen.C11.minVoxOffset (fmt.singleOff : Int) total
  if Nb.Gen.C11.offsetUnset (u : Int) = true then .ok ((fmt.offRepr mn.toNat : Nat) : Int)
  else if Nb.Gen.C11.offsetTooSmall (u : Int) mn = true then .error .headerData
  else .ok (u : Int)

def chooseOffset (fmt : Fmt) (exts : List Ext) (userOff : Nat) : Except Err Int :=
  chooseOffsetT fmt (totalSize exts) userOff

/-- single-file save: `Nifti1Header.write_to` (offset rule, header block, extender, extensions) followed by
    `to_file_map`'s seek to the data offset and the data. -/
def writeSingle (fmt : Fmt) (e : Endian) (exts : List Ext) (userOff : Nat) (data : List Nat) :
    Except Err HFile :=
  chooseOffset fmt exts userOff >>= fun off =>
  extBlock true e exts >>= fun blk =>
  if off < (fmt.hdrSize : Int) then .error .unmodelled
  else .ok ⟨off.toNat, writeAt blk (off.toNat - fmt.hdrSize) data⟩

/-- pair save: header file = block + (extender + extensions, only if there are any); image file = data at the
    user's offset (no minimum: `is_single` is false). -/
def writePair (fmt : Fmt) (e : Endian) (exts : List Ext) (userOff : Nat) (data : List Nat) :
    Except Err PairFiles :=
  (extBlock false e exts).map fun blk => ⟨⟨fmt.offRepr userOff, blk⟩, writeAt [] (fmt.offRepr userOff) data⟩

/-- Sizes only: what `Nifti1Header.write_to` does for extensions with content LENGTHS `lens` (no content
    needed): (offset left in the `vox_offset` field, file position after the last extension record).  Same rule
    (`chooseOffsetT`) as `writeSingle`; lets the correspondence reach totals far above 2^28 without
    materialising the bytes.  A record whose esize does not fit int32 raises OverflowError after the offset
    check. -/
def headerWriteSizes (single : Bool) (fmt : Fmt) (lens : List Nat) (userOff : Nat) : Except Err (Nat × Nat) :=
  let total : Int := (lens.map sizeOnDisk).sum
  let ovf := lens.any fun n => ¬ inInt32 (sizeOnDisk n)
  if single then
    chooseOffsetT fmt total userOff >>= fun off =>
    if ovf then .error .overflow else .ok (off.toNat, fmt.hdrSize + 4 + total.toNat)
  else
    if ovf then .error .overflow
    else .ok (fmt.offRepr userOff, fmt.hdrSize + (if lens.isEmpty then 0 else 4 + total.toNat))

/-- `_chk_offset` as seen by a loader (error level 40): a single-file magic with a non-zero offset below
    `single_vox_offset` is refused -/
def chkOffset (single : Bool) (fmt : Fmt) (off : Nat) : Except Err Unit :=
  if off = 0 then .ok ()
  else if single = true ∧ off < fmt.singleOff then .error .headerData
  else .ok ()

/-- `Nifti1Header.from_fileobj` after the header block: extender, `extsize`, extension list -/
def readExtsAfter (single : Bool) (fmt : Fmt) (e : Endian) (f : HFile) : Except Err (List Ext) :=
  match f.after.take 4 with
  | [s0, _, _, _] =>
      if s0 = 0 then .ok []
      else
        -- `extsize = hdr._structarr['vox_offset'] - fileobj.tell()` (generated), tell = block + extender
        let extsize : Int := if single then Nb.Gen.C11.extSize (f.voxOffset : Int) ((fmt.hdrSize : Int) + 4)
                             else Nb.Gen.C11.pairExtSize   -- `extsize = -1` for a detached header (generated)
        parseExts e (f.after.drop 4) extsize
  | _ => .ok []

def readData (bytesFromPos : List Nat) (n : Nat) : Except Err (List Nat) :=
  let d := bytesFromPos.take n
  if d.length < n then .error .short else .ok d

def readSingle (fmt : Fmt) (e : Endian) (f : HFile) (n : Nat) : Except Err Loaded :=
  chkOffset true fmt f.voxOffset >>= fun _ =>
  readExtsAfter true fmt e f >>= fun exts =>
  if f.voxOffset < fmt.hdrSize then .error .unmodelled
  else (readData (f.after.drop (f.voxOffset - fmt.hdrSize)) n).map fun d => ⟨exts, f.voxOffset, d⟩

def readPair (fmt : Fmt) (e : Endian) (p : PairFiles) (n : Nat) : Except Err Loaded :=
  chkOffset false fmt p.hdr.voxOffset >>= fun _ =>
  readExtsAfter false fmt e p.hdr >>= fun exts =>
  (readData (p.img.drop p.hdr.voxOffset) n).map fun d => ⟨exts, p.hdr.voxOffset, d⟩

end Nb.C11
