/-! Model/C11 — executable model (core Lean only; imports only NibabelModel.Basic.* / other Model files). -/
namespace Nb.C11

end Nb.C11
