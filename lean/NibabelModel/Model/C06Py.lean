/-
  Model/C06Py — embedding of the C06 model's data (filled slices, read / post items, heuristic
  arguments and answers) into the Python value universe of `Basic/PyVal`, used (a) by the theorems
  that equate the functions translated from the nibabel source (`Generated/C06Funcs.lean`) with the
  model and (b) by the driver, which runs the translated functions on protocol lines.  Core Lean only.
-/
import NibabelModel.Model.C06
import NibabelModel.Basic.PyVal
namespace Nb.C06
open Nb.Py Nb.Py.V

/-! ### embedding of the model's data into Python values -/

def ofFilled (f : Filled) : V := .slice (.int f.start) (V.ofOptInt f.stop) (.int f.step)

def ofHArg : HArg → V
  | .int i => .int i
  | .slice f => ofFilled f

def ofAction : Action → V
  | .full => .str "full"
  | .contiguous => .str "contiguous"
  | .skip => .none

def ofItem : Item → V
  | .int i => .int i
  | .slice s => ofPySlice s
  | .newaxis => .none

def ofRead : ReadItem → V
  | .int i => .int i
  | .full => .slice .none .none .none
  | .slice a b c => .slice (.int a) (.int b) (.int c)
  | .newaxis => .none

def ofPost : PostItem → V
  | .int i => .int i
  | .slice s => ofPySlice s
  | .dropped => .str "dropped"

def toHArg? : V → Option HArg
  | .int i => some (.int i)
  | .slice (.int a) b (.int c) => (optInt? b).map (fun b => HArg.slice ⟨a, b, c⟩)
  | _ => Option.none

/-- a model heuristic as a Python callable -/
def liftH (h : Heuristic) : V → V → V → M V := fun v n s =>
  match toHArg? v, n, s with
  | some a, .int n, .int s => .ok (ofAction (h a n.toNat s.toNat))
  | _, _, _ => .error .typeError


def ofResult : Except Nb.C06.Err (ReadItem × PostItem) → M V
  | .ok (r, p) => .ok (.tup2 (ofRead r) (ofPost p))
  | .error _ => .error .valueError


def mapErr : Nb.C06.Err → Nb.Py.Err
  | .index => .indexError
  | .value => .valueError
  | .short => .unsupported

def ofShape (l : List Nat) : V := ofList (l.map (fun (n : Nat) => V.int (n : Int)))

def ofSeg (s : Segment) : V := .cons (.int s.offset) (.cons (.int (s.length : Int)) .nil)
def ofSegs (l : List Segment) : V := ofList (l.map ofSeg)

def ofIdx : IdxItem → V
  | .int i => .int i
  | .slice s => ofPySlice s
  | .newaxis => .none
  | .ellipsis => .ellipsis

end Nb.C06
