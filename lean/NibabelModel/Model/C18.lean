import NibabelModel.Basic.PySlice
import NibabelModel.Generated.C18
/-!
  Model/C18 — executable model of the CIFTI-2 axis logic of `nibabel/cifti2/cifti2_axes.py`
  (core Lean only).  What is modelled:

  * `SeriesAxis.__getitem__/get_element/__add__`                       (cifti2_axes.py:1444-1510)
    and the ORIGINAL (pre-`fix:`) slice arithmetic as `seriesGetSliceOrig`;
  * the list-backed axes (`ScalarAxis`, `LabelAxis`, `ParcelsAxis`, `BrainModelAxis`) as records of
    PARALLEL lists, each indexed independently by NumPy (`self.name[item]`, `self.meta[item]` …),
    their constructors' checks, `get_element`, `__getitem__`, `__add__`
                                                   (cifti2_axes.py:253-336,668-741,780-800,1003-1071,
                                                    1085-1198,1209-1345);
  * `BrainModelAxis.iter_structures / to_mapping / from_index_mapping`  (cifti2_axes.py:400-495).

  External (parameters / identified with small integers, see ASSUMPTIONS in harness/props/c18.py):
  names, metadata dicts, label tables, voxel sets and vertex dicts of parcels, affines are opaque ids
  (`Nat`); `np.allclose` on affines is id equality; `to_cifti_brain_structure_name` is the identity
  on the CIFTI structure names used; the XML layer is not modelled.
-/
namespace Nb.C18
open Nb

inductive Err
  | indexError | valueError
  deriving Repr, DecidableEq, Inhabited

/-! ## NumPy 1-D indexing of one array (specification: the result is a gather at `positions`) -/

/-- the index objects of the property's quantifier -/
inductive Index
  | int (i : Int)
  | slice (s : PySlice)
  | arr (l : List Int)
  | mask (m : List Bool)
  deriving Repr, Inhabited

/-- `np.flatnonzero(mask) + k` -/
def maskPosFrom (k : Nat) : List Bool → List Nat
  | [] => []
  | b :: bs => if b then k :: maskPosFrom (k + 1) bs else maskPosFrom (k + 1) bs

/-- integer index array: every entry is wrapped like a Python int index; one bad entry = IndexError -/
def arrPos (n : Nat) : List Int → Except Err (List Nat)
  | [] => .ok []
  | i :: is =>
    match pyIntIndex n i, arrPos n is with
    | some k, .ok r => .ok (k :: r)
    | _, _ => .error .indexError

/-- positions selected by a non-integer 1-D NumPy index on an axis of length `n`
    (`slice` with step 0: ValueError; boolean mask of another length: IndexError — except that NumPy
    accepts a size-0 boolean index on an axis of any length and selects nothing). -/
def positions (n : Nat) : Index → Except Err (List Nat)
  | .int _ => .error .indexError
  | .slice s => if s.stepVal = 0 then .error .valueError else .ok (s.sel n)
  | .arr l => arrPos n l
  | .mask m => if m.length = n ∨ m.isEmpty then .ok (maskPosFrom 0 m) else .error .indexError

def gather {α} (l : List α) (ps : List Nat) : List α := ps.filterMap (fun i => l[i]?)

/-- `arr[item]` for a 1-D NumPy array `arr` and a non-integer `item` -/
def npTake {α} (l : List α) (idx : Index) : Except Err (List α) :=
  (positions l.length idx).map (gather l)

/-- `arr[i]` for a Python int `i` -/
def npGet {α} (l : List α) (i : Int) : Except Err α :=
  match pyIntIndex l.length i with
  | some k => match l[k]? with
    | some x => .ok x
    | none => .error .indexError
  | none => .error .indexError

/-! ## SeriesAxis (cifti2_axes.py:1350-1510) -/

/-- `unit` is an index into ('SECOND','HERTZ','METER','RADIAN') -/
structure Series where
  start : Int
  step : Int
  size : Nat
  unit : Nat
  deriving Repr, DecidableEq, Inhabited

/-- `SeriesAxis.time` = `np.arange(size) * step + start` -/
def Series.elements (a : Series) : List Int := rangeInts a.start a.step a.size

/-- `SeriesAxis.get_element` (1496-1510) -/
def seriesGetElement (a : Series) (i : Int) : Except Err Int :=
  let idx := if i < 0 then (a.size : Int) + i else i
  if idx ≥ a.size ∨ idx < 0 then .error .indexError else .ok (a.start + a.step * idx)

/-- `SeriesAxis.__getitem__` with a slice, AFTER the fix (1476-1482): `item.indices(self.size)`,
    `len(range(...))`.  `slice.indices` raises ValueError for step 0. -/
def seriesGetSlice (a : Series) (s : PySlice) : Except Err Series :=
  if s.stepVal = 0 then .error .valueError
  else
    let (i0, i1, st) := s.indices a.size
    .ok ⟨i0 * a.step + a.start, a.step * st, rangeLen i0 i1 st, a.unit⟩

/-- `SeriesAxis.__getitem__`: slice | int | anything else -> IndexError (1476-1490) -/
inductive SeriesItem
  | elem (t : Int)
  | axis (a : Series)
  deriving Repr, DecidableEq

def seriesGetitem (a : Series) : Index → Except Err SeriesItem
  | .slice s => (seriesGetSlice a s).map .axis
  | .int i => (seriesGetElement a i).map .elem
  | _ => .error .indexError

/-- the pinned (pre-fix) slice arithmetic of `SeriesAxis.__getitem__` (`//` is floor division) -/
def seriesGetSliceOrig (a : Series) (s : PySlice) : Series :=
  let step := s.step.getD 1
  let n : Int := a.size
  let i0 := match s.start with
    | none => if step < 0 then n - 1 else 0
    | some v => if v ≥ 0 then v else n + v
  let i1 := match s.stop with
    | none => if step < 0 then -1 else n
    | some v => if v ≥ 0 then v else n + v
  let i0 := if i0 > n ∧ step < 0 then n - 1 else i0
  let i1 := if i1 > n then n else i1
  let ne := Int.fdiv (i1 - i0) step
  let ne := if ne < 0 then 0 else ne
  ⟨i0 * a.step + a.start, a.step * step, ne.toNat, a.unit⟩

/-- `SeriesAxis.__add__` (1449-1474): the start of `other` is ignored -/
def seriesAdd (a b : Series) : Except Err Series :=
  if b.step ≠ a.step then .error .valueError
  else if b.unit ≠ a.unit then .error .valueError
  else .ok ⟨a.start, a.step, a.size + b.size, a.unit⟩

/-! ## ScalarAxis (1085-1198) and LabelAxis (1200-1345): parallel lists of opaque ids -/

def zip3 {α β γ} (a : List α) (b : List β) (c : List γ) : List (α × β × γ) := a.zip (b.zip c)

structure Scalar where
  name : List Nat
  mta : List Nat
  deriving Repr, DecidableEq, Inhabited

/-- constructor shape check (1101-1112) -/
def scalarMk (name mta : List Nat) : Except Err Scalar :=
  if mta.length = name.length then .ok ⟨name, mta⟩ else .error .valueError

def Scalar.size (a : Scalar) : Nat := a.name.length
/-- `[a.get_element(i) for i in range(len(a))]` -/
def Scalar.elements (a : Scalar) : List (Nat × Nat) := a.name.zip a.mta

/-- `ScalarAxis.get_element` (1184-1198): `self.name[index], self.meta[index]` -/
def scalarGetElement (a : Scalar) (i : Int) : Except Err (Nat × Nat) := do
  let n ← npGet a.name i
  let m ← npGet a.mta i
  pure (n, m)

/-- `ScalarAxis.__getitem__` for non-int (1179-1182) -/
def scalarGetitem (a : Scalar) (idx : Index) : Except Err Scalar := do
  let n ← npTake a.name idx
  let m ← npTake a.mta idx
  scalarMk n m

/-- `ScalarAxis.__add__` (1160-1177) -/
def scalarAdd (a b : Scalar) : Except Err Scalar :=
  scalarMk (a.name ++ b.name) (a.mta ++ b.mta)

structure Label where
  name : List Nat
  label : List Nat
  mta : List Nat
  deriving Repr, DecidableEq, Inhabited

def labelMk (name label mta : List Nat) : Except Err Label :=
  if mta.length = name.length ∧ label.length = name.length then .ok ⟨name, label, mta⟩
  else .error .valueError

def Label.size (a : Label) : Nat := a.name.length
def Label.elements (a : Label) : List (Nat × Nat × Nat) := zip3 a.name a.label a.mta

def labelGetElement (a : Label) (i : Int) : Except Err (Nat × Nat × Nat) := do
  let n ← npGet a.name i
  let l ← npGet a.label i
  let m ← npGet a.mta i
  pure (n, l, m)

def labelGetitem (a : Label) (idx : Index) : Except Err Label := do
  let n ← npTake a.name idx
  let l ← npTake a.label idx
  let m ← npTake a.mta idx
  labelMk n l m

def labelAdd (a b : Label) : Except Err Label :=
  labelMk (a.name ++ b.name) (a.label ++ b.label) (a.mta ++ b.mta)

/-! ## the `nvertices` dict (insertion ordered, unique keys) -/

abbrev Dict := List (Nat × Nat)

def dictHas (d : Dict) (k : Nat) : Bool := d.any (fun p => p.1 == k)
def dictGet (d : Dict) (k : Nat) : Option Nat := (d.find? (fun p => p.1 == k)).map (·.2)
/-- `d[k] = v` -/
def dictSet (d : Dict) (k v : Nat) : Dict :=
  if dictHas d k then d.map (fun p => if p.1 == k then (k, v) else p) else d ++ [(k, v)]

/-- the merge loop of `BrainModelAxis.__add__` / `ParcelsAxis.__add__` (703-711, 1038-1046) -/
def mergeNv (d : Dict) : Dict → Except Err Dict
  | [] => .ok d
  | (k, v) :: rest =>
    match dictGet d k with
    | some v' => if v' ≠ v then .error .valueError else mergeNv (dictSet d k v) rest
    | none => mergeNv (dictSet d k v) rest

abbrev Shape := Nat × Nat × Nat

/-- the affine/volume-shape reconciliation at the top of both `__add__` (690-701, 1025-1037) -/
def mergeVolume (aff1 : Option Nat) (shp1 : Option Shape) (aff2 : Option Nat) (shp2 : Option Shape) :
    Except Err (Option Nat × Option Shape) :=
  match aff1 with
  | none => .ok (aff2, shp2)
  | some a1 =>
    match aff2 with
    | some a2 => if a2 ≠ a1 ∨ shp2 ≠ shp1 then .error .valueError else .ok (aff1, shp1)
    | none => .ok (aff1, shp1)

/-! ## ParcelsAxis (743-1082) -/

structure Parcels where
  name : List Nat
  voxels : List Nat
  vertices : List Nat
  affine : Option Nat
  shape : Option Shape
  nvertices : Dict
  deriving Repr, DecidableEq, Inhabited

/-- constructor (780-800): only shape checks; the affine is kept only together with … nothing:
    `affine`/`volume_shape` are stored as given. -/
def parcelsMk (name voxels vertices : List Nat) (aff : Option Nat) (shp : Option Shape) (nv : Dict) :
    Except Err Parcels :=
  if voxels.length = name.length ∧ vertices.length = name.length then
    .ok ⟨name, voxels, vertices, aff, shp, nv⟩
  else .error .valueError

def Parcels.size (a : Parcels) : Nat := a.name.length
def Parcels.elements (a : Parcels) : List (Nat × Nat × Nat) := zip3 a.name a.voxels a.vertices

def parcelsGetElement (a : Parcels) (i : Int) : Except Err (Nat × Nat × Nat) := do
  let n ← npGet a.name i
  let v ← npGet a.voxels i
  let w ← npGet a.vertices i
  pure (n, v, w)

def parcelsGetitem (a : Parcels) (idx : Index) : Except Err Parcels := do
  let n ← npTake a.name idx
  let v ← npTake a.voxels idx
  let w ← npTake a.vertices idx
  parcelsMk n v w a.affine a.shape a.nvertices

def parcelsAdd (a b : Parcels) : Except Err Parcels := do
  let (aff, shp) ← mergeVolume a.affine a.shape b.affine b.shape
  let nv ← mergeNv a.nvertices b.nvertices
  parcelsMk (a.name ++ b.name) (a.voxels ++ b.voxels) (a.vertices ++ b.vertices) aff shp nv

/-- `ParcelsAxis.__getitem__` with a string (1057-1063): exactly one parcel of that name -/
def parcelsByName (a : Parcels) (nm : Nat) : Except Err (Nat × Nat) :=
  match (zip3 a.name a.voxels a.vertices).filter (fun e => e.1 == nm) with
  | [e] => .ok e.2
  | _ => .error .indexError

/-! ## BrainModelAxis (238-741) -/

abbrev Vox := Int × Int × Int

structure BM where
  name : List Nat            -- structure ids
  voxel : List Vox
  vertex : List Int
  affine : Option Nat
  shape : Option Shape
  nvertices : Dict
  deriving Repr, DecidableEq, Inhabited

def voxNeg (v : Vox) : Bool := v.1 < 0 || v.2.1 < 0 || v.2.2 < 0

/-- the constructor (253-336) with `name` an array, `voxel` and `vertex` both given.
    * `nvertices` loses the keys that do not occur in `name` (300-302);
    * `surface_mask` is computed with `np.vectorize`, which raises ValueError on a size-0 input;
    * all-surface axes drop affine and volume shape, others need both (305-315);
    * surface elements need `vertex >= 0`, the others `voxel >= 0` (317-320);
    * shape checks (322-336). -/
def pruneNv (name : List Nat) (nv : Dict) : Dict := nv.filter (fun p => name.contains p.1)
/-- `surface_mask`: one flag per element -/
def surfFlags (nv : Dict) (name : List Nat) : List Bool := name.map (dictHas nv)
/-- `np.any(self.vertex[surface_mask] < 0)` -/
def vertBad (surf : List Bool) (vertex : List Int) : Bool :=
  (surf.zip vertex).any (fun p => p.1 && decide (p.2 < 0))
/-- `np.any(self.voxel[~surface_mask] < 0)` -/
def voxBad (surf : List Bool) (voxel : List Vox) : Bool :=
  (surf.zip voxel).any (fun p => !p.1 && voxNeg p.2)

def bmMk (name : List Nat) (voxel : List Vox) (vertex : List Int) (aff : Option Nat)
    (shp : Option Shape) (nv : Dict) : Except Err BM :=
  let nv' := pruneNv name nv
  if name.isEmpty then .error .valueError
  else if voxel.length ≠ name.length ∨ vertex.length ≠ name.length then .error .valueError
  else
    let surf := surfFlags nv' name
    let allSurf := surf.all id
    if !allSurf && (aff.isNone || shp.isNone) then .error .valueError
    else if vertBad surf vertex then .error .valueError
    else if voxBad surf voxel then .error .valueError
    else .ok ⟨name, voxel, vertex, if allSurf then none else aff, if allSurf then none else shp, nv'⟩

def BM.size (a : BM) : Nat := a.name.length

/-- element description of `BrainModelAxis.get_element` (727-741) -/
inductive BMElem
  | surf (name : Nat) (vertex : Int)
  | vox (name : Nat) (v : Vox)
  deriving Repr, DecidableEq, Inhabited

def bmElem (nv : Dict) (e : Nat × Vox × Int) : BMElem :=
  if dictHas nv e.1 then .surf e.1 e.2.2 else .vox e.1 e.2.1

def BM.elements (a : BM) : List BMElem := (zip3 a.name a.voxel a.vertex).map (bmElem a.nvertices)

def bmGetElement (a : BM) (i : Int) : Except Err BMElem := do
  let n ← npGet a.name i
  if dictHas a.nvertices n then
    let v ← npGet a.vertex i
    pure (.surf n v)
  else
    let v ← npGet a.voxel i
    pure (.vox n v)

/-- `BrainModelAxis.__getitem__` for non-int (712-725) -/
def bmGetitem (a : BM) (idx : Index) : Except Err BM := do
  let n ← npTake a.name idx
  let v ← npTake a.voxel idx
  let w ← npTake a.vertex idx
  bmMk n v w a.affine a.shape a.nvertices

/-- `BrainModelAxis.__add__` (676-720) -/
def bmAdd (a b : BM) : Except Err BM := do
  let (aff, shp) ← mergeVolume a.affine a.shape b.affine b.shape
  let nv ← mergeNv a.nvertices b.nvertices
  bmMk (a.name ++ b.name) (a.voxel ++ b.voxel) (a.vertex ++ b.vertex) aff shp nv

/-! ### iter_structures / to_mapping / from_index_mapping -/

structure Run where
  name : Nat
  start : Nat
  stop : Nat
  deriving Repr, DecidableEq, Inhabited

/-- the loop of `iter_structures` (449-457): state (`start_name`, `idx_start`), `cur` = `idx_current`;
    the final `slice(idx_start, None)` is recorded with `stop = len`. -/
def runsGo (startName : Nat) (startIdx cur : Nat) : List Nat → List Run
  | [] => [⟨startName, startIdx, cur⟩]
  | x :: xs =>
    if startName ≠ x then ⟨startName, startIdx, cur⟩ :: runsGo x cur (cur + 1) xs
    else runsGo startName startIdx (cur + 1) xs

/-- `self.name[0]` raises IndexError on an empty axis -/
def runs : List Nat → Except Err (List Run)
  | [] => .error .indexError
  | x :: xs => .ok (runsGo x 0 0 (x :: xs))

def sliceOf {α} (l : List α) (start stop : Nat) : List α := (l.drop start).take (stop - start)

/-- `self[idx_start:idx_current]` (a basic slice with 0 ≤ start ≤ stop ≤ len) -/
def bmSub (a : BM) (start stop : Nat) : Except Err BM :=
  bmMk (sliceOf a.name start stop) (sliceOf a.voxel start stop) (sliceOf a.vertex start stop)
    a.affine a.shape a.nvertices

/-- one `Cifti2BrainModel` as built by `to_mapping` (417-441) -/
structure BMRec where
  offset : Nat
  count : Nat
  surf : Bool
  name : Nat
  nvert : Option Nat
  vox : List Vox
  vert : List Int
  deriving Repr, DecidableEq, Inhabited

structure BMMap where
  recs : List BMRec
  /-- `mim.volume` = (volume_shape, affine), set by the first non-surface structure -/
  volume : Option (Option Shape × Option Nat)
  deriving Repr, DecidableEq, Inhabited

def recsOf (a : BM) : List Run → Except Err (List BMRec)
  | [] => .ok []
  | r :: rs => do
    let sub ← bmSub a r.start r.stop
    let surf := dictHas a.nvertices r.name
    let rec_ : BMRec :=
      { offset := r.start, count := sub.size, surf := surf, name := r.name,
        nvert := if surf then dictGet a.nvertices r.name else none,
        vox := if surf then [] else sub.voxel,
        vert := if surf then sub.vertex else [] }
    let rest ← recsOf a rs
    pure (rec_ :: rest)

/-- `BrainModelAxis.to_mapping` (400-441) -/
def bmToMapping (a : BM) : Except Err BMMap := do
  let rs ← runs a.name
  let recs ← recsOf a rs
  pure ⟨recs, if recs.any (fun r => !r.surf) then some (a.shape, a.affine) else none⟩

/-- NumPy `buf[off:off+count] = vals` with `len(vals) == count` (no broadcasting modelled) -/
def setSlice {α} (buf : List α) (off count : Nat) (vals : List α) : Except Err (List α) :=
  if vals.length = count ∧ off + count ≤ buf.length then
    .ok (buf.take off ++ vals ++ buf.drop (off + count))
  else .error .valueError

structure FromState where
  voxel : List Vox
  vertex : List Int
  name : List Nat
  nv : Dict
  deriving Repr, DecidableEq, Inhabited

/-- the loop body of `from_index_mapping` (381-397) -/
def fromStep (st : FromState) (r : BMRec) : Except Err FromState :=
  let name := st.name ++ List.replicate r.count r.name
  if r.surf then do
    let vertex ← setSlice st.vertex r.offset r.count r.vert
    pure { st with vertex := vertex, name := name, nv := dictSet st.nv r.name (r.nvert.getD 0) }
  else do
    let voxel ← setSlice st.voxel r.offset r.count r.vox
    pure { st with voxel := voxel, name := name }

def fromLoop (st : FromState) : List BMRec → Except Err FromState
  | [] => .ok st
  | r :: rs => do
    let st' ← fromStep st r
    fromLoop st' rs

/-- `BrainModelAxis.from_index_mapping` (367-398) -/
def bmFromMapping (m : BMMap) : Except Err BM := do
  let nbm := (m.recs.map (·.count)).sum
  let st0 : FromState := ⟨List.replicate nbm (-1, -1, -1), List.replicate nbm (-1), [], []⟩
  let st ← fromLoop st0 m.recs
  let hasVox := m.recs.any (fun r => !r.surf)
  let (shp, aff) : Option Shape × Option Nat :=
    if hasVox then (match m.volume with | some (s, a) => (s, a) | none => (none, none)) else (none, none)
  bmMk st.name st.voxel st.vertex aff shp st.nv

/-! ## to_mapping / from_index_mapping of Series, Scalar, Label and Parcels axes; label colours through the
    XML text; `to_header` map sharing  (phase-3 extension)

  XML contract (external, expat/ElementTree + CPython float repr): parse ∘ serialise is the identity on the
  element tree; `float(str(v)) = v` for every finite float `v`; map names / label names / metadata without
  leading or trailing whitespace come back unchanged.  Everything below is the Python-object logic on both
  sides of that text. -/

/-- generic `d[key e] = e` on an insertion-ordered dict kept as a list of entries -/
def updSet {α κ} [DecidableEq κ] (key : α → κ) (t : List α) (e : α) : List α :=
  if t.any (fun x => decide (key x = key e)) then t.map (fun x => if key x = key e then e else x) else t ++ [e]

/-! ### SeriesAxis (cifti2_axes.py:1381-1417) -/

structure SerMap where
  exponent : Nat
  start : Int
  step : Int
  npoints : Nat
  unit : Nat
  deriving Repr, DecidableEq, Inhabited

/-- `SeriesAxis.to_mapping` (1399-1417): `series_exponent` is the constant REGENERATED from the source
    (`Generated/C18.lean`, today 0) -/
def seriesToMapping (a : Series) : SerMap := ⟨Nb.Gen.C18.seriesExponent, a.start, a.step, a.size, a.unit⟩
/-- `SeriesAxis.from_index_mapping` (1381-1397): `start = series_start * 10 ** series_exponent` … -/
def seriesFromMapping (m : SerMap) : Series :=
  ⟨m.start * 10 ^ m.exponent, m.step * 10 ^ m.exponent, m.npoints, m.unit⟩

/-! ### ScalarAxis (1102-1136) -/

/-- one `Cifti2NamedMap`: map name, metadata (opaque id), label table (empty for scalar maps) -/
structure LEntry where
  key : Int
  name : Nat
  /-- RGBA as IEEE-754 binary64 bit patterns of the Python floats (opaque, except for ±0) -/
  r : Nat
  g : Nat
  b : Nat
  a : Nat
  deriving Repr, DecidableEq, Inhabited

abbrev LTable := List LEntry

structure NMap where
  name : Nat
  mta : Nat
  table : LTable
  deriving Repr, DecidableEq, Inhabited

/-- `ScalarAxis.to_mapping` (1121-1136) -/
def scalarToMapping (a : Scalar) : List NMap := (a.name.zip a.mta).map (fun e => ⟨e.1, e.2, []⟩)
/-- `ScalarAxis.from_index_mapping` (1102-1119) -/
def scalarFromMapping (ms : List NMap) : Except Err Scalar := scalarMk (ms.map (·.name)) (ms.map (·.mta))

/-! ### LabelAxis with explicit label tables (1237-1277) and `Cifti2Label` (cifti2.py:315-390) -/

/-- bit pattern of `-0.0` -/
def negZeroBits : Nat := 9223372036854775808

/-- one colour component through `Cifti2Label._to_xml_element` (cifti2.py:385-388) and the parser
    (`float(attrs['Red'])`, parse_cifti2.py:255-258): `'0' if val == 0 else '1' if val == 1 else str(val)`.
    `val == 0` also holds for `-0.0`, which therefore comes back as `+0.0`; `'1'` parses to `1.0`; every other
    value is written with `str` and (contract) parsed back to the same float. -/
def colXml (c : Nat) : Nat := if c = negZeroBits then 0 else c

/-- Python `==` on two finite floats given by their bit patterns -/
def colEq (x y : Nat) : Bool := colXml x == colXml y

def LEntry.xml (e : LEntry) : LEntry := { e with r := colXml e.r, g := colXml e.g, b := colXml e.b, a := colXml e.a }

/-- `label_table[key] = …` for each entry in turn (`Cifti2LabelTable.__setitem__`, an OrderedDict;
    also the dict comprehension of `from_index_mapping` and the parser's `lata.append(label)`) -/
def ltBuild (es : List LEntry) : LTable := es.foldl (updSet (·.key)) []

structure LabelR where
  name : List Nat
  table : List LTable
  mta : List Nat
  deriving Repr, DecidableEq, Inhabited

def labelRMk (name : List Nat) (table : List LTable) (mta : List Nat) : Except Err LabelR :=
  if mta.length = name.length ∧ table.length = name.length then .ok ⟨name, table, mta⟩ else .error .valueError

/-- `LabelAxis.to_mapping` (1257-1277) -/
def labelRToMapping (a : LabelR) : List NMap :=
  (zip3 a.name a.table a.mta).map (fun e => ⟨e.1, e.2.2, ltBuild e.2.1⟩)

/-- `LabelAxis.from_index_mapping` (1237-1255) -/
def labelRFromMapping (ms : List NMap) : Except Err LabelR :=
  labelRMk (ms.map (·.name)) (ms.map (fun m => ltBuild m.table)) (ms.map (·.mta))

/-- the XML text in between (non-empty tables only: an empty `LabelTable` is not written at all) -/
def nmapsXml (ms : List NMap) : List NMap :=
  ms.map (fun m => { m with table := ltBuild (m.table.map LEntry.xml) })

/-- header → XML → header for one label axis -/
def labelRXrt (a : LabelR) : Except Err LabelR := labelRFromMapping (nmapsXml (labelRToMapping a))

/-! ### ParcelsAxis with explicit voxel lists and vertex dicts (851-919) -/

/-- `parcel.vertices`: structure id ↦ vertex indices (insertion-ordered dict) -/
abbrev VDict := List (Nat × List Nat)

structure ParcelsR where
  name : List Nat
  voxels : List (List Vox)
  vertices : List VDict
  affine : Option Nat
  shape : Option Shape
  nvertices : Dict
  deriving Repr, DecidableEq, Inhabited

def parcelsRMk (name : List Nat) (voxels : List (List Vox)) (vertices : List VDict) (aff : Option Nat)
    (shp : Option Shape) (nv : Dict) : Except Err ParcelsR :=
  if voxels.length = name.length ∧ vertices.length = name.length then .ok ⟨name, voxels, vertices, aff, shp, nv⟩
  else .error .valueError

/-- the `Cifti2MatrixIndicesMap` of a parcels axis: optional Volume (dimensions, affine), Surface elements
    in order, Parcel elements (name, voxel indices, Vertices elements in order) -/
structure PMap where
  volume : Option (Option Shape × Nat)
  surfaces : List (Nat × Nat)
  parcels : List (Nat × List Vox × VDict)
  deriving Repr, Inhabited

/-- `ParcelsAxis.to_mapping` (895-919): a Volume only when the axis has an affine; one Surface for EVERY
    entry of `nvertices` (used by a parcel or not); one Parcel per element -/
def parcelsRToMapping (a : ParcelsR) : PMap :=
  ⟨a.affine.map (fun f => (a.shape, f)), a.nvertices, zip3 a.name a.voxels a.vertices⟩

/-- `nvertices[surface.brain_structure] = surface.surface_number_of_vertices` (877-879) -/
def nvFromSurfaces (s : List (Nat × Nat)) : Dict := s.foldl (updSet (·.1)) []

/-- the loop over `parcel.vertices` (885-892): a structure without Surface element is an error -/
def vertsLoop (nv : Dict) (acc : VDict) : VDict → Except Err VDict
  | [] => .ok acc
  | e :: rest => if dictHas nv e.1 then vertsLoop nv (updSet (·.1) acc e) rest else .error .valueError

def parcelsLoop (nv : Dict) : List (Nat × List Vox × VDict) → Except Err (List (Nat × List Vox × VDict))
  | [] => .ok []
  | p :: ps =>
    match vertsLoop nv [] p.2.2 with
    | .error e => .error e
    | .ok vd =>
      match parcelsLoop nv ps with
      | .error e => .error e
      | .ok r => .ok ((p.1, p.2.1, vd) :: r)

/-- `ParcelsAxis.from_index_mapping` (851-893) -/
def parcelsRFromMapping (m : PMap) : Except Err ParcelsR :=
  let nv := nvFromSurfaces m.surfaces
  match parcelsLoop nv m.parcels with
  | .error e => .error e
  | .ok ps =>
    parcelsRMk (ps.map (·.1)) (ps.map (·.2.1)) (ps.map (·.2.2)) (m.volume.map (·.2)) (m.volume.bind (·.1)) nv

/-! ### `to_header` (cifti2_axes.py:151-177) and `Cifti2Matrix.get_index_map` (cifti2.py:1238-1260) -/

/-- the loop of `to_header`, generic in the axis type: `eq x y` is `x.__eq__(y)` — `ax in axes[:dim]` and
    `axes.index(ax)` both evaluate `axes[j] == ax` for j = 0, 1, … .  State: `prev` = `axes[:dim]`,
    `slots[j]` = position in the matrix of the map that describes dimension `j` (`mims_all`), `matrix` =
    (AppliesToMatrixDimension, the axis whose `to_mapping` produced the map). -/
def toHeaderGo {α} (eq : α → α → Bool) :
    List α → List α → List Nat → List (List Nat × α) → List (List Nat × α)
  | _, [], _, matrix => matrix
  | prev, ax :: rest, slots, matrix =>
    match prev.findIdx? (fun e => eq e ax) with
    | some j =>
      let k := slots.getD j 0
      toHeaderGo eq (prev ++ [ax]) rest (slots ++ [k]) (matrix.modify k (fun m => (m.1 ++ [prev.length], m.2)))
    | none => toHeaderGo eq (prev ++ [ax]) rest (slots ++ [matrix.length]) (matrix ++ [([prev.length], ax)])

def toHeader {α} (eq : α → α → Bool) (axes : List α) : List (List Nat × α) := toHeaderGo eq [] axes [] []

/-- `get_index_map(i)`: the first map whose AppliesToMatrixDimension contains `i` -/
def getIndexMap {α} (matrix : List (List Nat × α)) (i : Nat) : Option α :=
  (matrix.find? (fun m => m.1.contains i)).map (·.2)

/-! ## metadata through the XML text  (wave-3 extension)
    `CaretMetaData._to_xml_element` (nibabel/caret.py:115-124), `Cifti2NamedMap._to_xml_element`
    (cifti2.py:464-465: `if self.metadata:`), `Cifti2Matrix._to_xml_element` (cifti2.py:1299-1300),
    the parser (parse_cifti2.py:172-194 MetaData / MD / Name / Value start, 408-424 end handlers,
    503-511 `flush_chardata`: `data.strip()`), `ScalarAxis.to_mapping / from_index_mapping`
    (cifti2_axes.py:1102-1136: `{} if nm.metadata is None else dict(nm.metadata)`).

    A text is an opaque stripped CORE (id; the empty text is a core like any other) with leading and trailing
    whitespace PADDING (ids, 0 = none).  External contract (expat / ElementTree): the character data of a
    `Name` / `Value` element comes back exactly as written (after XML escaping); `str.strip()` removes
    exactly the padding. -/

structure Txt where
  core : Nat
  padL : Nat
  padR : Nat
  deriving Repr, DecidableEq, Inhabited

/-- `data.strip()` -/
def Txt.strip (t : Txt) : Txt := ⟨t.core, 0, 0⟩

/-- one `MD` element / one dict entry: (Name, Value) -/
abbrev MD := Txt × Txt
/-- a metadata dict in insertion order (keys distinct) -/
abbrev MDict := List MD

/-- the `MetaData` child written for a metadata dict: none at all when the dict is empty
    (`if self.metadata:`), otherwise one `MD` per entry in dict order, `str(name)`, `str(value)`;
    an entry with an EMPTY value is an `MD` like any other -/
def mdToXml (d : MDict) : Option (List MD) := if d.isEmpty then none else some d

/-- the parser on the `MD` children of one `MetaData` element: `pair = ['', '']`, Name / Value text
    stripped, `meta[pair[0]] = pair[1]` at the end of each `MD` -/
def mdParse (mds : List MD) : MDict := (mds.map (fun e => (e.1.strip, e.2.strip))).foldl (updSet (·.1)) []

/-- the parsed side: no `MetaData` element reads back as no metadata, which `from_index_mapping`
    turns into `{}` (for the file-level metadata: `None`, compared as "no entries") -/
def mdOfXml : Option (List MD) → MDict
  | none => []
  | some mds => mdParse mds

def mdXrt (d : MDict) : MDict := mdOfXml (mdToXml d)

/-- ScalarAxis with EXPLICIT metadata dicts -/
structure ScalarM where
  name : List Nat
  mta : List MDict
  deriving Repr, DecidableEq, Inhabited

def scalarMMk (name : List Nat) (mta : List MDict) : Except Err ScalarM :=
  if mta.length = name.length then .ok ⟨name, mta⟩ else .error .valueError

/-- one `Cifti2NamedMap` of a scalar axis as it is in the XML: map name and optional MetaData child -/
abbrev NMapX := Nat × Option (List MD)

/-- `ScalarAxis.to_mapping` + `Cifti2NamedMap._to_xml_element` -/
def scalarMToXml (a : ScalarM) : List NMapX := (a.name.zip a.mta).map (fun e => (e.1, mdToXml e.2))
/-- parser + `ScalarAxis.from_index_mapping` -/
def scalarMFromXml (ms : List NMapX) : Except Err ScalarM :=
  scalarMMk (ms.map (·.1)) (ms.map (fun m => mdOfXml m.2))

/-- header → XML → header for one scalar axis with explicit metadata -/
def scalarMXrt (a : ScalarM) : Except Err ScalarM := scalarMFromXml (scalarMToXml a)

/-- `dict.get` on an insertion-ordered dict -/
def mdGet (d : MDict) (k : Txt) : Option Txt := (d.find? (fun e => e.1 == k)).map (·.2)


end Nb.C18
