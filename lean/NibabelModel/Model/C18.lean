/-! Model/C18 — executable model (core Lean only; imports only NibabelModel.Basic.* / other Model files). -/
namespace Nb.C18

end Nb.C18
