import NibabelModel.Model.C10
/-
  Model/C10_Mem — who owns the bytes of a header?  (core Lean only)

  `WrapStruct.__init__` (wrapstruct.py 130-172) wraps the caller's `binaryblock` in an ndarray
  (`np.ndarray(shape=(), dtype=…, buffer=binaryblock)` — a VIEW of the caller's memory, writable iff the
  container is) and then stores `wstr.copy()`: the header owns a NEW block of memory.  `binaryblock` is
  `self._structarr.tobytes()` (a new immutable `bytes`), `copy()` / `as_byteswapped()` /
  same-class `from_header` go through the constructor again, `from_fileobj` hands the constructor the
  `bytes` returned by `fileobj.read`, field assignment and `check_fix` write into `_structarr` in place.

  State space: memory CELLS (byte strings), caller-side bytes-like CONTAINERS that expose a cell (several
  containers may expose the same cell: `memoryview(ba)`, `np.frombuffer(ba, np.uint8)`, a read-only view of a
  writable buffer …) and HEADER objects that view a cell.  Nothing in the state space prevents a header from
  viewing a caller's cell or two headers from viewing the same cell: that the code never gets there is the
  theorem (`Props/C10`: `mem_*`), and `Mem.stepAlias` is the variant of the constructor that skips the copy
  for writable containers.

  OUTSIDE the model: the opposite direction, the caller viewing HEADER memory.  `hdr['dim']` / `hdr.structarr`
  return live writable NumPy views of `_structarr` by design (that is how `hdr['pixdim'][1:4] = …` works); a
  caller who keeps such a view and writes through it changes the header.  The model has no operation that
  hands out a view of a header cell; `setf` covers the writes done through `hdr[name] = …`.

  The ownership skeleton the model rests on — `_structarr` is only ever assigned a fresh default record or
  `.copy()` of the array wrapping the block, `binaryblock` is `tobytes()`, `copy()` / `as_byteswapped()` go
  through the constructor on fresh bytes, `from_fileobj` hands the constructor what `read` returned — is
  extracted from the AST of the working tree on every run (`Generated/C10Own.lean`, `OwnSkel`).
-/
namespace Nb.C10

/-- a caller-side bytes-like container (`bytes`, `bytearray`, `memoryview`, uint8/void ndarray, `mmap`,
    `BytesIO` buffer): the cell it exposes and whether it can be written through -/
structure BufRef where
  cell : Nat
  writable : Bool
  deriving DecidableEq, Repr, Inhabited

structure Mem where
  cells : List (List Byte)
  bufs : List BufRef
  hdrs : List ObjRef          -- byte-order label, cell viewed by `_structarr`
  deriving DecidableEq, Repr, Inhabited

def Mem.empty : Mem := ⟨[], [], []⟩

def Mem.bufCell (m : Mem) (b : Nat) : Nat := (m.bufs.getD b default).cell
def Mem.bufW (m : Mem) (b : Nat) : Bool := (m.bufs.getD b default).writable
def Mem.hdrCell (m : Mem) (h : Nat) : Nat := (m.hdrs.getD h default).buf
def Mem.hdrE (m : Mem) (h : Nat) : Endian := (m.hdrs.getD h default).e
/-- `bytes(container)` -/
def Mem.bufBytes (m : Mem) (b : Nat) : List Byte := m.cells.getD (m.bufCell b) []
/-- `hdr.binaryblock` = `_structarr.tobytes()` -/
def Mem.hdrBytes (m : Mem) (h : Nat) : List Byte := m.cells.getD (m.hdrCell h) []
/-- the header object `h` denotes (field values read through its byte order) -/
def Mem.hdr (L : Layout) (m : Mem) (h : Nat) : Hdr := ofBytes L (m.hdrE h) (m.hdrBytes h)

/-- what is class specific about construction and repair (instantiated by the driver from the generated
    class table; the independence theorems hold for EVERY instance) -/
structure Klass where
  L : Layout
  /-- bytes `_structarr` holds after `Klass(block, e, check=False)`; `none` = `WrapStructError` (wrong size).
      Plain classes: the block itself; MGH: padded / truncated, orientation defaults when goodRASFlag = 0 -/
  norm : Endian → List Byte → Option (List Byte)
  /-- `endianness=None`: `guessed_endian` -/
  guess : List Byte → Option Endian
  /-- `check_fix` (repairs applied in place) as a function on the bytes -/
  fix : Endian → List Byte → List Byte

inductive MOp where
  | alloc (w : Bool) (bs : List Byte)          -- the caller creates a container with its own memory
  | view (b : Nat) (ro : Bool)                 -- `memoryview(x)`, `np.frombuffer(x, np.uint8)`, `.toreadonly()`: same memory
  | poke (b off : Nat) (bs : List Byte)        -- `x[off:off+n] = bs` through a writable container
  | ctor (b : Nat) (e : Option Endian)         -- `Klass(x, endianness, check=False)`
  | fromFile (b off : Nat) (e : Option Endian) -- `f.seek(off); Klass.from_fileobj(f, endianness, check=False)`
  | snap (h : Nat)                             -- `x = hdr.binaryblock`
  | setf (h : Nat) (name : String) (v : List Nat)   -- `hdr[name] = items`
  | copy (h : Nat)                             -- `hdr.copy()`, `Klass.from_header(hdr, check=False)` of the same class
  | swapTo (h : Nat) (t : Option Endian)       -- `hdr.as_byteswapped(t)`
  | fix (h : Nat)                              -- `hdr.check_fix(error_level=1000)`
  deriving Repr

/-- the constructor proper: resolve the byte order, check the size, allocate `wstr.copy()` -/
def Mem.newHdr (K : Klass) (m : Mem) (e? : Option Endian) (bs : List Byte) : Option Mem :=
  match (match e? with | some e => some e | none => K.guess bs) with
  | none => none
  | some e =>
    match K.norm e bs with
    | none => none
    | some s => some ⟨m.cells ++ [s], m.bufs, m.hdrs ++ [⟨e, m.cells.length⟩]⟩

def Mem.newBuf (m : Mem) (w : Bool) (bs : List Byte) : Mem :=
  ⟨m.cells ++ [bs], m.bufs ++ [⟨m.cells.length, w⟩], m.hdrs⟩

def Mem.writeCell (m : Mem) (c : Nat) (x : List Byte) : Mem := ⟨m.cells.set c x, m.bufs, m.hdrs⟩

def splice (old : List Byte) (off : Nat) (bs : List Byte) : List Byte :=
  old.take off ++ bs ++ old.drop (off + bs.length)

def Mem.step (K : Klass) (m : Mem) : MOp → Option Mem
  | .alloc w bs => some (m.newBuf w bs)
  | .view b ro =>
      if b < m.bufs.length then some ⟨m.cells, m.bufs ++ [⟨m.bufCell b, m.bufW b && !ro⟩], m.hdrs⟩ else none
  | .poke b off bs =>
      if b < m.bufs.length ∧ m.bufW b = true ∧ off + bs.length ≤ (m.bufBytes b).length
      then some (m.writeCell (m.bufCell b) (splice (m.bufBytes b) off bs)) else none
  | .ctor b e => if b < m.bufs.length then m.newHdr K e (m.bufBytes b) else none
  | .fromFile b off e =>
      if b < m.bufs.length then m.newHdr K e (((m.bufBytes b).drop off).take K.L.size) else none
  | .snap h => if h < m.hdrs.length then some (m.newBuf false (m.hdrBytes h)) else none
  | .setf h n v =>
      if h < m.hdrs.length
      then some (m.writeCell (m.hdrCell h) (binaryblock K.L ((m.hdr K.L h).setField K.L n v))) else none
  | .copy h => if h < m.hdrs.length then m.newHdr K (some (m.hdrE h)) (m.hdrBytes h) else none
  | .swapTo h t =>
      if h < m.hdrs.length then
        (if t.getD (m.hdrE h).swap = m.hdrE h then m.newHdr K (some (m.hdrE h)) (m.hdrBytes h)
         else m.newHdr K (some (t.getD (m.hdrE h).swap)) (swapFields K.L (m.hdrBytes h)))
      else none
  | .fix h =>
      if h < m.hdrs.length then some (m.writeCell (m.hdrCell h) (K.fix (m.hdrE h) (m.hdrBytes h))) else none

def Mem.run (K : Klass) : Mem → List MOp → Option Mem
  | m, [] => some m
  | m, op :: ops =>
    match m.step K op with
    | none => none
    | some m1 => Mem.run K m1 ops

/-- the cell an operation writes IN PLACE (everything else an operation does is allocate) -/
def MOp.target (m : Mem) : MOp → Option Nat
  | .poke b _ _ => some (m.bufCell b)
  | .setf h _ _ => some (m.hdrCell h)
  | .fix h => some (m.hdrCell h)
  | _ => none

/-- the operation writes through header `h` -/
def MOp.touches : MOp → Nat → Bool
  | .setf h _ _, k => h == k
  | .fix h, k => h == k
  | _, _ => false

def MOp.isPoke : MOp → Bool
  | .poke _ _ _ => true
  | _ => false

/-- NOT the code: a constructor that keeps the array wrapping the caller's block when that array is writable
    (`wstr if wstr.flags.writeable else wstr.copy()`): the new header views the CALLER's cell -/
def Mem.stepAlias (K : Klass) (m : Mem) : MOp → Option Mem
  | .ctor b e =>
      if b < m.bufs.length then
        (if m.bufW b then
          match (match e with | some e => some e | none => K.guess (m.bufBytes b)) with
          | none => none
          | some e => (K.norm e (m.bufBytes b)).map (fun _ => ⟨m.cells, m.bufs, m.hdrs ++ [⟨e, m.bufCell b⟩]⟩)
         else m.newHdr K e (m.bufBytes b))
      else none
  | op => m.step K op

def Mem.runAlias (K : Klass) : Mem → List MOp → Option Mem
  | m, [] => some m
  | m, op :: ops =>
    match m.stepAlias K op with
    | none => none
    | some m1 => Mem.runAlias K m1 ops

/-- no operation of the history writes through a container that exposes cell `c` — containers created DURING the
    history (views of views …) included, which is why this is stated along the run and not on the syntax -/
def Mem.noPokeOn (K : Klass) : Mem → List MOp → Nat → Prop
  | _, [], _ => True
  | m, op :: ops, c =>
    (∀ b off bs, op = .poke b off bs → m.bufCell b ≠ c) ∧ (∀ m1, m.step K op = some m1 → Mem.noPokeOn K m1 ops c)

/-! ### the ownership skeleton, as extracted from the source -/

/-- where a value assigned to `self._structarr` comes from -/
inductive Store where
  | fresh          -- `klass.default_structarr(endianness)`: a newly built default record
  | copyOfWrap     -- `W.copy()` of an ndarray `W = np.ndarray(shape=(), dtype=…, buffer=binaryblock)`
  | wrap           -- (on some path) such an ndarray `W` ITSELF: a view of the caller's block
  | other
  deriving DecidableEq, Repr, Inhabited

structure OwnSkel where
  /-- every assignment to `self._structarr` in `WrapStruct.__init__`, in source order -/
  ctorStores : List Store
  /-- assignments to an attribute `_structarr` anywhere else in the modules of the header classes -/
  otherStores : Nat
  /-- the `binaryblock` property returns `self._structarr.tobytes()` -/
  binaryblockTobytes : Bool
  /-- each distinct `copy()` of the header classes returns `self.__class__(self.binaryblock, …)` -/
  copyViaCtor : List Bool
  /-- each distinct `as_byteswapped()`: every return is `self.copy()` or `self.__class__(<…>.tobytes(), …)` -/
  swapViaCtor : List Bool
  /-- each distinct `from_fileobj()` (MGH excluded): the constructor gets a name bound to `fileobj.read(…)` -/
  fromFileReads : List Bool
  deriving DecidableEq, Repr, Inhabited

def OwnSkel.ok (s : OwnSkel) : Bool :=
  s.ctorStores == [.fresh, .copyOfWrap] && s.otherStores == 0 && s.binaryblockTobytes &&
  !s.copyViaCtor.isEmpty && s.copyViaCtor.all id && !s.swapViaCtor.isEmpty && s.swapViaCtor.all id &&
  !s.fromFileReads.isEmpty && s.fromFileReads.all id

/-- the step function the extracted skeleton describes: a constructor that may store the wrapping array follows
    `stepAlias`, otherwise `step` (the driver runs THIS on the generated skeleton) -/
def Mem.stepBy (K : Klass) (s : OwnSkel) (m : Mem) (op : MOp) : Option Mem :=
  if s.ctorStores.contains .wrap then m.stepAlias K op else m.step K op

/-- no header views a caller's cell, no two headers view the same cell, every reference is allocated -/
def Mem.Sep (m : Mem) : Prop :=
  (∀ b ∈ m.bufs, b.cell < m.cells.length) ∧ (∀ o ∈ m.hdrs, o.buf < m.cells.length) ∧
  (∀ o ∈ m.hdrs, ∀ b ∈ m.bufs, o.buf ≠ b.cell) ∧ m.hdrs.Pairwise (fun a b => a.buf ≠ b.buf)

/-- the constructor of the plain classes (everything but MGH): size check, then the block as it is -/
def plainNorm (L : Layout) : Endian → List Byte → Option (List Byte) :=
  fun _ bs => if bs.length = L.size then some bs else none

end Nb.C10
