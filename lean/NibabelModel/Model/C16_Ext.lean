import NibabelModel.Model.C16
/-
  Model/C16_Ext — phase-3 extension of the C16 model (core Lean only):

  1. TRK header at BYTE level with both byte orders (`TrkFile._read_header`, trk.py:547-640: the
     `hdr_size` field decides whether the header — and then every record of `_read` — is decoded in
     the machine's order or byte-swapped; version check).  The host is little-endian
     (`native_code = '<'`); floats stay bit patterns.
  2. `LazyTractogram.apply_affine` / `to_world` (tractogram.py:825-883) and
     `Tractogram.apply_affine` (tractogram.py:427-468) as bookkeeping of the pair
     (`_affine_to_apply`, `affine_to_rasmm`), and the save pipelines of `TrkFile.save` /
     `TckFile.save` that are built from them.
  3. a generator body with `yield`s and a `seek` that is either in a `finally:` clause enclosing
     every `yield` or the last statement of the body (the CPython rules: `close()` raises
     GeneratorExit at the suspended `yield`; a `finally` clause runs on every way of leaving the
     `try`; a trailing statement runs only on normal completion).  `Gen` of Model/C16 is the
     instance (`SEEK_SET`, in finally) / (`SEEK_CUR`, trailing); WHICH instance the two readers are
     is read off the source AST on every run (Generated/C16.lean).
  4. the line-oriented header parser of `TckFile._read_header` (tck.py:309-398) on bytes.
-/
namespace Nb.C16

/-! ## 1. Byte order -/

inductive Endian where
  | little | big
  deriving Repr, DecidableEq, Inhabited

def Endian.name : Endian → String
  | .little => "<" | .big => ">"

def enc16 : Endian → Nat → List Nat
  | .little, v => [v % 256, v / 256 % 256]
  | .big, v => [v / 256 % 256, v % 256]

def dec16 : Endian → Nat → Nat → Nat
  | .little, a, b => a + 256 * b
  | .big, a, b => 256 * a + b

def enc32 : Endian → Nat → List Nat
  | .little, w => encWord w
  | .big, w => [w / 16777216 % 256, w / 65536 % 256, w / 256 % 256, w % 256]

def dec32 : Endian → Nat → Nat → Nat → Nat → Nat
  | .little, a, b, c, d => decWord a b c d
  | .big, a, b, c, d => decWord d c b a

/-- the 2 / 4 bytes at offset `off` of a buffer (a short buffer reads as zeros — the header buffer
    is a zero-filled `bytearray(1000)` that `readinto` fills as far as the file goes) -/
def get16 (e : Endian) (l : List Nat) (off : Nat) : Nat :=
  match l.drop off with
  | a :: b :: _ => dec16 e a b
  | _ => 0

def get32 (e : Endian) (l : List Nat) (off : Nat) : Nat :=
  match l.drop off with
  | a :: b :: c :: d :: _ => dec32 e a b c d
  | _ => 0

/-- `np.frombuffer(bytes, e + 'u4')` of whole words; second component = left-over bytes -/
def decWords (e : Endian) : List Nat → List Nat × Nat
  | a :: b :: c :: d :: rest =>
      let r := decWords e rest
      (dec32 e a b c d :: r.1, r.2)
  | l => ([], l.length)

def encWords (e : Endian) (ws : List Nat) : List Nat := (ws.map (enc32 e)).flatten

/-- The fields of the 1000-byte TRK header that the reader's control flow uses, with the rest as
    opaque byte blocks (`blockA` = id_string, dim, voxel_size, origin; `blockB` = vox_to_ras,
    reserved, voxel_order, pad2, image_orientation_patient, pad1, the six flags).  Offsets are
    regenerated from `header_2_dtype` (`Gen.trkOffsets_eq_model`). -/
structure TrkHdr where
  blockA : List Nat
  ns : Nat                          -- n_scalars (int16)
  scalarNames : List (List Nat)     -- 10 × S20
  np : Nat                          -- n_properties (int16)
  propNames : List (List Nat)       -- 10 × S20
  blockB : List Nat
  n : Nat                           -- n_count (int32)
  version : Nat                     -- int32
  hdrSize : Nat                     -- int32
  deriving Repr, DecidableEq, Inhabited

def trkOffNs : Nat := 36
def trkOffScalarNames : Nat := 38
def trkOffNp : Nat := 238
def trkOffPropNames : Nat := 240
def trkOffB : Nat := 440
def trkOffN : Nat := 988
def trkOffVersion : Nat := 992
def trkOffHdrSize : Nat := 996

/-- the header as bytes in byte order `e` (`header.tobytes()` of the structured array) -/
def trkHdrBytes (e : Endian) (h : TrkHdr) : List Nat :=
  h.blockA ++ (enc16 e h.ns ++ (h.scalarNames.flatten ++ (enc16 e h.np ++ (h.propNames.flatten ++
    (h.blockB ++ (enc32 e h.n ++ (enc32 e h.version ++ enc32 e h.hdrSize)))))))

/-- `n` chunks of 20 bytes (an `('S20', 10)` field) -/
def chunk20 : Nat → List Nat → List (List Nat)
  | 0, _ => []
  | n + 1, l => l.take 20 :: chunk20 n (l.drop 20)

/-- the endianness check (trk.py:571-584): native order if `hdr_size` reads as 1000, else the
    swapped order if it reads as 1000 there, else HeaderError -/
def trkDetectEndian (hb : List Nat) : Except Err Endian :=
  if get32 .little hb trkOffHdrSize = trkHeaderSize then .ok .little
  else if get32 .big hb trkOffHdrSize = trkHeaderSize then .ok .big
  else .error .header

/-- the header buffer: `bytearray(1000)` filled by `readinto` -/
def trkHdrBuf (bytes : List Nat) : List Nat := bytes.take 1000 ++ List.replicate (1000 - bytes.length) 0

/-- `TrkFile._read_header` up to the version check (the `vox_to_ras` validity check lives in `blockB`
    and is not modelled) -/
def trkParseHeader (bytes : List Nat) : Except Err (Endian × TrkHdr) :=
  let hb := trkHdrBuf bytes
  match trkDetectEndian hb with
  | .error e => .error e
  | .ok e =>
      let version := get32 e hb trkOffVersion
      if version = 1 ∨ version = 2 ∨ version = 3 then
        .ok (e, ⟨hb.take trkOffNs, get16 e hb trkOffNs, chunk20 10 (hb.drop trkOffScalarNames),
                 get16 e hb trkOffNp, chunk20 10 (hb.drop trkOffPropNames),
                 (hb.drop trkOffB).take (trkOffN - trkOffB), get32 e hb trkOffN, version,
                 get32 e hb trkOffHdrSize⟩)
      else .error .header

/-- `_read_header` + `_read` on the bytes of a file: the records are decoded in the DETECTED byte
    order (`i4_dtype`/`f4_dtype` built from `header[Field.ENDIANNESS]`).  Whole words only. -/
def trkReadBytes (bytes : List Nat) : Except Err (Endian × TrkHdr × GenRun TrkRec) :=
  match trkParseHeader bytes with
  | .error e => .error e
  | .ok (e, h) => .ok (e, h, trkRead h.ns h.np h.n trkHeaderSize (decWords e (bytes.drop trkHeaderSize)).1)

/-! ## 2. Pending affines of (Lazy)Tractogram -/

def Aff.one : Aff :=
  { a00 := 1, a01 := 0, a02 := 0, a10 := 0, a11 := 1, a12 := 0, a20 := 0, a21 := 0, a22 := 1, t0 := 0, t1 := 0, t2 := 0 }

/-- the affine bookkeeping of a `LazyTractogram`: `_affine_to_apply` (applied to every streamline
    the data function yields) and `affine_to_rasmm` (None = unknown space) -/
structure LazyT where
  pending : Aff
  toRas : Option Aff
  deriving Repr, DecidableEq, Inhabited

/-- `LazyTractogram.apply_affine(affine)`: `_affine_to_apply = dot(affine, _affine_to_apply)`,
    `affine_to_rasmm = dot(affine_to_rasmm, inv(affine))` -/
def LazyT.applyAffine (t : LazyT) (A : Aff) : LazyT :=
  ⟨A.comp t.pending, t.toRas.map (fun R => R.comp A.inv)⟩

/-- the ORDER bug a reviewer seeded: `dot(_affine_to_apply, affine)` -/
def LazyT.applyAffineSwapped (t : LazyT) (A : Aff) : LazyT :=
  ⟨t.pending.comp A, t.toRas.map (fun R => R.comp A.inv)⟩

/-- `LazyTractogram.to_world()`: ValueError if the space is unknown -/
def LazyT.toWorld (t : LazyT) : Except Err LazyT :=
  match t.toRas with
  | none => .error .value
  | some R => .ok (t.applyAffine R)

/-- `LazyTractogram.from_tractogram(tractogram)`: nothing pending, same `affine_to_rasmm` -/
def LazyT.ofTractogram (toRas : Option Aff) : LazyT := ⟨Aff.one, toRas⟩

/-- the point a consumer of `.streamlines` / the item iteration sees for the raw point `p` -/
def LazyT.see (t : LazyT) (p : V3) : V3 := t.pending.apply p

/-- a history of calls -/
inductive AffOp where
  | apply (A : Aff)
  | world
  deriving Repr, DecidableEq

def LazyT.run (t : LazyT) : List AffOp → Except Err LazyT
  | [] => .ok t
  | .apply A :: ops => (t.applyAffine A).run ops
  | .world :: ops => match t.toWorld with
      | .error e => .error e
      | .ok t' => t'.run ops

/-- what `TrkFile.save` hands to its record loop for the raw point `p` of the tractogram `t` under a
    header whose trackvis→RAS+mm affine is `T` (trk.py:443-445):
    `tractogram.to_world(lazy=True).apply_affine(inv(T), lazy=True)` -/
def trkSavePipeline (t : LazyT) (T : Aff) : Except Err LazyT :=
  match t.toWorld with
  | .error e => .error e
  | .ok w => .ok (w.applyAffine T.inv)

/-! ## 3. Generators with a `finally` clause -/

inductive Whence where
  | set | cur
  deriving Repr, DecidableEq

/-- where the reader's `f.seek(start_position, <whence>)` is: in the `finally:` clause of a `try`
    that encloses every `yield` of the body, or the last statement of the body -/
structure SeekSpec where
  whence : Whence
  inFinally : Bool
  deriving Repr, DecidableEq

/-- `f.seek(start, whence)` when the file position is `pos` -/
def doSeek (w : Whence) (start pos : Nat) : Nat :=
  match w with
  | .set => start
  | .cur => pos + start

/-- how control leaves the body -/
inductive Leave where
  | returned            -- the loop ended and the body ran to its last statement
  | raised              -- an exception escaped
  | closed              -- GeneratorExit raised at the suspended `yield` by `close()` / garbage collection
  deriving Repr, DecidableEq

/-- file position after control has left the body at position `pos`: a `finally` clause runs on
    every exit, a trailing statement only on `returned` -/
def leavePos (s : SeekSpec) (start pos : Nat) (how : Leave) : Nat :=
  if s.inFinally then doSeek s.whence start pos
  else match how with
    | .returned => doSeek s.whence start pos
    | _ => pos

structure FGen (α : Type) where
  run : GenRun α
  spec : SeekSpec
  start : Nat
  st : GState
  pos : Nat

def FGen.init {α} (run : GenRun α) (spec : SeekSpec) (start : Nat) : FGen α := ⟨run, spec, start, .fresh, start⟩

def FGen.advance {α} (g : FGen α) (k : Nat) : FGen α :=
  match g.run.items[k]? with
  | some it => { g with st := .suspended k, pos := it.2 }
  | none =>
      { g with st := .finished,
               pos := leavePos g.spec g.start g.run.endPos (match g.run.err with | none => .returned | some _ => .raised) }

def FGen.step {α} (g : FGen α) : Act → FGen α
  | .next => match g.st with
      | .fresh => g.advance 0
      | .suspended k => g.advance (k + 1)
      | .finished => g
  | .close => match g.st with
      | .fresh => { g with st := .finished }                                           -- body never ran: no `try` entered
      | .suspended _ => { g with st := .finished, pos := leavePos g.spec g.start g.pos .closed }
      | .finished => g

def FGen.runActs {α} (g : FGen α) (acts : List Act) : FGen α := acts.foldl FGen.step g

/-- the instance the CURRENT readers are / the ORIGINAL readers were -/
def seekFixed : SeekSpec := ⟨.set, true⟩
def seekOrig : SeekSpec := ⟨.cur, false⟩

/-! ## 4. The TCK header parser (tck.py:309-398) on bytes

  `for line in f` cuts at `\n`; `line.decode().strip()` strips ASCII white space (the correspondence
  stream keeps to bytes < 128; `str.strip` also strips \x1c-\x1f); an empty line is skipped; the
  line `END` ends the header; `key, line = line.split(':', 1)` (a line without `:` continues the
  previous key; before any key → HeaderError); values of a repeated key are joined with `\n`.
  Then `_offset_data = int(hdr['file'].split()[1])`. -/

def isSpace (c : Nat) : Bool := c == 32 || (9 ≤ c && c ≤ 13) || (28 ≤ c && c ≤ 31)

def lstrip (s : List Nat) : List Nat := s.dropWhile isSpace
def strip (s : List Nat) : List Nat := (lstrip (lstrip s).reverse).reverse

/-- lines of a byte string as `for line in f` yields them, without the `\n` -/
def splitLines : List Nat → List (List Nat)
  | [] => []
  | c :: cs =>
      if c == 10 then [] :: splitLines cs
      else match splitLines cs with
        | [] => [[c]]
        | l :: ls => (c :: l) :: ls        -- `c` extends the first line of the rest

/-- `line.split(':', 1)`: none if there is no colon -/
def splitColon : List Nat → Option (List Nat × List Nat)
  | [] => none
  | c :: cs => if c == 58 then some ([], cs) else (splitColon cs).map (fun r => (c :: r.1, r.2))

/-- `s.split()`: maximal runs of non-space characters -/
def splitWs (s : List Nat) : List (List Nat) :=
  let rec go (cur : List Nat) : List Nat → List (List Nat)
    | [] => if cur.isEmpty then [] else [cur]
    | c :: cs => if isSpace c then (if cur.isEmpty then go [] cs else cur :: go [] cs) else go (cur ++ [c]) cs
  go [] s

structure HdrScan where
  key : Option (List Nat)
  entries : List (List Nat × List (List Nat))     -- key ↦ values, insertion-ordered
  deriving Repr, DecidableEq

def HdrScan.add (st : HdrScan) (k v : List Nat) : HdrScan :=
  ⟨some k, if st.entries.any (·.1 == k) then st.entries.map (fun e => if e.1 == k then (e.1, e.2 ++ [v]) else e)
           else st.entries ++ [(k, [v])]⟩

/-- the loop over header lines; `some (state, bytes consumed incl. the END line)` when `END` was
    found (`used` counts every line read so far with its `\n`) -/
def hdrLoop : HdrScan → Nat → List (List Nat) → Except Err (Option (HdrScan × Nat))
  | _, _, [] => .ok none                                 -- Missing END
  | st, used, raw :: rest =>
      let used' := used + raw.length + 1
      let line := strip raw
      if line.isEmpty then hdrLoop st used' rest
      else if line == [69, 78, 68] then .ok (some (st, used'))
      else match splitColon line with
        | some (k, v) => hdrLoop (st.add (strip k) (strip v)) used' rest
        | none => match st.key with
            | none => .error .header
            | some k => hdrLoop (st.add k line) used' rest

def tckMagic : List Nat := [109, 114, 116, 114, 105, 120, 32, 116, 114, 97, 99, 107, 115]   -- b'mrtrix tracks'

def joinNl : List (List Nat) → List Nat
  | [] => []
  | [a] => a
  | a :: b :: r => a ++ 10 :: joinNl (b :: r)

/-- `int(hdr['file'].split()[1])` after the check `hdr['file'].split()[0] == '.'` -/
def fileEntryOffset (v : List Nat) : Except Err Nat :=
  match splitWs v with
  | dot :: num :: _ =>
      if dot != [46] then .error .header
      else match parseDec num with
        | some n => .ok n
        | none => .error .value
  | [dot] => if dot != [46] then .error .header else .error .short     -- IndexError
  | [] => .error .short

/-- `_offset_data` of `TckFile._read_header(bytes)`.  Without a `file` entry the code guesses
    `f.tell()` after the END line (END as last line without `\n`: end of file).  The
    `datatype` checks are not modelled (the streams always carry `datatype: Float32LE`). -/
def tckHeaderOffset (bytes : List Nat) : Except Err Nat :=
  if bytes.take 13 != tckMagic then .error .header
  else match hdrLoop ⟨none, []⟩ 14 (splitLines (bytes.drop 14)) with
    | .error e => .error e
    | .ok none => .error .header
    | .ok (some (st, used)) =>
        match st.entries.lookup [102, 105, 108, 101] with
        | none => .ok (min used bytes.length)
        | some vals => fileEntryOffset (joinNl vals)

end Nb.C16
