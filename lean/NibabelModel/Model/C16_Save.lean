import NibabelModel.Model.C16
/-
  Model/C16_Save — wave-3 extension of the C16 model (core Lean only): the STATE the arguments of
  `save` are in.

  5. The header handed to `TrkFile(tractogram, header=…)` / `nib.streamlines.save(…, header=…)`
     (trk.py:411-417: every TRK field of the supplied header — incl. `scalar_name`,
     `property_name`, `nb_scalars_per_point`, `nb_properties_per_streamline`, `nb_streamlines` — is
     copied into the header record first; trk.py:465-501, 526-545: `save` then OVERWRITES the fields
     the tractogram determines).  The name tables are built by a loop `table[i] = encode(...)` over
     a fresh all-zero table and assigned with `header[...][:] = table`: ALL ten slots are replaced.
  6. `ArraySequence` as (buffer, offsets, lengths) (array_sequence.py): indexing by a slice / list /
     integer array / boolean mask returns a VIEW that shares the buffer and only picks offsets and
     lengths (array_sequence.py:392-410); `copy()` (array_sequence.py:338-367) gathers the selected
     chunks into a new compact buffer.  Both `save` methods reach `copy()` through
     `tractogram.to_world(lazy=True)` → `LazyTractogram.from_tractogram` → `streamlines.copy()`.
-/
namespace Nb.C16

/-! ## 5. Supplied TRK header -/

def zeroField : List Nat := List.replicate 20 0

/-- `for i, name in enumerate(keys): table[i] = encode_value_in_name(...)` on the table `tbl`,
    starting at slot `i` -/
def fillTable (tbl : List (List Nat)) : List (List Nat) → Nat → List (List Nat)
  | [], _ => tbl
  | e :: es, i => fillTable (tbl.set i e) es (i + 1)

/-- the name table after the loop when the loop writes into `base` (trk.py:475-482 / 494-501:
    `base` is `np.zeros(10, 'S20')`, and the result replaces the whole header field) -/
def nameTableInto (base : List (List Nat)) (cols : List (Name × Nat)) : Except Err (List (List Nat)) :=
  if cols.length > 10 then .error .value
  else match cols.mapM (fun c => encodeName c.2 c.1) with
    | .error e => .error e
    | .ok encs => .ok (fillTable base encs 0)

/-- `TrkFile.save` (after the affine) when the header record starts from the SUPPLIED header `sup`
    (its counts and name tables; a header built from scratch has zeros there).  `inPlace = false`
    is the code: the loops fill a zero table; `inPlace = true` is the variant that writes the names
    straight into the inherited tables (kept for the counterexample).  Empty tractogram
    (trk.py:452-461): the three counts are zeroed, the name tables stay as supplied. -/
def trkSaveItemsFrom (inPlace : Bool) (sup : TrkCounts) (items : List Item) : Except Err (TrkCounts × List Nat) :=
  match items with
  | [] => .ok (⟨0, 0, 0, sup.scalarFields, sup.propFields⟩, [])
  | first :: _ =>
      match nameTableInto (if inPlace then sup.propFields else zeroFields) (first.dps.map (fun d => (d.1, d.2.length))) with
      | .error e => .error e
      | .ok propFields =>
          match nameTableInto (if inPlace then sup.scalarFields else zeroFields)
                  (first.dpp.map (fun d => (d.1, (d.2.headD []).length))) with
          | .error e => .error e
          | .ok scalarFields =>
              match items.mapM (itemRec (first.dpp.map (·.1)) (first.dps.map (·.1))) with
              | .error e => .error e
              | .ok recs =>
                  match trkHeaderCounts items.length recs scalarFields propFields with
                  | .error e => .error e
                  | .ok h => .ok (h, trkDataWords recs)

def trkSaveItemsH (sup : TrkCounts) (items : List Item) : Except Err (TrkCounts × List Nat) :=
  trkSaveItemsFrom false sup items

/-- the names (with their column slices) `TrkFile.load` finds in a header -/
def trkLoadNames (h : TrkCounts) : Except Err (List (Name × Nat × Nat) × List (Name × Nat × Nat)) :=
  match nameSlices h.ns h.scalarFields scalarsName with
  | .error e => .error e
  | .ok a => match nameSlices h.np h.propFields propertiesName with
    | .error e => .error e
    | .ok b => .ok (a, b)

/-! ## 6. ArraySequence views and `copy()` -/

structure SeqView (α : Type) where
  data : List α            -- `_data` (rows)
  offsets : List Nat       -- `_offsets`
  lengths : List Nat       -- `_lengths`
  deriving Repr, DecidableEq

/-- running sums: the offsets of back-to-back elements starting at `s` -/
def prefixSums : Nat → List Nat → List Nat
  | _, [] => []
  | s, n :: ns => s :: prefixSums (s + n) ns

/-- `ArraySequence(iterable)`: elements back to back -/
def SeqView.ofLists {α} (l : List (List α)) : SeqView α :=
  ⟨l.flatten, prefixSums 0 (l.map List.length), l.map List.length⟩

/-- `_data[offset : offset + length]` -/
def chunkAt {α} (data : List α) (o n : Nat) : List α := (data.drop o).take n

/-- `[seq[i] for i in range(len(seq))]` -/
def SeqView.items {α} (v : SeqView α) : List (List α) := List.zipWith (chunkAt v.data) v.offsets v.lengths

/-- `seq[idx]` for a slice / list / integer array / boolean mask, resolved to the list of selected
    positions `idxs` (all `< len(seq)`): the buffer is shared, offsets and lengths are picked -/
def SeqView.index {α} (v : SeqView α) (idxs : List Nat) : SeqView α :=
  ⟨v.data, idxs.map (fun i => v.offsets.getD i 0), idxs.map (fun i => v.lengths.getD i 0)⟩

/-- the loop of `ArraySequence.copy` over `zip(_offsets, _lengths)`: (new buffer, new offsets) -/
def copyLoop {α} (data : List α) : List (Nat × Nat) → Nat → List α × List Nat
  | [], _ => ([], [])
  | (o, n) :: r, next =>
      let rr := copyLoop data r (next + n)
      (chunkAt data o n ++ rr.1, next :: rr.2)

def SeqView.copy {α} (v : SeqView α) : SeqView α :=
  let r := copyLoop v.data (v.offsets.zip v.lengths) 0
  ⟨r.1, r.2, v.lengths⟩

/-- a view as `__getitem__` produces them: one length per offset, every chunk inside the buffer -/
def SeqView.Valid {α} (v : SeqView α) : Prop :=
  v.offsets.length = v.lengths.length ∧ ∀ p ∈ v.offsets.zip v.lengths, p.1 + p.2 ≤ v.data.length

/-- a history of view-producing steps on a sequence -/
inductive ViewStep where
  | index (idxs : List Nat)
  | copy
  deriving Repr, DecidableEq

def SeqView.step {α} (v : SeqView α) : ViewStep → SeqView α
  | .index idxs => v.index idxs
  | .copy => v.copy

def SeqView.run {α} (v : SeqView α) (steps : List ViewStep) : SeqView α := steps.foldl SeqView.step v

/-- the same history on the plain list of elements (the reference semantics of indexing) -/
def listStep {α} (l : List (List α)) : ViewStep → List (List α)
  | .index idxs => idxs.map (fun i => l.getD i [])
  | .copy => l

def listRun {α} (l : List (List α)) (steps : List ViewStep) : List (List α) := steps.foldl listStep l

/-- every index of every step is in range for the sequence it is applied to -/
def stepsOk : Nat → List ViewStep → Prop
  | _, [] => True
  | n, .index idxs :: r => (∀ i ∈ idxs, i < n) ∧ stepsOk idxs.length r
  | n, .copy :: r => stepsOk n r

/-- what `save` iterates over: `LazyTractogram.from_tractogram(t)` calls `t.streamlines.copy()` -/
def savedStreamlines {α} (v : SeqView α) : List (List α) := v.copy.items

/-! ## 7. A Tractogram whose arrays are views (tractogram.py:402-418 `__getitem__`, 627-659 `from_tractogram`,
    770-790 `_gen_data`) -/

/-- `Tractogram`: streamlines and one per-point sequence per name are `ArraySequence`s (views after
    indexing), per-streamline data one row per streamline -/
structure TractoView where
  pts : SeqView Triple
  dpp : List (Name × SeqView (List Nat))
  dps : List (Name × List (List Nat))

/-- `Tractogram.__getitem__(idx)` for a non-integer index resolved to positions `idxs`: every array
    is indexed with the same `idx` -/
def TractoView.index (t : TractoView) (idxs : List Nat) : TractoView :=
  ⟨t.pts.index idxs, t.dpp.map (fun d => (d.1, d.2.index idxs)), t.dps.map (fun d => (d.1, idxs.map (fun i => d.2.getD i [])))⟩

/-- item `i` as `tractogram[i]` gives it -/
def TractoView.item (t : TractoView) (i : Nat) : Item :=
  ⟨t.pts.items.getD i [], t.dpp.map (fun d => (d.1, d.2.items.getD i [])), t.dps.map (fun d => (d.1, d.2.getD i []))⟩

def TractoView.length (t : TractoView) : Nat := t.pts.lengths.length

/-- `list(tractogram)` -/
def TractoView.items (t : TractoView) : List Item := (List.range t.length).map t.item

/-- what `save` iterates over: `LazyTractogram.from_tractogram(t)` — the streamlines come from
    `t.streamlines.copy()`, the data from `iter(t.data_per_point[k])` / `iter(t.data_per_streamline[k])`,
    zipped item by item by `_gen_data` -/
def TractoView.savedItems (t : TractoView) : List Item :=
  (List.range t.length).map (fun i =>
    ⟨t.pts.copy.items.getD i [], t.dpp.map (fun d => (d.1, d.2.items.getD i [])), t.dps.map (fun d => (d.1, d.2.getD i []))⟩)

/-- all arrays describe the same number of streamlines and are valid sequences -/
def TractoView.Valid (t : TractoView) : Prop :=
  t.pts.Valid ∧ (∀ d ∈ t.dpp, d.2.Valid ∧ d.2.lengths.length = t.length) ∧ (∀ d ∈ t.dps, d.2.length = t.length)

/-- a freshly built tractogram: every array back to back -/
def TractoView.ofItems (pnames snames : List Name) (items : List Item) : TractoView :=
  ⟨SeqView.ofLists (items.map (·.pts)),
   pnames.map (fun n => (n, SeqView.ofLists (items.map (fun it => (it.dpp.lookup n).getD [])))),
   snames.map (fun n => (n, items.map (fun it => (it.dps.lookup n).getD [])))⟩

end Nb.C16
