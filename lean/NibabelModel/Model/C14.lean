import NibabelModel.Model.C06
import NibabelModel.Generated.C14
/-!
  Model/C14 — concurrent reads through a shared file handle (core Lean only).

  Python modelled (file:lines of /repo at the time of writing):
  * nibabel/arrayproxy.py:215        `self._lock = RLock()`
  * nibabel/arrayproxy.py:221-236    `copy()` — the new proxy shares `_lock` iff `file_like` is a handle
  * nibabel/arrayproxy.py:366-385    `_get_fileobj` — lazily created persistent `ImageOpener` (`_opener` slot)
  * nibabel/arrayproxy.py:387-409    `_get_unscaled` — whole-array path `with fileobj, self._lock: array_from_file`,
                                     sliced path `fileslice(..., lock=self._lock)`
  * nibabel/fileslice.py:631-682     `read_segments` — per segment `with lock: seek(offset); read(length)`
  * nibabel/volumeutils.py:441-480   `array_from_file` — `np.memmap` attempt (`seek(0,2); tell()`), then
                                     `seek(offset); readinto(n_bytes)`

  Small-step semantics.  Shared state: the position of every file handle, the slot holding the
  persistent opener, every lock's owner and RLock re-entrancy count.  Each thread has a program (list of
  atomic actions), the handle its `fileobj` variable refers to (`cur`) and the handle it opened last
  (`mine`).  A schedule is a list of thread ids; each entry lets that thread perform ONE atomic action
  (a thread whose `acquire` finds the lock owned by another thread performs the no-op `blocked`).
  The CPython scheduler is abstracted as "any interleaving of these atomic actions" (trusted base).
-/
namespace Nb.C14

abbrev Tid := Nat
abbrev Byte := Nat

/-- atomic actions of a thread -/
inductive Action where
  | acquire (l : Nat)      -- `lock.acquire()` / `with lock:` entry, lock number `l` (RLock: re-entrant)
  | release (l : Nat)      -- `lock.release()` / `with lock:` exit
  | seek (o : Nat)         -- `fileobj.seek(o)` on the thread's current handle
  | seekEnd                -- `fileobj.seek(0, 2)`   (first step of `np.memmap(fileobj, ...)`)
  | tell                   -- `fileobj.tell()`       (second step of `np.memmap`)
  | read (n : Nat)         -- `fileobj.read(n)` / `fileobj.readinto(bytearray(n))`
  | probe (k : Nat)        -- `hasattr(self, '_opener')`: when the slot is filled the next `k` actions are skipped
  | opn                    -- `ImageOpener(path)`: a fresh handle
  | setSlot                -- `self._opener = <the handle just opened>`
  | getSlot                -- `fileobj = self._opener`
  deriving Repr, DecidableEq, Inhabited

/-- observable event of one step -/
inductive Ev where
  | acq (l : Nat) | rel (l : Nat) | blocked (l : Nat) | relErr (l : Nat)
  | seek (h o : Nat) | seekEnd (h : Nat) | tell (h p : Nat) | read (h n : Nat) (data : List Byte)
  | get (v : Option Nat) | opn (h : Nat) | setSlot (h : Nat)
  | idle
  deriving Repr, DecidableEq, Inhabited

structure Thread where
  prog : List Action
  cur  : Nat := 0        -- handle `fileobj` refers to
  mine : Nat := 0        -- handle created by this thread's last `opn`
  deriving Repr, DecidableEq, Inhabited

structure State where
  pos     : Nat → Nat            -- file position of every handle
  nh      : Nat                  -- number of handles allocated so far
  slot    : Option Nat           -- `self._opener` (none = attribute absent)
  owner   : Nat → Option Tid     -- per lock: owning thread
  count   : Nat → Nat            -- per lock: RLock recursion level
  threads : Tid → Thread

/-- point update of a function -/
def upd {α : Type} (f : Nat → α) (k : Nat) (v : α) : Nat → α := fun x => if x = k then v else f x

@[simp] theorem upd_same {α : Type} (f : Nat → α) (k : Nat) (v : α) : upd f k v k = v := by simp [upd]
theorem upd_other {α : Type} (f : Nat → α) (k x : Nat) (v : α) (h : x ≠ k) : upd f k v x = f x := by
  simp [upd, h]

/-- `file[o : o+n]` (a read at or beyond the end returns fewer / no bytes, as `BytesIO`/files do) -/
def slice (file : List Byte) (o n : Nat) : List Byte := (file.drop o).take n

/-- One atomic step of thread `t`. -/
def step (file : List Byte) (s : State) (t : Tid) : State × Ev :=
  let th := s.threads t
  match th.prog with
  | [] => (s, .idle)
  | a :: rest =>
    let adv : Thread := { th with prog := rest }
    match a with
    | .acquire l =>
        match s.owner l with
        | none => ({ s with owner := upd s.owner l (some t), count := upd s.count l 1,
                            threads := upd s.threads t adv }, .acq l)
        | some u =>
            if u = t then
              ({ s with count := upd s.count l (s.count l + 1), threads := upd s.threads t adv }, .acq l)
            else (s, .blocked l)
    | .release l =>
        if s.owner l = some t then
          if s.count l ≤ 1 then
            ({ s with owner := upd s.owner l none, count := upd s.count l 0,
                      threads := upd s.threads t adv }, .rel l)
          else ({ s with count := upd s.count l (s.count l - 1), threads := upd s.threads t adv }, .rel l)
        else (s, .relErr l)      -- RuntimeError in Python: the thread makes no further progress
    | .seek o => ({ s with pos := upd s.pos th.cur o, threads := upd s.threads t adv }, .seek th.cur o)
    | .seekEnd =>
        ({ s with pos := upd s.pos th.cur file.length, threads := upd s.threads t adv }, .seekEnd th.cur)
    | .tell => ({ s with threads := upd s.threads t adv }, .tell th.cur (s.pos th.cur))
    | .read n =>
        let d := slice file (s.pos th.cur) n
        ({ s with pos := upd s.pos th.cur (s.pos th.cur + d.length), threads := upd s.threads t adv },
         .read th.cur n d)
    | .probe k =>
        match s.slot with
        | none => ({ s with threads := upd s.threads t adv }, .get none)
        | some h => ({ s with threads := upd s.threads t { th with prog := rest.drop k } }, .get (some h))
    | .opn => ({ s with nh := s.nh + 1, threads := upd s.threads t { adv with mine := s.nh } }, .opn s.nh)
    | .setSlot => ({ s with slot := some th.mine, threads := upd s.threads t adv }, .setSlot th.mine)
    | .getSlot =>
        match s.slot with
        | none => (s, .get none)   -- AttributeError in Python: the thread makes no further progress
        | some h => ({ s with threads := upd s.threads t { adv with cur := h } }, .get (some h))

/-- state after a schedule -/
def runS (file : List Byte) : State → List Tid → State
  | s, [] => s
  | s, t :: sched => runS file (step file s t).1 sched

/-- event trace of a schedule -/
def trace (file : List Byte) : State → List Tid → List (Tid × Ev)
  | _, [] => []
  | s, t :: sched => (t, (step file s t).2) :: trace file (step file s t).1 sched

/-! ### what a thread sees of the file -/

/-- file-level events (handle numbers dropped) -/
inductive DEv where
  | seek (o : Nat) | seekEnd | tell (p : Nat) | read (n : Nat) (data : List Byte)
  deriving Repr, DecidableEq, Inhabited

def Ev.data : Ev → Option DEv
  | .seek _ o => some (.seek o)
  | .seekEnd _ => some .seekEnd
  | .tell _ p => some (.tell p)
  | .read _ n d => some (.read n d)
  | _ => none

/-- the file events of thread `t` in a trace -/
def dataProj (t : Tid) (tr : List (Tid × Ev)) : List DEv :=
  tr.filterMap (fun x => if x.1 = t then x.2.data else none)

/-- The single-threaded meaning of a program: the file events it produces when it runs ALONE on a private
    handle whose position is `p` (locks and the opener slot play no role for a lone thread). -/
def solo (file : List Byte) : Nat → List Action → List DEv
  | _, [] => []
  | _, .seek o :: r => .seek o :: solo file o r
  | _, .seekEnd :: r => .seekEnd :: solo file file.length r
  | p, .tell :: r => .tell p :: solo file p r
  | p, .read n :: r => .read n (slice file p n) :: solo file (p + (slice file p n).length) r
  | p, _ :: r => solo file p r

/-! ### the locked shape -/

def Action.slotOnly : Action → Bool
  | .opn => true
  | .setSlot => true
  | _ => false

/-- `wf L d e prog`: every file operation of `prog` happens while lock `L` is held (`d` = current recursion
    level of `L` for this thread) and, inside each outermost critical section, no `read`/`tell` happens before
    the thread has positioned the handle itself (`e` = the position is the thread's own). -/
def wf (L : Nat) : Nat → Bool → List Action → Bool
  | _, _, [] => true
  | d, e, .acquire l :: p => if l = L then wf L (d + 1) e p else wf L d e p
  | d, e, .release l :: p => if l = L then d != 0 && wf L (d - 1) (e && d != 1) p else wf L d e p
  | d, _, .seek _ :: p => d != 0 && wf L d true p
  | d, _, .seekEnd :: p => d != 0 && wf L d true p
  | d, e, .tell :: p => d != 0 && e && wf L d e p
  | d, e, .read _ :: p => d != 0 && e && wf L d e p
  | d, e, .probe k :: p => (p.take k).all Action.slotOnly && wf L d e p
  | d, e, .opn :: p => wf L d e p
  | d, e, .setSlot :: p => wf L d e p
  | d, _, .getSlot :: p => wf L d false p

/-- `good L d ss prog` (shape needed for PROGRESS, on top of `wf`): the program takes and releases only lock
    `L`, properly nested (`d` = current recursion level, back to 0 at the end), and reads the opener slot
    (`getSlot`) only when the slot is certainly filled (`ss`: it was filled when last tested, or this thread
    filled it; the slot is never emptied). -/
def good (L : Nat) : Nat → Bool → List Action → Bool
  | d, _, [] => d == 0
  | d, ss, .acquire l :: p => l == L && good L (d + 1) ss p
  | d, ss, .release l :: p => l == L && d != 0 && good L (d - 1) ss p
  | d, ss, .seek _ :: p => good L d ss p
  | d, ss, .seekEnd :: p => good L d ss p
  | d, ss, .tell :: p => good L d ss p
  | d, ss, .read _ :: p => good L d ss p
  | d, ss, .probe k :: p => (p.take k).all Action.slotOnly && good L d ss p
  | d, ss, .opn :: p => good L d ss p
  | d, _, .setSlot :: p => good L d true p
  | d, ss, .getSlot :: p => ss && good L d ss p

/-- initial state: `nh` handles exist (all at position `p0 h`), nobody holds a lock -/
def State.init (progs : Tid → List Action) (nh : Nat) (p0 : Nat → Nat := fun _ => 0) : State :=
  { pos := p0, nh := nh, slot := none, owner := fun _ => none, count := fun _ => 0,
    threads := fun t => { prog := progs t } }

/-! ### the programs nibabel's read paths produce -/

/-- `read_segments(fileobj, segments, n_bytes, lock)`: per segment `with lock: seek; read` -/
def lockedSegs (l : Nat) (segs : List (Nat × Nat)) : List Action :=
  segs.flatMap (fun sg => [.acquire l, .seek sg.1, .read sg.2, .release l])

/-- `with self._lock: array_from_file(...)`; `memmapTry` = `np.memmap` is attempted first (mmap=True) and
    `reads` = it fails (no `fileno`) so the data is read with `seek; readinto` -/
def lockedWhole (l : Nat) (memmapTry reads : Bool) (off n : Nat) : List Action :=
  [.acquire l] ++ (if memmapTry then [.seekEnd, .tell] else []) ++
    (if reads then [.seek off, .read n] else []) ++ [.release l]

/-- `_get_fileobj` with a persistent opener: `if not hasattr(self,'_opener'): self._opener = ImageOpener(..)`
    then `yield self._opener` -/
def getFileobjPersist : List Action := [.probe 2, .opn, .setSlot, .getSlot]

/-- `ArrayProxy.copy()`: the lock the copy uses (`fresh` = the lock its `__init__` created) -/
def copyLock (hasFh : Bool) (srcLock fresh : Nat) : Nat := if hasFh then srcLock else fresh

/-- `ArrayProxy.reshape()` (arrayproxy.py `reshape`): a NEW proxy over the same `file_like` that keeps the
    fresh lock its constructor made — outside property C14 (which speaks of `copy()` only); see
    `reshape_new_lock_counterexample`. -/
def reshapeLock (_srcLock fresh : Nat) : Nat := fresh

/-- `ArrayProxy.__setstate__` (arrayproxy.py `__getstate__`/`__setstate__`; reached by unpickling and by
    `copy.copy(proxy)`, which goes through `__reduce_ex__`): the state dict — hence `file_like`, the very same
    handle object for `copy.copy` — is taken over, `_lock` is dropped and replaced by a NEW `RLock()`.  Outside
    property C14 (which speaks of `copy()` only); see `setstate_new_lock_counterexample`. -/
def setstateLock (_srcLock fresh : Nat) : Nat := fresh

/-! ### lock topology of a family of proxies derived from one another -/

/-- one derivation step: a new proxy is made from the existing proxy number `src` -/
inductive POp where
  | copy (src : Nat)       -- `proxies[src].copy()`
  | reshape (src : Nat)    -- `proxies[src].reshape(shape)`
  | setstate (src : Nat)   -- `copy.copy(proxies[src])` / unpickling: `__setstate__`
  deriving Repr, DecidableEq, Inhabited

def POp.src : POp → Nat
  | .copy s => s
  | .reshape s => s
  | .setstate s => s

/-- Locks of the proxies after one more derivation.  Every construction (`__init__` or `__setstate__`) creates
    exactly one new `RLock`; locks are numbered in creation order, so the lock created for the proxy with index
    `k` is lock `k` (`fresh`).  Which lock the new proxy ends up USING is decided by `copyLock` /
    `reshapeLock` / `setstateLock`. -/
def addProxy (hasFh : Bool) (locks : List Nat) (op : POp) : List Nat :=
  let fresh := locks.length
  let src := locks.getD op.src 0
  locks ++ [match op with
            | .copy _ => copyLock hasFh src fresh
            | .reshape _ => reshapeLock src fresh
            | .setstate _ => setstateLock src fresh]

/-- `proxyLocks hasFh ops`: the lock used by every proxy (index 0 = the original proxy, lock 0; index `k+1` =
    the proxy made by `ops[k]`) -/
def proxyLocks (hasFh : Bool) (ops : List POp) : List Nat := ops.foldl (addProxy hasFh) [0]

/-- every step derives from a proxy that already exists (`n` proxies exist before the first step) -/
def validOps : Nat → List POp → Bool
  | _, [] => true
  | n, op :: r => decide (op.src < n) && validOps (n + 1) r

/-- same programs with the lock operations removed (`_NullLock`) -/
def unlocked (p : List Action) : List Action :=
  p.filter (fun a => match a with | .acquire _ => false | .release _ => false | _ => true)

/-- per segment `with lock: seek` … `with lock: read` (lock released between seek and read) -/
def splitSegs (l : Nat) (segs : List (Nat × Nat)) : List Action :=
  segs.flatMap (fun sg => [.acquire l, .seek sg.1, .release l, .acquire l, .read sg.2, .release l])

/-! ### from a proxy read request to a program and a result (uses the C06 segment model) -/

structure Cfg where
  persist : Bool          -- path + keep_file_open=True  (else: proxy over an open handle)
  mmap    : Bool
  order   : Nb.C06.Order
  isz     : Nat
  off     : Nat
  flen    : Nat
  shape   : List Nat
  /-- `np.memmap(fileobj, …)` succeeds on the handle (a real OS file); `false` for `BytesIO`-likes
      (`fileno()` raises) and objects without `fileno` — `array_from_file` then falls back to `seek; read` -/
  mappable : Bool := persist
  /-- the handle is a compressed-file object (`_is_compressed_fobj`): `np.memmap` is not even attempted -/
  compressed : Bool := false

/-- one read request of a thread: through which lock, `idx = none` is `np.asarray(proxy)`,
    `outer` = the caller itself wraps the read in `with proxy._lock:` (RLock re-entrancy) -/
structure Req where
  lock  : Nat
  outer : Bool
  idx   : Option (List Nb.C06.IdxItem)

/-- the test file: `off` header bytes, element `q` stored little-endian in `isz` bytes, trailing bytes -/
def mkFile (c : Cfg) : List Byte :=
  let n := c.shape.foldl (· * ·) 1
  let hdr := (List.range c.off).map (fun i => (37 * i + 11) % 251)
  let body := (List.range n).flatMap (fun q => (List.range c.isz).map (fun b => (q / 256 ^ b) % 256))
  let used := c.off + n * c.isz
  hdr ++ body ++ (List.range (c.flen - used)).map (fun i => (91 * i + 7) % 253)

def decodeLE (isz : Nat) (bytes : List Byte) : List Nat :=
  if isz = 0 then [] else
  (List.range (bytes.length / isz)).map (fun k =>
    ((List.range isz).map (fun b => bytes.getD (k * isz + b) 0 * 256 ^ b)).foldl (· + ·) 0)

/-- `_get_unscaled` takes the whole-array path iff the canonical slicers equal those of `()` -/
def isWhole (idx : List Nb.C06.IdxItem) (shape : List Nat) : Option Bool :=
  match Nb.C06.canonLoop false idx shape, Nb.C06.canonLoop false [] shape with
  | .ok a, .ok b => some (a == b)
  | _, _ => none

inductive Res where
  | ok (shape : List Nat) (elems : List Nat)
  | err
  deriving Repr, DecidableEq, Inhabited

/-- program of one read request, number of `read` events it performs, and how the bytes read become the
    returned array (shape, elements enumerated in `order`) -/
structure Plan where
  prog   : List Action
  nreads : Nat
  finish : List Byte → Res

def errPlan : Plan := ⟨[], 0, fun _ => .err⟩

/-- the segments of a sliced read as (offset, length) pairs of naturals -/
def natSegs (d : Nb.C06.SliceDefs) : List (Nat × Nat) := d.segments.map (fun sg => (sg.offset.toNat, sg.length))

/-- decoder of a sliced read: `np.ndarray(sliced_shape, dtype, buffer=bytes, order)[post_slicers]` —
    reshape to the read shape, post-slice, reorder (fileslice.py `fileslice`, last three lines) -/
def finishSliced (c : Cfg) (d : Nb.C06.SliceDefs) (bytes : List Byte) : Res :=
  if bytes.length ≠ d.readShape.foldl (· * ·) 1 * c.isz then .err else
  match Nb.C06.postSels d.post d.readShape with
  | .error _ => .err
  | .ok sels =>
    let a : Nb.C06.NdArr Nat := ⟨d.readShape, decodeLE c.isz bytes⟩
    let out := a.index sels
    .ok (Nb.C06.orient c.order out.shape) out.data

def wrapOuter (r : Req) (p : List Action) : List Action :=
  if r.outer then [.acquire r.lock] ++ p ++ [.release r.lock] else p

def plan (c : Cfg) (r : Req) : Plan :=
  let file := mkFile c
  let n := c.shape.foldl (· * ·) 1
  let pre := if c.persist then getFileobjPersist else []
  let wholePlan : Plan :=
    -- a real file can be memory mapped: no read, the data come from the mapping (np.memmap/OS contract)
    let tryMap := c.mmap && !c.compressed
    let mapped := tryMap && c.mappable
    ⟨wrapOuter r (pre ++ lockedWhole r.lock tryMap (!mapped) c.off (n * c.isz)),
     if mapped then 0 else 1,
     fun bytes =>
       let b := if mapped then slice file c.off (n * c.isz) else bytes
       if b.length ≠ n * c.isz then .err else .ok c.shape (decodeLE c.isz b)⟩
  match r.idx with
  | none => wholePlan
  | some idx =>
    match isWhole idx c.shape with
    | none => errPlan
    | some true => wholePlan
    | some false =>
      match Nb.C06.calcSlicedefs (Nb.C06.thresholdHeuristic Gen.skipThresh) idx c.shape c.isz c.off c.order with
      | .error _ => errPlan
      | .ok d =>
        ⟨wrapOuter r (pre ++ lockedSegs r.lock (natSegs d)), (natSegs d).length, finishSliced c d⟩

/-- data of the `read` events of thread `t`, in order -/
def readsOf (t : Tid) (tr : List (Tid × Ev)) : List (List Byte) :=
  tr.filterMap (fun x => if x.1 = t then (match x.2 with | .read _ _ d => some d | _ => none) else none)

/-- distribute a thread's read data over its requests -/
def results : List Plan → List (List Byte) → List Res
  | [], _ => []
  | p :: ps, rd =>
      (if rd.length < p.nreads then .err else p.finish (rd.take p.nreads).flatten) :: results ps (rd.drop p.nreads)

end Nb.C14
