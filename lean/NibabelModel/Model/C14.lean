import NibabelModel.Model.C06
import NibabelModel.Generated.C14
/-!
  Model/C14 — concurrent reads through a shared file handle (core Lean only).

  Python modelled (file:lines of /repo at the time of writing):
  * nibabel/arrayproxy.py:215        `self._lock = RLock()`
  * nibabel/arrayproxy.py:221-236    `copy()` — the new proxy shares `_lock` iff `file_like` is a handle
  * nibabel/arrayproxy.py:366-385    `_get_fileobj` — lazily created persistent `ImageOpener` (`_opener` slot)
  * nibabel/arrayproxy.py:387-409    `_get_unscaled` — whole-array path `with fileobj, self._lock: array_from_file`,
                                     sliced path `fileslice(..., lock=self._lock)`
  * nibabel/fileslice.py:631-682     `read_segments` — per segment `with lock: seek(offset); read(length)`
  * nibabel/volumeutils.py:441-480   `array_from_file` — `np.memmap` attempt (`seek(0,2); tell()`), then
                                     `seek(offset); readinto(n_bytes)`

  Small-step semantics.  Shared state: the position of every file handle, the slot holding the
  persistent opener, every lock's owner and RLock re-entrancy count.  Each thread has a program (list of
  atomic actions), the handle its `fileobj` variable refers to (`cur`) and the handle it opened last
  (`mine`).  A schedule is a list of thread ids; each entry lets that thread perform ONE atomic action
  (a thread whose `acquire` finds the lock owned by another thread performs the no-op `blocked`).
  The CPython scheduler is abstracted as "any interleaving of these atomic actions" (trusted base).
-/
namespace Nb.C14

abbrev Tid := Nat
abbrev Byte := Nat

/-- atomic actions of a thread -/
inductive Action where
  | acquire (l : Nat)      -- `lock.acquire()` / `with lock:` entry, lock number `l` (RLock: re-entrant)
  | release (l : Nat)      -- `lock.release()` / `with lock:` exit
  | seek (o : Nat)         -- `fileobj.seek(o)` on the thread's current handle
  | seekEnd                -- `fileobj.seek(0, 2)`   (first step of `np.memmap(fileobj, ...)`)
  | tell                   -- `fileobj.tell()`       (second step of `np.memmap`)
  | read (n : Nat)         -- `fileobj.read(n)` / `fileobj.readinto(bytearray(n))`
  | probe (q k : Nat)      -- `hasattr(proxy q, '_opener')`: when slot `q` is filled the next `k` actions are skipped
  | opn                    -- `ImageOpener(path)`: a fresh handle, to which the thread's `fileobj` refers from now
                           --   on (per-read opener: `with ImageOpener(..) as opener: yield opener`; in the
                           --   persistent path the following `getSlot` rebinds `fileobj` before any file operation)
  | setSlot (q : Nat)      -- `proxy q._opener = <the handle just opened>`
  | getSlot (q : Nat)      -- `fileobj = proxy q._opener`
  deriving Repr, DecidableEq, Inhabited

/-- observable event of one step -/
inductive Ev where
  | acq (l : Nat) | rel (l : Nat) | blocked (l : Nat) | relErr (l : Nat)
  | seek (h o : Nat) | seekEnd (h : Nat) | tell (h p : Nat) | read (h n : Nat) (data : List Byte)
  | get (v : Option Nat) | opn (h : Nat) | setSlot (h : Nat)
  | idle
  deriving Repr, DecidableEq, Inhabited

structure Thread where
  prog : List Action
  cur  : Nat := 0        -- handle `fileobj` refers to
  mine : Nat := 0        -- handle created by this thread's last `opn`
  deriving Repr, DecidableEq, Inhabited

structure State where
  pos     : Nat → Nat            -- file position of every handle
  nh      : Nat                  -- number of handles allocated so far
  slot    : Nat → Option Nat     -- per proxy `q`: `proxy q._opener` (none = attribute absent)
  owner   : Nat → Option Tid     -- per lock: owning thread
  count   : Nat → Nat            -- per lock: RLock recursion level
  threads : Tid → Thread

/-- point update of a function -/
def upd {α : Type} (f : Nat → α) (k : Nat) (v : α) : Nat → α := fun x => if x = k then v else f x

@[simp] theorem upd_same {α : Type} (f : Nat → α) (k : Nat) (v : α) : upd f k v k = v := by simp [upd]
theorem upd_other {α : Type} (f : Nat → α) (k x : Nat) (v : α) (h : x ≠ k) : upd f k v x = f x := by
  simp [upd, h]

/-- `file[o : o+n]` (a read at or beyond the end returns fewer / no bytes, as `BytesIO`/files do) -/
def slice (file : List Byte) (o n : Nat) : List Byte := (file.drop o).take n

/-- One atomic step of thread `t`. -/
def step (file : List Byte) (s : State) (t : Tid) : State × Ev :=
  let th := s.threads t
  match th.prog with
  | [] => (s, .idle)
  | a :: rest =>
    let adv : Thread := { th with prog := rest }
    match a with
    | .acquire l =>
        match s.owner l with
        | none => ({ s with owner := upd s.owner l (some t), count := upd s.count l 1,
                            threads := upd s.threads t adv }, .acq l)
        | some u =>
            if u = t then
              ({ s with count := upd s.count l (s.count l + 1), threads := upd s.threads t adv }, .acq l)
            else (s, .blocked l)
    | .release l =>
        if s.owner l = some t then
          if s.count l ≤ 1 then
            ({ s with owner := upd s.owner l none, count := upd s.count l 0,
                      threads := upd s.threads t adv }, .rel l)
          else ({ s with count := upd s.count l (s.count l - 1), threads := upd s.threads t adv }, .rel l)
        else (s, .relErr l)      -- RuntimeError in Python: the thread makes no further progress
    | .seek o => ({ s with pos := upd s.pos th.cur o, threads := upd s.threads t adv }, .seek th.cur o)
    | .seekEnd =>
        ({ s with pos := upd s.pos th.cur file.length, threads := upd s.threads t adv }, .seekEnd th.cur)
    | .tell => ({ s with threads := upd s.threads t adv }, .tell th.cur (s.pos th.cur))
    | .read n =>
        let d := slice file (s.pos th.cur) n
        ({ s with pos := upd s.pos th.cur (s.pos th.cur + d.length), threads := upd s.threads t adv },
         .read th.cur n d)
    | .probe q k =>
        match s.slot q with
        | none => ({ s with threads := upd s.threads t adv }, .get none)
        | some h => ({ s with threads := upd s.threads t { th with prog := rest.drop k } }, .get (some h))
    | .opn => ({ s with nh := s.nh + 1, threads := upd s.threads t { adv with mine := s.nh, cur := s.nh } },
               .opn s.nh)
    | .setSlot q => ({ s with slot := upd s.slot q (some th.mine), threads := upd s.threads t adv },
                     .setSlot th.mine)
    | .getSlot q =>
        match s.slot q with
        | none => (s, .get none)   -- AttributeError in Python: the thread makes no further progress
        | some h => ({ s with threads := upd s.threads t { adv with cur := h } }, .get (some h))

/-- state after a schedule -/
def runS (file : List Byte) : State → List Tid → State
  | s, [] => s
  | s, t :: sched => runS file (step file s t).1 sched

/-- event trace of a schedule -/
def trace (file : List Byte) : State → List Tid → List (Tid × Ev)
  | _, [] => []
  | s, t :: sched => (t, (step file s t).2) :: trace file (step file s t).1 sched

/-! ### what a thread sees of the file -/

/-- file-level events (handle numbers dropped) -/
inductive DEv where
  | seek (o : Nat) | seekEnd | tell (p : Nat) | read (n : Nat) (data : List Byte)
  deriving Repr, DecidableEq, Inhabited

def Ev.data : Ev → Option DEv
  | .seek _ o => some (.seek o)
  | .seekEnd _ => some .seekEnd
  | .tell _ p => some (.tell p)
  | .read _ n d => some (.read n d)
  | _ => none

/-- the file events of thread `t` in a trace -/
def dataProj (t : Tid) (tr : List (Tid × Ev)) : List DEv :=
  tr.filterMap (fun x => if x.1 = t then x.2.data else none)

/-- The single-threaded meaning of a program: the file events it produces when it runs ALONE on a private
    handle whose position is `p` (locks and the opener slot play no role for a lone thread). -/
def solo (file : List Byte) : Nat → List Action → List DEv
  | _, [] => []
  | _, .seek o :: r => .seek o :: solo file o r
  | _, .seekEnd :: r => .seekEnd :: solo file file.length r
  | p, .tell :: r => .tell p :: solo file p r
  | p, .read n :: r => .read n (slice file p n) :: solo file (p + (slice file p n).length) r
  | p, _ :: r => solo file p r

/-! ### the locked shape -/

def Action.slotOnly : Action → Bool
  | .opn => true
  | .setSlot _ => true
  | _ => false

/-- `wf L d e prog`: every file operation of `prog` happens while lock `L` is held (`d` = current recursion
    level of `L` for this thread) and, inside each outermost critical section, no `read`/`tell` happens before
    the thread has positioned the handle itself (`e` = the position is the thread's own). -/
def wf (L : Nat) : Nat → Bool → List Action → Bool
  | _, _, [] => true
  | d, e, .acquire l :: p => if l = L then wf L (d + 1) e p else wf L d e p
  | d, e, .release l :: p => if l = L then d != 0 && wf L (d - 1) (e && d != 1) p else wf L d e p
  | d, _, .seek _ :: p => d != 0 && wf L d true p
  | d, _, .seekEnd :: p => d != 0 && wf L d true p
  | d, e, .tell :: p => d != 0 && e && wf L d e p
  | d, e, .read _ :: p => d != 0 && e && wf L d e p
  | d, e, .probe _ k :: p => (p.take k).all Action.slotOnly && wf L d e p
  | d, _, .opn :: p => wf L d false p
  | d, e, .setSlot _ :: p => wf L d e p
  | d, _, .getSlot _ :: p => wf L d false p

/-- `good L Q d ss prog` (shape needed for PROGRESS, on top of `wf`): the program takes and releases only lock
    `L`, properly nested (`d` = current recursion level, back to 0 at the end), uses only the opener slot `Q`
    and reads it (`getSlot`) only when it is certainly filled (`ss`: it was filled when last tested, or this
    thread filled it; a slot is never emptied). -/
def good (L Q : Nat) : Nat → Bool → List Action → Bool
  | d, _, [] => d == 0
  | d, ss, .acquire l :: p => l == L && good L Q (d + 1) ss p
  | d, ss, .release l :: p => l == L && d != 0 && good L Q (d - 1) ss p
  | d, ss, .seek _ :: p => good L Q d ss p
  | d, ss, .seekEnd :: p => good L Q d ss p
  | d, ss, .tell :: p => good L Q d ss p
  | d, ss, .read _ :: p => good L Q d ss p
  | d, ss, .probe q k :: p => q == Q && (p.take k).all Action.slotOnly && good L Q d ss p
  | d, ss, .opn :: p => good L Q d ss p
  | d, _, .setSlot q :: p => q == Q && good L Q d true p
  | d, ss, .getSlot q :: p => q == Q && ss && good L Q d ss p

/-- initial state: `nh` handles exist (all at position `p0 h`), nobody holds a lock, the opener slots hold
    `slot0` (proxies whose persistent opener was created before the threads start) -/
def State.initS (progs : Tid → List Action) (nh : Nat) (slot0 : Nat → Option Nat)
    (p0 : Nat → Nat := fun _ => 0) : State :=
  { pos := p0, nh := nh, slot := slot0, owner := fun _ => none, count := fun _ => 0,
    threads := fun t => { prog := progs t } }

/-- initial state with every opener slot empty -/
def State.init (progs : Tid → List Action) (nh : Nat) (p0 : Nat → Nat := fun _ => 0) : State :=
  State.initS progs nh (fun _ => none) p0

/-! ### the programs nibabel's read paths produce -/

/-- `read_segments(fileobj, segments, n_bytes, lock)`: per segment `with lock: seek; read` -/
def lockedSegs (l : Nat) (segs : List (Nat × Nat)) : List Action :=
  segs.flatMap (fun sg => [.acquire l, .seek sg.1, .read sg.2, .release l])

/-- `with self._lock: array_from_file(...)`; `memmapTry` = `np.memmap` is attempted first (mmap=True) and
    `reads` = it fails (no `fileno`) so the data is read with `seek; readinto` -/
def lockedWhole (l : Nat) (memmapTry reads : Bool) (off n : Nat) : List Action :=
  [.acquire l] ++ (if memmapTry then [.seekEnd, .tell] else []) ++
    (if reads then [.seek off, .read n] else []) ++ [.release l]

/-- `_get_fileobj` of proxy `q` with a persistent opener: `if not hasattr(self,'_opener'): self._opener =
    ImageOpener(..)` then `yield self._opener` -/
def getFileobjPersist (q : Nat) : List Action := [.probe q 2, .opn, .setSlot q, .getSlot q]

/-- `_get_fileobj` without a persistent opener on a file NAME: `with ImageOpener(self.file_like) as opener:
    yield opener` — a fresh private handle for this one read (closed afterwards; closing is not modelled) -/
def getFileobjPerRead : List Action := [.opn]

/-- `ArrayProxy.copy()`: the lock the copy uses (`fresh` = the lock its `__init__` created) -/
def copyLock (hasFh : Bool) (srcLock fresh : Nat) : Nat := if hasFh then srcLock else fresh

/-- `ArrayProxy.reshape()` (arrayproxy.py `reshape`): a NEW proxy over the same `file_like` that keeps the
    fresh lock its constructor made — outside property C14 (which speaks of `copy()` only); see
    `reshape_new_lock_counterexample`. -/
def reshapeLock (_srcLock fresh : Nat) : Nat := fresh

/-- `ArrayProxy.__setstate__` (arrayproxy.py `__getstate__`/`__setstate__`; reached by unpickling and by
    `copy.copy(proxy)`, which goes through `__reduce_ex__`): the state dict — hence `file_like`, the very same
    handle object for `copy.copy` — is taken over, `_lock` is dropped and replaced by a NEW `RLock()`.  Outside
    property C14 (which speaks of `copy()` only); see `setstate_new_lock_counterexample`. -/
def setstateLock (_srcLock fresh : Nat) : Nat := fresh

/-! ### lock topology of a family of proxies derived from one another -/

/-- one derivation step: a new proxy is made from the existing proxy number `src` -/
inductive POp where
  | copy (src : Nat)       -- `proxies[src].copy()`
  | reshape (src : Nat)    -- `proxies[src].reshape(shape)`
  | setstate (src : Nat)   -- `copy.copy(proxies[src])` / unpickling: `__setstate__`
  deriving Repr, DecidableEq, Inhabited

def POp.src : POp → Nat
  | .copy s => s
  | .reshape s => s
  | .setstate s => s

/-- Locks of the proxies after one more derivation.  Every construction (`__init__` or `__setstate__`) creates
    exactly one new `RLock`; locks are numbered in creation order, so the lock created for the proxy with index
    `k` is lock `k` (`fresh`).  Which lock the new proxy ends up USING is decided by `copyLock` /
    `reshapeLock` / `setstateLock`. -/
def addProxy (hasFh : Bool) (locks : List Nat) (op : POp) : List Nat :=
  let fresh := locks.length
  let src := locks.getD op.src 0
  locks ++ [match op with
            | .copy _ => copyLock hasFh src fresh
            | .reshape _ => reshapeLock src fresh
            | .setstate _ => setstateLock src fresh]

/-- `proxyLocks hasFh ops`: the lock used by every proxy (index 0 = the original proxy, lock 0; index `k+1` =
    the proxy made by `ops[k]`) -/
def proxyLocks (hasFh : Bool) (ops : List POp) : List Nat := ops.foldl (addProxy hasFh) [0]

/-- every step derives from a proxy that already exists (`n` proxies exist before the first step) -/
def validOps : Nat → List POp → Bool
  | _, [] => true
  | n, op :: r => decide (op.src < n) && validOps (n + 1) r

/-! ### handle/lock topology of a family of proxies (which proxies share an OS-level handle, which a lock)

  Python modelled: arrayproxy.py `__init__` (`_should_keep_file_open`: a file-like → no opener of its own; a file
  name → `persist_opener = keep_file_open or (indexed_gzip and name ends with .gz)`), `copy()` (same `file_like`,
  `keep_file_open=self._keep_file_open`, lock shared iff `_has_fh()`), `reshape()` (same `file_like`,
  `keep_file_open` NOT passed on → `KEEP_FILE_OPEN_DEFAULT`), `__getstate__/__setstate__` (the whole `__dict__` —
  including an already created `_opener` — is taken over, `_lock` replaced by a new `RLock()`), `_get_fileobj`
  (persistent opener created on first use and kept in `_opener`; otherwise one `ImageOpener` per read). -/

/-- where the file handle of a proxy's reads comes from -/
inductive HKind where
  | handle    -- `file_like` is an open file object / `Opener` (`_has_fh()`): every proxy over it uses that object
  | persist   -- file name, persistent opener (`_persist_opener`): one handle per proxy, created on first use
  | perRead   -- file name, no persistent opener: every read opens (and closes) a handle of its own
  deriving Repr, DecidableEq, Inhabited

/-- one step of the history of a family -/
inductive HOp where
  | derive (op : POp)   -- `copy()` / `reshape()` / `copy.copy()` of an existing proxy
  | ctor                -- an independent construction on the same `file_like` as the original (the same file
                        --   name loaded a second time; the same file object handed to a second proxy)
  | use (p : Nat)       -- a completed single-threaded read through proxy `p` (creates its persistent opener)
  deriving Repr, DecidableEq, Inhabited

/-- the family after a history: `n` proxies (0 = the original); per proxy its lock, its copy()-family (index of
    the oldest proxy it is connected to through `copy()` edges), where its handle comes from, the persistent
    opener object it holds (numbered in creation order); `nopen` = handles/openers created so far -/
structure Fam where
  n      : Nat
  lock   : Nat → Nat
  fam    : Nat → Nat
  kind   : Nat → HKind
  opener : Nat → Option Nat
  nopen  : Nat

/-- the original proxy alone (a caller-supplied handle object is handle number 0) -/
def Fam.root (k : HKind) : Fam :=
  { n := 1, lock := fun _ => 0, fam := fun _ => 0, kind := fun _ => k, opener := fun _ => none,
    nopen := if k = .handle then 1 else 0 }

/-- kind of the proxy `reshape()` returns: `keep_file_open` is not passed on, so a name proxy persists its opener
    only when the file type does (`igz`: `.gz` name with indexed_gzip present) — with
    `KEEP_FILE_OPEN_DEFAULT = False` -/
def reshapeKind (igz : Bool) : HKind → HKind
  | .handle => .handle
  | _ => if igz then .persist else .perRead

def Fam.step (igz : Bool) (f : Fam) : HOp → Fam
  | .derive (.copy s) =>
      { f with n := f.n + 1,
               lock := upd f.lock f.n (copyLock (f.kind s == .handle) (f.lock s) f.n),
               fam := upd f.fam f.n (f.fam s),
               kind := upd f.kind f.n (f.kind s),
               opener := upd f.opener f.n none }
  | .derive (.reshape s) =>
      { f with n := f.n + 1,
               lock := upd f.lock f.n (reshapeLock (f.lock s) f.n),
               fam := upd f.fam f.n f.n,
               kind := upd f.kind f.n (reshapeKind igz (f.kind s)),
               opener := upd f.opener f.n none }
  | .derive (.setstate s) =>
      { f with n := f.n + 1,
               lock := upd f.lock f.n (setstateLock (f.lock s) f.n),
               fam := upd f.fam f.n f.n,
               kind := upd f.kind f.n (f.kind s),
               opener := upd f.opener f.n (f.opener s) }
  | .ctor =>
      { f with n := f.n + 1,
               lock := upd f.lock f.n f.n,
               fam := upd f.fam f.n f.n,
               kind := upd f.kind f.n (f.kind 0),
               opener := upd f.opener f.n none }
  | .use p =>
      match f.kind p, f.opener p with
      | .persist, none => { f with opener := upd f.opener p (some f.nopen), nopen := f.nopen + 1 }
      | .perRead, _ => { f with nopen := f.nopen + 1 }
      | _, _ => f

def HOp.valid (n : Nat) : HOp → Bool
  | .derive op => decide (op.src < n)
  | .ctor => true
  | .use p => decide (p < n)

/-- every step refers to a proxy that already exists -/
def validHist (igz : Bool) : Fam → List HOp → Bool
  | _, [] => true
  | f, op :: r => op.valid f.n && validHist igz (f.step igz op) r

def Fam.run (igz : Bool) (f : Fam) (ops : List HOp) : Fam := ops.foldl (Fam.step igz) f

/-- identity of the OS-level handle the reads of proxy `i` go through, as far as SHARING is concerned -/
inductive HId where
  | base               -- the caller-supplied handle object
  | opener (h : Nat)   -- an already created persistent opener
  | priv (i : Nat)     -- a handle no other proxy can have: the not yet created persistent opener of proxy `i`,
                       --   or the per-read handles of proxy `i`
  deriving Repr, DecidableEq, Inhabited

def Fam.handleOf (f : Fam) (i : Nat) : HId :=
  match f.kind i with
  | .handle => .base
  | .persist => (match f.opener i with | some h => .opener h | none => .priv i)
  | .perRead => .priv i

/-- steps that keep every pair "same handle ⇒ same lock": `copy()`, reads, and — over a file NAME — further
    constructions.  (`reshape()`, `copy.copy()`/unpickling and a second construction over the same file OBJECT
    put a new lock over a handle that is already in use: outside the property.) -/
def HOp.copyLike (k : HKind) : HOp → Bool
  | .derive (.copy _) => true
  | .derive _ => false
  | .ctor => k != .handle
  | .use _ => true

/-- same programs with the lock operations removed (`_NullLock`) -/
def unlocked (p : List Action) : List Action :=
  p.filter (fun a => match a with | .acquire _ => false | .release _ => false | _ => true)

/-- per segment `with lock: seek` … `with lock: read` (lock released between seek and read) -/
def splitSegs (l : Nat) (segs : List (Nat × Nat)) : List Action :=
  segs.flatMap (fun sg => [.acquire l, .seek sg.1, .release l, .acquire l, .read sg.2, .release l])

/-! ### from a proxy read request to a program and a result (uses the C06 segment model) -/

structure Cfg where
  persist : Bool          -- path + persistent opener (keep_file_open=True, or indexed gzip)
                          --   (else, unless `perRead`: proxy over an open handle)
  mmap    : Bool
  order   : Nb.C06.Order
  isz     : Nat
  off     : Nat
  flen    : Nat
  shape   : List Nat
  /-- `np.memmap(fileobj, …)` succeeds on the handle (a real OS file); `false` for `BytesIO`-likes
      (`fileno()` raises) and objects without `fileno` — `array_from_file` then falls back to `seek; read` -/
  mappable : Bool := persist
  /-- the handle is a compressed-file object (`_is_compressed_fobj`): `np.memmap` is not even attempted -/
  compressed : Bool := false
  /-- path without a persistent opener: every read opens (and closes) its own handle -/
  perRead : Bool := false
  /-- number of the proxy the request goes through = index of its `_opener` slot -/
  slotIx : Nat := 0

/-- the actions of `with self._get_fileobj() as fileobj` (arrayproxy.py `_get_fileobj`) -/
def openActs (c : Cfg) : List Action :=
  if c.persist then getFileobjPersist c.slotIx else if c.perRead then getFileobjPerRead else []

/-- one read request of a thread: through which lock, `idx = none` is `np.asarray(proxy)`,
    `outer` = the caller itself wraps the read in `with proxy._lock:` (RLock re-entrancy) -/
structure Req where
  lock  : Nat
  outer : Bool
  idx   : Option (List Nb.C06.IdxItem)

/-- the test file: `off` header bytes, element `q` stored little-endian in `isz` bytes, trailing bytes -/
def mkFile (c : Cfg) : List Byte :=
  let n := c.shape.foldl (· * ·) 1
  let hdr := (List.range c.off).map (fun i => (37 * i + 11) % 251)
  let body := (List.range n).flatMap (fun q => (List.range c.isz).map (fun b => (q / 256 ^ b) % 256))
  let used := c.off + n * c.isz
  hdr ++ body ++ (List.range (c.flen - used)).map (fun i => (91 * i + 7) % 253)

def decodeLE (isz : Nat) (bytes : List Byte) : List Nat :=
  if isz = 0 then [] else
  (List.range (bytes.length / isz)).map (fun k =>
    ((List.range isz).map (fun b => bytes.getD (k * isz + b) 0 * 256 ^ b)).foldl (· + ·) 0)

/-- `_get_unscaled` takes the whole-array path iff the canonical slicers equal those of `()` -/
def isWhole (idx : List Nb.C06.IdxItem) (shape : List Nat) : Option Bool :=
  match Nb.C06.canonLoop false idx shape, Nb.C06.canonLoop false [] shape with
  | .ok a, .ok b => some (a == b)
  | _, _ => none

inductive Res where
  | ok (shape : List Nat) (elems : List Nat)
  | err
  deriving Repr, DecidableEq, Inhabited

/-- program of one read request, number of `read` events it performs, and how the bytes read become the
    returned array (shape, elements enumerated in `order`) -/
structure Plan where
  prog   : List Action
  nreads : Nat
  finish : List Byte → Res

def errPlan : Plan := ⟨[], 0, fun _ => .err⟩

/-- the segments of a sliced read as (offset, length) pairs of naturals -/
def natSegs (d : Nb.C06.SliceDefs) : List (Nat × Nat) := d.segments.map (fun sg => (sg.offset.toNat, sg.length))

/-- decoder of a sliced read: `np.ndarray(sliced_shape, dtype, buffer=bytes, order)[post_slicers]` —
    reshape to the read shape, post-slice, reorder (fileslice.py `fileslice`, last three lines) -/
def finishSliced (c : Cfg) (d : Nb.C06.SliceDefs) (bytes : List Byte) : Res :=
  if bytes.length ≠ d.readShape.foldl (· * ·) 1 * c.isz then .err else
  match Nb.C06.postSels d.post d.readShape with
  | .error _ => .err
  | .ok sels =>
    let a : Nb.C06.NdArr Nat := ⟨d.readShape, decodeLE c.isz bytes⟩
    let out := a.index sels
    .ok (Nb.C06.orient c.order out.shape) out.data

def wrapOuter (r : Req) (p : List Action) : List Action :=
  if r.outer then [.acquire r.lock] ++ p ++ [.release r.lock] else p

def plan (c : Cfg) (r : Req) : Plan :=
  let file := mkFile c
  let n := c.shape.foldl (· * ·) 1
  let pre := openActs c
  let wholePlan : Plan :=
    -- a real file can be memory mapped: no read, the data come from the mapping (np.memmap/OS contract)
    let tryMap := c.mmap && !c.compressed
    let mapped := tryMap && c.mappable
    ⟨wrapOuter r (pre ++ lockedWhole r.lock tryMap (!mapped) c.off (n * c.isz)),
     if mapped then 0 else 1,
     fun bytes =>
       let b := if mapped then slice file c.off (n * c.isz) else bytes
       if b.length ≠ n * c.isz then .err else .ok c.shape (decodeLE c.isz b)⟩
  match r.idx with
  | none => wholePlan
  | some idx =>
    match isWhole idx c.shape with
    | none => errPlan
    | some true => wholePlan
    | some false =>
      match Nb.C06.calcSlicedefs (Nb.C06.thresholdHeuristic Gen.skipThresh) idx c.shape c.isz c.off c.order with
      | .error _ => errPlan
      | .ok d =>
        ⟨wrapOuter r (pre ++ lockedSegs r.lock (natSegs d)), (natSegs d).length, finishSliced c d⟩

/-- data of the `read` events of thread `t`, in order -/
def readsOf (t : Tid) (tr : List (Tid × Ev)) : List (List Byte) :=
  tr.filterMap (fun x => if x.1 = t then (match x.2 with | .read _ _ d => some d | _ => none) else none)

/-- distribute a thread's read data over its requests -/
def results : List Plan → List (List Byte) → List Res
  | [], _ => []
  | p :: ps, rd =>
      (if rd.length < p.nreads then .err else p.finish (rd.take p.nreads).flatten) :: results ps (rd.drop p.nreads)

end Nb.C14
