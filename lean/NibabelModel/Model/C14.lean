/-! Model/C14 — executable model (core Lean only; imports only NibabelModel.Basic.* / other Model files). -/
namespace Nb.C14

end Nb.C14
