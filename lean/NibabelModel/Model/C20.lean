/-! Model/C20 — executable model (core Lean only; imports only NibabelModel.Basic.* / other Model files). -/
namespace Nb.C20

end Nb.C20
