import NibabelModel.Basic.PySlice
/-! Model/C20 — executable model of PAR/REC volume assembly (nibabel/parrec.py), core Lean only.

What is modelled (line numbers of /repo/nibabel/parrec.py after the `fix:` commits):

* `vol_numbers` (394-416), `vol_is_full` (419-455), `_truncation_checks` (458-489);
* `PARRECHeader._get_n_slices/_get_n_vols/_calc_data_shape` (992-1028, slice/volume part);
* `PARRECHeader._strict_sort_order` (1093-1166, CURRENT logic: volumes numbered and tested for
  completeness WITHIN each run of records sharing all non-slice sort keys) and the ORIGINAL pinned
  logic (`strictOrderOrig`: `vol_numbers`/`vol_is_full` over the whole sorted sequence, final
  `lexsort((vol_nos, is_full))`);
* `_lax_sort_order` (1168-1179), `get_sorted_slice_indices` (1181-1210);
* `get_data_scaling` (1030-1077; dv and fp), `PARRECArrayProxy._get_unscaled` (649-656: gather of the
  REC slabs by the index list, F-order reshape), `get_volume_labels` (1212-1262).

* the CALL STRUCTURE of a load (`loadSites`, end of this file): `PARRECHeader.__init__`/`copy()`
  (720-777), the four call sites of `get_sorted_slice_indices` (proxy 632, `get_data_scaling` 1072 on
  both header objects, `get_volume_labels` 1226), every column gathered by position (`gather`).

Tie to the source beyond the correspondence run (Lemmas/C20_GenFuncs, Generated/C20Funcs): `vol_numbers`
is translated from the working tree on every run and proved equal to `occNumbers`; the lexsort key
tuples, `dynamic_keys` and the per-version field lists are read off the source and proved to yield
`strictKey` / `dynamicKeys`.

Abstractions (trusted, exercised by the correspondence run):

* a slice record is the tuple of its integer label fields + three integer-valued scale factors + an
  abstract pixel-slab payload id (the REC slab stored at the record's position);
* `np.lexsort(keys)` = STABLE sort by the lexicographic order of the keys read from the LAST key to
  the first; modelled as a stable insertion sort `stableSort` (structural recursion, so that `decide`
  can evaluate it) over position-tagged records;
* float arithmetic of the fp scaling (`1.0/ss`, `ri/(rs*ss)`) is exact rational arithmetic here;
* everything else in the header (`recon resolution`, zooms, affine, dtype) is constant in a data set
  and not modelled; `n_slices`/`n_vols` (the only inputs of shape and affine that depend on the
  records) are.
-/
namespace Nb.C20

/-- one image-definition line of the PAR file + the REC slab stored at the same position -/
structure Rec where
  slice : Int      -- 'slice number'
  echo : Int       -- 'echo number'
  dyn : Int        -- 'dynamic scan number'
  phase : Int      -- 'cardiac phase number'
  itype : Int      -- 'image_type_mr'
  seq : Int        -- 'scanning sequence' (a volume label only, never a sort key)
  bval : Int       -- 'diffusion b value number' (V4: the integer-valued 'diffusion_b_factor')
  grad : Int       -- 'gradient orientation number' (absent in V4)
  label : Int      -- 'label type' (ASL; V4.2 only)
  ri : Int         -- 'rescale intercept'
  rs : Int         -- 'rescale slope'
  ss : Int         -- 'scale slope'
  payload : Nat    -- identity of the pixel slab
deriving DecidableEq, Repr, Inhabited

inductive Version | v4 | v41 | v42
deriving DecidableEq, Repr

/-- the part of `general_info` the assembly logic reads -/
structure Cfg where
  version : Version
  diffusion : Bool        -- `general_info['diffusion'] != 0`
  maxSlices : Int
  maxEchoes : Int
  maxDynamics : Int
  maxDiffValues : Int     -- read only for V4.1/V4.2
  maxGradOrient : Int     -- read only for V4.1/V4.2
deriving DecidableEq, Repr

inductive Err | parrec | value | index
deriving DecidableEq, Repr

def Cfg.hasGrad (c : Cfg) : Bool := c.version != .v4
def Cfg.hasLabel (c : Cfg) : Bool := c.version == .v42

/-! ### stable sort (np.lexsort) -/

/-- lexicographic `≤` on key lists (first element = highest precedence) -/
def lexLe : List Int → List Int → Bool
  | [], _ => true
  | _ :: _, [] => false
  | a :: as, b :: bs => if a < b then true else if b < a then false else lexLe as bs

/-- insert `a` before the first element that is not strictly smaller -/
def insertSorted {α} (le : α → α → Bool) (a : α) : List α → List α
  | [] => [a]
  | b :: l => if le a b then a :: b :: l else b :: insertSorted le a l

/-- stable insertion sort (an element is placed before the equal elements that followed it) -/
def stableSort {α} (le : α → α → Bool) : List α → List α
  | [] => []
  | a :: l => insertSorted le a (stableSort le l)

/-! ### sort keys -/

/-- all non-slice keys of `_strict_sort_order`, highest precedence first:
    image_type_mr, dynamic, [label type], [b value, [gradient orientation]], cardiac phase, echo
    (`keys = (slice, echo, phase) + diffusion_keys + asl_keys + (dynamics, image_type)`, lexsort reads
    them from the last). -/
def labelKey (c : Cfg) (r : Rec) : List Int :=
  [r.itype, r.dyn] ++ (if c.hasLabel then [r.label] else []) ++
  (if c.diffusion then ([r.bval] ++ (if c.hasGrad then [r.grad] else [])) else []) ++
  [r.phase, r.echo]

def strictKey (c : Cfg) (r : Rec) : List Int := labelKey c r ++ [r.slice]

def strictLe (c : Cfg) (a b : Rec) : Bool := lexLe (strictKey c a) (strictKey c b)

/-! ### vol_numbers / vol_is_full -/

def occAux {α} [BEq α] (seen : List α) : List α → List Nat
  | [] => []
  | s :: rest => seen.count s :: occAux (s :: seen) rest

/-- number of earlier occurrences of the same value, per position -/
def occNumbers {α} [BEq α] (l : List α) : List Nat := occAux [] l

/-- `vol_numbers`: number of earlier occurrences of the same slice number -/
def volNumbers (l : List Int) : List Nat := occNumbers l

/-- `range(1, slice_max+1)` -/
def sliceRange (smax : Int) : List Int := (List.range smax.toNat).map (fun (i : Nat) => (i : Int) + 1)

def inRange (smax : Int) (s : Int) : Bool := decide (1 ≤ s) && decide (s ≤ smax)

/-- Volume numbers and fullness of slice numbers tagged with a set identifier `τ`: the volume number
    of a position counts the earlier positions of the SAME set with the same slice number
    (`vol_numbers(slice_nos[ours])`), and a position is full when every slice number of the range
    occurs in its set with its volume number (`vol_is_full(slice_nos[ours], max)`: for every volume
    number of the set, `set(slice_nos[vol]) == slice_set`; `⊆` holds by the range check). -/
def volsAndFull {τ} [BEq τ] (tagged : List (τ × Int)) (smax : Int) : List (Nat × Bool) :=
  let vn := occNumbers tagged
  let pairs := tagged.zip vn
  pairs.map fun tv => (tv.2, (sliceRange smax).all fun s => pairs.contains ((tv.1.1, s), tv.2))

/-- `vol_numbers(slice_nos)` zipped with `vol_is_full(slice_nos, slice_max)` over a whole slice-number
    sequence (one set, tag `()`); ValueError when a slice number is outside 1..slice_max -/
def volsFullGlobal (sl : List Int) (smax : Int) : Except Err (List (Nat × Bool)) :=
  if sl.all (inRange smax) then .ok (volsAndFull (sl.map fun s => ((), s)) smax)
  else .error .value

/-- `vol_is_full(slice_nos, slice_max)` -/
def volIsFull (sl : List Int) (smax : Int) : Except Err (List Bool) :=
  (volsFullGlobal sl smax).map (·.map (·.2))

def dedup {α} [DecidableEq α] : List α → List α
  | [] => []
  | a :: l => if a ∈ dedup l then dedup l else a :: dedup l

def distinctCount {α} [DecidableEq α] (l : List α) : Nat := (dedup l).length

/-! ### `_truncation_checks` -/

def truncationChecks (c : Cfg) (permit : Bool) (recs : List Rec) : Except Err Unit := do
  let mism (vals : List Int) (expected : Int) : Bool := (distinctCount vals : Int) != expected
  let bad :=
    mism (recs.map (·.slice)) c.maxSlices || mism (recs.map (·.echo)) c.maxEchoes ||
    mism (recs.map (·.dyn)) c.maxDynamics ||
    (c.hasGrad && (mism (recs.map (·.bval)) c.maxDiffValues || mism (recs.map (·.grad)) c.maxGradOrient))
  if bad && !permit then throw .parrec
  let full ← volIsFull (recs.map (·.slice)) c.maxSlices
  if !(full.all id) && !permit then throw .parrec
  pure ()

/-! ### shape -/

def nSlices (recs : List Rec) : Nat := distinctCount (recs.map (·.slice))

/-- `_get_n_vols`: distinct GLOBAL volume numbers (file order) of the positions in full volumes -/
def nVols (c : Cfg) (recs : List Rec) : Except Err Nat := do
  let vf ← volsFullGlobal (recs.map (·.slice)) c.maxSlices
  pure (distinctCount ((vf.filter (·.2)).map (·.1)))

/-- `prod(get_data_shape()[2:])` -/
def nUsedOf (ns nv : Nat) : Nat := ns * (if nv > 1 then nv else 1)

def shapeTail (ns nv : Nat) : List Nat := if nv > 1 then [ns, nv] else [ns]

/-! ### sort orders -/

def indexedFrom {α} (i : Nat) : List α → List (Nat × α)
  | [] => []
  | a :: l => (i, a) :: indexedFrom (i + 1) l

/-- records tagged with their position in the PAR file (= position of their slab in the REC file) -/
def indexed {α} (l : List α) : List (Nat × α) := indexedFrom 0 l

/-- `set_nos`: number of label changes before each position of the (sorted) key sequence -/
def setNosAux (cur : Nat) (prev : List Int) : List (List Int) → List Nat
  | [] => []
  | k :: rest => let n := if k = prev then cur else cur + 1; n :: setNosAux n k rest

def setNos : List (List Int) → List Nat
  | [] => []
  | k :: rest => 0 :: setNosAux 0 k rest

/-- second-stage keys of one position: (not is_full, set number, volume number within the set) -/
structure Ann where
  notFull : Bool
  setNo : Nat
  volNo : Nat
deriving DecidableEq, Repr

def annLe (a b : Ann) : Bool :=
  if a.notFull != b.notFull then !a.notFull
  else if a.setNo != b.setNo then decide (a.setNo < b.setNo)
  else decide (a.volNo ≤ b.volNo)

/-- the loop over `np.unique(set_nos)`: `vol_nos[ours] = vol_numbers(slice_nos[ours])`,
    `is_full[ours] = vol_is_full(slice_nos[ours], max_slices)` (ValueError for a slice number outside
    the range) — per position, with the set number as tag -/
def annotate (c : Cfg) (sorted : List Rec) : Except Err (List Ann) :=
  if (sorted.map (·.slice)).all (inRange c.maxSlices) then
    let sets := setNos (sorted.map (labelKey c))
    let vf := volsAndFull (sets.zip (sorted.map (·.slice))) c.maxSlices
    .ok ((sets.zip vf).map fun x => ⟨!x.2.2, x.1, x.2.1⟩)
  else .error .value

/-- CURRENT `_strict_sort_order`: position-tagged records in final order -/
def strictOrder (c : Cfg) (recs : List Rec) : Except Err (List (Nat × Rec)) := do
  let s1 := stableSort (fun a b => strictLe c a.2 b.2) (indexed recs)
  let ann ← annotate c (s1.map (·.2))
  let s2 := stableSort (fun a b => annLe a.1 b.1) (ann.zip s1)
  pure (s2.map (·.2))

/-- ORIGINAL (pinned) `_strict_sort_order`: volume numbers and fullness over the WHOLE sorted
    sequence; second stage `lexsort((vol_nos, is_full))` (is_full ascending: partial first) -/
def strictOrderOrig (c : Cfg) (recs : List Rec) : Except Err (List (Nat × Rec)) := do
  let s1 := stableSort (fun a b => strictLe c a.2 b.2) (indexed recs)
  let keys ← volsFullGlobal (s1.map (·.2.slice)) c.maxSlices
  let le (a b : Nat × Bool) : Bool :=
    if a.2 != b.2 then !a.2 else decide (a.1 ≤ b.1)
  let s2 := stableSort (fun a b => le a.1 b.1) (keys.zip s1)
  pure (s2.map (·.2))

/-- `_lax_sort_order`: lexsort((slice, vol_numbers(slice), not is_full)) on the file order -/
def laxLe (a b : Bool × Nat × Int) : Bool :=
  if a.1 != b.1 then !a.1
  else if a.2.1 != b.2.1 then decide (a.2.1 < b.2.1)
  else decide (a.2.2 ≤ b.2.2)

def laxKeys (c : Cfg) (recs : List Rec) : Except Err (List (Bool × Nat × Int)) := do
  let sl := recs.map (·.slice)
  let vf ← volsFullGlobal sl c.maxSlices
  pure ((vf.zip sl).map fun x => (!x.1.2, x.1.1, x.2))

def laxOrder (c : Cfg) (recs : List Rec) : Except Err (List (Nat × Rec)) := do
  let keys ← laxKeys c recs
  let s := stableSort (fun a b => laxLe a.1 b.1) (keys.zip (indexed recs))
  pure (s.map (·.2))

def sortOrder (c : Cfg) (strict : Bool) (orig : Bool) (recs : List Rec) : Except Err (List (Nat × Rec)) :=
  if strict then (if orig then strictOrderOrig c recs else strictOrder c recs) else laxOrder c recs

/-- `get_sorted_slice_indices`: sort, then keep the first `prod(shape[2:])` positions -/
def sortedSlices (c : Cfg) (strict : Bool) (orig : Bool) (recs : List Rec) :
    Except Err (List (Nat × Rec)) := do
  let order ← sortOrder c strict orig recs
  let nv ← nVols c recs
  pure (order.take (nUsedOf (nSlices recs) nv))

/-! ### scaling, labels, whole load -/

inductive Scaling | dv | fp
deriving DecidableEq, Repr

/-- `get_data_scaling`: dv: (RS, RI); fp: (1/SS, RI/(RS*SS)) -/
def slopeOf (m : Scaling) (r : Rec) : Rat :=
  match m with
  | .dv => r.rs
  | .fp => 1 / (r.ss : Rat)

def interOf (m : Scaling) (r : Rec) : Rat :=
  match m with
  | .dv => r.ri
  | .fp => (r.ri : Rat) / ((r.rs : Rat) * (r.ss : Rat))

/-- `dynamic_keys` of `get_volume_labels` in source order, restricted to the fields of the version -/
def dynamicKeys (c : Cfg) : List (String × (Rec → Int)) :=
  [("phase", (·.phase)), ("echo", (·.echo))] ++
  (if c.hasLabel then [("label", (·.label))] else []) ++
  [("itype", (·.itype)), ("dyn", (·.dyn)), ("seq", (·.seq))] ++
  (if c.hasGrad then [("grad", (·.grad)), ("bval", (·.bval))] else [])

/-- `get_volume_labels`: keys with more than one distinct value over ALL records; values of the
    kept records whose slice number is 1, in output order -/
def volumeLabels (c : Cfg) (recs : List Rec) (kept : List Rec) : List (String × List Int) :=
  ((dynamicKeys c).filter (fun kf => distinctCount (recs.map kf.2) > 1)).map
    (fun kf => (kf.1, (kept.filter (·.slice == 1)).map kf.2))

/-- the guard of the direct `fileslice` read in `PARRECArrayProxy._get_unscaled` (649-663):
    `indices[0] != 0 or np.any(np.diff(indices) != 1)` is False, i.e. the indices are 0,1,…,k-1 -/
def isSequential (idx : List Nat) : Bool := idx == List.range idx.length

/-- slab identity of the array a NON-EMPTY slicer is applied to by `_get_unscaled(slicer)`:
    sequential indices -> `fileslice` straight on the REC file with the output shape (the first
    `prod(shape[2:])` slabs in RECORD order); otherwise the gathered whole array `_get_unscaled(())` -/
def partialSlabs (recs : List Rec) (kept : List (Nat × Rec)) : List Nat :=
  if isSequential (kept.map (·.1)) then (recs.take kept.length).map (·.payload)
  else kept.map (·.2.payload)

structure Out where
  shape : List Nat                  -- data shape without the two in-plane axes
  idx : List Nat                    -- `get_sorted_slice_indices()`
  data : List Nat                   -- payload of every output slice, F order over (slice, volume)
  slopes : List Rat                 -- `get_data_scaling(method)[0]`, F order
  inters : List Rat
  labels : List (String × List Int)
  pdata : List Nat                  -- slab identity of the array sliced reads `dataobj[slicer]` select from
  direct : Bool                     -- sliced reads go straight to the REC file

/-- `PARRECImage.load(..., permit_truncated, scaling, strict_sort)` reduced to the observables -/
def load (c : Cfg) (permit strict : Bool) (m : Scaling) (orig : Bool) (recs : List Rec) :
    Except Err Out := do
  truncationChecks c permit recs
  let nv ← nVols c recs
  let ns := nSlices recs
  let kept ← sortedSlices c strict orig recs
  -- `reshape` of the gathered slopes / slabs to `shape` needs exactly prod(shape[2:]) entries
  if kept.length ≠ nUsedOf ns nv then throw .value
  pure { shape := shapeTail ns nv
         idx := kept.map (·.1)
         data := kept.map (·.2.payload)
         slopes := kept.map (slopeOf m ·.2)
         inters := kept.map (interOf m ·.2)
         labels := volumeLabels c recs (kept.map (·.2))
         pdata := partialSlabs recs kept
         direct := isSequential (kept.map (·.1)) }

/-! ### specification predicate used by the truncation theorems (validated against the harness's
    independent by-label analysis on the `spec` stream) -/

/-- the label set of `r` (records sharing all non-slice strict keys) has every slice 1..max_slices -/
def complete (c : Cfg) (recs : List Rec) (r : Rec) : Bool :=
  (sliceRange c.maxSlices).all fun s =>
    recs.any fun r' => (labelKey c r' == labelKey c r) && (r'.slice == s)

/-- hypotheses H0 (some slice position occurs only in complete label sets) and H1 (some label set is
    complete) of `truncated_exactly_full_volumes`, as a decidable check -/
def truncHyps (c : Cfg) (recs : List Rec) : Bool :=
  ((sliceRange c.maxSlices).any fun s0 => recs.all fun r => r.slice != s0 || complete c recs r) &&
  recs.any (complete c recs)

/-! ### sliced reads through the proxy (`dataobj[slicer]`) -/

inductive Item
  | int (i : Int)
  | slice (s : PySlice)
  | ellipsis
deriving DecidableEq, Repr

def fullSlice : Item := .slice ⟨none, none, none⟩

/-- replace the Ellipsis (at most one) by full slices so that `ndim` axes are indexed; more real items
    than axes are left as they are (the scan below reports them) -/
def expandEllipsis (ndim : Nat) (items : List Item) : List Item :=
  let k := (items.filter (· != .ellipsis)).length
  items.flatMap fun it => if it == .ellipsis then List.replicate (ndim - k) fullSlice else [it]

/-- positions selected on an axis of length `n` (Python semantics of Basic/PySlice).  An integer
    outside -n..n-1: IndexError from NumPy indexing of the gathered array, ValueError from
    `fileslice.canonical_slicers` on the direct path. -/
def axisSel (direct : Bool) (n : Nat) : Item → Except Err (List Nat)
  | .int i => match pyIntIndex n i with
      | some k => .ok [k]
      | none => .error (if direct then .value else .index)
  | .slice s => .ok (s.sel n)
  | .ellipsis => .error .index

/-- left-to-right scan of the items against the axes (as `canonical_slicers` / NumPy do): an item
    beyond the last axis is an IndexError; the first offending item decides the error -/
def scanAxes (direct : Bool) : List Nat → List Item → Except Err (List (List Nat))
  | _, [] => .ok []
  | [], _ :: _ => .error .index
  | n :: dims, it :: rest => do
      let sel ← axisSel direct n it
      let tl ← scanAxes direct dims rest
      pure (sel :: tl)

/-- slab identities selected by `dataobj[slicer]`, F order over (slice, volume) in slicer order; `[]`
    when nothing is selected.  `xy` = in-plane shape (constant, from the header). -/
def readPartial (o : Out) (xy : Nat × Nat) (items : List Item) : Except Err (List Nat) := do
  let ns := o.shape.headD 0
  let dims := [xy.1, xy.2] ++ o.shape
  let sels ← scanAxes o.direct dims (expandEllipsis dims.length items)
  let all (a : Nat) (n : Nat) : List Nat := sels.getD a (List.range n)     -- missing trailing axes: everything
  let xs := all 0 xy.1
  let ys := all 1 xy.2
  let ss := all 2 ns
  let vs := if o.shape.length == 2 then all 3 (o.shape.getD 1 1) else [0]
  if xs.isEmpty || ys.isEmpty then pure []
  else pure (vs.flatMap fun v => ss.map fun s => o.pdata.getD (s + ns * v) 0)

/-! ### the call sites of `get_sorted_slice_indices` (parrec.py 632, 829, 1072, 1226)

`load` above assembles every observable from ONE `kept` list.  The code does not: the index list is
recomputed by `PARRECArrayProxy.__init__` (on the header object built by `from_fileobj`), inside
`get_data_scaling` (once for the proxy, on that same header, and again whenever the user asks the
header of the image), inside `get_volume_labels` and `get_bvals_bvecs`; and the header the user sees
(`img.header`) is not the object the proxy saw but the `copy()` made by `SpatialImage.__init__`
(`header_class.from_header(header)`), i.e. a NEW `PARRECHeader(deepcopy(general_info),
image_defs.copy(), self.permit_truncated, self.strict_sort)` whose `__init__` runs the truncation
checks and the shape calculation again.  `loadSites` models exactly this structure: every site gathers
COLUMNS of `image_defs` (or the REC slabs) BY POSITION with its own index list.
`Lemmas/C20_Sites.loadSites_refines_load` proves that the result is the one of `load`. -/

/-- `arr[indices]` (NumPy integer-array indexing along the record axis): IndexError beyond the end -/
def gather {α : Type} (l : List α) : List Nat → Except Err (List α)
  | [] => .ok []
  | i :: is =>
    match l[i]? with
    | some a => (gather l is).map (a :: ·)
    | none => .error .index

/-- a `PARRECHeader` object: what `__init__` (720-757) stores — copies of general_info / image_defs,
    the two flags, and (through `SpatialHeader.__init__`) the data shape computed once -/
structure Hdr where
  cfg : Cfg
  recs : List Rec
  permit : Bool
  strict : Bool
  ns : Nat            -- `_get_n_slices()` at construction
  nv : Nat            -- `_get_n_vols()` at construction
deriving DecidableEq, Repr

/-- `PARRECHeader.__init__`: `_truncation_checks`, then `_calc_data_shape` -/
def Hdr.init (c : Cfg) (recs : List Rec) (permit strict : Bool) : Except Err Hdr := do
  truncationChecks c permit recs
  let nv ← nVols c recs
  pure ⟨c, recs, permit, strict, nSlices recs, nv⟩

/-- `PARRECHeader.copy` (771-777): a new header from the stored fields and BOTH flags -/
def Hdr.copy (h : Hdr) : Except Err Hdr := Hdr.init h.cfg h.recs h.permit h.strict

/-- a copy that forgets `strict_sort` (the constructor default is False) — only used by the witness
    `Props.copy_must_keep_strict_witness` showing that the agreement of the call sites is not true by
    construction -/
def Hdr.copyForgetStrict (h : Hdr) : Except Err Hdr := Hdr.init h.cfg h.recs h.permit false

/-- `np.prod(self.get_data_shape()[2:])` -/
def Hdr.nUsed (h : Hdr) : Nat := nUsedOf h.ns h.nv

/-- `get_sorted_slice_indices` (1180-1210) of THIS header object: bare positions -/
def Hdr.sortedIndices (h : Hdr) (orig : Bool) : Except Err (List Nat) := do
  let order ← sortOrder h.cfg h.strict orig h.recs
  pure ((order.map (·.1)).take h.nUsed)

/-- `get_data_scaling(method)` (1030-1077): the factor columns are computed for ALL records, then
    `slope[reorder]`, `intercept[reorder]`, then reshaped to `(1, 1) + shape[2:]` (ValueError when the
    number of entries is not `prod(shape[2:])`) -/
def Hdr.dataScaling (h : Hdr) (m : Scaling) (orig : Bool) : Except Err (List Rat × List Rat) := do
  let slope := h.recs.map (slopeOf m)
  let inter := h.recs.map (interOf m)
  let reorder ← h.sortedIndices orig
  let s ← gather slope reorder
  let i ← gather inter reorder
  if s.length ≠ h.nUsed then throw .value
  pure (s, i)

/-- `sort_info[key] = image_defs[key][sorted_indices][sl1_indices]` for every key of the list -/
def labelColumns (recs : List Rec) (idx : List Nat) (sl : List Int) :
    List (String × (Rec → Int)) → Except Err (List (String × List Int))
  | [] => .ok []
  | kf :: rest => do
    let vals ← gather (recs.map kf.2) idx
    let tl ← labelColumns recs idx sl rest
    pure ((kf.1, ((vals.zip sl).filter (·.2 == 1)).map (·.1)) :: tl)

/-- `get_volume_labels` (1212-1262): `sl1_indices = image_defs['slice number'][sorted_indices] == 1`
    is a mask over the GATHERED slice-number column; every varying key column is gathered by the same
    index list and masked -/
def Hdr.volumeLabels (h : Hdr) (orig : Bool) : Except Err (List (String × List Int)) := do
  let idx ← h.sortedIndices orig
  let keys := (dynamicKeys h.cfg).filter (fun kf => distinctCount (h.recs.map kf.2) > 1)
  let sl ← gather (h.recs.map (·.slice)) idx
  labelColumns h.recs idx sl keys

/-- what `PARRECArrayProxy.__init__` (601-634) copies out of the header it is given -/
structure Proxy where
  shape : List Nat        -- `header.get_data_shape()[2:]`
  nUsed : Nat             -- its product
  idx : List Nat          -- `header.get_sorted_slice_indices()`
  slopes : List Rat       -- `header.get_data_scaling(scaling)`, F order
  inters : List Rat

def Proxy.init (h : Hdr) (m : Scaling) (orig : Bool) : Except Err Proxy := do
  let idx ← h.sortedIndices orig
  let sc ← h.dataScaling m orig
  pure ⟨shapeTail h.ns h.nv, h.nUsed, idx, sc.1, sc.2⟩

/-- `_get_unscaled(())` (649-655) on a REC file whose slab `i` is `slabs[i]`:
    `rec_data[..., indices].reshape(shape, order='F')` -/
def Proxy.unscaled (p : Proxy) (slabs : List Nat) : Except Err (List Nat) := do
  let g ← gather slabs p.idx
  if g.length ≠ p.nUsed then throw .value
  pure g

structure SitesOut where
  out : Out
  pslopes : List Rat      -- the proxy's own scaling arrays (`dataobj._slice_scaling`), F order
  pinters : List Rat

/-- `PARRECImage.from_file_map` (1304-1311) + `SpatialImage.__init__`, call site by call site:
    shape, data, sliced reads and the scaling applied to the data come from the PROXY (built on the
    header returned by `from_fileobj`); `idx`, `slopes`, `inters`, `labels` are what the user gets from
    `img.header` (the copy). -/
def loadSites (c : Cfg) (permit strict : Bool) (m : Scaling) (orig : Bool) (recs : List Rec) :
    Except Err SitesOut := do
  let hdr ← Hdr.init c recs permit strict
  let px ← Proxy.init hdr m orig
  let ih ← hdr.copy
  let slabs := recs.map (·.payload)
  let data ← px.unscaled slabs
  let idx ← ih.sortedIndices orig
  let sc ← ih.dataScaling m orig
  let labels ← ih.volumeLabels orig
  let direct := isSequential px.idx
  pure { out := { shape := px.shape, idx := idx, data := data, slopes := sc.1, inters := sc.2,
                  labels := labels, pdata := if direct then slabs.take px.nUsed else data,
                  direct := direct },
         pslopes := px.slopes, pinters := px.inters }

/-! ### headers handed on: `copy()`, `from_header`, `img.header`, a proxy built on the result

Every way the library (or a user) passes a `PARRECHeader` on makes a NEW header object with the
constructor: `hdr.copy()` (771-777), `PARRECHeader.from_header(hdr)` (759-765: `header.copy()` for a
PARRECHeader), and `PARRECImage(dataobj, affine, header=hdr).header` (`SpatialImage.__init__`:
`header_class.from_header(header)`).  The options live in the header (`permit_truncated`, `strict_sort`)
or in the proxy built from it (`scaling`, an argument of `PARRECArrayProxy`). -/

inductive HOp | copy | fromHeader | viaImage
deriving DecidableEq, Repr

def Hdr.apply (h : Hdr) : HOp → Except Err Hdr
  | .copy => h.copy
  | .fromHeader => h.copy
  | .viaImage => h.copy

def Hdr.chain (h : Hdr) : List HOp → Except Err Hdr
  | [] => .ok h
  | o :: os => do
    let h' ← h.apply o
    h'.chain os

/-- load, hand the header on through `ops`, then observe EVERYTHING through the resulting header object
    and a NEW `PARRECArrayProxy(rec_file, header, scaling=m)` built on it -/
def loadChain (c : Cfg) (permit strict : Bool) (m : Scaling) (recs : List Rec) (ops : List HOp) :
    Except Err SitesOut := do
  let hdr ← Hdr.init c recs permit strict
  let h ← hdr.chain ops
  let px ← Proxy.init h m false
  let slabs := recs.map (·.payload)
  let data ← px.unscaled slabs
  let idx ← h.sortedIndices false
  let sc ← h.dataScaling m false
  let labels ← h.volumeLabels false
  let direct := isSequential px.idx
  pure { out := { shape := px.shape, idx := idx, data := data, slopes := sc.1, inters := sc.2,
                  labels := labels, pdata := if direct then slabs.take px.nUsed else data,
                  direct := direct },
         pslopes := px.slopes, pinters := px.inters }

end Nb.C20
