/-
  Model/C03_Hist — HISTORIES of reads on ONE proxy object, with the arrays handed to the caller as OBJECTS.

  Python: `a = np.asarray(proxy)`, `b = proxy[idx]` hand the caller array objects; the caller may edit them in
  place (`a *= 2`, `a[mask] = 0`) and read again.  The property ("converting the proxy gives the stored elements
  transformed by the scale factors in the file", "indexing the proxy gives what the same index gives on the loaded
  array") is about EVERY read of a proxy's life, not the first one.  The model makes object identity explicit:
  `cells` = every array object created so far, `refs` = which object each read returned, `snaps` = what that object
  held at the moment it was returned.  The code (arrayproxy.py:387-461, ecat.py:688-743, parrec.py:649-714,
  brikhead.py:248-265, minc1.py:294-336) creates a NEW array per read and keeps no reference to it
  (`histStep`); the variant that keeps the assembled volume in `self._data` and hands that object out
  (`histStepCached`, the unused `self._data = None` of `EcatImageArrayProxy.__init__` put to work) is modelled too so
  that "every read is a function of the file alone" has content (`hist_cache_counterexample`).
  `I` = index type, `R` = result type (the driver instantiates both with `String`: protocol token / printed line).
  Core Lean only.
-/
import NibabelModel.Model.C03
namespace Nb.C03
open Nb Nb.C06

structure ProxyFns (I R : Type) where
  getitem : I → R
  array   : R

inductive HStep (I R : Type) where
  | arr
  | get (idx : I)
  | edit (k : Nat) (g : R → R)

structure HState (R : Type) where
  cells : List R
  refs  : List Nat
  snaps : List R
  cache : Option Nat

def HState.init {R} : HState R := ⟨[], [], [], none⟩

def HState.alloc {R} (st : HState R) (v : R) : HState R :=
  { st with cells := st.cells ++ [v], refs := st.refs ++ [st.cells.length], snaps := st.snaps ++ [v] }

def HState.edit {R} (st : HState R) (k : Nat) (g : R → R) : HState R :=
  match st.refs[k]? with
  | some c => { st with cells := st.cells.modify c g }
  | none => st

def histStep {I R} (p : ProxyFns I R) (st : HState R) : HStep I R → HState R
  | .arr => st.alloc p.array
  | .get idx => st.alloc (p.getitem idx)
  | .edit k g => st.edit k g

def runHist {I R} (p : ProxyFns I R) (steps : List (HStep I R)) : HState R :=
  steps.foldl (histStep p) HState.init

def HStep.readOf {I R} (p : ProxyFns I R) : HStep I R → Option R
  | .arr => some p.array
  | .get idx => some (p.getitem idx)
  | .edit _ _ => none

def HStep.isMutOf {I R} (k : Nat) : HStep I R → Bool
  | .edit j _ => j == k
  | _ => false


/-! ### the caching variant (NOT the code): `__array__` keeps the assembled array in `self._data` and returns that
    very object on every later call; `__getitem__` answers from it (`self._data[sliceobj].copy()`) once it exists -/

def histStepCached {I R} (sub : R → I → R) (p : ProxyFns I R) (st : HState R) : HStep I R → HState R
  | .arr =>
      match st.cache with
      | some c => { st with refs := st.refs ++ [c], snaps := st.snaps ++ [st.cells.getD c p.array] }
      | none => { st.alloc p.array with cache := some st.cells.length }
  | .get idx =>
      match st.cache with
      | some c => st.alloc (sub (st.cells.getD c p.array) idx)
      | none => st.alloc (p.getitem idx)
  | .edit k g => st.edit k g

def runHistCached {I R} (sub : R → I → R) (p : ProxyFns I R) (steps : List (HStep I R)) : HState R :=
  steps.foldl (histStepCached sub p) HState.init

/-- what the caller can see at the end: per read, the value it got; and per read, whether the object it got still
    holds that value -/
def HState.unchanged {R} [DecidableEq R] (st : HState R) : List Bool :=
  (st.refs.zip st.snaps).map (fun (c, v) => decide (st.cells[c]? = some v))

/-! ### the proxies of this property as history subjects -/

/-- generic `ArrayProxy` (`__getitem__` = `getScaled`, `__array__` = `proxyArray`) -/
def genericFns {σ ρ β} (f : ρ → σ → σ → β) (raw : Int → ρ) (h : Heuristic) (p : Params σ) :
    ProxyFns (List IdxItem) (Except Err (List Nat × List β)) :=
  ⟨getScaled f raw h p, proxyArray f raw h p⟩

/-- ECAT: `__getitem__` = `ecatGetitemRows`, `__array__` = `ecatArrayRows` -/
def ecatFns (rowOf : Nat → Nat) (shape3 : List Nat) (T : Nat) :
    ProxyFns (List IdxItem) (Except Err (List Nat × List (Option Nat))) :=
  ⟨ecatGetitemRows rowOf shape3 T, .ok ((ecatArrayRows rowOf shape3 T).1, (ecatArrayRows rowOf shape3 T).2.map some)⟩

/-- `cached[sliceobj]` : NumPy indexing of an in-memory F-order array object -/
def indexCached {α} (dflt : α) (cached : Except Err (List Nat × List α)) (idx : List IdxItem) :
    Except Err (List Nat × List α) := do
  let a ← cached
  let r ← npIndex idx a.1 .F
  pure (r.1, r.2.map (fun q => a.2.getD q dflt))

end Nb.C03
