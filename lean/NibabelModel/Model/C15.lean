/-! Model/C15 — executable model (core Lean only; imports only NibabelModel.Basic.* / other Model files). -/
namespace Nb.C15

end Nb.C15
