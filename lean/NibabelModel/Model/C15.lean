import NibabelModel.Basic.PySlice
import NibabelModel.Generated.C15Consts
/-! Model/C15 — executable model of `nibabel/streamlines/array_sequence.py` (core Lean only).

  A *heap* of row buffers (`_data` ndarrays, identified by the ndarray object), and *sequences*
  that point into one buffer with a list of `(offset, length)` row ranges (`_offsets[i]`,
  `_lengths[i]` — the code always indexes the two arrays together, so they are one list of pairs
  here).  A row is a flat `List Int` (the trailing dims of the real array raveled); the dtype is
  an abstract tag (`dt`) whose only modelled effect is its item size (rows per buffer).

  Abstractions (each exercised by the correspondence run, see harness/props/c15.py):
  * `np.empty` / `resize` filler rows are never materialised: a buffer keeps the *written prefix*
    `rows` and its allocated row count `cap` (`_data.shape[0]`).
  * `ndarray.resize(refcheck=True)` succeeds in place exactly when no other live object holds the
    ndarray; live holders are the other live sequences (the harness keeps no ndarray between
    steps), so "another live sequence has the same buffer id" is the refcheck failure.
  * a cached build (`append(cache_build=True)` … `finalize_append()`) is one atomic operation
    (`extendGen`); the build cache is threaded through the loop instead of living in the object.
  * common-shape / dtype-cast errors are outside the model (the generators keep one common shape
    per history and integer-valued data).
-/
namespace Nb.C15
open Nb

abbrev Row := List Int
/-- one array of the sequence: its rows (first axis) -/
abbrev Elem := List Row

/-- `MEGABYTE`, array_sequence.py:7 — REGENERATED from the source on every run (Generated/C15Consts.lean) -/
def MB : Nat := Gen.MEGABYTE
/-- default `buffer_size` (Mb), array_sequence.py:115 — also what `copy()`/`__getitem__` get
    through `self.__class__()`; regenerated from the source -/
def defaultBufBytes : Nat := Gen.defaultBufferMb * MB

/-- dtype tags used by the harness: 0=f8 1=i8 2=i4 3=i2 4=f4 5=bool; item sizes regenerated from NumPy -/
def itemsize (dt : Nat) : Nat := Gen.itemsizes.getD dt 8

/-- NumPy accepts `arr op= <Python float>` for this dtype tag (else `UFuncTypeError`, a TypeError: the result
    cannot be cast back 'same_kind'); regenerated from NumPy -/
def inplaceFloatOK (dt : Nat) : Bool := Gen.inplaceFloatOK.getD dt false

/-- NumPy accepts `arr_t op= arr_v` for these dtype tags; regenerated from NumPy -/
def inplaceSeqOK (dt dv : Nat) : Bool := (Gen.inplaceSeqOK.getD dt []).getD dv false

/-- one `_data` ndarray -/
structure Buf where
  rows : List Row      -- written prefix
  cap  : Nat           -- `_data.shape[0]`
  dt   : Nat           -- dtype tag
  deriving Repr, DecidableEq, Inhabited

/-- one `ArraySequence` object -/
structure Seq where
  buf : Nat                      -- which ndarray `_data` is
  ranges : List (Nat × Nat)      -- `zip(_offsets, _lengths)`
  isView : Bool                  -- `_is_view`
  bufBytes : Nat                 -- `_buffer_size * MEGABYTE`
  deriving Repr, DecidableEq, Inhabited

structure State where
  heap : List Buf
  seqs : List Seq                -- all live sequences
  deriving Repr, DecidableEq, Inhabited

/-- no sequences; buffer 0 is never used (keeps ids ≥ 1 for readability only) -/
def State.init : State := ⟨[], []⟩

def State.bufAt (σ : State) (b : Nat) : Buf := σ.heap.getD b default
def State.seqAt (σ : State) (t : Nat) : Seq := σ.seqs.getD t default
def State.setBuf (σ : State) (b : Nat) (x : Buf) : State := { σ with heap := σ.heap.set b x }
def State.setSeq (σ : State) (t : Nat) (s : Seq) : State := { σ with seqs := σ.seqs.set t s }
/-- a new ndarray object -/
def State.alloc (σ : State) (x : Buf) : State × Nat := ({ σ with heap := σ.heap ++ [x] }, σ.heap.length)
def State.addSeq (σ : State) (s : Seq) : State := { σ with seqs := σ.seqs ++ [s] }

/-- `_data[off : off+len]` -/
def Buf.slice (b : Buf) (off len : Nat) : Elem := (b.rows.drop off).take len

/-- rows list padded with filler up to length `n` (filler = never observed) -/
def padTo (rows : List Row) (n : Nat) : List Row := rows ++ List.replicate (n - rows.length) []

/-- `_data[p : p+len(new)] = new` -/
def Buf.write (b : Buf) (p : Nat) (new : Elem) : Buf :=
  { b with rows := (padTo b.rows p).take p ++ new ++ b.rows.drop (p + new.length) }

/-- `_data.resize((n,)+common_shape)` seen on the written prefix -/
def Buf.resize (b : Buf) (n : Nat) : Buf := { b with rows := b.rows.take n, cap := n }

/-- the arrays a sequence shows: `list(seq)`, array_sequence.py:536-543 -/
def contentsOf (b : Buf) (ranges : List (Nat × Nat)) : List Elem := ranges.map (fun r => b.slice r.1 r.2)
def State.contents (σ : State) (t : Nat) : List Elem :=
  contentsOf (σ.bufAt (σ.seqAt t).buf) (σ.seqAt t).ranges

/-- helper of `nextOffset`: the pair with the largest offset, first one on ties (`np.argmax`) -/
def argmaxOff (best : Nat × Nat) : List (Nat × Nat) → Nat × Nat
  | [] => best
  | r :: rest => if r.1 > best.1 then argmaxOff r rest else argmaxOff best rest

/-- `_get_next_offset`, array_sequence.py:196-201 -/
def nextOffset (ranges : List (Nat × Nat)) : Nat :=
  match ranges with
  | [] => 0
  | r :: rest => let m := argmaxOff r rest; m.1 + m.2

/-- is the ndarray of sequence `t` held by another live sequence? (refcheck of `resize`) -/
def State.shared (σ : State) (t : Nat) : Bool :=
  (List.range σ.seqs.length).any (fun u => u != t && (σ.seqAt u).buf == (σ.seqAt t).buf)

/-- `_BuildCache`, array_sequence.py:24-41 -/
structure Cache where
  ranges : List (Nat × Nat)
  next : Nat
  rpb : Nat      -- rows_per_buf
  dt : Nat       -- dtype for a first allocation
  deriving Repr, DecidableEq, Inhabited

/-- `_BuildCache.__init__`; `w` = number of items in a row, `dt` = dtype of the element passed -/
def mkCache (σ : State) (t : Nat) (w dt : Nat) : Cache :=
  let s := σ.seqAt t
  let b := σ.bufAt s.buf
  { ranges := s.ranges, next := nextOffset s.ranges,
    rpb := max 1 (s.bufBytes / (w * itemsize dt)),
    dt := if b.cap == 0 then dt else b.dt }

def packRanges (next : Nat) : List Nat → List (Nat × Nat)
  | [] => []
  | l :: ls => (next, l) :: packRanges (next + l) ls

/-- `copy()`, array_sequence.py:338-367: a compacted private buffer; result is NOT added to the
    live sequences here -/
def copySeq (σ : State) (t : Nat) : State × Seq :=
  let s := σ.seqAt t
  let b := σ.bufAt s.buf
  let els := contentsOf b s.ranges
  let (σ', id) := σ.alloc { rows := els.flatten, cap := (s.ranges.map (·.2)).sum, dt := b.dt }
  (σ', { buf := id, ranges := packRanges 0 (s.ranges.map (·.2)), isView := false,
         bufBytes := defaultBufBytes })

/-- `_own_data`, array_sequence.py:203-208 -/
def ownData (σ : State) (t : Nat) : State :=
  let s := σ.seqAt t
  if s.isView then
    let (σ', c) := copySeq σ t
    σ'.setSeq t { s with buf := c.buf, ranges := c.ranges, isView := false }
  else σ

/-- `_resize_data_to`, array_sequence.py:280-293 -/
def resizeDataTo (σ : State) (t : Nat) (nRows : Nat) (c : Cache) : State :=
  let s := σ.seqAt t
  let b := σ.bufAt s.buf
  let ext := ((nRows + c.rpb - 1) / c.rpb) * c.rpb
  if b.cap == 0 then
    let (σ', id) := σ.alloc { rows := [], cap := ext, dt := c.dt }
    σ'.setSeq t { s with buf := id }
  else if ext == b.cap then σ      -- `resize` to the same size: no refcheck, nothing happens
  else if σ.shared t then
    let (σ', id) := σ.alloc (b.resize ext)
    σ'.setSeq t { s with buf := id }
  else σ.setBuf s.buf (b.resize ext)

/-- body of `append` once the build cache is known, array_sequence.py:250-257 -/
def appendCore (σ : State) (t : Nat) (el : Elem) (c : Cache) : State × Cache :=
  let req := c.next + el.length
  let σ1 := if (σ.bufAt (σ.seqAt t).buf).cap < req then resizeDataTo σ t req c else σ
  let bid := (σ1.seqAt t).buf
  let σ2 := σ1.setBuf bid ((σ1.bufAt bid).write c.next el)
  (σ2, { c with ranges := c.ranges ++ [(c.next, el.length)], next := req })

/-- `_BuildCache.update_seq` -/
def updateSeq (σ : State) (t : Nat) (c : Cache) : State :=
  σ.setSeq t { σ.seqAt t with ranges := c.ranges }

/-- one-shot `append(element)`, array_sequence.py:210-263 -/
def append (σ : State) (t : Nat) (el : Elem) (w dt : Nat) : State :=
  if el.isEmpty then σ else
  let σ0 := ownData σ t
  let (σ1, c) := appendCore σ0 t el (mkCache σ0 t w dt)
  updateSeq σ1 t c

/-- `shrink_data`, array_sequence.py:295-296 (refcheck=False: in place on the shared ndarray) -/
def shrinkData (σ : State) (t : Nat) : State :=
  let s := σ.seqAt t
  σ.setBuf s.buf ((σ.bufAt s.buf).resize (nextOffset s.ranges))

/-- the loop `for e in elements: self.append(e, cache_build=True)` inside a cached build -/
def appendLoop (σ : State) (t : Nat) (c : Cache) : List Elem → State × Cache
  | [] => (σ, c)
  | e :: es =>
    if e.isEmpty then appendLoop σ t c es
    else let (σ', c') := appendCore σ t e c; appendLoop σ' t c' es

/-- `finalize_append` with a build cache, array_sequence.py:265-278 -/
def finalize (σ : State) (t : Nat) (c : Cache) : State := shrinkData (updateSeq σ t c) t

/-- `extend(elements)` for a sized iterable, array_sequence.py:298-336;
    `w`,`dt` come from `elements[0]` -/
def extendList (σ : State) (t : Nat) (els : List Elem) (w dt : Nat) : State :=
  if els.isEmpty then σ else
  let σ0 := ownData σ t
  let c := mkCache σ0 t w dt
  let σ1 := resizeDataTo σ0 t (c.next + (els.map List.length).sum) c
  let (σ2, c') := appendLoop σ1 t c els
  finalize σ2 t c'

/-- `extend(generator)`: no pre-allocation; the cache is created by the first non-empty append
    (`w`,`dt` of that element) -/
def extendGen (σ : State) (t : Nat) (els : List Elem) (w dt : Nat) : State :=
  match els.filter (fun e => !e.isEmpty) with
  | [] => σ
  | e :: es =>
    let σ0 := ownData σ t
    let (σ1, c) := appendCore σ0 t e (mkCache σ0 t w dt)
    let (σ2, c') := appendLoop σ1 t c es
    finalize σ2 t c'

/-- `copy()` as an operation creating a new live sequence -/
def copyOp (σ : State) (t : Nat) : State :=
  let (σ', c) := copySeq σ t
  σ'.addSeq c

/-- `ArraySequence(seq)`, array_sequence.py:140-146 -/
def viewCtor (σ : State) (t : Nat) (bufBytes : Nat) : State :=
  let s := σ.seqAt t
  σ.addSeq { buf := s.buf, ranges := s.ranges, isView := true, bufBytes := bufBytes }

/-- `seq[slice]` / `seq[list]` / `seq[mask]` once the positions are known,
    array_sequence.py:392-410 -/
def getView (σ : State) (t : Nat) (pos : List Nat) : State :=
  let s := σ.seqAt t
  σ.addSeq { buf := s.buf, ranges := pos.filterMap (fun i => s.ranges[i]?), isView := true,
             bufBytes := defaultBufBytes }

/-- NumPy integer-list indexing of a length-`n` axis: every entry must be in range -/
def fancyPos (n : Nat) (idx : List Int) : Option (List Nat) := idx.mapM (pyIntIndex n)

/-- NumPy boolean-mask indexing: the mask must have the axis length — except that NumPy accepts an EMPTY
    boolean array on an axis of any length (it selects nothing) -/
def maskPos (n : Nat) (mask : List Bool) : Option (List Nat) :=
  if mask.length = n then some ((List.range n).filter (fun i => mask.getD i false))
  else if mask.isEmpty then some [] else none

/-- `seq[i] = arr` (same number of rows), array_sequence.py:433-436 -/
def setRange (σ : State) (bid : Nat) (r : Nat × Nat) (el : Elem) : State :=
  σ.setBuf bid ((σ.bufAt bid).write r.1 el)

/-- the zip loops of `__setitem__`, array_sequence.py:476-478 -/
def setMany (σ : State) (bid : Nat) : List (Nat × Nat) → List Elem → State
  | r :: rs, e :: es => setMany (setRange σ bid r e) bid rs es
  | _, _ => σ

/-- elementwise arithmetic `arr ∘ k` on one array; `code` 0: `+ k`, 1: `* k`, 2: `- k` -/
def arith (code : Nat) (k : Int) (el : Elem) : Elem :=
  el.map (fun row => row.map (fun x => match code with | 0 => x + k | 1 => x * k | _ => x - k))

/-- the loop of `_op` (scalar operand): read range `src` of buffer `sb`, write to range `dst`
    of buffer `db`, array_sequence.py:523-532 -/
def opLoop (f : Elem → Elem) (σ : State) (db sb : Nat) : List (Nat × Nat) → List (Nat × Nat) → State
  | d :: ds, s :: ss => opLoop f (setRange σ db d (f ((σ.bufAt sb).slice s.1 s.2))) db sb ds ss
  | _, _ => σ

/-- `seq op= k` (after the fix: `astype(copy=False)` keeps the buffer), array_sequence.py:498-534.
    `none` = `StopIteration` out of `next(elements)` on an empty sequence. -/
def iop (f : Elem → Elem) (σ : State) (t : Nat) : Option State :=
  let s := σ.seqAt t
  if s.ranges.isEmpty then none else some (opLoop f σ s.buf s.buf s.ranges s.ranges)

/-- `seq op k` : works on `self.copy()`, reading from `self` -/
def opNew (f : Elem → Elem) (σ : State) (t : Nat) : Option State :=
  let s := σ.seqAt t
  let (σ', c) := copySeq σ t
  if s.ranges.isEmpty then none
  else some ((opLoop f σ' c.buf s.buf c.ranges s.ranges).addSeq c)


inductive Err where
  | index      -- IndexError
  | value      -- ValueError
  | stopIter   -- StopIteration (arithmetic on a sequence without elements)
  | type       -- TypeError (NumPy refuses an in-place operation whose result cannot be cast back)
  | bad        -- ill-formed operation (unknown sequence id, wrong element sizes): not generated
  deriving Repr, DecidableEq, Inhabited

/-! ### operators whose right operand is another ArraySequence, unary operators
    (correspondence + oracle only: no theorem yet) -/

/-- elementwise `x ∘ y`; `code` 0: `+`, 1: `*`, 2: `-`, ≥3: `<` (NumPy bool shown as 0/1) -/
def binop (code : Nat) (x y : Int) : Int :=
  match code with
  | 0 => x + y
  | 1 => x * y
  | 2 => x - y
  | _ => if x < y then 1 else 0

def arith2 (code : Nat) (a b : Elem) : Elem := List.zipWith (List.zipWith (binop code)) a b

/-- dtype tag of NumPy `bool` (result of a comparison) -/
def boolTag : Nat := 5

/-- the loop of `_op` with an ArraySequence operand, array_sequence.py:500-519: destination range
    in buffer `db`, left operand range in `sb` (ranges of `self`), right operand range in `vb`
    (ranges of `value`); every iteration reads the CURRENT buffers (operands may alias) -/
def opLoop2 (code : Nat) (σ : State) (db sb vb : Nat) :
    List (Nat × Nat) → List (Nat × Nat) → List (Nat × Nat) → State
  | d :: ds, s :: ss, v :: vs =>
      opLoop2 code (setRange σ db d
        (arith2 code ((σ.bufAt sb).slice s.1 s.2) ((σ.bufAt vb).slice v.1 v.2))) db sb vb ds ss vs
  | _, _, _ => σ

/-- `_check_shape`, array_sequence.py:179-194 (common shapes are equal within a history) -/
def checkShape (rs vs : List (Nat × Nat)) : Bool :=
  rs.length == vs.length && (rs.map (·.2)).sum == (vs.map (·.2)).sum

/-- element-by-element equal row counts (otherwise NumPy broadcasts or raises part-way: not generated) -/
def lensMatch (rs vs : List (Nat × Nat)) : Bool := rs.map (·.2) == vs.map (·.2)

/-- `seq op= other` with `other` an ArraySequence (arithmetic codes 0-2) -/
def iopSeq (code : Nat) (σ : State) (t v : Nat) : Except Err State :=
  let s := σ.seqAt t
  let o := σ.seqAt v
  if !checkShape s.ranges o.ranges then .error .value
  else if s.ranges.isEmpty then .error .stopIter
  else if !lensMatch s.ranges o.ranges || code ≥ 3 then .error .bad
  else .ok (opLoop2 code σ s.buf s.buf o.buf s.ranges s.ranges o.ranges)

/-- `seq op other` with `other` an ArraySequence: the result is `self.copy()` filled from the ranges
    of `self` (NOT of the compacted copy) and of `other`; a comparison gives a bool buffer -/
def opSeq (code : Nat) (σ : State) (t v : Nat) : Except Err State :=
  let s := σ.seqAt t
  let o := σ.seqAt v
  let (σ', c) := copySeq σ t
  if !checkShape s.ranges o.ranges then .error .value
  else if s.ranges.isEmpty then .error .stopIter
  else if !lensMatch s.ranges o.ranges then .error .bad
  else
    let σ1 := opLoop2 code σ' c.buf s.buf o.buf c.ranges s.ranges o.ranges
    let σ2 := if code ≥ 3 then σ1.setBuf c.buf { σ1.bufAt c.buf with dt := boolTag } else σ1
    .ok (σ2.addSeq c)

/-- unary operators; `code` 0: `-seq`, otherwise `abs(seq)` -/
def unary (code : Nat) (el : Elem) : Elem :=
  el.map (fun row => row.map (fun x => if code = 0 then -x else (x.natAbs : Int)))

/-! ### the ORIGINAL (pinned) logic of the two repaired defects -/

/-- pinned `append`: no `_own_data()` — a view grows inside the shared buffer -/
def appendOrig (σ : State) (t : Nat) (el : Elem) (w dt : Nat) : State :=
  if el.isEmpty then σ else
  let (σ1, c) := appendCore σ t el (mkCache σ t w dt)
  updateSeq σ1 t c

/-- pinned in-place `_op`: the first element is computed in the shared buffer, then
    `seq._data = seq._data.astype(tmp.dtype)` COPIES the buffer and the remaining elements are
    written to the private copy -/
def iopOrig (f : Elem → Elem) (σ : State) (t : Nat) : Option State :=
  let s := σ.seqAt t
  match s.ranges with
  | [] => none
  | r :: rs =>
    let σ1 := setRange σ s.buf r (f ((σ.bufAt s.buf).slice r.1 r.2))
    let (σ2, id) := σ1.alloc (σ1.bufAt s.buf)
    let σ3 := σ2.setSeq t { s with buf := id }
    some (opLoop f σ3 id id rs rs)

/-- index of `ArraySequence.__getitem__` / `__setitem__` / `Tractogram.__getitem__` other than an int: a slice,
    a list / range / integer ndarray of positions, or a boolean ndarray -/
inductive TIdx where
  | slice (sl : PySlice)
  | fancy (idx : List Int)
  | mask (m : List Bool)
  deriving Repr, DecidableEq, Inhabited

/-- positions an index selects in a sequence of `n` arrays (`self._offsets[idx]`; each sequence of a tractogram is
    indexed on its own, tractogram.py:403-411) -/
def idxPos (n : Nat) : TIdx → Except Err (List Nat)
  | .slice sl => if sl.stepVal = 0 then .error .value else .ok (sl.sel n)
  | .fancy idx => match fancyPos n idx with
    | some p => .ok p
    | none => .error .index
  | .mask m => match maskPos n m with
    | some p => .ok p
    | none => .error .index

/-- `data[o1:o1+l1] = k` for a Python number: every item of every row -/
def fill (k : Int) (el : Elem) : Elem := el.map (fun row => row.map (fun _ => k))

/-- the loop of `__setitem__` with an ArraySequence value, array_sequence.py:469-470: element by element,
    `data[o1:o1+l1] = elements._data[o2:o2+l2]`, every iteration reading the CURRENT buffers (target and value
    may share a buffer).  It is `opLoop id` : read range `v` of buffer `vb`, write it to range `r` of `db`. -/
def setLoop (σ : State) (db vb : Nat) (rs vs : List (Nat × Nat)) : State := opLoop id σ db vb rs vs

/-- `seq[idx] = other` with `other` an ArraySequence, once the selected ranges `rs` of `seq` are known,
    array_sequence.py:460-470: the number of arrays, then the total number of rows must agree (ValueError);
    element-by-element unequal row counts are not generated (NumPy broadcasts or raises part-way) -/
def setSeq (σ : State) (t : Nat) (rs : List (Nat × Nat)) (v : Nat) : Except Err State :=
  let o := σ.seqAt v
  if rs.length != o.ranges.length then .error .value
  else if (rs.map (·.2)).sum != (o.ranges.map (·.2)).sum then .error .value
  else if !lensMatch rs o.ranges then .error .bad
  else .ok (setLoop σ (σ.seqAt t).buf o.buf rs o.ranges)

/-! ### operations of a history -/

inductive Op where
  | new (bufBytes : Nat)                                   -- `ArraySequence(buffer_size=…)`
  | append (t : Nat) (w dt : Nat) (el : Elem)              -- `s.append(el)`
  | extend (t : Nat) (w dt : Nat) (els : List Elem)        -- `s.extend([..])`
  | extendGen (t : Nat) (w dt : Nat) (els : List Elem)     -- `s.extend(e for e in [..])`, cached append+finalize
  | extendSeq (t u : Nat) (w : Nat)                        -- `s.extend(other_sequence)`
  | view (t : Nat) (bufBytes : Nat)                        -- `ArraySequence(s)`
  | copy (t : Nat)                                         -- `s.copy()`
  | slice (t : Nat) (sl : PySlice)                         -- `s[a:b:c]`
  | fancy (t : Nat) (idx : List Int)                       -- `s[[i,j,…]]`
  | mask (t : Nat) (m : List Bool)                         -- `s[np.array([True,…])]`
  | getInt (t : Nat) (i : Int)                             -- `s[i]` (no state change)
  | setInt (t : Nat) (i : Int) (el : Elem)                 -- `s[i] = arr`
  | setSlice (t : Nat) (sl : PySlice) (els : List Elem)    -- `s[a:b:c] = [arr,…]`
  | iop (t : Nat) (code : Nat) (k : Int)                   -- `s += k` / `s *= k` / `s -= k`
  | op (t : Nat) (code : Nat) (k : Int)                    -- `s + k` …
  | concat (ts : List Nat) (w : Nat)                       -- `concatenate([..], axis=0)`
  | iopSeq (t v : Nat) (code : Nat)                        -- `s += other` / `*=` / `-=`, other an ArraySequence
  | opSeq (t v : Nat) (code : Nat)                         -- `s + other` / `*` / `-` / `<`
  | unary (t : Nat) (code : Nat)                           -- `-s` / `abs(s)`
  | iopF (t : Nat) (code : Nat) (k : Int)                  -- `s += 2.0` …: a Python FLOAT scalar (integer-valued)
  | setIdxSeq (t : Nat) (idx : TIdx) (v : Nat)             -- `s[idx] = other`, other an ArraySequence (any live one)
  | setIdxList (t : Nat) (idx : TIdx) (els : List Elem)    -- `s[idx] = [arr,…]`, idx a slice / list / ndarray / mask
  | setIdxNum (t : Nat) (idx : TIdx) (k : Int)             -- `s[idx] = k`, a Python number
  deriving Repr, DecidableEq, Inhabited

/-- `s.extend(u)` with `u` an ArraySequence: `len(u)`, `u[0]` and iteration read `u`'s arrays;
    they are read here up front (the loop writes only rows no live range covers) -/
def extendSeq (σ : State) (t u : Nat) (w : Nat) : State :=
  extendList σ t (σ.contents u) w (σ.bufAt (σ.seqAt u).buf).dt

/-- `concatenate(seqs, axis=0)`, array_sequence.py:602-624 -/
def concatRest (σ : State) (t : Nat) (w : Nat) : List Nat → State
  | [] => σ
  | u :: us => concatRest (extendSeq σ t u w) t w us

/-- element sizes must match the ranges they are written to (NumPy would broadcast or raise) -/
def sizesMatch (rs : List (Nat × Nat)) (els : List Elem) : Bool :=
  rs.length == els.length && (rs.zip els).all (fun p => p.1.2 == p.2.length)

def step (σ : State) : Op → Except Err State
  | .new bb =>
      let (σ', id) := σ.alloc { rows := [], cap := 0, dt := 0 }
      .ok (σ'.addSeq { buf := id, ranges := [], isView := false, bufBytes := bb })
  | .append t w dt el => if t < σ.seqs.length then .ok (append σ t el w dt) else .error .bad
  | .extend t w dt els => if t < σ.seqs.length then .ok (extendList σ t els w dt) else .error .bad
  | .extendGen t w dt els => if t < σ.seqs.length then .ok (extendGen σ t els w dt) else .error .bad
  | .extendSeq t u w =>
      if t < σ.seqs.length ∧ u < σ.seqs.length then .ok (extendSeq σ t u w) else .error .bad
  | .view t bb => if t < σ.seqs.length then .ok (viewCtor σ t bb) else .error .bad
  | .copy t => if t < σ.seqs.length then .ok (copyOp σ t) else .error .bad
  | .slice t sl =>
      if t < σ.seqs.length then
        if sl.stepVal = 0 then .error .value
        else .ok (getView σ t (sl.sel (σ.seqAt t).ranges.length))
      else .error .bad
  | .fancy t idx =>
      if t < σ.seqs.length then
        match fancyPos (σ.seqAt t).ranges.length idx with
        | some pos => .ok (getView σ t pos)
        | none => .error .index
      else .error .bad
  | .mask t m =>
      if t < σ.seqs.length then
        match maskPos (σ.seqAt t).ranges.length m with
        | some pos => .ok (getView σ t pos)
        | none => .error .index
      else .error .bad
  | .getInt t i =>
      if t < σ.seqs.length then
        match pyIntIndex (σ.seqAt t).ranges.length i with
        | some _ => .ok σ
        | none => .error .index
      else .error .bad
  | .setInt t i el =>
      if t < σ.seqs.length then
        match pyIntIndex (σ.seqAt t).ranges.length i with
        | some j =>
            let r := (σ.seqAt t).ranges.getD j default
            if r.2 = el.length then .ok (setRange σ (σ.seqAt t).buf r el) else .error .bad
        | none => .error .index
      else .error .bad
  | .setSlice t sl els =>
      if t < σ.seqs.length then
        if sl.stepVal = 0 then .error .value
        else
          let rs := (sl.sel (σ.seqAt t).ranges.length).filterMap (fun i => (σ.seqAt t).ranges[i]?)
          if sizesMatch rs els then .ok (setMany σ (σ.seqAt t).buf rs els) else .error .bad
      else .error .bad
  | .iop t code k =>
      if t < σ.seqs.length then
        match iop (arith code k) σ t with
        | some σ' => .ok σ'
        | none => .error .stopIter
      else .error .bad
  | .op t code k =>
      if t < σ.seqs.length then
        match opNew (arith code k) σ t with
        | some σ' => .ok σ'
        | none => .error .stopIter
      else .error .bad
  | .iopSeq t v code =>
      -- `_check_shape` (ValueError) and `next(elements)` (StopIteration) come first; then the first in-place
      -- ufunc call raises before anything is written when NumPy cannot cast the result back
      if t < σ.seqs.length ∧ v < σ.seqs.length then
        match iopSeq code σ t v with
        | .ok σ' =>
            if inplaceSeqOK (σ.bufAt (σ.seqAt t).buf).dt (σ.bufAt (σ.seqAt v).buf).dt then .ok σ' else .error .type
        | .error e => .error e
      else .error .bad
  | .iopF t code k =>
      -- `ndarray.__iadd__(2.0)` works in place (same dtype: `astype(copy=False)` keeps the buffer) or raises
      -- at the first array, before anything is written
      if t < σ.seqs.length then
        match iop (arith code k) σ t with
        | some σ' => if inplaceFloatOK (σ.bufAt (σ.seqAt t).buf).dt then .ok σ' else .error .type
        | none => .error .stopIter
      else .error .bad
  | .opSeq t v code =>
      if t < σ.seqs.length ∧ v < σ.seqs.length then opSeq code σ t v else .error .bad
  | .unary t code =>
      if t < σ.seqs.length then
        match opNew (unary code) σ t with
        | some σ' => .ok σ'
        | none => .error .stopIter
      else .error .bad
  | .setIdxSeq t idx v =>
      -- `self._offsets[idx]` (IndexError / ValueError) comes first, then the two count tests
      if t < σ.seqs.length ∧ v < σ.seqs.length then
        match idxPos (σ.seqAt t).ranges.length idx with
        | .error e => .error e
        | .ok pos => setSeq σ t (pos.filterMap (fun i => (σ.seqAt t).ranges[i]?)) v
      else .error .bad
  | .setIdxList t idx els =>
      if t < σ.seqs.length then
        match idxPos (σ.seqAt t).ranges.length idx with
        | .error e => .error e
        | .ok pos =>
          let rs := pos.filterMap (fun i => (σ.seqAt t).ranges[i]?)
          if sizesMatch rs els then .ok (setMany σ (σ.seqAt t).buf rs els) else .error .bad
      else .error .bad
  | .setIdxNum t idx k =>
      if t < σ.seqs.length then
        match idxPos (σ.seqAt t).ranges.length idx with
        | .error e => .error e
        | .ok pos =>
          let rs := pos.filterMap (fun i => (σ.seqAt t).ranges[i]?)
          .ok (opLoop (fill k) σ (σ.seqAt t).buf (σ.seqAt t).buf rs rs)
      else .error .bad
  | .concat ts w =>
      match ts with
      | [] => .error .index
      | t :: us =>
          if (t :: us).all (· < σ.seqs.length) then
            let σ1 := copyOp σ t
            .ok (concatRest σ1 σ.seqs.length w us)
          else .error .bad

/-- the value `s[i]` returns -/
def getInt (σ : State) (t : Nat) (i : Int) : Option Elem :=
  (pyIntIndex (σ.seqAt t).ranges.length i).map (fun j =>
    let r := (σ.seqAt t).ranges.getD j default
    (σ.bufAt (σ.seqAt t).buf).slice r.1 r.2)

/-- run a history; an operation that raises leaves the state unchanged -/
def run (σ : State) : List Op → State
  | [] => σ
  | op :: ops => match step σ op with
    | .ok σ' => run σ' ops
    | .error _ => run σ ops


/-! ### Tractograms over the sequence heap (nibabel/streamlines/tractogram.py)

  A `Tractogram` holds `streamlines` (an ArraySequence) and `data_per_point`, a
  `PerArraySequenceDict` (key → ArraySequence, in insertion order) with its `n_rows`.  Every
  sequence a tractogram holds is one of the live sequences of the `State`, so the ordinary
  sequence operations apply to it (`t.streamlines.append(..)`, `t.data_per_point['fa'] += 1` …).
  `data_per_streamline` holds plain ndarrays that are re-allocated on every change
  (`np.concatenate`) and is not modelled. -/

structure Tract where
  sl : Nat                       -- `_streamlines`
  dpp : List (Nat × Nat)         -- `data_per_point.store`: (key, sequence), insertion order
  nRows : Nat                    -- `data_per_point.n_rows`
  deriving Repr, DecidableEq, Inhabited

structure TState where
  st : State
  tracts : List Tract
  deriving Repr, DecidableEq, Inhabited

def TState.init : TState := ⟨State.init, []⟩
def TState.tractAt (τ : TState) (i : Nat) : Tract := τ.tracts.getD i default

/-- every sequence a tractogram holds -/
def Tract.members (t : Tract) : List Nat := t.sl :: t.dpp.map (·.2)

/-- `seq.total_nb_rows` -/
def totalRows (σ : State) (t : Nat) : Nat := ((σ.seqAt t).ranges.map (·.2)).sum

/-- `ArraySequence()` as a new live sequence (the `.new` operation) -/
def newSeq (σ : State) (bb : Nat) : State :=
  let (σ', id) := σ.alloc { rows := [], cap := 0, dt := 0 }
  σ'.addSeq { buf := id, ranges := [], isView := false, bufBytes := bb }

/-- `ArraySequence(value)` (tractogram.py:186, 358) as a new live sequence with index `σ.seqs.length`:
    `value` an ArraySequence → a VIEW of it (which detaches itself before it grows);
    `value` a list of arrays (`asList`) → a new owner filled by `extend` -/
def seqFrom (σ : State) (src : Nat) (asList : Bool) (w : Nat) : State :=
  if asList then extendSeq (newSeq σ defaultBufBytes) σ.seqs.length src w
  else viewCtor σ src defaultBufBytes

/-- the test of `PerArraySequenceDict.__setitem__`, tractogram.py:189: `0 < self.n_rows != value.total_nb_rows`
    raises ValueError; `true` = accepted -/
def dppCheck (nRows total : Nat) : Bool := !(decide (0 < nRows) && nRows != total)

/-- `store[key] = value` of a dict kept as an association list in insertion order -/
def dictSet : List (Nat × Nat) → Nat → Nat → List (Nat × Nat)
  | [], k, v => [(k, v)]
  | (k', v') :: rest, k, v => if k' = k then (k, v) :: rest else (k', v') :: dictSet rest k v

def dictGet (d : List (Nat × Nat)) (k : Nat) : Option Nat := (d.find? (·.1 = k)).map (·.2)

/-- `PerArraySequenceDict.__setitem__(key, seqs[src])`, tractogram.py:185-193; the stored sequence is a NEW
    live sequence; `none` = ValueError (nothing stored, the temporary dies) -/
def dppSet (σ : State) (d : List (Nat × Nat)) (nRows : Nat) (k src : Nat) (asList : Bool) (w : Nat) :
    Option (State × List (Nat × Nat)) :=
  let σ1 := seqFrom σ src asList w
  if dppCheck nRows (totalRows σ1 σ.seqs.length) then some (σ1, dictSet d k σ.seqs.length) else none

/-- `PerArraySequenceDict(n_rows, {k: seqs[f], …})`: `update` calls `__setitem__` key by key -/
def mkDpp (nRows : Nat) (asList : Bool) (w : Nat) :
    State → List (Nat × Nat) → List (Nat × Nat) → Option (State × List (Nat × Nat))
  | σ, d, [] => some (σ, d)
  | σ, d, (k, f) :: rest =>
      match dppSet σ d nRows k f asList w with
      | some (σ1, d1) => mkDpp nRows asList w σ1 d1 rest
      | none => none

/-- `Tractogram(seqs[src] | None, data_per_point={k: seqs[f]})`, tractogram.py:319-378 -/
def tnew (τ : TState) (src : Option Nat) (dpp : List (Nat × Nat)) (asList : Bool) (w : Nat) : Option TState :=
  let σ := τ.st
  let σ1 := match src with
    | none => newSeq σ defaultBufBytes
    | some s => seqFrom σ s asList w
  let n := totalRows σ1 σ.seqs.length
  match mkDpp n asList w σ1 [] dpp with
  | some (σ2, d) => some ⟨σ2, τ.tracts ++ [⟨σ.seqs.length, d, n⟩]⟩
  | none => none

/-- the index applied to every sequence of the list: the temporaries `seq[idx]` -/
def idxAll (σ : State) (idx : TIdx) : List (Nat × Nat) → Except Err (List (Nat × Nat × List Nat))
  | [] => .ok []
  | (k, f) :: rest =>
      match idxPos (σ.seqAt f).ranges.length idx with
      | .error e => .error e
      | .ok p => match idxAll σ idx rest with
        | .error e => .error e
        | .ok r => .ok ((k, f, p) :: r)

/-- `PerArraySequenceDict(n_rows, {k: seqs[f][pos]})` -/
def mkDppViews (nRows : Nat) : State → List (Nat × Nat) → List (Nat × Nat × List Nat) →
    Option (State × List (Nat × Nat))
  | σ, d, [] => some (σ, d)
  | σ, d, (k, f, pos) :: rest =>
      let σ1 := getView σ f pos
      if dppCheck nRows (totalRows σ1 σ.seqs.length) then mkDppViews nRows σ1 (dictSet d k σ.seqs.length) rest
      else none

/-- `T[idx]` (slice or list), tractogram.py:402-418: views of the streamlines and of every per-point
    sequence, wrapped once more by `ArraySequence(view)` (same buffer, same ranges, `_is_view`) -/
def tget (τ : TState) (T : Nat) (idx : TIdx) : Except Err TState :=
  let t := τ.tractAt T
  let σ := τ.st
  match idxPos (σ.seqAt t.sl).ranges.length idx with
  | .error e => .error e
  | .ok p =>
    match idxAll σ idx t.dpp with
    | .error e => .error e
    | .ok views =>
      let σ1 := getView σ t.sl p
      let n := totalRows σ1 σ.seqs.length
      match mkDppViews n σ1 [] views with
      | some (σ2, d) => .ok ⟨σ2, τ.tracts ++ [⟨σ.seqs.length, d, n⟩]⟩
      | none => .error .value

/-- insertion into a sorted list of keys -/
def insertKey (k : Nat) : List Nat → List Nat
  | [] => [k]
  | x :: xs => if k ≤ x then k :: x :: xs else x :: insertKey k xs

/-- `sorted(d.keys())` -/
def keysOf (d : List (Nat × Nat)) : List Nat := (d.map (·.1)).foldr insertKey []

/-- the loop of `PerArrayDict.extend`, tractogram.py:166-170 with `_extend_entry` of
    `PerArraySequenceDict` (195-197): a key the receiver lacks gets `ArraySequence(other[key])` — a VIEW of
    the donor's sequence —, a key it has is extended.  `some .value` = ValueError part-way (what was done
    stays done). -/
def dppExtend (nRows w : Nat) : State → List (Nat × Nat) → List (Nat × Nat) →
    State × List (Nat × Nat) × Option Err
  | σ, d, [] => (σ, d, none)
  | σ, d, (k, f) :: rest =>
      match dictGet d k with
      | none =>
          match dppSet σ d nRows k f false w with
          | some (σ1, d1) => dppExtend nRows w σ1 d1 rest
          | none => (σ, d, some .value)
      | some mine => dppExtend nRows w (extendSeq σ mine f w) d rest

/-- `T.extend(U)` / `T += U`, tractogram.py:502-529 (the streamlines are extended first; the key test of
    `PerArrayDict.extend` comes after that) -/
def textend (τ : TState) (T U : Nat) (w : Nat) : TState × Option Err :=
  let t := τ.tractAt T
  let u := τ.tractAt U
  let σ1 := extendSeq τ.st t.sl u.sl w
  if !t.dpp.isEmpty && !u.dpp.isEmpty && keysOf t.dpp != keysOf u.dpp then (⟨σ1, τ.tracts⟩, some .value)
  else
    let n := t.nRows + u.nRows
    let (σ2, d, e) := dppExtend n w σ1 t.dpp u.dpp
    (⟨σ2, τ.tracts.set T { t with dpp := d, nRows := n }⟩, e)

/-- `T.data_per_point[k] = seqs[src]` -/
def tset (τ : TState) (T k src : Nat) (asList : Bool) (w : Nat) : Option TState :=
  let t := τ.tractAt T
  match dppSet τ.st t.dpp t.nRows k src asList w with
  | some (σ1, d) => some ⟨σ1, τ.tracts.set T { t with dpp := d }⟩
  | none => none

/-- first-occurrence de-duplication (the `memo` of `copy.deepcopy`: one copy per distinct object) -/
def dedupNat : List Nat → List Nat
  | [] => []
  | b :: bs => b :: (dedupNat bs).filter (· != b)

/-- `T.copy()` = `copy.deepcopy(T)`, tractogram.py:423-425: every ArraySequence `T` holds is copied WITH its whole
    `_data` ndarray (all allocated rows, not compacted), keeping `_offsets/_lengths`, `_is_view` and
    `_buffer_size`; deepcopy's memo keeps the sharing INSIDE the tractogram (two of its sequences on one ndarray
    get one new ndarray).  The new ndarrays are `σ.heap.length + i` for the i-th distinct buffer, the new
    sequences `σ.seqs.length + j` for the j-th distinct sequence. -/
def tcopy (τ : TState) (T : Nat) : TState :=
  let t := τ.tractAt T
  let σ := τ.st
  let ms := dedupNat t.members
  let bs := dedupNat (ms.map (fun m => (σ.seqAt m).buf))
  let σ1 : State :=
    { heap := σ.heap ++ bs.map σ.bufAt,
      seqs := σ.seqs ++ ms.map (fun m => { σ.seqAt m with buf := σ.heap.length + bs.idxOf (σ.seqAt m).buf }) }
  let ren := fun m => σ.seqs.length + ms.idxOf m
  ⟨σ1, τ.tracts ++ [⟨ren t.sl, t.dpp.map (fun kf => (kf.1, ren kf.2)), t.nRows⟩]⟩

/-- `T + U`, tractogram.py:531-534: `tractogram = self.copy(); tractogram += other`.  When the extend raises the
    copy is dropped: no live object has changed (the copy was private). -/
def tadd (τ : TState) (T U : Nat) (w : Nat) : TState × Option Err :=
  match textend (tcopy τ T) τ.tracts.length U w with
  | (τ2, none) => (τ2, none)
  | (_, some e) => (τ, some e)

inductive TOp where
  | seq (op : Op)
  | tnew (src : Option Nat) (dpp : List (Nat × Nat)) (asList : Bool) (w : Nat)
  | tget (T : Nat) (idx : TIdx)
  | textend (T U : Nat) (w : Nat)
  | tset (T k src : Nat) (asList : Bool) (w : Nat)
  | tcopy (T : Nat)                                          -- `T.copy()`
  | tadd (T U : Nat) (w : Nat)                              -- `T + U`
  deriving Repr, DecidableEq, Inhabited

/-- one step of a tractogram history: the new state (an operation that raises may have changed it:
    `Tractogram.extend`) and the error raised, if any -/
def tstep (τ : TState) : TOp → TState × Option Err
  | .seq op => match step τ.st op with
    | .ok σ' => (⟨σ', τ.tracts⟩, none)
    | .error e => (τ, some e)
  | .tnew src dpp asList w =>
      if src.all (fun s => decide (s < τ.st.seqs.length)) &&
          dpp.all (fun kf => decide (kf.2 < τ.st.seqs.length)) then
        match tnew τ src dpp asList w with
        | some τ' => (τ', none)
        | none => (τ, some .value)
      else (τ, some .bad)
  | .tget T idx =>
      if T < τ.tracts.length then
        match tget τ T idx with
        | .ok τ' => (τ', none)
        | .error e => (τ, some e)
      else (τ, some .bad)
  | .textend T U w => if T < τ.tracts.length ∧ U < τ.tracts.length then textend τ T U w else (τ, some .bad)
  | .tset T k src asList w =>
      if T < τ.tracts.length ∧ src < τ.st.seqs.length then
        match tset τ T k src asList w with
        | some τ' => (τ', none)
        | none => (τ, some .value)
      else (τ, some .bad)
  | .tcopy T => if T < τ.tracts.length then (tcopy τ T, none) else (τ, some .bad)
  | .tadd T U w => if T < τ.tracts.length ∧ U < τ.tracts.length then tadd τ T U w else (τ, some .bad)

def trun (τ : TState) : List TOp → TState
  | [] => τ
  | op :: ops => trun (tstep τ op).1 ops

end Nb.C15
