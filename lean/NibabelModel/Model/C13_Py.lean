import NibabelModel.Model.C13
import NibabelModel.Basic.PyValC13
import NibabelModel.Generated.C13Funcs
/-!
Model/C13_Py — running the METHOD BODIES translated from the current `nibabel/dataobj_images.py`
(`Generated/C13Funcs.lean`, written by `harness/py2lean_c13.py` on every run) on the abstract image state of the
documented model (`Spec`, Model/C13.lean).  Core Lean only (the driver executes `gtrace`).

* `encSelf t`   the attribute dict of the image object: `_dataobj`, `_fdata_cache`, `_data_cache`.
  An ndarray is the self-describing value `("ndarray", id, (dtype, values, read-only))` — identity AND content,
  exactly the `(Nat × Arr)` pairs of `Spec`; an array proxy is the opaque token `"ArrayProxy"`.
* `prims t`     the TRUSTED primitives (`NpPrims`, Basic/PyValC13.lean) — what NumPy does, stated here explicitly:
  - `np.dtype(x)`: a dtype object (`("dtype", "f4")`) for a dtype object, a scalar type (`np.float32`, …:
    `DT.ofNp`) or a dtype string;
  - `dtypeobj.type`: the scalar type; `ndarray.dtype`: the dtype object of the array;
  - `issubclass(scalar type, np.inexact | np.floating)`: true exactly for float32 / float64
    (`np.integer | np.signedinteger`: exactly int16; `np.number | np.generic`: always);
  - `isinstance(x, np.ndarray)`: `x` is an ndarray value;
  - `np.asanyarray(obj, dtype)`: an ndarray `obj` ITSELF when no dtype is given or its dtype is the requested
    one, otherwise a NEW writeable array (identity `t.next`) with the same values; for the array proxy a NEW array
    holding the file's values scaled with the proxy's frozen parameters (`Par.scaled`, read-only iff
    `Par.readRO`) — this is `Spec.read` generalised to any argument object, so that a method which passes the
    wrong object (a cache instead of `_dataobj`) computes something else;
  - every other call: outside the modelled domain (`Err.unsupported`).
* `gstep t op`  one op executed by the TRANSLATED method (decoded back into a `Spec` and an `Out`; the
  `in_memory` flag of every output is computed by the translated `in_memory`); ops that are not
  `DataobjImage` methods (edits of returned arrays, proxy slicing, header edits) are `Spec.step`.
  `none` = the translated code left the modelled domain.
`Lemmas/C13_Gen.lean` proves `gstep t op = some (Spec.step t op)` for every well-formed `t` (stage T).
-/
namespace Nb.C13
open Nb Nb.Py

namespace PyEnc

def encDT : DT → V
  | .i2 => .str "i2"
  | .f4 => .str "f4"
  | .f8 => .str "f8"

def dtOfStr? (s : String) : Option DT :=
  if s = "i2" then some .i2 else if s = "f4" then some .f4 else if s = "f8" then some .f8 else none

def decDT? : V → Option DT
  | .str s => dtOfStr? s
  | _ => none

/-- a `np.dtype` object -/
def encDtype (d : DT) : V := .tup2 (.str "dtype") (encDT d)

def decDtype? : V → Option DT
  | .tup2 tag x => if tag = .str "dtype" then decDT? x else none
  | _ => none

/-- the scalar type of a dtype (`np.dtype(...).type`), as the source spells it -/
def scalarType : DT → V
  | .i2 => .str "np.int16"
  | .f4 => .str "np.float32"
  | .f8 => .str "np.float64"

def decScalar? : V → Option DT
  | .str s => DT.ofNp s
  | _ => none

def decInts? : V → Option (List Int)
  | .nil => some []
  | .cons (.int i) rest => (decInts? rest).map (i :: ·)
  | _ => none

def encInts (l : List Int) : V := V.ofList (l.map V.int)

/-- an ndarray object: identity and content -/
def encArr (r : Nat × Arr) : V :=
  .tup3 (.str "ndarray") (.int r.1) (.tup3 (encDT r.2.dt) (encInts r.2.vals) (.bool r.2.ro))

def decArr? : V → Option (Nat × Arr)
  | .tup3 tag (.int id) (.tup3 dt vals (.bool ro)) =>
      if tag = .str "ndarray" ∧ 0 ≤ id then
        match decDT? dt, decInts? vals with
        | some d, some l => some (id.toNat, ⟨d, l, ro⟩)
        | _, _ => none
      else none
  | _ => none

/-- `None` or an ndarray -/
def encOpt : Option (Nat × Arr) → V
  | none => .none
  | some r => encArr r

def decOpt? (v : V) : Option (Option (Nat × Arr)) :=
  if v = .none then some none else (decArr? v).map some

def proxyTok : V := .str "ArrayProxy"

def encObj : SImg → V
  | .array own => encArr own
  | .proxy _ _ => proxyTok

/-- the attributes of the image object the translated methods read and write -/
def encSelf (t : Spec) : V :=
  .dict (.cons (.tup2 (.str "_dataobj") (encObj t.img))
        (.cons (.tup2 (.str "_fdata_cache") (encOpt t.fcache))
        (.cons (.tup2 (.str "_data_cache") (encOpt t.dcache)) .nil)))

/-- the image state after a method ran: `_dataobj` must still be the data source -/
def decSelf? (t : Spec) : V → Option Spec
  | .dict es =>
      match V.dictGet? es (.str "_dataobj"), V.dictGet? es (.str "_fdata_cache"),
            V.dictGet? es (.str "_data_cache") with
      | some o, some f, some c =>
          if o = encObj t.img then
            match decOpt? f, decOpt? c with
            | some f, some c => some { t with fcache := f, dcache := c }
            | _, _ => none
          else none
      | _, _, _ => none
  | _ => none

/-! ### the trusted primitives -/

/-- `np.dtype(x)` -/
def npDtype (x : V) : M V :=
  match decDtype? x with
  | some d => pure (encDtype d)
  | none =>
      match decScalar? x with
      | some d => pure (encDtype d)
      | none =>
          match decDT? x with
          | some d => pure (encDtype d)
          | none => throw .typeError

def pGetattr (obj name : V) : M V :=
  if name = .str "type" then
    match decDtype? obj with
    | some d => pure (scalarType d)
    | none => throw .unsupported
  else if name = .str "dtype" then
    match decArr? obj with
    | some r => pure (encDtype r.2.dt)
    | none => throw .unsupported
  else throw .unsupported

def pIssubclass (t cls : V) : M V :=
  match decScalar? t with
  | none => throw .typeError
  | some d =>
      if cls = .str "np.inexact" ∨ cls = .str "np.floating" then pure (.bool (decide (d ≠ .i2)))
      else if cls = .str "np.integer" ∨ cls = .str "np.signedinteger" then pure (.bool (decide (d = .i2)))
      else if cls = .str "np.number" ∨ cls = .str "np.generic" then pure (.bool true)
      else throw .unsupported

def pIsinstance (x cls : V) : M V :=
  if cls = .str "np.ndarray" then pure (.bool (decArr? x).isSome) else throw .unsupported

/-- `np.asanyarray(obj, dtype=d)` (`d = none`: no dtype argument) in image state `t` -/
def asany (t : Spec) (obj : V) (d : Option DT) : M V :=
  match decArr? obj with
  | some r =>
      match d with
      | none => pure obj
      | some d => if r.2.dt = d then pure obj else pure (encArr (t.next, ⟨d, r.2.vals, false⟩))
  | none =>
      if obj = proxyTok then
        match t.img with
        | .proxy raw p => pure (encArr (t.next, ⟨d.getD p.outDt, p.scaled raw, p.readRO d⟩))
        | .array _ => throw .typeError
      else throw .typeError

def pAsanyarray (t : Spec) (obj dt : V) : M V :=
  if dt = .none then asany t obj none
  else
    match npDtype dt with
    | .ok x =>
        match decDtype? x with
        | some d => asany t obj (some d)
        | none => throw .typeError
    | .error e => throw e

def prims (t : Spec) : NpPrims where
  np_dtype := npDtype
  np_asanyarray := pAsanyarray t
  getattr := pGetattr
  issubclass := pIssubclass
  isinstance := pIsinstance
  call := fun _ _ => throw .unsupported

end PyEnc

open PyEnc

/-- an op as the CALLER writes it: `caching` is any string -/
inductive GOp
  | getFdata (c : String) (d : DT)   -- `img.get_fdata(caching=c, dtype=<scalar type of d>)`
  | getData (c : String)             -- `img.get_data(caching=c)`
  | uncache
  | inMemory
  | asarray                          -- `np.asanyarray(img.dataobj)`
  | other (op : Op)                  -- not a `DataobjImage` method
  deriving DecidableEq, Repr

def GOp.toOp : GOp → Op
  | .getFdata c d => .getFdata (Caching.ofStr c) d
  | .getData c => .getData (Caching.ofStr c)
  | .uncache => .uncache
  | .inMemory => .inMemory
  | .asarray => .asarray
  | .other op => op

def Caching.toStr : Caching → String
  | .fill => "fill"
  | .unchanged => "unchanged"
  | .other => "bogus"

def GOp.ofOp : Op → GOp
  | .getFdata c d => .getFdata c.toStr d
  | .getData c => .getData c.toStr
  | .uncache => .uncache
  | .inMemory => .inMemory
  | .asarray => .asarray
  | op => .other op

/-- `img.in_memory` computed by the translated property -/
def gInMem (t : Spec) : Option Bool :=
  match Gen.C13F.in_memory (prims t) (encSelf t) with
  | .ok (.tup2 (.bool b) self') => if self' = encSelf t then some b else none
  | _ => none

/-- decode what a translated method returned (`(result, self)` or a `ValueError`) -/
def gfinish (t : Spec) (r : M V) : Option (Spec × Out) :=
  match r with
  | .ok (.tup2 ret self') =>
      match decSelf? t self' with
      | none => none
      | some t1 =>
          if ret = .none then (gInMem t1).map (fun b => (t1, ⟨.unit, b⟩))
          else
            match decArr? ret with
            | some a =>
                let t2 := { t1 with next := if a.1 = t.next then t.next + 1 else t.next, last := some a.1 }
                (gInMem t2).map (fun b => (t2, ⟨.arr a.1 a.2, b⟩))
            | none => none
  | .error .valueError => (gInMem t).map (fun b => (t, ⟨.valueError, b⟩))
  | _ => none

/-- `np.asanyarray(img.dataobj)`: the translated `dataobj` property, then the primitive -/
def gAsarray (t : Spec) : M V :=
  match Gen.C13F.dataobj (prims t) (encSelf t) with
  | .ok (.tup2 obj self') =>
      match (prims t).np_asanyarray obj .none with
      | .ok a => .ok (.tup2 a self')
      | .error e => .error e
  | .ok _ => .error .typeError
  | .error e => .error e

def gstep (t : Spec) : GOp → Option (Spec × Out)
  | .getFdata c d => gfinish t (Gen.C13F.get_fdata (prims t) (encSelf t) (.str c) (scalarType d))
  | .getData c => gfinish t (Gen.C13F.get_data (prims t) (encSelf t) (.str c))
  | .uncache => gfinish t (Gen.C13F.uncache (prims t) (encSelf t))
  | .inMemory => (gInMem t).map (fun b => (t, ⟨.unit, b⟩))
  | .asarray => gfinish t (gAsarray t)
  | .other op => some (Spec.step t op)

/-- a whole history through the translated methods -/
def gtrace (t : Spec) : List GOp → Option (List Out)
  | [] => some []
  | g :: gs =>
      match gstep t g with
      | none => none
      | some x => (gtrace x.1 gs).map (x.2 :: ·)

/-- every array the image refers to was handed out before (`abs` of a well-formed `State`) -/
structure Spec.Ok (t : Spec) : Prop where
  own : ∀ r, t.img = .array r → r.1 < t.next
  fcache : ∀ r, t.fcache = some r → r.1 < t.next
  dcache : ∀ r, t.dcache = some r → r.1 < t.next

/-! ### `ArrayProxy.__init__`: what the proxy copies out of its `spec` (arrayproxy.py:175-192, 206-208)

`Generated/C13Funcs.lean: proxy_spec` is the translation of the statements of `ArrayProxy.__init__` that mention
`spec` / `par` (cut out syntactically by `py2lean_c13.slice_statements`).  Trusted primitives (`primsSpec`): a header
object answers `hasattr(·, 'get_data_shape')` with True and its four getters with its fields (`get_slope_inter()` a
pair whose members may independently be `None`); a tuple answers `hasattr` with False; `np.dtype` as above. -/

/-- what the caller gives `ArrayProxy(file_like, spec)` -/
inductive ProxySpec
  | header (slope inter : Option Int) (n : Nat) (dt : DT) (off : Int)   -- a header object
  | tuple (n : Nat) (dt : DT) (rest : List Int)      -- `((n,1,1), dtype) + rest`: offset, slope, inter
  | short (withShape : Bool) (n : Nat)               -- `()` / `((n,1,1),)`
  deriving DecidableEq, Repr

/-- the five values an `ArrayProxy` keeps (`_shape[0]`, `_dtype`, `_offset`, `_slope`, `_inter`) -/
structure PPar where
  n : Nat
  dt : DT
  off : Int
  slope : Int
  inter : Int
  deriving DecidableEq, Repr

/-- hand-written model of arrayproxy.py:175-192,206-208 -/
def ProxySpec.par : ProxySpec → Except Err PPar
  | .header s i n dt off => .ok ⟨n, dt, off, s.getD Gen.C13.proxyNoneSlope, i.getD Gen.C13.proxyNoneInter⟩
  | .tuple n dt rest =>
      if rest.length ≤ 3 then
        match rest ++ [Gen.C13.proxyTupleOffset, Gen.C13.proxyTupleSlope, Gen.C13.proxyTupleInter].drop rest.length with
        | [o, s, i] => .ok ⟨n, dt, o, s, i⟩
        | _ => .error .typeError
      else .error .typeError
  | .short _ _ => .error .typeError

namespace PyEnc
def encOptInt : Option Int → V
  | none => .none
  | some i => .int i

def encShape (n : Nat) : V := V.ofList [.int n, .int 1, .int 1]

def encSpec : ProxySpec → V
  | .header s i n dt off => .tup2 (.str "header") (V.ofList [encOptInt s, encOptInt i, .int n, encDT dt, .int off])
  | .tuple n dt rest => V.ofList ([encShape n, scalarType dt] ++ rest.map V.int)
  | .short w n => if w then V.ofList [encShape n] else .nil

def hdrField? (obj : V) (k : Nat) : Option V :=
  match obj with
  | .tup2 tag fields => if tag = .str "header" then (match V.getNat fields k with | .ok v => some v | _ => none) else none
  | _ => none

/-- the header methods `ArrayProxy.__init__` calls, and `hasattr` -/
def specCall (name args : V) : M V :=
  match args with
  | .cons obj .nil =>
      if name = .str ".get_slope_inter" then
        match hdrField? obj 0, hdrField? obj 1 with
        | some s, some i => pure (.tup2 s i)
        | _, _ => throw .typeError
      else if name = .str ".get_data_shape" then
        match hdrField? obj 2 with
        | some n => pure (V.ofList [n, .int 1, .int 1])
        | none => throw .typeError
      else if name = .str ".get_data_dtype" then
        match hdrField? obj 3 with
        | some d => (match decDT? d with | some d => pure (encDtype d) | none => throw .typeError)
        | none => throw .typeError
      else if name = .str ".get_data_offset" then
        match hdrField? obj 4 with
        | some o => pure o
        | none => throw .typeError
      else throw .unsupported
  | .cons obj (.cons attr .nil) =>
      if name = .str "hasattr" then
        pure (.bool ((hdrField? obj 0).isSome &&
          (attr = .str "get_data_shape" || attr = .str "get_slope_inter" || attr = .str "get_data_dtype"
            || attr = .str "get_data_offset")))
      else throw .unsupported
  | _ => throw .unsupported

def primsSpec : NpPrims where
  np_dtype := npDtype
  np_asanyarray := fun _ _ => throw .unsupported
  getattr := fun _ _ => throw .unsupported
  issubclass := fun _ _ => throw .unsupported
  isinstance := fun _ _ => throw .unsupported
  call := specCall

def decPPar? : V → Option PPar
  | .dict es =>
      match V.dictGet? es (.str "_shape"), V.dictGet? es (.str "_dtype"), V.dictGet? es (.str "_offset"),
            V.dictGet? es (.str "_slope"), V.dictGet? es (.str "_inter") with
      | some (.cons (.int n) (.cons (.int 1) (.cons (.int 1) .nil))), some d, some (.int o), some (.int s), some (.int i) =>
          match decDtype? d with
          | some d => if 0 ≤ n then some ⟨n.toNat, d, o, s, i⟩ else none
          | none => none
      | _, _, _, _, _ => none
  | _ => none
end PyEnc

/-- the translated spec handling run on an object without attributes -/
def gProxySpec (sp : ProxySpec) : Option (Except Err PPar) :=
  match Gen.C13F.proxy_spec primsSpec (.dict .nil) (encSpec sp) with
  | .ok (.tup2 .none self') => (decPPar? self').map .ok
  | .ok _ => none
  | .error e => some (.error e)

end Nb.C13
