import NibabelModel.Model.C17
import NibabelModel.Basic.PyVal
/-! Model/C17_Gen — how the container model of Model/C17 is represented in the value universe of the translated
    Python fragment (Basic/PyVal), for the methods translated from the working tree into Generated/C17Funcs.lean
    (core Lean only; used by the driver's `gen` op and by Lemmas/C17_GenFuncs). -/
namespace Nb.C17.GenF
open Nb.Py

/-- a `GiftiDataArray` object as the tuple of the attributes the container methods read: `(id, intent)` -/
def encDA (d : DA) : V := .tup2 (.int d.id) (.int d.intent)
def encL (l : List DA) : V := V.ofList (l.map encDA)

/-- an intent argument as a Python value: int code or str alias -/
def encArg : IntentArg → V
  | .code n => .int n
  | .name s => .str (String.ofList s)

/-- `intent_codes.code[x]` over the tables `K` (Recoder lookup; `KeyError` is `Err.indexError`, as for dicts in
    Basic/PyVal) -/
def icOf (K : Codes) : V → M V
  | .int n => if 0 ≤ n then
      match resolveIntent K (.code n.toNat) with
      | some c => pure (.int c)
      | none => throw .indexError
    else throw .indexError
  | .str s =>
    match resolveIntent K (.name s.toList) with
    | some c => pure (.int c)
    | none => throw .indexError
  | _ => throw .indexError

/-- ids of a list of encoded data arrays (for printing) -/
def idsOf? (v : V) : Option (List Int) :=
  (V.toList? v).bind (fun l => l.mapM (fun x => match x with
    | .tup2 (.int i) _ => some i
    | _ => none))

end Nb.C17.GenF
