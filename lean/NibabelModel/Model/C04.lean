/-! Model/C04 — executable model (core Lean only; imports only NibabelModel.Basic.* / other Model files). -/
namespace Nb.C04

end Nb.C04
