/-
  Model/C04 — executable model of the code that carries the voxel-to-world affine through
  save/load (core Lean only).

  Python source modelled (pinned tree):
  * nibabel/quaternions.py        fillpositive (39-102, the threshold decision), quat2mat (105-153),
                                  mat2quat (156-231: K matrix, eigenvector re-ordering, sign rule)
  * nibabel/nifti1.py             Nifti1Header.get_best_affine (903-910), get_qform (1125-1168),
                                  set_qform (1170-1270, incl. the renormalisation of the `fix:` commit),
                                  get_sform, set_sform,
                                  Nifti1Pair.__init__ (…2008-2010), Nifti1Pair._affine2header (2041-2047)
  * nibabel/nifti2.py             quaternion_threshold (145)
  * nibabel/analyze.py            AnalyzeHeader.get_base_affine (636-662), AnalyzeImage.from_file_map
                                  (…972), to_file_map (update_header call)
  * nibabel/spatialimages.py      SpatialImage.__init__ / update_header (531-558), _affine2header (560-569)
  * nibabel/spm99analyze.py       get_origin_affine (98-151), Spm99AnalyzeImage.from_file_map (237-300),
                                  to_file_map (302-333): `.mat` with 1-based shift and x flip
  * nibabel/freesurfer/mghformat.py   MGHHeader.get_affine (177-187), MGHImage._affine2header (580-593)
  * nibabel/volumeutils.py        shape_zoom_affine (1302-1365)
  * nibabel/affines.py            from_matvec (dtype of the matrix), voxel_sizes

  Conventions
  * The algebra is written over an arbitrary commutative ring `α` (`Lean.Grind.CommRing`) or, where the
    code divides, field (`Lean.Grind.Field`) — core classes; `Rat` is an instance — with the coordinates spelled out, so that the theorems hold for every field and the
    driver runs the same definitions at `Rat`.
  * An affine is its top three rows (`Aff`): the bottom row is always `0 0 0 1`.
  * NumPy's numeric routines are PARAMETERS (structure `Ext`), each with its contract in a comment:
    storage rounding, `sqrt`, the polar factor obtained from `svd`, the top eigenvector from `eigh`,
    and `np.allclose`.  Decisions (which branch, which sign, which code) are modelled in full.
-/
namespace Nb.C04
open Lean.Grind

structure V3 (α : Type) where
  x : α
  y : α
  z : α
  deriving DecidableEq, Repr, Inhabited

structure M33 (α : Type) where
  a00 : α
  a01 : α
  a02 : α
  a10 : α
  a11 : α
  a12 : α
  a20 : α
  a21 : α
  a22 : α
  deriving DecidableEq, Repr, Inhabited

/-- top three rows of a 4x4 affine: linear part `m`, translation column `t` -/
structure Aff (α : Type) where
  m : M33 α
  t : V3 α
  deriving DecidableEq, Repr, Inhabited

/-- quaternion in nibabel's order w, x, y, z -/
structure Quat (α : Type) where
  w : α
  x : α
  y : α
  z : α
  deriving DecidableEq, Repr, Inhabited

/-- lower triangle of the symmetric 4x4 matrix `K` of `mat2quat` (index order x, y, z, w as in the
    source: "Fill only lower half of symmetric matrix") -/
structure K4 (α : Type) where
  k00 : α
  k10 : α
  k11 : α
  k20 : α
  k21 : α
  k22 : α
  k30 : α
  k31 : α
  k32 : α
  k33 : α
  deriving DecidableEq, Repr, Inhabited

/-- a 4-vector in K's index order (x, y, z, w) -/
structure V4 (α : Type) where
  v0 : α
  v1 : α
  v2 : α
  v3 : α
  deriving DecidableEq, Repr, Inhabited

section algebra
variable {α : Type}

def V3.map {β : Type} (f : α → β) (v : V3 α) : V3 β := ⟨f v.x, f v.y, f v.z⟩
def M33.map {β : Type} (f : α → β) (m : M33 α) : M33 β :=
  ⟨f m.a00, f m.a01, f m.a02, f m.a10, f m.a11, f m.a12, f m.a20, f m.a21, f m.a22⟩
def Aff.map {β : Type} (f : α → β) (a : Aff α) : Aff β := ⟨a.m.map f, a.t.map f⟩

def M33.transpose (m : M33 α) : M33 α :=
  ⟨m.a00, m.a10, m.a20, m.a01, m.a11, m.a21, m.a02, m.a12, m.a22⟩

variable [CommRing α]

def V3.add (a b : V3 α) : V3 α := ⟨a.x + b.x, a.y + b.y, a.z + b.z⟩
def V3.sub (a b : V3 α) : V3 α := ⟨a.x - b.x, a.y - b.y, a.z - b.z⟩
def V3.neg (a : V3 α) : V3 α := ⟨-a.x, -a.y, -a.z⟩
def V3.smul (c : α) (a : V3 α) : V3 α := ⟨c * a.x, c * a.y, c * a.z⟩
/-- elementwise product (NumPy `a * b` on 1-D arrays) -/
def V3.hmul (a b : V3 α) : V3 α := ⟨a.x * b.x, a.y * b.y, a.z * b.z⟩

def M33.one : M33 α := ⟨1, 0, 0, 0, 1, 0, 0, 0, 1⟩
def M33.diag (d : V3 α) : M33 α := ⟨d.x, 0, 0, 0, d.y, 0, 0, 0, d.z⟩

def M33.mul (a b : M33 α) : M33 α :=
  ⟨a.a00 * b.a00 + a.a01 * b.a10 + a.a02 * b.a20,
   a.a00 * b.a01 + a.a01 * b.a11 + a.a02 * b.a21,
   a.a00 * b.a02 + a.a01 * b.a12 + a.a02 * b.a22,
   a.a10 * b.a00 + a.a11 * b.a10 + a.a12 * b.a20,
   a.a10 * b.a01 + a.a11 * b.a11 + a.a12 * b.a21,
   a.a10 * b.a02 + a.a11 * b.a12 + a.a12 * b.a22,
   a.a20 * b.a00 + a.a21 * b.a10 + a.a22 * b.a20,
   a.a20 * b.a01 + a.a21 * b.a11 + a.a22 * b.a21,
   a.a20 * b.a02 + a.a21 * b.a12 + a.a22 * b.a22⟩

def M33.mulVec (a : M33 α) (v : V3 α) : V3 α :=
  ⟨a.a00 * v.x + a.a01 * v.y + a.a02 * v.z,
   a.a10 * v.x + a.a11 * v.y + a.a12 * v.z,
   a.a20 * v.x + a.a21 * v.y + a.a22 * v.z⟩

def M33.det (m : M33 α) : α :=
  m.a00 * (m.a11 * m.a22 - m.a12 * m.a21) - m.a01 * (m.a10 * m.a22 - m.a12 * m.a20)
    + m.a02 * (m.a10 * m.a21 - m.a11 * m.a20)

/-- `M * d` with `d` broadcast along the last axis: column `j` scaled by `d_j` (= `M · diag d`) -/
def M33.scaleCols (m : M33 α) (d : V3 α) : M33 α :=
  ⟨m.a00 * d.x, m.a01 * d.y, m.a02 * d.z,
   m.a10 * d.x, m.a11 * d.y, m.a12 * d.z,
   m.a20 * d.x, m.a21 * d.y, m.a22 * d.z⟩

/-- `np.sum(RZS * RZS, axis=0)`: squared column norms -/
def M33.colNorm2 (m : M33 α) : V3 α :=
  ⟨m.a00 * m.a00 + m.a10 * m.a10 + m.a20 * m.a20,
   m.a01 * m.a01 + m.a11 * m.a11 + m.a21 * m.a21,
   m.a02 * m.a02 + m.a12 * m.a12 + m.a22 * m.a22⟩

/-- `R[:, -1] *= -1` -/
def M33.negLastCol (m : M33 α) : M33 α :=
  ⟨m.a00, m.a01, -m.a02, m.a10, m.a11, -m.a12, m.a20, m.a21, -m.a22⟩

/-- apply an affine to a point -/
def Aff.apply (a : Aff α) (v : V3 α) : V3 α := (a.m.mulVec v).add a.t

/-- `np.dot(A, T)` where `T` is the identity with translation column `v` (`to_111`, `from_111`) -/
def Aff.mulShift (a : Aff α) (v : V3 α) : Aff α := ⟨a.m, (a.m.mulVec v).add a.t⟩

/-- `np.dot(np.diag([-1, 1, 1, 1]), A)`: first row negated -/
def Aff.flipX (a : Aff α) : Aff α :=
  ⟨⟨-a.m.a00, -a.m.a01, -a.m.a02, a.m.a10, a.m.a11, a.m.a12, a.m.a20, a.m.a21, a.m.a22⟩,
   ⟨-a.t.x, a.t.y, a.t.z⟩⟩

/-! ### quaternions.py -/

def Quat.norm2 (q : Quat α) : α := q.w * q.w + q.x * q.x + q.y * q.y + q.z * q.z
def Quat.neg (q : Quat α) : Quat α := ⟨-q.w, -q.x, -q.y, -q.z⟩

/-- symmetric matrix (given by its lower half) times vector — what `eigh` works with -/
def K4.mulVec (k : K4 α) (v : V4 α) : V4 α :=
  ⟨k.k00 * v.v0 + k.k10 * v.v1 + k.k20 * v.v2 + k.k30 * v.v3,
   k.k10 * v.v0 + k.k11 * v.v1 + k.k21 * v.v2 + k.k31 * v.v3,
   k.k20 * v.v0 + k.k21 * v.v1 + k.k22 * v.v2 + k.k32 * v.v3,
   k.k30 * v.v0 + k.k31 * v.v1 + k.k32 * v.v2 + k.k33 * v.v3⟩

/-- `vecs[[3, 0, 1, 2], argmax]`: re-order an eigenvector (x, y, z, w) to a quaternion (w, x, y, z) -/
def V4.toQuat (v : V4 α) : Quat α := ⟨v.v3, v.v0, v.v1, v.v2⟩
def Quat.toV4 (q : Quat α) : V4 α := ⟨q.x, q.y, q.z, q.w⟩

/-! ### SPM `.mat` -/

/-- translation column of `from_111` (spm99analyze.py:327-328) -/
def from111 : V3 α := ⟨-1, -1, -1⟩
/-- translation column of `to_111` (spm99analyze.py:297-298) -/
def to111 : V3 α := ⟨1, 1, 1⟩

/-- what `Spm99AnalyzeImage.to_file_map` puts in the `.mat` file: `(M, mat)` (318-333).  `xFlip` is
    `default_x_flip` of the image's header at the time of saving. -/
def spmWriteMat (xFlip : Bool) (a : Aff α) : Aff α × Aff α :=
  let M := if xFlip then a.flipX else a
  (M.mulShift from111, a.mulShift from111)

/-- which variables the `.mat` file holds when read -/
inductive MatMode where
  | both     -- 'mat' and 'M' (what nibabel writes): 'mat' wins
  | mOnly    -- only 'M' (files written by SPM itself): flip applied by the reader
  | none     -- no / empty `.mat` file: header affine is kept
  | matOnly  -- only 'mat'
  | mat3d    -- 'mat' is a 4x4xN stack (and 'M' present): `mat[:, :, 0]` is used (284-287); the stack's
             -- first slice is the matrix the writer stored
  deriving DecidableEq, Repr, Inhabited

/-- `Spm99AnalyzeImage.from_file_map` (282-300): the affine taken from the `.mat` contents.  `xFlip` is
    `default_x_flip` of the header the LOADING class made. -/
def spmReadMat (xFlip : Bool) (mode : MatMode) (stored : Aff α × Aff α) (hdrAffine : Aff α) : Aff α :=
  match mode with
  | .both => stored.2.mulShift to111
  | .matOnly => stored.2.mulShift to111
  | .mat3d => stored.2.mulShift to111
  | .mOnly => (if xFlip then stored.1.flipX else stored.1).mulShift to111
  | .none => hdrAffine

end algebra

section fieldAlgebra
variable {α : Type} [Field α]

/-- `M / d` broadcast along the last axis: column `j` divided by `d_j` -/
def M33.divCols (m : M33 α) (d : V3 α) : M33 α :=
  ⟨m.a00 / d.x, m.a01 / d.y, m.a02 / d.z,
   m.a10 / d.x, m.a11 / d.y, m.a12 / d.z,
   m.a20 / d.x, m.a21 / d.y, m.a22 / d.z⟩

/-- `quat2mat` (quaternions.py:140-153) for `Nq ≥ FLOAT_EPS`; the guard is in `quat2matG` -/
def quat2mat (q : Quat α) : M33 α :=
  let s := 2 / q.norm2
  let X := q.x * s
  let Y := q.y * s
  let Z := q.z * s
  let wX := q.w * X
  let wY := q.w * Y
  let wZ := q.w * Z
  let xX := q.x * X
  let xY := q.x * Y
  let xZ := q.x * Z
  let yY := q.y * Y
  let yZ := q.y * Z
  let zZ := q.z * Z
  ⟨1 - (yY + zZ), xY - wZ, xZ + wY,
   xY + wZ, 1 - (xX + zZ), yZ - wX,
   xZ - wY, yZ + wX, 1 - (xX + yY)⟩

/-- the matrix `K` of `mat2quat` (quaternions.py:204-216), lower half, `/ 3.0` included.
    `Qyx` is `M[0,1]` etc. (`Qxx, Qyx, Qzx, Qxy, Qyy, Qzy, Qxz, Qyz, Qzz = M.flat`). -/
def kMatrix (m : M33 α) : K4 α :=
  let Qxx := m.a00
  let Qyx := m.a01
  let Qzx := m.a02
  let Qxy := m.a10
  let Qyy := m.a11
  let Qzy := m.a12
  let Qxz := m.a20
  let Qyz := m.a21
  let Qzz := m.a22
  ⟨(Qxx - Qyy - Qzz) / 3,
   (Qyx + Qxy) / 3, (Qyy - Qxx - Qzz) / 3,
   (Qzx + Qxz) / 3, (Qzy + Qyz) / 3, (Qzz - Qxx - Qyy) / 3,
   (Qyz - Qzy) / 3, (Qzx - Qxz) / 3, (Qxy - Qyx) / 3, (Qxx + Qyy + Qzz) / 3⟩

/-- `shape_zoom_affine` (volumeutils.py:1346-1365) on the already padded/truncated 3-vectors:
    `origin = (shape - 1) / 2`, `aff = diag(zooms)`, translation `-origin * zooms`, x zoom negated
    when `x_flip`. -/
def shapeZoomAffine3 (shape zooms : V3 α) (xFlip : Bool) : Aff α :=
  let zooms : V3 α := if xFlip then ⟨zooms.x * (-1), zooms.y, zooms.z⟩ else zooms
  let origin : V3 α := ⟨(shape.x - 1) / 2, (shape.y - 1) / 2, (shape.z - 1) / 2⟩
  ⟨M33.diag zooms, (origin.neg).hmul zooms⟩

/-- the three affine-carrying fields of an MGH header (all stored as big-endian float32) -/
structure MghFields (α : Type) where
  delta : V3 α
  /-- `hdr['Mdc']` as stored, i.e. the TRANSPOSE of the direction-cosine matrix -/
  mdc : M33 α
  pxyzC : V3 α
  deriving DecidableEq, Repr, Inhabited

/-- `MGHImage._affine2header` (580-593) with the voxel sizes (`voxel_sizes(affine)`, a `sqrt`) given:
    `Mdc = affine[:3,:3] / voxelsize`, `c_ras = affine · (shape/2, 1)`, `hdr['Mdc'] = Mdc.T`.
    `rnd` is the rounding on assignment into the float32 fields. -/
def mghAffine2Header (rnd : α → α) (a : Aff α) (shape : V3 α) (voxelsize : V3 α) : MghFields α :=
  let Mdc := a.m.divCols voxelsize
  let cRas := a.apply ⟨shape.x / 2, shape.y / 2, shape.z / 2⟩
  ⟨voxelsize.map rnd, Mdc.transpose.map rnd, cRas.map rnd⟩

/-- `MGHHeader.get_affine` (177-187): `MdcD = Mdc.T * delta` (float32 product: `rnd`),
    `vol_center = MdcD · dims[:3] / 2`, `from_matvec(MdcD, Pxyz_c - vol_center)` (translation cast
    to the matrix dtype: `rnd`). -/
def mghGetAffine (rnd : α → α) (h : MghFields α) (dims : V3 α) : Aff α :=
  let MdcD := (h.mdc.transpose.scaleCols h.delta).map rnd
  let vc := MdcD.mulVec dims
  let volCenter : V3 α := ⟨vc.x / 2, vc.y / 2, vc.z / 2⟩
  ⟨MdcD, (h.pxyzC.sub volCenter).map rnd⟩

end fieldAlgebra

/-! ## Decisions and flows (over `Rat`: they need the order) -/

/-- NumPy routines that are not modelled; each enters as a function with the stated contract. -/
structure Ext where
  /-- rounding on assignment into a header field (float32 for NIfTI-1, Analyze, MGH; identity for
      NIfTI-2).  Contract: idempotent, `rnd 0 = 0`, `rnd 1 = 1`, `rnd (-x) = -rnd x`. -/
  rnd : Rat → Rat
  /-- `np.sqrt`.  Contract: `0 ≤ x → sqrt (x * x) = x`. -/
  sqrt : Rat → Rat
  /-- `P @ Qs` for `P, S, Qs = svd(R)`: orthogonal polar factor.  Contract: `R·Rᵀ = 1 → polar R = R`. -/
  polar : M33 Rat → M33 Rat
  /-- `vecs[:, argmax(vals)]` of `eigh(K)`, in K's order (x, y, z, w).  Contract: a unit vector `v`
      with `K v = λmax v`. -/
  topEig : K4 Rat → V4 Rat
  /-- `np.allclose(a, b)` on the two affines (a = image affine, b = header affine) -/
  allclose : Aff Rat → Aff Rat → Bool

inductive Err where
  | header     -- HeaderDataError
  | value      -- ValueError
  deriving DecidableEq, Repr, Inhabited

deriving instance DecidableEq for Except

def absR (x : Rat) : Rat := if x < 0 then -x else x

/-- `fillpositive(xyz, w2_thresh)` (quaternions.py:88-102): the decision on `w2 = 1 - xyz·xyz` -/
def fillpositive (sqrt : Rat → Rat) (thr : Rat) (bcd : V3 Rat) : Except Err (Quat Rat) :=
  let w2 := 1 - (bcd.x * bcd.x + bcd.y * bcd.y + bcd.z * bcd.z)
  if absR w2 < absR thr then .ok ⟨0, bcd.x, bcd.y, bcd.z⟩
  else if w2 < 0 then .error .value
  else .ok ⟨sqrt w2, bcd.x, bcd.y, bcd.z⟩

/-- `quat2mat` with its guard `if Nq < FLOAT_EPS: return np.eye(3)` (quaternions.py:141-143) -/
def quat2matG (floatEps : Rat) (q : Quat Rat) : M33 Rat :=
  if q.norm2 < floatEps then M33.one else quat2mat q

/-- `mat2quat` (quaternions.py:200-231) given the eigenvector routine -/
def mat2quat (topEig : K4 Rat → V4 Rat) (m : M33 Rat) : Quat Rat :=
  let q := (topEig (kMatrix m)).toQuat
  if q.w < 0 then q.neg else q

/-- the affine-carrying fields of a NIfTI-1/2 header (values as stored, i.e. already rounded) -/
structure NHdr where
  /-- `dim[1 : ndim+1]` -/
  shape : List Nat
  sformCode : Nat
  srow : Aff Rat
  qformCode : Nat
  /-- `pixdim[0]` -/
  qfac : Rat
  /-- `pixdim[1:4]` -/
  pixdim : V3 Rat
  /-- `quatern_b, quatern_c, quatern_d` -/
  quat : V3 Rat
  /-- `qoffset_x, qoffset_y, qoffset_z` -/
  qoff : V3 Rat
  deriving DecidableEq, Repr, Inhabited

/-- format constants of a NIfTI flavour -/
structure NFmt where
  /-- `quaternion_threshold` (nifti1.py:845, nifti2.py:145) -/
  quatThr : Rat
  /-- `quaternions.FLOAT_EPS` -/
  floatEps : Rat
  /-- `xform_codes.value_set()` (nifti1.py:144-154): the codes `_chk_xform_code` accepts -/
  validCodes : List Nat

def natsToV3 (l : List Nat) (dflt : Rat) : V3 Rat :=
  ⟨(l[0]?.map (fun n : Nat => (n : Rat))).getD dflt, (l[1]?.map (fun n : Nat => (n : Rat))).getD dflt,
   (l[2]?.map (fun n : Nat => (n : Rat))).getD dflt⟩

/-- `shape_zoom_affine(shape, zooms, x_flip)` (volumeutils.py:1346-1365) called with
    `dim[1:ndim+1]` and `pixdim[1:ndim+1]`: the first three axes, missing ones filled with 1. -/
def shapeZoomAffine (shape : List Nat) (pixdim : V3 Rat) (xFlip : Bool) : Aff Rat :=
  let nd := shape.length
  let zooms : V3 Rat := ⟨if 0 < nd then pixdim.x else 1, if 1 < nd then pixdim.y else 1,
                         if 2 < nd then pixdim.z else 1⟩
  shapeZoomAffine3 (natsToV3 shape 1) zooms xFlip

/-- `AnalyzeHeader.get_base_affine` (analyze.py:636-660); `default_x_flip = True` -/
def NHdr.baseAffine (h : NHdr) : Aff Rat := shapeZoomAffine h.shape h.pixdim true

/-- `get_sform()` (nifti1.py:1288-1297) without `coded` -/
def NHdr.getSform (h : NHdr) : Aff Rat := h.srow

/-- `set_sform(affine, code)` with an explicit code (nifti1.py:1344-1360) -/
def NHdr.setSform (E : Ext) (h : NHdr) (a : Option (Aff Rat)) (code : Nat) : NHdr :=
  match a with
  | none => { h with sformCode := code }
  | some a => { h with sformCode := code, srow := a.map E.rnd }

/-- `get_qform()` (nifti1.py:1147-1168) without `coded` -/
def NHdr.getQform (E : Ext) (f : NFmt) (h : NHdr) : Except Err (Aff Rat) :=
  match fillpositive E.sqrt f.quatThr h.quat with
  | .error e => .error e
  | .ok quat =>
    let R := quat2matG f.floatEps quat
    if h.pixdim.x < 0 ∨ h.pixdim.y < 0 ∨ h.pixdim.z < 0 then .error .header
    else if h.qfac ≠ 1 ∧ h.qfac ≠ -1 then .error .header
    else
      let vox : V3 Rat := ⟨h.pixdim.x, h.pixdim.y, h.pixdim.z * h.qfac⟩
      .ok ⟨R.scaleCols vox, h.qoff⟩

/-- `quat / np.sqrt(quat @ quat)` (nifti1.py:1264-1265, added by the `fix:` commit "set_qform renormalizes
    the quaternion") -/
def Quat.normalize (sqrt : Rat → Rat) (q : Quat Rat) : Quat Rat :=
  let n := sqrt q.norm2
  ⟨q.w / n, q.x / n, q.y / n, q.z / n⟩

/-- the numeric core of `set_qform` (nifti1.py:1239-1270): zooms, qfac by the sign of the
    determinant, flip of the last column, polar factor, quaternion, renormalisation.  Returns
    `(qfac, zooms, (b, c, d))` before rounding into the header. -/
def qformParams (E : Ext) (m : M33 Rat) : Rat × V3 Rat × V3 Rat :=
  let zooms := m.colNorm2.map E.sqrt
  let R := m.divCols zooms
  let (qfac, R) := if R.det > 0 then ((1 : Rat), R) else ((-1 : Rat), R.negLastCol)
  let PR := E.polar R
  let quat := (mat2quat E.topEig PR).normalize E.sqrt
  (qfac, zooms, ⟨quat.x, quat.y, quat.z⟩)

/-- ORIGINAL (pinned) logic of `set_qform`: the eigenvector from `eigh` went into the header as it
    came; a norm a few ulps above 1 made `fillpositive` refuse the header on reading (NIfTI-2
    threshold `3·eps64`) — see `qform_orig_counterexample`. -/
def qformParamsOrig (E : Ext) (m : M33 Rat) : Rat × V3 Rat × V3 Rat :=
  let zooms := m.colNorm2.map E.sqrt
  let R := m.divCols zooms
  let (qfac, R) := if R.det > 0 then ((1 : Rat), R) else ((-1 : Rat), R.negLastCol)
  let PR := E.polar R
  let quat := mat2quat E.topEig PR
  (qfac, zooms, ⟨quat.x, quat.y, quat.z⟩)

/-- the header fields `set_qform` writes from the numeric core -/
def NHdr.putQform (E : Ext) (h : NHdr) (code : Nat) (t : V3 Rat) (p : Rat × V3 Rat × V3 Rat) : NHdr :=
  { h with qformCode := code, qoff := t.map E.rnd, qfac := E.rnd p.1,
           pixdim := p.2.1.map E.rnd, quat := p.2.2.map E.rnd }

/-- `set_qform(affine, code)` with an explicit code (nifti1.py:1226-1270) -/
def NHdr.setQform (E : Ext) (h : NHdr) (a : Option (Aff Rat)) (code : Nat) : NHdr :=
  match a with
  | none => { h with qformCode := code }
  | some a => h.putQform E code a.t (qformParams E a.m)

/-- `set_qform` of the pinned tree (no renormalisation) -/
def NHdr.setQformOrig (E : Ext) (h : NHdr) (a : Aff Rat) (code : Nat) : NHdr :=
  h.putQform E code a.t (qformParamsOrig E a.m)

/-- `Nifti1Header.get_best_affine` (nifti1.py:903-910) -/
def NHdr.bestAffine (E : Ext) (f : NFmt) (h : NHdr) : Except Err (Aff Rat) :=
  if h.sformCode ≠ 0 then .ok h.getSform
  else if h.qformCode ≠ 0 then h.getQform E f
  else .ok h.baseAffine

/-- `Nifti1Pair._affine2header` (nifti1.py:2041-2047): sform 'aligned' (2), qform 'unknown' (0) -/
def NHdr.affine2header (E : Ext) (h : NHdr) (a : Aff Rat) : NHdr :=
  (h.setSform E (some a) 2).setQform E (some a) 0

/-- `SpatialImage.update_header` (spatialimages.py:531-558) for a NIfTI header; the shape is
    already the data shape in every flow below -/
def NHdr.updateHeader (E : Ext) (f : NFmt) (h : NHdr) (a : Aff Rat) : Except Err NHdr :=
  match h.bestAffine E f with
  | .error e => .error e
  | .ok best => if E.allclose a best then .ok h else .ok (h.affine2header E a)

/-- `Nifti1Header._chk_sform_code` / `_chk_qform_code` with `fix=True` (nifti1.py:1934-1955), as run
    by `check_fix` in `from_header` (image construction with a supplied header) and in `from_fileobj`
    (every load): a code that is not in the xform table is reset to 0 (problem level 30 < error level
    40: logged, fixed, not raised).  The other checks of the battery do not touch fields that
    `set_sform` / `set_qform` can produce. -/
def NHdr.checkFix (f : NFmt) (h : NHdr) : NHdr :=
  { h with sformCode := if f.validCodes.contains h.sformCode then h.sformCode else 0,
           qformCode := if f.validCodes.contains h.qformCode then h.qformCode else 0 }

def defaultNHdr (shape : List Nat) : NHdr :=
  { shape := shape, sformCode := 0, srow := ⟨⟨0, 0, 0, 0, 0, 0, 0, 0, 0⟩, ⟨0, 0, 0⟩⟩, qformCode := 0,
    qfac := 1, pixdim := ⟨1, 1, 1⟩, quat := ⟨0, 0, 0⟩, qoff := ⟨0, 0, 0⟩ }

/-- what the loaded image shows: `.affine`, `get_sform(coded=True)`, `get_qform(coded=True)` -/
structure NOut where
  affine : Aff Rat
  sform : Option (Aff Rat) × Nat
  qform : Option (Aff Rat) × Nat
  deriving DecidableEq, Repr

/-- `get_sform(coded=True)` / `get_qform(coded=True)` -/
def NHdr.sformCoded (h : NHdr) : Option (Aff Rat) × Nat :=
  if h.sformCode = 0 then (none, 0) else (some h.getSform, h.sformCode)

def NHdr.qformCoded (E : Ext) (f : NFmt) (h : NHdr) : Except Err (Option (Aff Rat) × Nat) :=
  if h.qformCode = 0 then .ok (none, 0)
  else match h.getQform E f with
    | .error e => .error e
    | .ok a => .ok (some a, h.qformCode)

/-- the header an image carries when it is written: `Klass(data, affine, header)` then
    `to_file_map` (`from_header` → `check_fix`; `SpatialImage.__init__` → `update_header`; `Nifti1Pair.__init__` forces
    `_affine2header` when no header was given; `to_file_map` → `update_header`). -/
def niftiSavedHeader (E : Ext) (f : NFmt) (shape : List Nat) (a : Aff Rat) (hdr : Option NHdr) :
    Except Err NHdr := do
  let h0 := match hdr with
    | none => defaultNHdr shape
    | some h => ({ h with shape := shape } : NHdr).checkFix f
  let h1 ← h0.updateHeader E f a
  let h2 := if hdr.isNone then h1.affine2header E a else h1
  h2.updateHeader E f a

/-- `load(save(img))`: the header fields are already stored-precision values, the byte level is
    the identity (property C10), the loader runs the header checks (`from_fileobj(check=True)`) and
    takes `header.get_best_affine()` (analyze.py:972). -/
def niftiRoundtrip (E : Ext) (f : NFmt) (shape : List Nat) (a : Aff Rat) (hdr : Option NHdr) :
    Except Err NOut := do
  let h ← niftiSavedHeader E f shape a hdr
  let h := h.checkFix f
  let aff ← h.bestAffine E f
  let q ← h.qformCoded E f
  pure ⟨aff, h.sformCoded, q⟩

/-! ### Analyze / SPM -/

/-- affine-carrying fields of an Analyze / SPM header -/
structure AHdr where
  shape : List Nat
  /-- `pixdim[1:4]` -/
  pixdim : V3 Rat
  /-- SPM `origin[:3]` (int16); ignored by plain Analyze -/
  origin : V3 Int
  deriving DecidableEq, Repr, Inhabited

inductive AKind where
  | analyze | spm
  deriving DecidableEq, Repr, Inhabited

def intV3 (v : V3 Int) : V3 Rat := ⟨(v.x : Rat), (v.y : Rat), (v.z : Rat)⟩

/-- `Spm99AnalyzeHeader.get_origin_affine` (spm99analyze.py:133-151).  `dims = dim[1:4]`
    (entries past `ndim` are 1). -/
def AHdr.originAffine (xFlip : Bool) (h : AHdr) : Aff Rat :=
  let zooms : V3 Rat := if xFlip then ⟨h.pixdim.x * (-1), h.pixdim.y, h.pixdim.z⟩ else h.pixdim
  let dimsN := natsToV3 h.shape 1
  let o := h.origin
  let dI : V3 Int := ⟨(h.shape[0]?.getD 1 : Nat), (h.shape[1]?.getD 1 : Nat), (h.shape[2]?.getD 1 : Nat)⟩
  let anyO := o.x ≠ 0 ∨ o.y ≠ 0 ∨ o.z ≠ 0
  let gtNeg := o.x > -dI.x ∧ o.y > -dI.y ∧ o.z > -dI.z
  let lt2 := o.x < dI.x * 2 ∧ o.y < dI.y * 2 ∧ o.z < dI.z * 2
  let origin : V3 Rat :=
    if anyO ∧ gtNeg ∧ lt2 then intV3 ⟨o.x - 1, o.y - 1, o.z - 1⟩
    else ⟨(dimsN.x - 1) / 2, (dimsN.y - 1) / 2, (dimsN.z - 1) / 2⟩
  ⟨M33.diag zooms, (origin.neg).hmul zooms⟩

/-- `header.default_x_flip` at the three moments it is consulted: when the image is constructed
    (`SpatialImage.__init__` → `update_header`), when it is saved (`to_file_map` → `update_header`, and the
    `.mat` writer), and on the header made by the loading class (`from_file_map`).  It is a class attribute
    (`analyze.py:190`, True) that a header subclass or an instance may override. -/
structure Flips where
  init : Bool
  save : Bool
  load : Bool
  deriving DecidableEq, Repr, Inhabited

def Flips.dflt : Flips := ⟨true, true, true⟩

/-- `get_best_affine` of an Analyze (`get_base_affine`, analyze.py:636-660) / SPM (`get_origin_affine`) header
    whose `default_x_flip` is `xFlip` -/
def AHdr.bestAffine (k : AKind) (xFlip : Bool) (h : AHdr) : Aff Rat :=
  match k with
  | .analyze => shapeZoomAffine h.shape h.pixdim xFlip
  | .spm => h.originAffine xFlip

/-- `SpatialImage._affine2header` (spatialimages.py:560-569): the first `min(ndim, 3)` zooms become
    the column norms of the affine -/
def AHdr.affine2header (E : Ext) (h : AHdr) (a : Aff Rat) : AHdr :=
  let vox := (a.m.colNorm2.map E.sqrt).map E.rnd
  let nd := h.shape.length
  { h with pixdim := ⟨if 0 < nd then vox.x else h.pixdim.x, if 1 < nd then vox.y else h.pixdim.y,
                      if 2 < nd then vox.z else h.pixdim.z⟩ }

def AHdr.updateHeader (E : Ext) (k : AKind) (xFlip : Bool) (h : AHdr) (a : Aff Rat) : AHdr :=
  if E.allclose a (h.bestAffine k xFlip) then h else h.affine2header E a

def defaultAHdr (shape : List Nat) : AHdr := ⟨shape, ⟨1, 1, 1⟩, ⟨0, 0, 0⟩⟩

/-- loaded affine and loaded `pixdim[1:4]` -/
structure AOut where
  affine : Aff Rat
  pixdim : V3 Rat
  deriving DecidableEq, Repr

/-- `load(save(Klass(data, affine, header)))` for AnalyzeImage / Spm99AnalyzeImage / Spm2AnalyzeImage, from the
    header `h0` the constructor starts with (its shape already the data shape).
    `mode` says what the `.mat` file holds at load time (ignored by plain Analyze). -/
def analyzeRoundtripFrom (E : Ext) (k : AKind) (fl : Flips) (a : Aff Rat) (h0 : AHdr) (mode : MatMode) : AOut :=
  let h1 := h0.updateHeader E k fl.init a
  let h2 := h1.updateHeader E k fl.save a
  let hdrAff := h2.bestAffine k fl.load
  match k with
  | .analyze => ⟨hdrAff, h2.pixdim⟩
  | .spm => ⟨spmReadMat fl.load mode (spmWriteMat fl.save a) hdrAff, h2.pixdim⟩

def analyzeRoundtrip (E : Ext) (k : AKind) (fl : Flips) (shape : List Nat) (a : Aff Rat) (hdr : Option AHdr)
    (mode : MatMode) : AOut :=
  analyzeRoundtripFrom E k fl a (match hdr with
    | none => defaultAHdr shape
    | some h => { h with shape := shape }) mode

/-! ### a header of ANOTHER class handed to the constructor

  `Klass(data, affine, header)` → `header_class.from_header(header)` (analyze.py:351-408): a header whose type is
  not exactly the image's header class is converted: every field of the source that the target also has is
  assigned by name (`obj[key] = mapping[key]`: the value is cast to the target field's type), the others are
  dropped; then dtype, shape and `set_zooms(header.get_zooms())`.  A header without `as_analyze_map` (MGH) only
  gives dtype, shape and zooms; `MGHHeader.from_header` (mghformat.py:144-155) ignores a foreign header. -/

/-- `set_data_shape` on the fresh target header (analyze.py `set_data_shape`: `pixdim[ndims + 1:] = 1.0`): zooms of
    axes the data does not have are reset to 1 -/
def clipZooms (nd : Nat) (z : V3 Rat) : V3 Rat :=
  ⟨if 0 < nd then z.x else 1, if 1 < nd then z.y else 1, if 2 < nd then z.z else 1⟩

/-- NIfTI-1 / pair / NIfTI-2 header into another NIfTI flavour: all the affine fields exist on both sides;
    `rnd` is the cast into the target's field type (float32 for NIfTI-1, none for NIfTI-2) -/
def NHdr.convertN (rnd : Rat → Rat) (h : NHdr) : NHdr :=
  { h with srow := h.srow.map rnd, qfac := rnd h.qfac, pixdim := clipZooms h.shape.length (h.pixdim.map rnd),
           quat := h.quat.map rnd, qoff := h.qoff.map rnd }

/-- Analyze / SPM / MGH header into a NIfTI flavour: only `pixdim` arrives (no sform/qform fields in the source) -/
def NHdr.ofZooms (rnd : Rat → Rat) (shape : List Nat) (z : V3 Rat) : NHdr :=
  { defaultNHdr shape with pixdim := clipZooms shape.length (z.map rnd) }

/-- any header into Analyze / SPM: `pixdim`, and `origin` only from SPM to SPM -/
def AHdr.ofZooms (rnd : Rat → Rat) (shape : List Nat) (z : V3 Rat) (origin : V3 Int) : AHdr :=
  ⟨shape, clipZooms shape.length (z.map rnd), origin⟩

/-! ### MGH -/

structure MHdr where
  /-- `dims[:3]` -/
  dims : V3 Rat
  f : MghFields Rat
  deriving DecidableEq, Repr, Inhabited

/-- default MGH header (mghformat.py `default_structarr`): delta 1, Mdc rows (-1,0,0),(0,0,1),(0,-1,0),
    Pxyz_c 0 -/
def defaultMHdr (dims : V3 Rat) : MHdr :=
  ⟨dims, ⟨⟨1, 1, 1⟩, ⟨-1, 0, 0, 0, 0, 1, 0, -1, 0⟩, ⟨0, 0, 0⟩⟩⟩

def MHdr.getAffine (E : Ext) (h : MHdr) : Aff Rat := mghGetAffine E.rnd h.f h.dims

def MHdr.updateHeader (E : Ext) (h : MHdr) (a : Aff Rat) : MHdr :=
  if E.allclose a (h.getAffine E) then h
  else { h with f := mghAffine2Header E.rnd a h.dims (a.m.colNorm2.map E.sqrt) }

/-- `load(save(MGHImage(data, affine, header)))`: affine and the stored fields -/
def mghRoundtrip (E : Ext) (dims : V3 Rat) (a : Aff Rat) (hdr : Option MHdr) : Aff Rat × MghFields Rat :=
  let h0 := match hdr with
    | none => defaultMHdr dims
    | some h => { h with dims := dims }
  let h1 := h0.updateHeader E a
  let h2 := h1.updateHeader E a
  (h2.getAffine E, h2.f)

/-! ### executable instances of the external routines on the inputs where they are exact -/

def pow2 (e : Int) : Rat := if e ≥ 0 then ((2 ^ e.toNat : Nat) : Rat) else 1 / ((2 ^ (-e).toNat : Nat) : Rat)

/-- round to nearest, ties to even, to a binary floating-point format with `p` significand bits and
    minimum normal exponent `emin` (no overflow: callers stay below the format's maximum).
    float32 = `roundBin 24 (-126)`, float64 = `roundBin 53 (-1022)`. -/
def roundBin (p : Nat) (emin : Int) (x : Rat) : Rat :=
  if x = 0 then 0 else
  let a := absR x
  -- e with 2^e ≤ a < 2^(e+1)
  let e0 : Int := (Nat.log2 a.num.natAbs : Int) - (Nat.log2 a.den : Int)
  let e : Int := if a < pow2 e0 then e0 - 1 else if a ≥ pow2 (e0 + 1) then e0 + 1 else e0
  let q : Int := (if e < emin then emin else e) - ((p : Int) - 1)
  let m := a / pow2 q
  let fl := m.floor
  let d := m - (fl : Rat)
  let r : Int := if d < 1 / 2 then fl else if d > 1 / 2 then fl + 1 else (if fl % 2 = 0 then fl else fl + 1)
  let y := (r : Rat) * pow2 q
  if x < 0 then -y else y

def roundF32 : Rat → Rat := roundBin 24 (-126)

def natSqrtExact? (n : Nat) : Option Nat :=
  let s := Nat.sqrt n
  if s * s = n then some s else none

/-- exact square root of a rational square; otherwise a rational approximation from below
    (precision 2^-80), used only where the value is not observed -/
def sqrtQ (x : Rat) : Rat :=
  if x ≤ 0 then 0 else
  match natSqrtExact? x.num.natAbs, natSqrtExact? x.den with
  | some n, some d => (n : Rat) / (d : Rat)
  | _, _ =>
    let sc : Nat := 2 ^ 160
    ((Nat.sqrt (x.num.natAbs * sc / x.den) : Nat) : Rat) / ((2 ^ 80 : Nat) : Rat)

def isExactSquare (x : Rat) : Bool :=
  x ≥ 0 && (natSqrtExact? x.num.natAbs).isSome && (natSqrtExact? x.den).isSome

/-- top eigenvector of `K = (4 v vᵀ - 1)/3` recovered from the matrix itself: `4 v vᵀ = 3K + 1`.
    Exact when the entries of `v` are rational; sign fixed by the first non-zero component. -/
def topEigQ (k : K4 Rat) : V4 Rat :=
  let d0 := (3 * k.k00 + 1) / 4
  let d1 := (3 * k.k11 + 1) / 4
  let d2 := (3 * k.k22 + 1) / 4
  let d3 := (3 * k.k33 + 1) / 4
  if d0 > 0 then
    let v0 := sqrtQ d0
    ⟨v0, 3 * k.k10 / (4 * v0), 3 * k.k20 / (4 * v0), 3 * k.k30 / (4 * v0)⟩
  else if d1 > 0 then
    let v1 := sqrtQ d1
    ⟨0, v1, 3 * k.k21 / (4 * v1), 3 * k.k31 / (4 * v1)⟩
  else if d2 > 0 then
    let v2 := sqrtQ d2
    ⟨0, 0, v2, 3 * k.k32 / (4 * v2)⟩
  else ⟨0, 0, 0, sqrtQ d3⟩

/-- `np.allclose(a, b, rtol, atol)`: `|a - b| ≤ atol + rtol * |b|` for every entry -/
def allcloseQ (rtol atol : Rat) (a b : Aff Rat) : Bool :=
  let c (x y : Rat) : Bool := decide (absR (x - y) ≤ atol + rtol * absR y)
  c a.m.a00 b.m.a00 && c a.m.a01 b.m.a01 && c a.m.a02 b.m.a02 &&
  c a.m.a10 b.m.a10 && c a.m.a11 b.m.a11 && c a.m.a12 b.m.a12 &&
  c a.m.a20 b.m.a20 && c a.m.a21 b.m.a21 && c a.m.a22 b.m.a22 &&
  c a.t.x b.t.x && c a.t.y b.t.y && c a.t.z b.t.z

/-! ## Decision skeletons regenerated from the AST (Generated/C04.lean `sk*`)

  `regen()` writes the body of `Nifti1Header.get_best_affine`, `SpatialImage.update_header`,
  `Spm99AnalyzeImage.to_file_map` / `from_file_map` of the WORKING TREE as `Sk` terms (verbatim statements).
  `Sk.toTk` reads them through `atomTable`; `evalBest` / `evalUpdate` / `evalWrite` / `evalRead` give the
  skeletons their meaning in terms of the model's own operations; Props proves that meaning equal to the
  decision functions above (`*_skeleton`), so a changed condition, branch or constant breaks a proof. -/

/-- syntactic skeleton of a Python function body, as written by `harness/props/c04.py::fn_skeleton` from the AST
    of the working tree: statements verbatim (`ast.unparse`, whitespace-normalised), `if` with the rest of the
    body appended to both branches, `try: s except X: h` as `ite "try-raises X: s" h (act s …)`. -/
inductive Sk where
  | ret (what : String)
  | raise (exc : String)
  | act (stmt : String) (k : Sk)
  | ite (cond : String) (t e : Sk)
  deriving Repr, DecidableEq, Inhabited

/-- the statements / conditions the decision models know, by meaning -/
inductive Atom where
  | none_                -- bare `return` / end of the body
  -- Nifti1Header.get_best_affine
  | hdrIsStructarr | sformCodeNe0 | qformCodeNe0 | getSform | getQform | getBaseAffine
  -- SpatialImage.update_header
  | hdrIsHeader | shapeIsDataShape | shapeDiffers | setDataShape | affineIsNone | allcloseBest | affine2header
  -- Spm99AnalyzeImage.to_file_map
  | fileMapIsNone | fileMapDefault | superToFileMap | matIsAffine | matIsNone | defaultXFlip | mIsFlipMat | mIsMat
  | from111Eye | from111Shift | mTimesFrom | matTimesFrom | withMatFile | savemat
  -- Spm99AnalyzeImage.from_file_map
  | retIsSuper | tryOpenMat | openMat | withMatf | readContents | contentsEmpty | loadmat | matInMats | matIsMatsMat
  | matNdimGt2 | warnMany | matFirstSlice | affIsMat | mInMats | hdrIsRetHeader | affIsFlipM | affIsM
  | to111Eye | to111Shift | affTimesTo | retRet | valueError
  deriving DecidableEq, Repr, Inhabited

/-- source text ↦ meaning: the ONLY place where Python text is interpreted; a statement or condition that is not
    listed here (a changed condition, a new branch, another constant) makes `Sk.toTk` fail and with it every
    `*_skeleton` theorem -/
def atomTable : List (String × Atom) :=
  [("", .none_),
   ("hdr = self._structarr", .hdrIsStructarr), ("hdr['sform_code'] != 0", .sformCodeNe0),
   ("hdr['qform_code'] != 0", .qformCodeNe0), ("self.get_sform()", .getSform), ("self.get_qform()", .getQform),
   ("self.get_base_affine()", .getBaseAffine),
   ("hdr = self._header", .hdrIsHeader), ("shape = self._dataobj.shape", .shapeIsDataShape),
   ("hdr.get_data_shape() != shape", .shapeDiffers), ("hdr.set_data_shape(shape)", .setDataShape),
   ("self._affine is None", .affineIsNone), ("np.allclose(self._affine, hdr.get_best_affine())", .allcloseBest),
   ("self._affine2header()", .affine2header),
   ("file_map is None", .fileMapIsNone), ("file_map = self.file_map", .fileMapDefault),
   ("super().to_file_map(file_map, dtype=dtype)", .superToFileMap), ("mat = self._affine", .matIsAffine),
   ("mat is None", .matIsNone), ("hdr.default_x_flip", .defaultXFlip),
   ("M = np.dot(np.diag([-1, 1, 1, 1]), mat)", .mIsFlipMat), ("M = mat", .mIsMat),
   ("from_111 = np.eye(4)", .from111Eye), ("from_111[:3, 3] = -1", .from111Shift),
   ("M = np.dot(M, from_111)", .mTimesFrom), ("mat = np.dot(mat, from_111)", .matTimesFrom),
   ("with file_map['mat'].get_prepare_fileobj(mode='wb') as mfobj", .withMatFile),
   ("sio.savemat(mfobj, {'M': M, 'mat': mat}, format='4')", .savemat),
   ("ret = super().from_file_map(file_map, mmap=mmap, keep_file_open=keep_file_open)", .retIsSuper),
   ("try-raises OSError: matf = file_map['mat'].get_prepare_fileobj()", .tryOpenMat),
   ("matf = file_map['mat'].get_prepare_fileobj()", .openMat), ("with matf", .withMatf),
   ("contents = matf.read()", .readContents), ("len(contents) == 0", .contentsEmpty),
   ("mats = sio.loadmat(BytesIO(contents))", .loadmat), ("'mat' in mats", .matInMats),
   ("mat = mats['mat']", .matIsMatsMat), ("mat.ndim > 2", .matNdimGt2),
   ("warnings.warn('More than one affine in \"mat\" matrix, using first')", .warnMany),
   ("mat = mat[:, :, 0]", .matFirstSlice), ("ret._affine = mat", .affIsMat), ("'M' in mats", .mInMats),
   ("hdr = ret._header", .hdrIsRetHeader),
   ("ret._affine = np.dot(np.diag([-1, 1, 1, 1]), mats['M'])", .affIsFlipM), ("ret._affine = mats['M']", .affIsM),
   ("to_111 = np.eye(4)", .to111Eye), ("to_111[:3, 3] = 1", .to111Shift),
   ("ret._affine = np.dot(ret._affine, to_111)", .affTimesTo), ("ret", .retRet), ("ValueError", .valueError)]

def atomOf (s : String) : Option Atom := (atomTable.find? (fun e => e.1 == s)).map (·.2)

/-- skeleton over meanings -/
inductive Tk where
  | ret (a : Atom)
  | raise (a : Atom)
  | act (a : Atom) (k : Tk)
  | ite (a : Atom) (t e : Tk)
  deriving DecidableEq, Repr, Inhabited

def Sk.toTk : Sk → Option Tk
  | .ret s => (atomOf s).map .ret
  | .raise s => (atomOf s).map .raise
  | .act s k => match atomOf s, k.toTk with
    | some a, some k => some (.act a k)
    | _, _ => none
  | .ite c t e => match atomOf c, t.toTk, e.toTk with
    | some a, some t, some e => some (.ite a t e)
    | _, _, _ => none

/-! ### meaning of the skeletons -/

/-- `Nifti1Header.get_best_affine` -/
def evalBest (E : Ext) (f : NFmt) (h : NHdr) : Tk → Option (Except Err (Aff Rat))
  | .ret .getSform => some (.ok h.getSform)
  | .ret .getQform => some (h.getQform E f)
  | .ret .getBaseAffine => some (.ok h.baseAffine)
  | .act .hdrIsStructarr k => evalBest E f h k
  | .ite .sformCodeNe0 t e => if h.sformCode ≠ 0 then evalBest E f h t else evalBest E f h e
  | .ite .qformCodeNe0 t e => if h.qformCode ≠ 0 then evalBest E f h t else evalBest E f h e
  | _ => none

/-- what `SpatialImage.update_header` needs of a header class -/
structure HdrOps (H : Type) where
  shapeDiffers : H → Bool
  setShape : H → H
  best : H → Except Err (Aff Rat)
  a2h : H → Aff Rat → H

/-- the header after `if hdr.get_data_shape() != shape: hdr.set_data_shape(shape)` -/
def HdrOps.norm {H : Type} (ops : HdrOps H) (h : H) : H := if ops.shapeDiffers h then ops.setShape h else h

/-- `SpatialImage.update_header` on a header of type `H`; `a` = `self._affine` -/
def evalUpdate {H : Type} (ops : HdrOps H) (allclose : Aff Rat → Aff Rat → Bool) (a : Option (Aff Rat)) :
    Tk → H → Option (Except Err H)
  | .ret .none_, h => some (.ok h)
  | .act .hdrIsHeader k, h => evalUpdate ops allclose a k h
  | .act .shapeIsDataShape k, h => evalUpdate ops allclose a k h
  | .act .setDataShape k, h => evalUpdate ops allclose a k (ops.setShape h)
  | .act .affine2header k, h =>
      match a with
      | some x => evalUpdate ops allclose a k (ops.a2h h x)
      | none => none
  | .ite .shapeDiffers t e, h => if ops.shapeDiffers h then evalUpdate ops allclose a t h else evalUpdate ops allclose a e h
  | .ite .affineIsNone t e, h => if a.isNone then evalUpdate ops allclose a t h else evalUpdate ops allclose a e h
  | .ite .allcloseBest t e, h =>
      match a, ops.best h with
      | some x, .ok b => if allclose x b then evalUpdate ops allclose a t h else evalUpdate ops allclose a e h
      | some _, .error er => some (.error er)
      | none, _ => none
  | _, _ => none

section spm
variable {α : Type} [Lean.Grind.CommRing α]

structure WSt (α : Type) where
  M : Aff α
  mat : Aff α
  sh : V3 α

/-- `Spm99AnalyzeImage.to_file_map` (`fmNone`: called without a file map): `none` = no `.mat` written, `some (M, mat)` = the two variables saved -/
def evalWrite (fmNone xFlip : Bool) (aff : Option (Aff α)) : Tk → WSt α → Option (Option (Aff α × Aff α))
  | .ret .none_, _ => some none
  | .act .fileMapDefault k, st => evalWrite fmNone xFlip aff k st
  | .act .superToFileMap k, st => evalWrite fmNone xFlip aff k st
  | .act .hdrIsHeader k, st => evalWrite fmNone xFlip aff k st
  | .act .from111Eye k, st => evalWrite fmNone xFlip aff k { st with sh := ⟨0, 0, 0⟩ }
  | .act .withMatFile k, st => evalWrite fmNone xFlip aff k st
  | .act .matIsAffine k, st =>
      match aff with
      | some x => evalWrite fmNone xFlip aff k { st with mat := x }
      | none => evalWrite fmNone xFlip aff k st
  | .act .mIsFlipMat k, st => evalWrite fmNone xFlip aff k { st with M := st.mat.flipX }
  | .act .mIsMat k, st => evalWrite fmNone xFlip aff k { st with M := st.mat }
  | .act .from111Shift k, st => evalWrite fmNone xFlip aff k { st with sh := ⟨-1, -1, -1⟩ }
  | .act .mTimesFrom k, st => evalWrite fmNone xFlip aff k { st with M := st.M.mulShift st.sh }
  | .act .matTimesFrom k, st => evalWrite fmNone xFlip aff k { st with mat := st.mat.mulShift st.sh }
  | .act .savemat k, st => if k = .ret .none_ then some (some (st.M, st.mat)) else none
  | .ite .fileMapIsNone t e, st =>
      if fmNone then evalWrite fmNone xFlip aff t st else evalWrite fmNone xFlip aff e st
  | .ite .matIsNone t e, st => if aff.isNone then evalWrite fmNone xFlip aff t st else evalWrite fmNone xFlip aff e st
  | .ite .defaultXFlip t e, st => if xFlip then evalWrite fmNone xFlip aff t st else evalWrite fmNone xFlip aff e st
  | _, _ => none

/-- what the `.mat` file offers the reader -/
structure MatFile (α : Type) where
  /-- opening it raises `OSError` (no such file) -/
  missing : Bool
  /-- zero bytes -/
  empty : Bool
  /-- variable 'mat' (its first slice `[:, :, 0]` when it is a 4x4xN stack) -/
  mat : Option (Aff α)
  mat3d : Bool
  /-- variable 'M' -/
  M : Option (Aff α)

structure RSt (α : Type) where
  aff : Aff α
  mat : Aff α
  sh : V3 α

/-- `Spm99AnalyzeImage.from_file_map`: the affine of the returned image -/
def evalRead (xFlip : Bool) (file : MatFile α) (hdrAff : Aff α) : Tk → RSt α → Option (Except Err (Aff α))
  | .ret .retRet, st => some (.ok st.aff)
  | .raise .valueError, _ => some (.error .value)
  | .act .retIsSuper k, st => evalRead xFlip file hdrAff k { st with aff := hdrAff }
  | .act .openMat k, st => evalRead xFlip file hdrAff k st
  | .act .withMatf k, st => evalRead xFlip file hdrAff k st
  | .act .readContents k, st => evalRead xFlip file hdrAff k st
  | .act .loadmat k, st => evalRead xFlip file hdrAff k st
  | .act .warnMany k, st => evalRead xFlip file hdrAff k st
  | .act .hdrIsRetHeader k, st => evalRead xFlip file hdrAff k st
  | .act .matFirstSlice k, st => evalRead xFlip file hdrAff k st
  | .act .matIsMatsMat k, st =>
      match file.mat with
      | some m => evalRead xFlip file hdrAff k { st with mat := m }
      | none => none
  | .act .affIsMat k, st => evalRead xFlip file hdrAff k { st with aff := st.mat }
  | .act .affIsFlipM k, st =>
      match file.M with
      | some m => evalRead xFlip file hdrAff k { st with aff := m.flipX }
      | none => none
  | .act .affIsM k, st =>
      match file.M with
      | some m => evalRead xFlip file hdrAff k { st with aff := m }
      | none => none
  | .act .to111Eye k, st => evalRead xFlip file hdrAff k { st with sh := ⟨0, 0, 0⟩ }
  | .act .to111Shift k, st => evalRead xFlip file hdrAff k { st with sh := ⟨1, 1, 1⟩ }
  | .act .affTimesTo k, st => evalRead xFlip file hdrAff k { st with aff := st.aff.mulShift st.sh }
  | .ite .tryOpenMat t e, st => if file.missing then evalRead xFlip file hdrAff t st else evalRead xFlip file hdrAff e st
  | .ite .contentsEmpty t e, st => if file.empty then evalRead xFlip file hdrAff t st else evalRead xFlip file hdrAff e st
  | .ite .matInMats t e, st => if file.mat.isSome then evalRead xFlip file hdrAff t st else evalRead xFlip file hdrAff e st
  | .ite .matNdimGt2 t e, st => if file.mat3d then evalRead xFlip file hdrAff t st else evalRead xFlip file hdrAff e st
  | .ite .mInMats t e, st => if file.M.isSome then evalRead xFlip file hdrAff t st else evalRead xFlip file hdrAff e st
  | .ite .defaultXFlip t e, st => if xFlip then evalRead xFlip file hdrAff t st else evalRead xFlip file hdrAff e st
  | _, _ => none

/-- the `.mat` file of a `MatMode`, holding the pair `(M, mat)` the writer stored -/
def MatMode.file (mode : MatMode) (stored : Aff α × Aff α) : MatFile α :=
  match mode with
  | .both => ⟨false, false, some stored.2, false, some stored.1⟩
  | .mOnly => ⟨false, false, Option.none, false, some stored.1⟩
  | .none => ⟨false, true, Option.none, false, Option.none⟩
  | .matOnly => ⟨false, false, some stored.2, false, Option.none⟩
  | .mat3d => ⟨false, false, some stored.2, true, some stored.1⟩

end spm

/-! ### the skeletons the models are written for (over meanings) -/

def tkBestAffine : Tk :=
  .act .hdrIsStructarr (.ite .sformCodeNe0 (.ret .getSform) (.ite .qformCodeNe0 (.ret .getQform) (.ret .getBaseAffine)))

def tkUpdateTail : Tk :=
  .ite .affineIsNone (.ret .none_) (.ite .allcloseBest (.ret .none_) (.act .affine2header (.ret .none_)))
def tkUpdateHeader : Tk :=
  .act .hdrIsHeader (.act .shapeIsDataShape (.ite .shapeDiffers (.act .setDataShape tkUpdateTail) tkUpdateTail))

def tkWriteTail : Tk :=
  .act .from111Eye (.act .from111Shift (.act .mTimesFrom (.act .matTimesFrom (.act .withMatFile
    (.act .savemat (.ret .none_))))))
def tkWriteBody : Tk :=
  .act .superToFileMap (.act .matIsAffine (.ite .matIsNone (.ret .none_) (.act .hdrIsHeader
    (.ite .defaultXFlip (.act .mIsFlipMat tkWriteTail) (.act .mIsMat tkWriteTail)))))
def tkSpmWrite : Tk := .ite .fileMapIsNone (.act .fileMapDefault tkWriteBody) tkWriteBody

def tkReadTail : Tk := .act .to111Eye (.act .to111Shift (.act .affTimesTo (.ret .retRet)))
def tkSpmRead : Tk :=
  .act .retIsSuper (.ite .tryOpenMat (.ret .retRet) (.act .openMat (.act .withMatf (.act .readContents
    (.ite .contentsEmpty (.ret .retRet) (.act .loadmat
      (.ite .matInMats
        (.act .matIsMatsMat (.ite .matNdimGt2 (.act .warnMany (.act .matFirstSlice (.act .affIsMat tkReadTail)))
          (.act .affIsMat tkReadTail)))
        (.ite .mInMats (.act .hdrIsRetHeader (.ite .defaultXFlip (.act .affIsFlipM tkReadTail) (.act .affIsM tkReadTail)))
          (.raise .valueError)))))))))


end Nb.C04
